import BufProofs.Props.C17
import BufProofs.Props.C17Archive
import BufProofs.Props.C17Presence
#print axioms BufProofs.C17.targets_exactly_once
#print axioms BufProofs.C17.imports_once_when_requested
#print axioms BufProofs.C17.imports_never_otherwise
#print axioms BufProofs.C17.generated_at_most_once
#print axioms BufProofs.C17.request_closed_and_ordered
#print axioms BufProofs.C17.imports_reachable_once
#print axioms BufProofs.C17.built_image_ordered
#print axioms BufProofs.C17.built_request_closed_and_ordered
#print axioms BufProofs.C17.source_retention_only_runtime_view
#print axioms BufProofs.C17.strategy_all_single_request
#print axioms BufProofs.C17.writes_under_out
#print axioms BufProofs.C17.insertion_same_run_only
#print axioms BufProofs.C17.insertion_needs_target
#print axioms BufProofs.C17.duplicate_output_is_error
#print axioms BufProofs.C17.duplicate_alias_counterexample
#print axioms BufProofs.C17.archive_model_conservative
#print axioms BufProofs.C17.archive_writes_in_own_output
#print axioms BufProofs.C17.duplicate_in_archive_is_error
#print axioms BufProofs.C17.present_empty_insertion_point_is_not_an_insertion
#print axioms BufProofs.C17.present_empty_insertion_point_duplicate_is_error
#print axioms BufProofs.C17.present_empty_insertion_point_duplicate_same_plugin
#print axioms BufProofs.C17.presence_invisible_to_writer
#print axioms BufProofs.C17.present_empty_error_is_no_error
#print axioms BufProofs.C17.nameless_file_continues_previous
#print axioms BufProofs.C17.malformed_response_fails
#print axioms BufProofs.C17.normalized_files_named_and_distinct
#print axioms BufProofs.C17.presence_invisible_to_generate
#print axioms BufProofs.C17.generate_duplicate_output_is_error
#print axioms BufProofs.C17.failed_plugin_fails_generation
