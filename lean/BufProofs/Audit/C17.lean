import BufProofs.Props.C17
import BufProofs.Props.C17Archive
#print axioms BufProofs.C17.targets_exactly_once
#print axioms BufProofs.C17.imports_once_when_requested
#print axioms BufProofs.C17.imports_never_otherwise
#print axioms BufProofs.C17.generated_at_most_once
#print axioms BufProofs.C17.request_closed_and_ordered
#print axioms BufProofs.C17.imports_reachable_once
#print axioms BufProofs.C17.built_image_ordered
#print axioms BufProofs.C17.built_request_closed_and_ordered
#print axioms BufProofs.C17.source_retention_only_runtime_view
#print axioms BufProofs.C17.strategy_all_single_request
#print axioms BufProofs.C17.writes_under_out
#print axioms BufProofs.C17.insertion_same_run_only
#print axioms BufProofs.C17.insertion_needs_target
#print axioms BufProofs.C17.duplicate_output_is_error
#print axioms BufProofs.C17.duplicate_alias_counterexample
#print axioms BufProofs.C17.archive_model_conservative
#print axioms BufProofs.C17.archive_writes_in_own_output
#print axioms BufProofs.C17.duplicate_in_archive_is_error
