import BufProofs.Props.C16
import BufProofs.Props.C16Migrate
import BufProofs.Props.C16MigrateTables
import BufProofs.Props.C16MigrateWitness
import BufProofs.Props.C16MigrateWitnessIo
#print axioms BufProofs.C16.check_roundtrip
#print axioms BufProofs.C16.yaml_roundtrip
#print axioms BufProofs.C16.write_idempotent
#print axioms BufProofs.C16.yaml_roundtrip_v2_wf
#print axioms BufProofs.C16.read_range_wf
#print axioms BufProofs.C16.yaml_roundtrip_strings
#print axioms BufProofs.C16.written_path_reads_back
#print axioms BufProofs.C16.accepted_path_is_proper
#print axioms BufProofs.C16.yaml_roundtrip_v1
#print axioms BufProofs.C16.write_idempotent_v1
#print axioms BufProofs.C16.yaml_roundtrip_v1_checks_partial
#print axioms BufProofs.C16.work_roundtrip
#print axioms BufProofs.C16.work_roundtrip_strings
#print axioms BufProofs.C16.lock_roundtrip
#print axioms BufProofs.C16.work_write_idempotent
#print axioms BufProofs.C16.lock_write_idempotent
#print axioms BufProofs.C16.rebase_inverse
#print axioms BufProofs.C16.rebase_inverse_keys
#print axioms BufProofs.C16.migrate_owners_exact
#print axioms BufProofs.C16.migrate_preserves_targets_partial
#print axioms BufProofs.C16.migrate_keeps_disabled
#print axioms BufProofs.C16.migrate_reenables_disabled_counterexample
#print axioms BufProofs.C16.migrate_roots_assumption_holds
#print axioms BufProofs.C16.migrate_no_foreign_files
#print axioms BufProofs.C16.gen_reread_eq_normalise
#print axioms BufProofs.C16.gen_normalise_idempotent
#print axioms BufProofs.C16.gen_second_roundtrip
#print axioms BufProofs.C16.gen_roundtrip_iff
#print axioms BufProofs.C16.gen_roundtrip_partial
#print axioms BufProofs.C16.gen_roundtrip_v2_iff
#print axioms BufProofs.C16.gen_roundtrip_v1_iff
#print axioms BufProofs.C16.gen_roundtrip_v1beta1_iff
#print axioms BufProofs.C16.gen_write_idempotent
#print axioms BufProofs.C16.gen_not_roundtrip_counterexample
#print axioms BufProofs.C16.includes_dropped_counterexample
#print axioms BufProofs.C16.disabled_dropped_counterexample
#print axioms BufProofs.C16.disabled_dropped_v1_counterexample
#print axioms BufProofs.C16.migrate_preserves_selected_rules
#print axioms BufProofs.C16.migrate_preserves_selected_rules_exactly
#print axioms BufProofs.C16.migrate_preserves_ignore_only
#print axioms BufProofs.C16.migrate_ignore_only_order_independent
#print axioms BufProofs.C16.migrate_variant_as_coded
#print axioms BufProofs.C16.migrate_fixed_preserves_selected_rules
#print axioms BufProofs.C16.rules_without_v2_counterpart
#print axioms BufProofs.C16.unfaithful_keys_are_drifting_categories
#print axioms BufProofs.C16.tables_ids_unique
#print axioms BufProofs.C16.migrate_except_category_counterexample
#print axioms BufProofs.C16.migrate_ignore_only_category_counterexample
#print axioms BufProofs.C16.migrate_ignore_only_collision_counterexample
