import BufProofs.Props.C10
#print axioms BufProofs.C10.selectIgnoreTargeting_local
#print axioms BufProofs.C10.selectIgnoreTargeting_mem
#print axioms BufProofs.C10.target_over_nontarget
#print axioms BufProofs.C10.local_over_remote
#print axioms BufProofs.C10.scan_ok_imports
#print axioms BufProofs.C10.moduleDeps_ok_scan
#print axioms BufProofs.C10.dup_path_error
#print axioms BufProofs.C10.import_not_exist_error
#print axioms BufProofs.C10.no_proto_files_error
#print axioms BufProofs.C10.lsfiles_closure_exact
#print axioms BufProofs.C10.lsfiles_eq_build
#print axioms BufProofs.C10.commit_tie_old_counterexample
