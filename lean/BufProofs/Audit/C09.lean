import BufProofs.Props.C09
#print axioms BufProofs.C09.served_content_matches_key
#print axioms BufProofs.C09.served_content_matches_key_tar
#print axioms BufProofs.C09.corrupt_tar_is_miss_and_removed
#print axioms BufProofs.C09.init_inv
#print axioms BufProofs.C09.marker_implies_complete
#print axioms BufProofs.C09.writers_exclusive
#print axioms BufProofs.C09.complete_is_stable
#print axioms BufProofs.C09.failed_store_not_complete
#print axioms BufProofs.C09.later_store_repairs
#print axioms BufProofs.C09.store_success_then_hit
#print axioms BufProofs.C09.provider_never_returns_missing
