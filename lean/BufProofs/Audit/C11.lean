import BufProofs.Props.C11
#print axioms BufProofs.C11.targeting_equivalence
#print axioms BufProofs.C11.targeting_equivalence_all_targeted
#print axioms BufProofs.C11.isKey_k
#print axioms BufProofs.C11.targeting_divergence_example
#print axioms BufProofs.C11.targeting_order_counterexample
#print axioms BufProofs.C11.prefix_free_needed_example
#print axioms BufProofs.C11.import_hit_needed_example
#print axioms BufProofs.C11.protoImage_roundtrip
#print axioms BufProofs.C11.protoImage_roundtrip_exact
#print axioms BufProofs.C11.strip_removes_exactly_8042
#print axioms BufProofs.C11.strip_identity_on_malformed
#print axioms BufProofs.C11.strip_idempotent_partial
#print axioms BufProofs.C11.strip_result_has_no_8042
#print axioms BufProofs.C11.encodings_roundtrip_partial
