import BufProofs.Props.C19
#print axioms BufProofs.C19.no_leak
#print axioms BufProofs.C19.no_cross_host
#print axioms BufProofs.C19.single_token_all_hosts
#print axioms BufProofs.C19.accepted_shape
#print axioms BufProofs.C19.malformed_rejected
#print axioms BufProofs.C19.wellformed_accepted
#print axioms BufProofs.C19.repeated_host_rejected
#print axioms BufProofs.C19.first_source_wins
#print axioms BufProofs.C19.no_source_no_header
#print axioms BufProofs.C19.header_has_source
#print axioms BufProofs.C19.netrc_exact_or_default
#print axioms BufProofs.C19.netrc_plain_exact_or_default
#print axioms BufProofs.C19.netrc_keyword_value_counterexample
#print axioms BufProofs.C19.header_only_if_configured
#print axioms BufProofs.C19.token_flag_only_if_configured
#print axioms BufProofs.C19.malformed_no_request
