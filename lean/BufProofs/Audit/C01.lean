import BufProofs.Props.C01
#print axioms BufProofs.C01.image_nodup
#print axioms BufProofs.C01.image_closed
#print axioms BufProofs.C01.image_minimal
#print axioms BufProofs.C01.image_topological
#print axioms BufProofs.C01.dfs_order_topological_of_acyclic
#print axioms BufProofs.C01.image_flags
#print axioms BufProofs.C01.targets_exact
#print axioms BufProofs.C01.sort_canonical
#print axioms BufProofs.C01.dup_path_rejected
#print axioms BufProofs.C01.annotation_position_partial
