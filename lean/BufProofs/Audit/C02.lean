import BufProofs.Props.C02
#print axioms BufProofs.C02.parallelize_verdict_schedule_irrelevant
#print axioms BufProofs.C02.any_fails_zip
#print axioms BufProofs.C02.parallelize_verdict_same_for_all_schedules
#print axioms BufProofs.C02.collect_then_sort_schedule_irrelevant
#print axioms BufProofs.C02.copy_verdict_schedule_irrelevant
#print axioms BufProofs.C02.walk_is_a_function_of_the_map
