import BufProofs.Props.C15
#print axioms BufProofs.C15.facts_hold
#print axioms BufProofs.C15.writeObj_ok
#print axioms BufProofs.C15.fault_implies_error_put
#print axioms BufProofs.C15.fault_implies_error_close
#print axioms BufProofs.C15.fault_implies_error_write
#print axioms BufProofs.C15.copyAll_verdict_schedule_independent
#print axioms BufProofs.C15.copyAll_ok
#print axioms BufProofs.C15.untarAll_ok
#print axioms BufProofs.C15.copyPath_counterexample
#print axioms BufProofs.C15.flush_reports_any_failure
#print axioms BufProofs.C15.atomic_success
#print axioms BufProofs.C15.atomic_failed_leaves_old
#print axioms BufProofs.C15.atomic_prefix_old_or_new
#print axioms BufProofs.C15.nonatomic_may_truncate
