import BufProofs.Props.C04
#print axioms BufProofs.C04.self_clean
#print axioms BufProofs.C04.additive_clean
#print axioms BufProofs.C04.additive_refl
#print axioms BufProofs.C04.additive_trans
#print axioms BufProofs.C04.cosmetic_relocate
#print axioms BufProofs.C04.cosmetic_clean
#print axioms BufProofs.C04.chain_all
#print axioms BufProofs.C04.additive_chain_pairwise
#print axioms BufProofs.C04.additive_chain_clean
#print axioms BufProofs.C04.kind_groups_refine
#print axioms BufProofs.C04.card_groups_refine
#print axioms BufProofs.C04.kind_refine
#print axioms BufProofs.C04.card_refine
#print axioms BufProofs.C04.implies_sound
#print axioms BufProofs.C04.tables_ordered
#print axioms BufProofs.C04.step
#print axioms BufProofs.C04.hierarchy
