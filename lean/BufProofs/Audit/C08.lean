import BufProofs.Props.C08
#print axioms BufProofs.C08.consts_match_model
#print axioms BufProofs.C08.manifest_roundtrip
#print axioms BufProofs.C08.manifestString_injective
#print axioms BufProofs.C08.digest_is_function_of_module_files
#print axioms BufProofs.C08.digest_walk_order
#print axioms BufProofs.C08.digest_ignores_non_module_files
#print axioms BufProofs.C08.digest_perm_deps
#print axioms BufProofs.C08.digest_sensitive
#print axioms BufProofs.C08.digest_changes
#print axioms BufProofs.C08.moduleDigest_fuel
#print axioms BufProofs.C08.moduleDigest_congr
#print axioms BufProofs.C08.b4_is_function_of_module_files
#print axioms BufProofs.C08.roundtrip_old_counterexample
#print axioms BufProofs.C08.roundtrip_newline_counterexample
#print axioms BufProofs.C08.newline_collision_counterexample
