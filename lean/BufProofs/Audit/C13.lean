import BufProofs.Props.C13
#print axioms BufProofs.C13.reduce_shape
#print axioms BufProofs.C13.validate_sound
#print axioms BufProofs.C13.validate_old_counterexample
