import BufProofs.Props.C13
#print axioms BufProofs.C13.reduce_shape
#print axioms BufProofs.C13.validate_sound
#print axioms BufProofs.C13.join_under_root
#print axioms BufProofs.C13.contains_iff_prefix
#print axioms BufProofs.C13.view_frame_put
#print axioms BufProofs.C13.view_frame_put_outside
#print axioms BufProofs.C13.view_frame_delete
#print axioms BufProofs.C13.view_frame_deleteAll
#print axioms BufProofs.C13.view_frame_deleteAll_outside
#print axioms BufProofs.C13.view_frame_get
#print axioms BufProofs.C13.view_frame_walk
#print axioms BufProofs.C13.escape_rejected
#print axioms BufProofs.C13.rejected_iff
#print axioms BufProofs.C13.archive_entry_contained
#print axioms BufProofs.C13.invariant_preserved_put
#print axioms BufProofs.C13.validate_old_counterexample
