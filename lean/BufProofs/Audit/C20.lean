import BufProofs.Props.C20
#print axioms BufProofs.C20.exit_zero_iff_nothing
#print axioms BufProofs.C20.exit_100_iff_user_sources
#print axioms BufProofs.C20.exit_other_iff_operational
#print axioms BufProofs.C20.dedup_only_equal
#print axioms BufProofs.C20.dedup_drops_only_duplicates
#print axioms BufProofs.C20.dedup_collision_counterexample
#print axioms BufProofs.C20.dedupSort_perm
#print axioms BufProofs.C20.sort_total_on_distinct
#print axioms BufProofs.C20.formats_agree
#print axioms BufProofs.C20.text_in_order
#print axioms BufProofs.C20.line_formats_wellformed
#print axioms BufProofs.C20.formats_carry_same_fields
#print axioms BufProofs.C20.gha_fields_roundtrip
#print axioms BufProofs.C20.gha_newline_counterexample
