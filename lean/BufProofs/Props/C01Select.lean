import BufModel.WorkspaceTargeting
import BufModel.ImagePaths
import BufProofs.Lemmas.TargetCharLemmas
/-
  C01, the "every choice of target modules and paths" clause at WORKSPACE level: how one
  `buf build <input> --path … --exclude-path …` is distributed over the modules of a workspace
  (BufModel.WorkspaceTargeting = validateBucketTargeting + newModuleTargeting + the guard of
  AddLocalModule), and which files that selects.  The harness sends every workspace-level
  selection of sections E-disk / F through this model (`wst` protocol line).

  * `selection_never_system_error`      whatever the flags are, what newModuleTargeting hands to
                                        AddLocalModule passes its guard: a selection is accepted
                                        or rejected as a user error, never as a system error
  * `untargeted_module_ignores_excludes` a module that receives no --path (while some were given)
                                        is not targeted and gets NO exclude paths, whatever
                                        --exclude-path values lie in it
  * `selection_targets_some_module`     an accepted selection targets at least one module
  * `module_selection_exact`            file level: in a targeted module, a file is a target iff
                                        (no --path at all ∨ some --path value strictly below the
                                        module root equals-or-contains it, component-wise) ∧ no
                                        --exclude-path value strictly below the root does
  * `collect_excludes_always_counterexample`  the shape of seed C01-m10 (exclude paths collected for
                                        every module of the input) breaks the first theorem
  * `path_extension_irrelevant`         a --path value selects everything it equals or contains,
                                        whatever its name looks like (a directory `v1.proto`)
  * `stat_fast_path_counterexample`     the shape of seed C01-m9 (a value ending in `.proto` is
                                        looked up as ONE file) loses the files below such a directory
-/
namespace BufProofs.C01
open BufModel.Path BufModel.Graph BufModel.Targeting BufModel.WorkspaceTargeting

/-- per module: the result of `newModuleTargeting` passes the guard of AddLocalModule. -/
theorem module_targeting_guard (d : Str) (t : Bool) (ps es : List Str) (mt : MT)
    (h : moduleTargeting d t ps es = .ok mt) : addLocalOk mt = true := by
  unfold moduleTargeting at h
  dsimp only at h
  split at h
  · cases h; rfl
  · split at h
    · cases h
    · split at h
      · cases h; rfl
      · split at h
        · cases h
        · cases h; rfl

theorem allModules_guard (input : Str) (ps es : List Str) :
    ∀ (dirs : List Str) (mts : List MT), allModules input ps es dirs = .ok mts →
      mts.all addLocalOk = true := by
  intro dirs
  induction dirs with
  | nil => intro mts h; simp [allModules] at h; cases h; rfl
  | cons d ds ih =>
    intro mts h
    unfold allModules at h
    split at h
    · cases h
    · rename_i mt hmt
      split at h
      · cases h
      · rename_i rest hrest
        cases h
        simp only [List.all_cons, Bool.and_eq_true]
        exact ⟨module_targeting_guard _ _ _ _ _ hmt, ih rest hrest⟩

/-- **No system error.**  For every input directory, every list of `--path` and
    `--exclude-path` values and every list of module directories: if the workspace layer
    accepts the selection, each AddLocalModule call passes the guard "cannot set TargetPaths for
    a non-target Module" — `addAll` succeeds.  (Seed C01-m10 broke exactly this.) -/
theorem selection_never_system_error (input : Str) (ps es dirs : List Str) (mts : List MT)
    (h : workspaceTargeting input ps es dirs = .ok mts) : addAll mts = .ok mts := by
  unfold workspaceTargeting at h
  split at h
  · cases h
  · split at h
    · cases h
    · rename_i ms hms
      split at h
      · cases h
      · split at h
        · cases h
        · cases h
          unfold addAll
          rw [allModules_guard input ps es dirs mts hms]
          rfl

/-- **An `--exclude-path` into a module that is not targeted has no effect.**  If `--path`
    values were given and none of them lies strictly below the module root `d` (and none names
    the root itself), the module is not targeted and receives neither paths nor exclude paths —
    for EVERY list of exclude values, also those lying inside `d` or equal to `d`. -/
theorem untargeted_module_ignores_excludes (d : Str) (t : Bool) (ps es : List Str)
    (hps : ps ≠ []) (hroot : d ∉ ps) (hnone : ∀ p ∈ ps, containsPath d p = false) :
    moduleTargeting d t ps es = .ok {} := by
  unfold moduleTargeting
  dsimp only
  cases t
  · simp
  · have hf : ps.filter (containsPath d) = [] := by
      apply List.filter_eq_nil_iff.mpr
      intro p hp; simp [hnone p hp]
    have he : ps.isEmpty = false := by cases ps with | nil => exact absurd rfl hps | cons _ _ => rfl
    simp [hroot, hf, he]

theorem mem_allModules_target (input : Str) (ps es : List Str) :
    ∀ (dirs : List Str) (mts : List MT), allModules input ps es dirs = .ok mts →
      mts.length = dirs.length := by
  intro dirs
  induction dirs with
  | nil => intro mts h; simp [allModules] at h; cases h; rfl
  | cons d ds ih =>
    intro mts h
    unfold allModules at h
    split at h
    · cases h
    · split at h
      · cases h
      · rename_i rest hrest
        cases h
        simp [ih rest hrest]

/-- an accepted selection targets at least one module (and yields one entry per module). -/
theorem selection_targets_some_module (input : Str) (ps es dirs : List Str) (mts : List MT)
    (h : workspaceTargeting input ps es dirs = .ok mts) :
    mts.length = dirs.length ∧ ∃ mt ∈ mts, mt.isTarget = true := by
  unfold workspaceTargeting at h
  split at h
  · cases h
  · split at h
    · cases h
    · rename_i ms hms
      split at h
      · cases h
      · split at h
        · cases h
        · rename_i hany
          cases h
          refine ⟨mem_allModules_target input ps es dirs mts hms, ?_⟩
          have : mts.any (·.isTarget) = true := by
            cases hh : mts.any (·.isTarget) with
            | true => rfl
            | false => simp [hh] at hany
          obtain ⟨mt, hm, ht⟩ := List.any_eq_true.mp this
          exact ⟨mt, hm, ht⟩

theorem mem_below (d : Str) (vs : List Str) (q : Str) :
    q ∈ below d vs ↔ ∃ v ∈ vs, containsPath d v = true ∧ rel d v = some q := by
  unfold below
  simp only [List.mem_filterMap, List.mem_filter]
  constructor
  · rintro ⟨v, ⟨hv, hc⟩, hr⟩; exact ⟨v, hv, hc, hr⟩
  · rintro ⟨v, hv, hc, hr⟩; exact ⟨v, ⟨hv, hc⟩, hr⟩

/-- **Which files a selection targets, per module.**  Let `newModuleTargeting` accept the values
    for the module at `d` and target it, and let every `--path` value strictly below `d` have a
    path relative to `d` (always so for normalized relative paths).  Then a .proto file `f` of the
    module is a target file iff
      (no `--path` was given ∨ some `--path` value strictly below `d`, taken relative to `d`,
       equals or contains `f` component-wise)
      ∧ no `--exclude-path` value strictly below `d`, taken relative to `d`, equals or contains `f`.
    Values outside `d` — in another module, above several modules, missing — play no role. -/
theorem module_selection_exact (d : Str) (ps es : List Str) (mt : MT) (files : List PFile) (f : PFile)
    (h : moduleTargeting d true ps es = .ok mt) (ht : mt.isTarget = true)
    (hrel : ∀ p ∈ ps, containsPath d p = true → (rel d p).isSome = true) :
    isTargetFile true (toCfg mt) files f = true ↔
      (ps = [] ∨ ∃ p ∈ ps, containsPath d p = true ∧ ∃ q, rel d p = some q ∧ equalsOrContainsPath q f.path = true) ∧
      (∀ e ∈ es, containsPath d e = true → ∀ q, rel d e = some q → equalsOrContainsPath q f.path = false) := by
  unfold moduleTargeting at h
  dsimp only at h
  simp only [Bool.not_true, Bool.false_eq_true, ↓reduceIte] at h
  split at h
  · cases h
  · split at h
    · cases h; cases ht
    · rename_i hisT
      split at h
      · cases h
      · cases h
        rw [isTargetFile_paths_iff true _ files f (by rfl)]
        simp only [toCfg, true_and]
        constructor
        · rintro ⟨hp, he⟩
          refine ⟨?_, ?_⟩
          · rcases hp with hp | ⟨q, hq, hc⟩
            · -- no relative path at all: either no --path, or (excluded by hrel) none relativizable
              by_cases hps : ps = []
              · exact Or.inl hps
              · exfalso
                have hne : (ps.filter (containsPath d)) ≠ [] := by
                  intro hnil
                  have : ps.isEmpty = false := by
                    cases ps with | nil => exact absurd rfl hps | cons _ _ => rfl
                  simp [this, hnil] at hisT
                obtain ⟨p, hpm⟩ := List.exists_mem_of_ne_nil _ hne
                have hpp := List.mem_filter.mp hpm
                have hsome := hrel p hpp.1 hpp.2
                obtain ⟨q, hq⟩ := Option.isSome_iff_exists.mp hsome
                have : q ∈ below d ps := (mem_below d ps q).mpr ⟨p, hpp.1, hpp.2, hq⟩
                rw [hp] at this
                cases this
            · obtain ⟨p, hp1, hp2, hp3⟩ := (mem_below d ps q).mp hq
              exact Or.inr ⟨p, hp1, hp2, q, hp3, hc⟩
          · intro e hem hce q hq
            exact he q ((mem_below d es q).mpr ⟨e, hem, hce, hq⟩)
        · rintro ⟨hp, he⟩
          refine ⟨?_, ?_⟩
          · rcases hp with hp | ⟨p, hp1, hp2, q, hq, hc⟩
            · left; subst hp; rfl
            · exact Or.inr ⟨q, (mem_below d ps q).mpr ⟨p, hp1, hp2, hq⟩, hc⟩
          · intro q hq
            obtain ⟨e, he1, he2, he3⟩ := (mem_below d es q).mp hq
            exact he e he1 he2 q he3

/-! ### non-vacuity and the two seeded shapes -/

private def s (x : String) : Str := x.toList

/-- `buf build --path proto/a/pa --exclude-path proto/b/pb2` over modules proto/a, proto/b:
    accepted, proto/b is not targeted and receives nothing. -/
example :
    workspaceTargeting (s ".") [s "proto/a/pa"] [s "proto/b/pb2"] [s "proto/a", s "proto/b"] =
      .ok [{ isTarget := true, paths := [s "pa"], excludes := [] }, {}] := by decide

example : workspaceTargeting (s ".") [s "proto/a/pa"] [s "proto/a"] [s "proto/a", s "proto/b"] = .error .user := by
  decide

example : workspaceTargeting (s ".") [s "proto"] [] [s "proto/a", s "proto/b"] = .error .noTargets := by decide

/-- the workspace loop with `moduleTargetingAlways` (seed C01-m10) in place of `moduleTargeting`. -/
def allModulesAlways (input : Str) (ps es : List Str) : List Str → Except WErr (List MT)
  | [] => .ok []
  | d :: ds =>
    match moduleTargetingAlways d (equalsOrContainsPath input d) ps es with
    | .error e => .error e
    | .ok mt => match allModulesAlways input ps es ds with
      | .error e => .error e
      | .ok mts => .ok (mt :: mts)

/-- Collecting the exclude paths for every module of the input (not only for the targeted ones)
    makes a valid selection end in the system error of AddLocalModule. -/
theorem collect_excludes_always_counterexample :
    ∃ mts, allModulesAlways (s ".") [s "proto/a/pa"] [s "proto/b/pb2"] [s "proto/a", s "proto/b"] = .ok mts ∧
      addAll mts = .error .sys := by
  refine ⟨[{ isTarget := true, paths := [s "pa"], excludes := [] }, { isTarget := false, paths := [], excludes := [s "pb2"] }], ?_, ?_⟩ <;> decide

/-- **A `--path` value is a path, not a file name.**  Whatever the value looks like — `a/v1.proto`
    may well be a directory — every file it equals or contains (component-wise) that no exclude
    path covers is a target file of a targeted module. -/
theorem path_extension_irrelevant (t : TWS) (m : Nat) (f : PFile) (q : Str)
    (hpf : (cfgOf t m).protoFile = []) (hm : modIsTarget t m = true) (hq : q ∈ (cfgOf t m).paths)
    (hc : equalsOrContainsPath q f.path = true)
    (he : ∀ e ∈ (cfgOf t m).excludes, equalsOrContainsPath e f.path = false) :
    isTargetIn t m f = true :=
  (isTargetFile_paths_iff _ _ _ f hpf).mpr ⟨hm, Or.inr ⟨q, hq, hc⟩, he⟩

/-- one module: a directory `a/v1.proto` with two files, and `b/b.proto`; `--path a/v1.proto`. -/
def exWsDotProto : TWS :=
  { ws := { mods := [{ files := [{ path := s "a/v1.proto/x.proto", imports := [] }, { path := s "a/v1.proto/y.proto", imports := [] },
                                  { path := s "b/b.proto", imports := [] }],
                       isTarget := true, isLocal := true, commit := 0, name := none }], wkt := [] },
    cfgs := [{ paths := [s "a/v1.proto"] }] }

theorem exWsDotProto_targets :
    targetList exWsDotProto = .ok [s "a/v1.proto/x.proto", s "a/v1.proto/y.proto"] := by decide

/-- the walk of seed C01-m9: a target path with extension `.proto` is looked up as one file. -/
def moduleTargetFilesStat (t : TWS) (m : Nat) : List PFile :=
  let cfg := cfgOf t m
  let files := modFiles t.ws m
  (cfg.paths.flatMap (fun tp =>
    if BufModel.ImagePaths.ext tp = BufModel.ImagePaths.protoExt then files.filter (fun f => f.path = tp)
    else files.filter (fun f => equalsOrContainsPath tp f.path))).filter (isTargetIn t m)

/-- … and it finds nothing below the directory `a/v1.proto`, although both files are target files. -/
theorem stat_fast_path_counterexample :
    moduleTargetFilesStat exWsDotProto 0 = [] ∧
    (moduleTargetFiles exWsDotProto 0).1.map (·.path) = [s "a/v1.proto/x.proto", s "a/v1.proto/y.proto"] := by
  constructor <;> decide

end BufProofs.C01
