import BufProofs.Lemmas.GenerateLemmas
/-
  C17 — Each file is generated exactly once and plugin output stays in its directory.
  Property theorems only; helper lemmas live in BufProofs/Lemmas/GenerateLemmas.lean.

  `pluginRequests img cfg` are the CodeGeneratorRequests one local plugin receives
  (strategy all: the image itself; strategy directory: `ImageByDir`), `allGenerated` the
  concatenation of their `file_to_generate` lists.  Images are assumed to have pairwise
  distinct paths (`NewImage` rejects anything else).  Theorems about the ORDER of a request
  assume the input image is `Ordered` (the documented contract of `bufimage.Image`);
  `built_image_ordered` proves it for every image the build (C01's model) produces.
-/
namespace BufProofs.C17
open BufModel.Path BufModel.Bucket BufModel.Generate

/-- Every non-import file of the image is generated exactly once over all requests sent to a
    plugin — for every image, both strategies, every include_imports / include_wkt setting. -/
theorem targets_exactly_once (img : Image) (cfg : PluginCfg) (hn : (paths img).Nodup)
    (f : File) (hf : f ∈ img) (hni : f.isImport = false) :
    (allGenerated (pluginRequests img cfg)).count f.path = 1 := by
  unfold pluginRequests imagesToRequests
  cases hs : cfg.strategyAll
  · -- strategy directory
    simp only [Bool.false_eq_true, if_false]
    have hsum : ((imageByDir img).map fun i => i.countP (fun x => x.path = f.path && !x.isImport)).sum = 1 := by
      unfold imageByDir
      rw [List.map_map]
      apply sum_indicator (dirsOf img) (dir f.path) _ (nodup_dirsOf img)
        (mem_dirsOf.mpr ⟨f, hf, hni, rfl⟩)
      intro d _
      exact sub_countP_target img f hf hni d
    have hmem : f.path ∈ allNonImportPaths (imageByDir img) := by
      -- some sub-image holds it as a non-import, otherwise the sum above would be 0
      apply Classical.byContradiction
      intro hnot
      have hz : ((imageByDir img).map fun i => i.countP (fun x => x.path = f.path && !x.isImport)).sum = 0 := by
        apply sum_map_zero
        intro i hi
        rw [List.countP_eq_zero]
        intro x hx hP
        simp only [Bool.and_eq_true, decide_eq_true_eq, Bool.not_eq_true'] at hP
        apply hnot
        unfold allNonImportPaths
        rw [List.mem_flatMap]
        exact ⟨i, hi, List.mem_map.mpr ⟨x, mem_nonImports.mpr ⟨hx, hP.2⟩, hP.1⟩⟩
      omega
    rw [reqs_count_nonImp _ _ _ _ hmem, hsum]
  · -- strategy all
    simp only [if_true]
    have hmem : f.path ∈ allNonImportPaths [img] := by
      unfold allNonImportPaths
      simp only [List.flatMap_cons, List.flatMap_nil, List.append_nil]
      exact List.mem_map.mpr ⟨f, mem_nonImports.mpr ⟨hf, hni⟩, rfl⟩
    rw [reqs_count_nonImp _ _ _ _ hmem]
    simp only [List.map_cons, List.map_nil, List.sum_cons, List.sum_nil, Nat.add_zero]
    apply countP_eq_one_of_unique _ _ (nodup_of_nodup_paths hn) f hf
    intro x hx
    constructor
    · intro hP
      simp only [Bool.and_eq_true, decide_eq_true_eq] at hP
      exact eq_of_mem_nodup_paths hn hx hf hP.1
    · intro e; subst e; simp [hni]

/-- With include_imports, an import of the image that some request carries (and that is not a
    well-known type unless include_wkt) is generated exactly once over all requests.
    (`imports_reachable_once` below replaces "some request carries it" by "a target depends on
    it, transitively" for ordered images.) -/
theorem imports_once_when_requested (img : Image) (cfg : PluginCfg) (hn : (paths img).Nodup)
    (g : File) (hg : g ∈ img) (hi : g.isImport = true)
    (hii : cfg.includeImports = true) (hw : g.isWKT = false ∨ cfg.includeWKT = true)
    (hreq : ∃ r ∈ pluginRequests img cfg, g.path ∈ r.protoFiles.map (·.1.path)) :
    (allGenerated (pluginRequests img cfg)).count g.path = 1 := by
  rw [import_generated_count img cfg hn g hg hi]
  obtain ⟨r, hr, hp⟩ := hreq
  have hmem := request_files_mem_stratImages img cfg r hr
  have hany : (stratImages img cfg).any (fun i => (paths i).contains g.path) = true := by
    rw [List.any_eq_true]
    refine ⟨_, hmem, ?_⟩
    simpa [paths] using hp
  have hel : eligible cfg.includeImports cfg.includeWKT g.isWKT = true := by
    unfold eligible
    rcases hw with hw | hw <;> simp [hii, hw]
  rw [hel, hany]; rfl

/-- Imports are never generated when they were not asked for: without include_imports, or a
    well-known type without include_wkt; and a path that is not a file of the image is never
    generated at all. -/
theorem imports_never_otherwise (img : Image) (cfg : PluginCfg) (hn : (paths img).Nodup) :
    (∀ g ∈ img, g.isImport = true →
      (cfg.includeImports = false ∨ (g.isWKT = true ∧ cfg.includeWKT = false)) →
      (allGenerated (pluginRequests img cfg)).count g.path = 0) ∧
    (∀ p, p ∉ paths img → (allGenerated (pluginRequests img cfg)).count p = 0) := by
  constructor
  · intro g hg hi hno
    rw [import_generated_count img cfg hn g hg hi]
    have hel : eligible cfg.includeImports cfg.includeWKT g.isWKT = false := by
      unfold eligible
      rcases hno with h | ⟨h1, h2⟩ <;> simp [*]
    simp [hel]
  · intro p hp
    have hnn : p ∉ allNonImportPaths (stratImages img cfg) := by
      intro hmem
      unfold allNonImportPaths at hmem
      obtain ⟨i, hii, hx⟩ := List.mem_flatMap.mp hmem
      obtain ⟨x, hxn, hpx⟩ := List.mem_map.mp hx
      exact hp (stratImages_paths_sub img cfg i hii p (hpx ▸ mem_paths_of_mem (mem_nonImports.mp hxn).1))
    rw [pluginRequests_eq, reqs_count_import _ _ _ p false hnn (stratImages img cfg) []
      (stratImages_nodup img cfg hn)
      (fun i hi x hx hpx => absurd (stratImages_paths_sub img cfg i hi p (hpx ▸ mem_paths_of_mem hx)) hp)]
    have hany : (stratImages img cfg).any (fun i => (paths i).contains p) = false := by
      rw [List.any_eq_false]
      intro i hi hc
      exact hp (stratImages_paths_sub img cfg i hi p (by simpa using hc))
    rw [hany]; simp

/-- No file is ever generated twice for one plugin. -/
theorem generated_at_most_once (img : Image) (cfg : PluginCfg) (hn : (paths img).Nodup) (p : Str) :
    (allGenerated (pluginRequests img cfg)).count p ≤ 1 := by
  by_cases hp : p ∈ paths img
  · obtain ⟨g, hg, rfl⟩ := List.mem_map.mp hp
    cases hi : g.isImport
    · rw [targets_exactly_once img cfg hn g hg hi]; exact Nat.le_refl 1
    · rw [import_generated_count img cfg hn g hg hi]; split <;> omega
  · rw [(imports_never_otherwise img cfg hn).2 p hp]; omega

/-- Given an ordered input image (distinct paths, every file after its dependencies), each
    request's proto_file list is dependency-closed and topologically ordered: whenever a file
    `h` is listed, every dependency of `h` that the image contains is listed before it; and
    every file to generate has its descriptor in the request.  The DFS behind `ImageByDir`
    never runs out of fuel on such an image (that is part of what is proved). -/
theorem request_closed_and_ordered (img : Image) (cfg : PluginCfg) (ho : Ordered img) :
    ∀ r ∈ pluginRequests img cfg,
      (∀ pre h post, r.protoFiles.map (·.1) = pre ++ h :: post →
        ∀ d ∈ h.deps, d ∈ paths img → d ∈ paths pre) ∧
      (∀ p ∈ r.toGenerate, p ∈ paths (r.protoFiles.map (·.1))) := by
  intro r hr
  constructor
  · exact stratImages_depsBefore img cfg ho _ (request_files_mem_stratImages img cfg r hr)
  · rw [pluginRequests_eq] at hr
    obtain ⟨i, _, u, h1, h2, _⟩ := reqs_mem _ _ _ _ _ r hr
    intro p hp
    rw [h1] at hp
    rw [h2, reqFiles_protoFiles]
    exact reqFiles_gen_sub _ _ _ i u p hp

/-- Full-strength form of `imports_once_when_requested` on an ordered image: with
    include_imports, every import a target depends on (transitively, through files of the image),
    not a well-known type unless include_wkt, is generated exactly once. -/
theorem imports_reachable_once (img : Image) (cfg : PluginCfg) (ho : Ordered img)
    (g : File) (hg : g ∈ img) (hi : g.isImport = true)
    (f : File) (hf : f ∈ img) (hfn : f.isImport = false) (hreach : Reach img f.path g.path)
    (hii : cfg.includeImports = true) (hw : g.isWKT = false ∨ cfg.includeWKT = true) :
    (allGenerated (pluginRequests img cfg)).count g.path = 1 := by
  apply imports_once_when_requested img cfg ho.1 g hg hi hii hw
  -- the strategy image holding the target `f` also holds everything `f` reaches
  have himg : ∃ i ∈ stratImages img cfg, f.path ∈ paths i := by
    unfold stratImages
    cases cfg.strategyAll
    · simp only [Bool.false_eq_true, if_false]
      refine ⟨imageWithOnlyPaths img (targetsInDir img (dir f.path)), ?_, ?_⟩
      · unfold imageByDir
        exact List.mem_map.mpr ⟨dir f.path, mem_dirsOf.mpr ⟨f, hf, hfn, rfl⟩, rfl⟩
      · exact sub_target_mem img _ f.path (mem_targetsInDir.mpr ⟨f, hf, hfn, rfl, rfl⟩) (mem_paths_of_mem hf)
    · simp only [if_true]
      exact ⟨img, by simp, mem_paths_of_mem hf⟩
  obtain ⟨i, hi', hfi⟩ := himg
  have hgi : g.path ∈ paths i :=
    closed_under_deps ho.1 (stratImages_depsBefore img cfg ho i hi') (stratImages_files img cfg i hi') hreach hfi
  have hmap := reqs_protoFiles (allNonImportPaths (stratImages img cfg)) cfg.includeImports cfg.includeWKT
    (stratImages img cfg) []
  rw [← hmap] at hi'
  obtain ⟨r, hr, hri⟩ := List.mem_map.mp hi'
  refine ⟨r, by rw [pluginRequests_eq]; exact hr, ?_⟩
  have : paths (r.protoFiles.map (·.1)) = r.protoFiles.map (·.1.path) := by simp [paths]
  rw [← this, hri]; exact hgi

/-- Every image the build produces (`BufModel.Targeting.buildImage`, the model of
    `bufimage.BuildImage` of property C01) is `Ordered` when read as a C17 image (`ofBuilt`:
    dependencies = what the compiler says the file imports; `w` = `datawkt.Exists`): C01's
    `image_nodup` and `image_topological`.  This discharges the hypothesis `Ordered img` of
    `request_closed_and_ordered` / `imports_reachable_once` for `buf generate` on sources.
    For an image read from a file the order is the documented precondition of
    `bufimage.NewImage` ("The input ImageFiles are expected to be in correct DAG order!",
    bufimage.go) — not checked by the code, hence a hypothesis here. -/
theorem built_image_ordered (t : BufModel.Targeting.TWS) (c : BufModel.Targeting.Compiler)
    (perm : List Str → List Str) (bimg : List BufModel.Targeting.ImgFile)
    (h : BufModel.Targeting.buildImage t c perm = .ok bimg) (w : Str → Bool) :
    Ordered (ofBuilt c w bimg) := ordered_of_buildImage t c perm bimg h w

/-- `request_closed_and_ordered` without any hypothesis on the image, for built images: in
    every request a plugin receives, each file's imports (all of them: a built image is closed)
    are listed before it, and every file to generate has its descriptor. -/
theorem built_request_closed_and_ordered (t : BufModel.Targeting.TWS) (c : BufModel.Targeting.Compiler)
    (perm : List Str → List Str) (bimg : List BufModel.Targeting.ImgFile)
    (h : BufModel.Targeting.buildImage t c perm = .ok bimg) (w : Str → Bool) (cfg : PluginCfg) :
    ∀ r ∈ pluginRequests (ofBuilt c w bimg) cfg,
      (∀ pre x post, r.protoFiles.map (·.1) = pre ++ x :: post → ∀ d ∈ x.deps, d ∈ paths pre) ∧
      (∀ p ∈ r.toGenerate, p ∈ paths (r.protoFiles.map (·.1))) := by
  intro r hr
  have ho := ordered_of_buildImage t c perm bimg h w
  obtain ⟨h1, h2⟩ := request_closed_and_ordered (ofBuilt c w bimg) cfg ho r hr
  refine ⟨?_, h2⟩
  intro pre x post e d hd
  apply h1 pre x post e d hd
  -- closed: every import of an image file is in the image (C01 `image_closed`)
  have hx : x ∈ r.protoFiles.map (·.1) := by rw [e]; simp
  obtain ⟨g, hg, hp, _, hdeps⟩ :=
    stratImages_files (ofBuilt c w bimg) cfg _ (request_files_mem_stratImages (ofBuilt c w bimg) cfg r hr) x hx
  unfold ofBuilt at hg
  obtain ⟨bf, hbf, rfl⟩ := List.mem_map.mp hg
  rw [paths_ofBuilt]
  exact BufProofs.C01.image_closed t c perm bimg h bf hbf d (by rw [hdeps] at hd; exact hd)

/-- Source-retention options are removed only from the runtime view: in every request the
    proto_file entry of a file is stripped iff the file is in file_to_generate, and the
    (unstripped) source_file_descriptors are exactly the files to generate. -/
theorem source_retention_only_runtime_view (img : Image) (cfg : PluginCfg) (hn : (paths img).Nodup) :
    ∀ r ∈ pluginRequests img cfg,
      r.sourceFiles = r.toGenerate ∧ ∀ x ∈ r.protoFiles, (x.2 = true ↔ x.1.path ∈ r.toGenerate) := by
  intro r hr
  rw [pluginRequests_eq] at hr
  obtain ⟨i, hi, u, h1, h2, h3⟩ := reqs_mem _ _ _ _ _ r hr
  refine ⟨by rw [h3, h1], ?_⟩
  rw [h1, h2]
  exact reqFiles_flag _ _ _ i u (stratImages_nodup img cfg hn i hi)

/-- Strategy `all` sends the plugin a single request whose proto_file list is the image. -/
theorem strategy_all_single_request (img : Image) (cfg : PluginCfg) (hs : cfg.strategyAll = true) :
    ∃ r, pluginRequests img cfg = [r] ∧ r.protoFiles.map (·.1) = img ∧ r.sourceFiles = r.toGenerate := by
  unfold pluginRequests imagesToRequests
  rw [hs]
  simp only [if_true]
  refine ⟨_, rfl, ?_, rfl⟩
  simp only
  generalize allNonImportPaths [img] = n
  generalize ([] : List Str) = used
  induction img generalizing used with
  | nil => rfl
  | cons f fs ih => rw [reqFiles_cons]; simp [ih]

/-! ### Response side -/

/-- Whatever names the plugins return — "../x", "/abs", "a//b", "./c", anything — if the run
    succeeds (working directory absolute, as `os.Getwd` returns it):
    (1) every object that is flushed was returned as a plain file by a plugin `p` of this run,
        sits in the bucket of THAT plugin's absolute out directory under the validated form of
        the name it returned, and the file written on disk, `diskPath out key` (= `storageos`'s
        `Join(root, key)`), is the out directory's components followed by the key's components:
        proper name components only (no "..", ".", empty or separator-bearing component), at
        least one below the out directory — i.e. the file is beneath that plugin's out;
    (2) per plugin, forward: every file a plugin returned (plain or insertion point) is written
        in that plugin's own out directory, under its validated name.
    So nothing is written outside the out directory of the plugin that returned it. -/
theorem writes_under_out (cwd : Str) (ps : List PluginResp) (bs : Buckets)
    (hcwd : isAbs cwd = true) (h : runResponses cwd ps = .ok bs) :
    (∀ x ∈ flushed bs, ∃ p ∈ ps, ∃ f ∈ p.files, f.getIP = [] ∧
      x.1 = absPath cwd p.out ∧ validatePath f.getName = .ok x.2.1 ∧
      ∃ os ns : List Comp, AllProper os ∧ AllProper ns ∧ ns ≠ [] ∧
        absPath cwd p.out = '/' :: joinSlash os ∧ x.2.1 = renderKey ns ∧
        diskPath x.1 x.2.1 = '/' :: joinSlash (os ++ ns)) ∧
    (∀ p ∈ ps, ∀ f ∈ p.files, ∃ k c, validatePath f.getName = .ok k ∧
      (absPath cwd p.out, k, c) ∈ flushed bs) := by
  unfold runResponses runResponsesWith at h
  split at h
  · cases h
  · constructor
    · obtain ⟨hprov, _⟩ := addResponses_inv cwd ps ps [] bs (fun p hp => hp)
        (by intro o m hm; cases hm) h
      intro x hx
      unfold flushed at hx
      obtain ⟨⟨o, m⟩, hom, hxm⟩ := List.mem_flatMap.mp hx
      obtain ⟨⟨k, c⟩, hkc, rfl⟩ := List.mem_map.mp hxm
      have hk : k ∈ m.keys := List.mem_map.mpr ⟨(k, c), hkc, rfl⟩
      obtain ⟨p, hp, hpo, f, hf, hip, hv⟩ := hprov o m hom k hk
      obtain ⟨ns, hns, hne, hkn⟩ := validatePath_keyOK hv
      obtain ⟨os, hos, hshape⟩ := absPath_shape cwd p.out hcwd
      refine ⟨p, hp, f, hf, hip, hpo.symm, hv, os, ns, hos, hns, hne, hshape, hkn, ?_⟩
      show diskPath o k = _
      rw [← hpo, hshape, hkn]
      exact diskPath_shape hos hns
    · obtain ⟨_, hfwd⟩ := addResponses_fwd cwd ps [] bs h
      intro p hp f hf
      obtain ⟨k, hk, hh⟩ := hfwd p hp f hf
      obtain ⟨c, hc⟩ := hasKey_flushed hh
      exact ⟨k, c, hk, hc⟩

/-- Insertion points only modify files produced in the same run: if the run succeeds, every
    insertion-point file names (after validation) a file that a plugin of this very run, with
    the same absolute out directory, returned as a plain file.  (The model's response writer
    has no access to the disk at all: targets are read from the in-memory bucket only.)  In
    particular an insertion point into a pre-existing file on disk makes the whole run fail. -/
theorem insertion_same_run_only (cwd : Str) (ps : List PluginResp) (bs : Buckets)
    (h : runResponses cwd ps = .ok bs) :
    ∀ p ∈ ps, ∀ f ∈ p.files, f.getIP ≠ [] →
      ∃ k, validatePath f.getName = .ok k ∧
        ∃ p' ∈ ps, absPath cwd p'.out = absPath cwd p.out ∧
          ∃ f' ∈ p'.files, f'.getIP = [] ∧ validatePath f'.getName = .ok k := by
  unfold runResponses runResponsesWith at h
  split at h
  · cases h
  · obtain ⟨_, hins⟩ := addResponses_inv cwd ps ps [] bs (fun p hp => hp)
      (by intro o m hm; cases hm) h
    intro p hp f hf hip
    obtain ⟨k, hk, p', hp', ho, f', hf', hip', hv'⟩ := hins p hp f hf hip
    exact ⟨k, hk, p', hp', ho, f', hf', hip', hv'⟩

/-- An insertion point never creates a file and never succeeds on a bucket that lacks its target. -/
theorem insertion_needs_target (m : Mem) (f : RFile) (hip : f.getIP ≠ [])
    (k : Str) (hk : validatePath f.getName = .ok k) (hnot : k ∉ m.keys) :
    ∃ e, writeFile m f = .error e := by
  cases hw : writeFile m f with
  | error e => exact ⟨e, rfl⟩
  | ok m' =>
    obtain ⟨p, hp, _, hins⟩ := writeFile_keys hw
    rw [hk] at hp; injection hp with hp; subst hp
    exact absurd (hins hip) hnot

/-- The same output path produced twice is an error: `ValidatePluginResponses` keys every plain
    file by `filepath.Abs(filepath.Join(out, name))` — the place the response writer will write
    it to — and two files (of two plugins or of one) with equal keys make the run fail with the
    duplicate error, for every list of plugins, every spelling of the names ("a//b" vs "a/b",
    "./c" vs "c", out "gen/sub" + "a" vs out "gen" + "sub/a") and every spelling of the out
    directories ("gen" vs "$PWD/gen" vs "../w/gen").  (Before fix 969fe1c of /repo the key was
    `Join(out, name)` on the configured spelling: `duplicate_alias_counterexample`.) -/
theorem duplicate_output_is_error (cwd : Str) (ps : List PluginResp)
    (hdup : ¬ (allKeys (dupKey cwd) ps).Nodup) : runResponses cwd ps = .error .duplicate := by
  unfold runResponses runResponsesWith
  cases hv : validatePluginResponses (dupKey cwd) ps [] with
  | error e => rw [validate_error_is_duplicate (dupKey cwd) ps [] e hv]
  | ok seen =>
    exfalso
    obtain ⟨e, n⟩ := validatePluginResponses_ok (dupKey cwd) ps [] seen hv
    have := n List.nodup_nil
    rw [e] at this
    simp only [List.append_nil] at this
    exact hdup ((List.reverse_perm _).nodup_iff.mp this)

/-- The recorded finding (fixed): with the old key, plugin 0 with out "gen" and plugin 1 with
    out "/w/gen" (the same directory when the working directory is "/w") both return "a.txt"; no
    error is reported and the second silently overwrites the first in the shared bucket. -/
theorem duplicate_alias_counterexample :
    runResponsesOld "/w".toList
      [⟨"gen".toList, [rf "a.txt".toList [] ("one".toList)]⟩,
       ⟨"/w/gen".toList, [rf "a.txt".toList [] ("two".toList)]⟩] =
      .ok [("/w/gen".toList, [("a.txt".toList, "two")])] := by decide

/-! ### Non-vacuity: a concrete image and concrete responses -/

/-- Two directories sharing the import `common/c.proto`, a well-known-type import, and an
    import nothing depends on. -/
def exImage : Image :=
  [ ⟨"google/protobuf/any.proto".toList, true, true, []⟩,
    ⟨"common/c.proto".toList, true, false, ["google/protobuf/any.proto".toList]⟩,
    ⟨"a/x.proto".toList, false, false, ["common/c.proto".toList]⟩,
    ⟨"a/y.proto".toList, false, false, ["a/x.proto".toList]⟩,
    ⟨"b/z.proto".toList, false, false, ["common/c.proto".toList, "a/x.proto".toList]⟩,
    ⟨"unused/u.proto".toList, true, false, []⟩ ]

example : Ordered exImage := orderedB_sound (by decide)
example : (paths exImage).Nodup := by decide

-- strategy directory, include_imports without include_wkt: two requests (a, b); the shared
-- import is generated once (with the first directory), the WKT and the unreachable import never,
-- and a/x.proto — a target of request 1, an import of request 2 — once.
example : (pluginRequests exImage ⟨false, true, false⟩).map (·.toGenerate) =
    [["common/c.proto".toList, "a/x.proto".toList, "a/y.proto".toList], ["b/z.proto".toList]] := by decide
example : (pluginRequests exImage ⟨false, true, false⟩).map (fun r => r.protoFiles.map (·.1.path)) =
    [["google/protobuf/any.proto".toList, "common/c.proto".toList, "a/x.proto".toList, "a/y.proto".toList],
     ["google/protobuf/any.proto".toList, "common/c.proto".toList, "a/x.proto".toList, "b/z.proto".toList]] := by decide
-- with include_wkt the WKT import is generated too, once
example : (allGenerated (pluginRequests exImage ⟨false, true, true⟩)).count "google/protobuf/any.proto".toList = 1 := by decide
-- strategy all generates the import nothing depends on as well (it is in the image)
example : (pluginRequests exImage ⟨true, true, false⟩).map (·.toGenerate) =
    [["common/c.proto".toList, "a/x.proto".toList, "a/y.proto".toList, "b/z.proto".toList, "unused/u.proto".toList]] := by decide
-- the hypotheses of `imports_reachable_once` are satisfiable
example : Reach exImage "b/z.proto".toList "google/protobuf/any.proto".toList := by
  have h1 : Reach exImage "b/z.proto".toList "common/c.proto".toList :=
    .step (.refl _) ⟨⟨"b/z.proto".toList, false, false, ["common/c.proto".toList, "a/x.proto".toList]⟩,
      by decide, rfl, by decide⟩ (by decide)
  exact .step h1 ⟨⟨"common/c.proto".toList, true, false, ["google/protobuf/any.proto".toList]⟩,
    by decide, rfl, by decide⟩ (by decide)

-- the hypothesis of `built_image_ordered` / `built_request_closed_and_ordered` is satisfiable
-- (C01's example workspace: a.proto imports b.proto of another module and a WKT), and the
-- resulting C17 image is the ordered one
example : ∃ bimg, BufModel.Targeting.buildImage BufProofs.C01.exWs BufProofs.C01.exC id = .ok bimg := by
  have h : (BufModel.Targeting.buildImage BufProofs.C01.exWs BufProofs.C01.exC id).toBool = true := by decide
  cases hb : BufModel.Targeting.buildImage BufProofs.C01.exWs BufProofs.C01.exC id with
  | error e => rw [hb] at h; cases h
  | ok b => exact ⟨b, rfl⟩
example : (BufModel.Targeting.buildImage BufProofs.C01.exWs BufProofs.C01.exC id).map (fun bimg =>
    (ofBuilt BufProofs.C01.exC (fun p => p = "google/protobuf/any.proto".toList) bimg).map
      (fun f => (String.ofList f.path, f.isImport, f.isWKT, f.deps.map String.ofList))) =
    .ok [("b.proto", true, false, []), ("google/protobuf/any.proto", true, true, []),
     ("a.proto", false, false, ["b.proto", "google/protobuf/any.proto"])] := by decide
-- the working directory of `writes_under_out` is absolute in every response example below
example : isAbs "/w".toList = true := by decide
-- responses: a successful run with a hostile-looking but valid spelling and an insertion point
-- from a second plugin that shares the out directory under another spelling
example : runResponses "/w".toList
    [⟨"gen".toList, [rf "a//b/../x.txt".toList [] ("l1\n  // @@protoc_insertion_point(p)\nl3".toList)]⟩,
     ⟨"./gen/".toList, [rf "a/x.txt".toList "p".toList ("new".toList)]⟩] =
    .ok [("/w/gen".toList, [("a/x.txt".toList, "l1\n  new\n  // @@protoc_insertion_point(p)\nl3")])] := by decide
-- escaping names are rejected
example : runResponses "/w".toList [⟨"gen".toList, [rf "../x".toList [] ([])]⟩] = .error (.path .outsideContext) := by decide
example : runResponses "/w".toList [⟨"gen".toList, [rf "/abs".toList [] ([])]⟩] = .error (.path .notRelative) := by decide
-- an insertion point into a file no plugin produced in this run fails
example : runResponses "/w".toList [⟨"gen".toList, [rf "existing.txt".toList "p".toList ("x".toList)]⟩] =
    .error (.path .notExist) := by decide
-- duplicates under different spellings of the name are an error
example : runResponses "/w".toList
    [⟨"gen".toList, [rf "a/b".toList [] ([])]⟩, ⟨"gen".toList, [rf "./a//b".toList [] ([])]⟩] = .error .duplicate := by decide
-- … and so are duplicates under different spellings of the OUT directory (the fixed finding)
example : runResponses "/w".toList
    [⟨"gen".toList, [rf "a.txt".toList [] ("one".toList)]⟩, ⟨"/w/gen".toList, [rf "a.txt".toList [] ("two".toList)]⟩] = .error .duplicate := by decide
example : runResponses "/w".toList
    [⟨"./x/../gen".toList, [rf "a.txt".toList [] ([])]⟩, ⟨"../w/gen".toList, [rf "./a.txt".toList [] ([])]⟩] = .error .duplicate := by decide
example : ¬ (allKeys (dupKey "/w".toList)
    [⟨"gen/sub".toList, [rf "a".toList [] ([])]⟩, ⟨"gen".toList, [rf "sub/a".toList [] ([])]⟩]).Nodup := by decide

end BufProofs.C17
