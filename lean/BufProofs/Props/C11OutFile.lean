import BufProofs.Lemmas.OutFileLemmas
/-
  Property C11, encodings half, OUTPUT-FILE HISTORIES: "a built image written in any supported
  encoding and compression and read back equals the original" - whatever the output path held
  before.  Model: BufModel/OutFile.lean (os.Create = O_CREATE|O_TRUNC through symbolic links).

    `outfile_put_then_read`            after a successful write of bytes c to path p, reading p gives
                                       exactly c - for EVERY earlier state of the file system
                                       (longer old file, shorter, none, a symbolic link, a dangling one)
    `outfile_history_irrelevant`       for every history of earlier steps: the read-back after the
                                       last write equals the read-back after writing to an EMPTY
                                       file system (= "a fresh path")
    `outfile_put_keeps_links`          writing through a symbolic link leaves the link a link
    `outfile_put_frame`                a path that does not resolve to the written file reads as before
    `outfile_failed_put_changes_nothing`  a failing write (directory, link loop) leaves every path as it was
    `outfile_put_fails_iff`            it fails exactly for a link loop / a directory
    `outfile_no_trunc_exact`           the open WITHOUT O_TRUNC leaves c ++ (old bytes beyond |c|) ...
    `outfile_no_trunc_ok_iff`          ... which is c iff the old file was not longer
    `outfile_no_trunc_counterexample`  the seeded shape violates `outfile_put_then_read` (long, then short)

  Correspondence: protocol line `ofh` (Driver/C11.lean) against real files written by the real
  controller (harness/cmd/c11/parto.go).
-/
namespace BufProofs.C11
open BufModel.OutFile

variable {α : Type}

/-- THE PROPERTY on the model: the file read back is the file written, whatever was there. -/
theorem outfile_put_then_read (fs fs' : FS α) (p : Name) (c : List α)
    (h : create fs p c = .ok fs') : readBack fs' p = .ok c := by
  obtain ⟨q, _, hrd⟩ := of_read_after_createWith writeTrunc fs fs' p c h
  simpa [writeTrunc] using hrd

/-- Writing to a fresh path always succeeds and reads back. -/
theorem outfile_fresh (p : Name) (c : List α) :
    ∃ fs', create ([] : FS α) p c = .ok fs' ∧ readBack fs' p = .ok c := by
  refine ⟨[(p, .file c)], ?_, ?_⟩
  · simp [create, createWith, resolve, lookup, setNode, writeTrunc]
  · simp [readBack, resolve, lookup]

/-- History independence: after ANY earlier steps (writes of longer or shorter outputs, foreign
    files, links, removals - failing ones included), a successful write reads back exactly like
    the same write to a fresh path. -/
theorem outfile_history_irrelevant (fs0 : FS α) (hist : List (Op α)) (p : Name) (c : List α)
    (fs' fresh' : FS α)
    (h : create (run fs0 hist).1 p c = .ok fs')
    (hf : create ([] : FS α) p c = .ok fresh') :
    readBack fs' p = readBack fresh' p := by
  rw [outfile_put_then_read _ _ _ _ h, outfile_put_then_read _ _ _ _ hf]

/-- A write through a symbolic link goes to the target: the link itself stays what it was. -/
theorem outfile_put_keeps_links (fs fs' : FS α) (p t : Name) (c : List α)
    (hl : lookup fs p = some (.link t)) (h : create fs p c = .ok fs') :
    lookup fs' p = some (.link t) := by
  obtain ⟨q, hr, _, hfs⟩ := of_createWith_ok writeTrunc fs fs' p c h
  have hterm := of_resolve_terminal fs _ p q hr
  have hpq : p ≠ q := by
    intro e; subst e; exact hterm t hl
  subst hfs
  rw [of_lookup_set_ne fs q p _ hpq, hl]

/-- Frame: a path whose walk ends at another name reads exactly as before the write. -/
theorem outfile_put_frame (fs fs' : FS α) (p r q q' : Name) (c : List α)
    (h : create fs p c = .ok fs')
    (hp : resolve fs (maxLinks + 1) p = .ok q) (hr : resolve fs (maxLinks + 1) r = .ok q')
    (hne : q' ≠ q) : readBack fs' r = readBack fs r := by
  obtain ⟨q0, hr0, _, hfs⟩ := of_createWith_ok writeTrunc fs fs' p c h
  rw [hp] at hr0
  cases hr0
  subst hfs
  have hterm := of_resolve_terminal fs _ p q hp
  have := of_resolve_set_other fs q (.file (writeTrunc (oldBytes fs q) c)) hterm _ r q' hr hne
  unfold readBack
  rw [this, hr]
  simp only [of_lookup_set_ne fs q q' _ hne]

/-- A write fails exactly when the path is a link loop (or longer than the kernel follows) or
    ends at a directory. -/
theorem outfile_put_fails_iff (fs : FS α) (p : Name) (c : List α) :
    (∃ e, create fs p c = .error e) ↔
      (resolve fs (maxLinks + 1) p = .error .eloop ∨
       ∃ q, resolve fs (maxLinks + 1) p = .ok q ∧ lookup fs q = some .dir) := by
  unfold create createWith
  constructor
  · intro ⟨e, h⟩
    split at h
    · rename_i e' hr
      left
      have : ∀ (fuel : Nat) (p : Name) (e : Err), resolve fs fuel p = .error e → e = .eloop := by
        intro fuel
        induction fuel with
        | zero => intro p e h; simp [resolve] at h; exact h.symm
        | succ f ih =>
          intro p e h
          unfold resolve at h
          split at h
          · exact ih _ _ h
          · cases h
      rw [this _ _ _ hr] at hr
      exact hr
    · rename_i q hr
      split at h
      · rename_i hd
        right; exact ⟨q, hr, hd⟩
      · cases h
  · intro h
    rcases h with h | ⟨q, hr, hd⟩
    · rw [h]; exact ⟨_, rfl⟩
    · rw [hr]; simp [hd]

/-- A failing step of a history changes nothing (so no path reads differently afterwards). -/
theorem outfile_failed_put_changes_nothing (wr : List α → List α → List α) (fs : FS α) (p : Name) (c : List α) (e : Err)
    (h : (stepWith wr fs (.put p c)).2 = some e) : (stepWith wr fs (.put p c)).1 = fs := by
  simp only [stepWith] at h ⊢
  cases hc : createWith wr fs p c with
  | ok fs' => rw [hc] at h; cases h
  | error e' => rfl

/-- The open without O_TRUNC, exactly: the new bytes followed by the old bytes beyond them. -/
theorem outfile_no_trunc_exact (fs fs' : FS α) (p : Name) (c : List α)
    (h : createNoTrunc fs p c = .ok fs') :
    ∃ q, resolve fs (maxLinks + 1) p = .ok q ∧ readBack fs' p = .ok (c ++ (oldBytes fs q).drop c.length) := by
  obtain ⟨q, hr, hrd⟩ := of_read_after_createWith writeNoTrunc fs fs' p c h
  exact ⟨q, hr, by simpa [writeNoTrunc] using hrd⟩

/-- ... and that is the written file iff the old file was not longer than the new one. -/
theorem outfile_no_trunc_ok_iff (old c : List α) :
    writeNoTrunc old c = writeTrunc old c ↔ old.length ≤ c.length := by
  unfold writeNoTrunc writeTrunc
  constructor
  · intro h
    have h2 : (c ++ List.drop c.length old).length = c.length := by rw [h]
    simp at h2
    omega
  · intro h
    have : List.drop c.length old = [] := List.drop_eq_nil_of_le h
    simp [this]

/-- non-vacuity + the seeded shape: a long output, then a shorter one over it.  As coded the short
    output reads back; without O_TRUNC the tail of the long one is still there. -/
def exLong : List (Nat × Nat) := payload 1 5
def exShort : List (Nat × Nat) := payload 2 2

example : (run ([] : FS (Nat × Nat)) [.put 0 exLong, .put 0 exShort]).2 = [none, none]
    ∧ readBack (run ([] : FS (Nat × Nat)) [.put 0 exLong, .put 0 exShort]).1 0 = .ok exShort := by decide

/-- through a symbolic link (7 -> 0), over a longer foreign file: link kept, target = the output -/
example : readBack (run ([] : FS (Nat × Nat)) [.pre 0 exLong, .ln 7 0, .put 7 exShort]).1 0 = .ok exShort
    ∧ lookup (run ([] : FS (Nat × Nat)) [.pre 0 exLong, .ln 7 0, .put 7 exShort]).1 7 = some (.link 0) := by decide

/-- a link loop and a directory fail and change nothing -/
example : (run ([] : FS (Nat × Nat)) [.ln 1 2, .ln 2 1, .put 1 exShort, .mkdir 3, .put 3 exShort]).2
    = [none, none, some .eloop, none, some .eisdir] := by decide

theorem outfile_no_trunc_counterexample :
    readBack (runNoTrunc ([] : FS (Nat × Nat)) [.put 0 exLong, .put 0 exShort]).1 0
      = .ok [(2, 0), (2, 1), (1, 2), (1, 3), (1, 4)]
    ∧ readBack (runNoTrunc ([] : FS (Nat × Nat)) [.put 0 exLong, .put 0 exShort]).1 0 ≠ .ok exShort
    ∧ segments [(2, 0), (2, 1), (1, 2), (1, 3), (1, 4)] = [(2, 0, 2), (1, 2, 5)] := by decide

end BufProofs.C11
