import BufProofs.Lemmas.MigrateRulesSpec
/-
  C16 migration theorems, part "witnesses for ignore_only" (see Props/C16MigrateWitness.lean).
-/
namespace BufProofs.C16
open BufModel.Path BufModel.Rules BufModel.MigrateRules BufGen.RuleTables

/-! ### ignore_only: both exceptions are necessary, the hypotheses are satisfiable -/

/-- Exception `driftingCategories` is necessary (the recorded finding
    migrate-breaking-changed-ignore-only-category-key): v1beta1 `use: [FILE]`,
    `ignore_only: {WIRE_JSON: [f]}` — FILE_SAME_PACKAGE is not a member of WIRE_JSON in v1beta1,
    so nothing is ignored for it; the key is copied verbatim, in v2 it IS a member, so after the
    migration FILE_SAME_PACKAGE is ignored under `f`. -/
theorem migrate_ignore_only_category_counterexample :
    migrateCheck (rulesOf .v1beta1) (rulesOf .v2) false (chkCfg ["FILE"] [] [("WIRE_JSON", ["f".toList])]) =
      .ok (chkCfg ["FILE"] ["EXTENSION_NO_DELETE", "FIELD_SAME_DEFAULT"] [("WIRE_JSON", ["f".toList])]) ∧
    sharedRule .v1beta1 false "FILE_SAME_PACKAGE" = true ∧
    (newRulesConfig (rulesOf .v1beta1) false (chkCfg ["FILE"] [] [("WIRE_JSON", ["f".toList])])).map
      (fun rc => rc.ignoreOnly.contains ("FILE_SAME_PACKAGE", "f".toList)) = .ok false ∧
    (newRulesConfig (rulesOf .v2) false
        (chkCfg ["FILE"] ["EXTENSION_NO_DELETE", "FIELD_SAME_DEFAULT"] [("WIRE_JSON", ["f".toList])])).map
      (fun rc => rc.ignoreOnly.contains ("FILE_SAME_PACKAGE", "f".toList)) = .ok true := by
  decide +kernel

/-- Exception `CollisionFree` is necessary, and as coded it is a defect of the migrator (replayed
    on the implementation, oracle class migrate-ignore-only-key-collision): the deprecated
    FIELD_SAME_LABEL is replaced by FIELD_SAME_CARDINALITY (and two more); when FIELD_SAME_CARDINALITY
    is a key as well, `undeprecateMap` keeps the paths of whichever key Go's map iteration visits
    last — the two iteration orders give different files, and each loses a path
    (`a` resp. `b` is no longer ignored for FIELD_SAME_CARDINALITY). -/
theorem migrate_ignore_only_collision_counterexample :
    (migrateCheck (rulesOf .v1) (rulesOf .v2) false
        (chkCfg ["FILE"] [] [("FIELD_SAME_LABEL", ["a".toList]), ("FIELD_SAME_CARDINALITY", ["b".toList])])).map
      (fun c => sortIgnoreOnly c.ignoreOnly) =
      .ok [("FIELD_SAME_CARDINALITY", ["b".toList]), ("FIELD_WIRE_COMPATIBLE_CARDINALITY", ["a".toList]),
           ("FIELD_WIRE_JSON_COMPATIBLE_CARDINALITY", ["a".toList])] ∧
    (migrateCheck (rulesOf .v1) (rulesOf .v2) false
        (chkCfg ["FILE"] [] [("FIELD_SAME_CARDINALITY", ["b".toList]), ("FIELD_SAME_LABEL", ["a".toList])])).map
      (fun c => sortIgnoreOnly c.ignoreOnly) =
      .ok [("FIELD_SAME_CARDINALITY", ["a".toList]), ("FIELD_WIRE_COMPATIBLE_CARDINALITY", ["a".toList]),
           ("FIELD_WIRE_JSON_COMPATIBLE_CARDINALITY", ["a".toList])] ∧
    (newRulesConfig (rulesOf .v1) false
        (chkCfg ["FILE"] [] [("FIELD_SAME_LABEL", ["a".toList]), ("FIELD_SAME_CARDINALITY", ["b".toList])])).map
      (fun rc => (rc.ignoreOnly.filter (·.1 = "FIELD_SAME_CARDINALITY")).map (·.2)) = .ok ["a".toList, "b".toList] := by
  decide +kernel

-- the hypotheses of `migrate_preserves_ignore_only` are satisfiable with keys of every kind: a
-- deprecated rule, a v1beta1-only category, a rule v2 does not have, a plain rule
example : CollisionFree (translateId (oldRules .v1beta1 true) (v2Rules true))
    [("FILE_LAYOUT", ["a".toList]), ("FIELD_NO_DESCRIPTOR", ["b".toList]), ("ENUM_PASCAL_CASE", ["c".toList])] := by
  decide +kernel
example : migrateCheck (rulesOf .v1beta1) (rulesOf .v2) true
    (chkCfg ["STYLE_BASIC"] [] [("FILE_LAYOUT", ["a".toList]), ("FIELD_NO_DESCRIPTOR", ["b".toList]), ("ENUM_PASCAL_CASE", ["c".toList])]) =
    .ok (chkCfg ["ENUM_PASCAL_CASE", "ENUM_VALUE_UPPER_SNAKE_CASE", "FIELD_LOWER_SNAKE_CASE", "MESSAGE_PASCAL_CASE",
                "ONEOF_LOWER_SNAKE_CASE", "PACKAGE_LOWER_SNAKE_CASE", "RPC_PASCAL_CASE", "SERVICE_PASCAL_CASE"] []
          [("DIRECTORY_SAME_PACKAGE", ["a".toList]), ("PACKAGE_DIRECTORY_MATCH", ["a".toList]),
           ("PACKAGE_SAME_DIRECTORY", ["a".toList]), ("ENUM_PASCAL_CASE", ["c".toList])]) := by decide +kernel
example : ¬ CollisionFree (translateId (oldRules .v1 false) (v2Rules false))
    [("FIELD_SAME_LABEL", ["a".toList]), ("FIELD_SAME_CARDINALITY", ["b".toList])] := by decide +kernel

/-! ### the proposed repair on the collision witness -/

-- the witness of `migrate_ignore_only_collision_counterexample` under the repaired `undeprecateMap`:
-- both iteration orders give the same map, no path is lost (`a/x` is dropped because `a` contains it)
example : (migrateCheckFixed true (rulesOf .v1) (rulesOf .v2) false
      (chkCfg ["FILE"] [] [("FIELD_SAME_LABEL", ["a".toList]), ("FIELD_SAME_CARDINALITY", ["b".toList, "a/x".toList])])).map
      (fun c => sortIgnoreOnly c.ignoreOnly) =
    .ok [("FIELD_SAME_CARDINALITY", ["a".toList, "b".toList]), ("FIELD_WIRE_COMPATIBLE_CARDINALITY", ["a".toList]),
         ("FIELD_WIRE_JSON_COMPATIBLE_CARDINALITY", ["a".toList])] := by decide +kernel
example : (migrateCheckFixed true (rulesOf .v1) (rulesOf .v2) false
      (chkCfg ["FILE"] [] [("FIELD_SAME_CARDINALITY", ["b".toList, "a/x".toList]), ("FIELD_SAME_LABEL", ["a".toList])])).map
      (fun c => sortIgnoreOnly c.ignoreOnly) =
    .ok [("FIELD_SAME_CARDINALITY", ["a".toList, "b".toList]), ("FIELD_WIRE_COMPATIBLE_CARDINALITY", ["a".toList]),
         ("FIELD_WIRE_JSON_COMPATIBLE_CARDINALITY", ["a".toList])] := by decide +kernel


end BufProofs.C16
