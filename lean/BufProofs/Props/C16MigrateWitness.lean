import BufProofs.Lemmas.MigrateRulesSpec
/-
  C16 migration theorems, part "witnesses": the hypotheses of the theorems in
  Props/C16Migrate.lean are satisfiable, every exception they state is necessary (concrete
  configurations, kernel evaluation on the regenerated tables).
-/
namespace BufProofs.C16
open BufModel.Path BufModel.Rules BufModel.MigrateRules BufGen.RuleTables

/-! ### witnesses: the hypotheses are satisfiable, each exception is necessary -/

-- An absent v1 lint section (the v1 defaults; also what a directory without buf.yaml gets):
-- migrated to `except: [FIELD_NOT_REQUIRED, PACKAGE_NO_IMPORT_CYCLE]` (the rules v2 added to its
-- defaults); the exception does not apply, the 33 selected rules are the same before and after.
example : migrateCheck (rulesOf .v1) (rulesOf .v2) true (chkCfg [] []) =
    .ok (chkCfg [] ["FIELD_NOT_REQUIRED", "PACKAGE_NO_IMPORT_CYCLE"]) := by decide +kernel
example : exceptCoversSelected .v1 true (chkCfg [] []) = false := by decide +kernel
example : selectedIds (rulesOf .v2) true (chkCfg [] ["FIELD_NOT_REQUIRED", "PACKAGE_NO_IMPORT_CYCLE"]) =
    selectedIds (rulesOf .v1) true (chkCfg [] []) := by decide +kernel

-- Exception "no v2 counterpart" is necessary: v1beta1 `use: [SENSIBLE]` selects
-- FIELD_NO_DESCRIPTOR, the migrated configuration cannot.
example : migrateCheck (rulesOf .v1beta1) (rulesOf .v2) true (chkCfg ["SENSIBLE"] []) =
    .ok (chkCfg ["ENUM_NO_ALLOW_ALIAS", "IMPORT_NO_PUBLIC", "PACKAGE_DEFINED"] []) := by decide +kernel
example : selectedIds (rulesOf .v1beta1) true (chkCfg ["SENSIBLE"] []) =
    .ok ["ENUM_NO_ALLOW_ALIAS", "FIELD_NO_DESCRIPTOR", "IMPORT_NO_PUBLIC", "PACKAGE_DEFINED"] := by decide +kernel
example : selectedIds (rulesOf .v2) true (chkCfg ["ENUM_NO_ALLOW_ALIAS", "IMPORT_NO_PUBLIC", "PACKAGE_DEFINED"] []) =
    .ok ["ENUM_NO_ALLOW_ALIAS", "IMPORT_NO_PUBLIC", "PACKAGE_DEFINED"] := by decide +kernel
example : hasV2Counterpart true "FIELD_NO_DESCRIPTOR" = false := by decide +kernel

/-- Exception `exceptCoversSelected` is necessary, and as coded it is a defect of the migrator
    (replayed on the implementation, oracle class migrate-breaking-changed-except-category-grew):
    v1beta1 `breaking: except: [WIRE]` selects 38 rules (the defaults minus the v1beta1 members of
    WIRE); the migrated section is `use: [FILE_SAME_PACKAGE]`, `except: [EXTENSION_NO_DELETE,
    FIELD_SAME_CARDINALITY, FIELD_SAME_TYPE, WIRE]`, which selects NOTHING in v2: FILE_SAME_PACKAGE
    became a member of WIRE, the repair put it into `use`, which replaced the default rule set
    and loses against `except`. -/
theorem migrate_except_category_counterexample :
    migrateCheck (rulesOf .v1beta1) (rulesOf .v2) false (chkCfg [] ["WIRE"]) =
      .ok (chkCfg ["FILE_SAME_PACKAGE"] ["EXTENSION_NO_DELETE", "FIELD_SAME_CARDINALITY", "FIELD_SAME_TYPE", "WIRE"]) ∧
    (selectedIds (rulesOf .v1beta1) false (chkCfg [] ["WIRE"])).map (·.length) = .ok 38 ∧
    selectedIds (rulesOf .v2) false
      (chkCfg ["FILE_SAME_PACKAGE"] ["EXTENSION_NO_DELETE", "FIELD_SAME_CARDINALITY", "FIELD_SAME_TYPE", "WIRE"]) = .ok [] ∧
    exceptCoversSelected .v1beta1 false (chkCfg [] ["WIRE"]) = true := by
  decide +kernel

-- The same exception in v1 (no default set involved): PACKAGE_NO_IMPORT_CYCLE has no category in
-- v1 and belongs to MINIMAL in v2; `use: [COMMENTS, PACKAGE_NO_IMPORT_CYCLE], except: [MINIMAL]`
-- migrates to itself and no longer selects PACKAGE_NO_IMPORT_CYCLE.
example : migrateCheck (rulesOf .v1) (rulesOf .v2) true (chkCfg ["PACKAGE_NO_IMPORT_CYCLE", "COMMENTS"] ["MINIMAL"]) =
    .ok (chkCfg ["COMMENTS", "PACKAGE_NO_IMPORT_CYCLE"] ["MINIMAL"]) := by decide +kernel
example : exceptCoversSelected .v1 true (chkCfg ["PACKAGE_NO_IMPORT_CYCLE", "COMMENTS"] ["MINIMAL"]) = true := by decide +kernel
example : "PACKAGE_NO_IMPORT_CYCLE" ∈ (match selectedIds (rulesOf .v1) true (chkCfg ["PACKAGE_NO_IMPORT_CYCLE", "COMMENTS"] ["MINIMAL"]) with
    | .ok l => l | .error _ => []) := by decide +kernel
example : "PACKAGE_NO_IMPORT_CYCLE" ∉ (match selectedIds (rulesOf .v2) true (chkCfg ["COMMENTS", "PACKAGE_NO_IMPORT_CYCLE"] ["MINIMAL"]) with
    | .ok l => l | .error _ => []) := by decide +kernel

-- Deprecated ids are replaced by their replacements, ids v2 does not have are expanded / dropped:
example : migrateCheck (rulesOf .v1) (rulesOf .v2) false (chkCfg ["FIELD_SAME_LABEL", "FIELD_SAME_CTYPE", "FILE_SAME_PHP_GENERIC_SERVICES"] []) =
    .ok (chkCfg ["FIELD_SAME_CARDINALITY", "FIELD_SAME_CPP_STRING_TYPE", "FIELD_WIRE_COMPATIBLE_CARDINALITY",
                "FIELD_WIRE_JSON_COMPATIBLE_CARDINALITY"] []) := by decide +kernel
example : migrateCheck (rulesOf .v1beta1) (rulesOf .v2) true (chkCfg ["FILE_LAYOUT", "FIELD_NO_DESCRIPTOR"] ["OTHER"]) =
    .ok (chkCfg ["DIRECTORY_SAME_PACKAGE", "PACKAGE_DIRECTORY_MATCH", "PACKAGE_SAME_DIRECTORY"] ["ENUM_FIRST_VALUE_ZERO"]) := by decide +kernel
-- an id the version does not know makes the migration fail
example : migrateCheck (rulesOf .v1) (rulesOf .v2) true (chkCfg ["FILE_LAYOUT"] []) = .error .unknownId := by decide +kernel

/-! ### the proposed repair on the witnesses -/

-- the witness of `migrate_except_category_counterexample` under the repair: the 38 rules are named
example : (migrateCheckFixed true (rulesOf .v1beta1) (rulesOf .v2) false (chkCfg [] ["WIRE"])).map (fun c => (c.use.length, c.except)) =
    .ok (38, []) := by decide +kernel
example : (migrateCheckFixed true (rulesOf .v1beta1) (rulesOf .v2) false (chkCfg [] ["WIRE"])).bind
      (fun c => selectedIds (rulesOf .v2) false c) =
    selectedIds (rulesOf .v1beta1) false (chkCfg [] ["WIRE"]) := by decide +kernel


end BufProofs.C16
