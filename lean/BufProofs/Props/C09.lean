import BufModel.Cache
import BufProofs.Lemmas.CacheLemmas
import BufModel.Faults
import BufProofs.Props.C15
/-
  C09 — The module cache never serves wrong content: crashes, faults, races, tampering.

  Writer side (audit item S2): the directory-layout writer is the step machine of
  BufModel.Cache — files written in ANY order, several in flight, each holding an arbitrary
  prefix — for any number of writers, from ANY leftover entry; "a failed write is reported
  before the marker" is derived from the C15 fault model (`storeRun` over `copyAll` /
  `atomicRun`); the tar layout is one atomic object.
-/
namespace BufProofs.C09
open BufModel.Path BufModel.Bucket BufModel.Cache

/-- served_content_matches_key: in ANY entry state whatsoever — half-written by a crashed or
    failed store, modified by any number of concurrent writers, tampered with in any way — a
    load that returns content returns exactly the module files the key's digest pins (and the
    marker carries the pinned deps).  Everything else is a miss or a digest-mismatch error. -/
theorem served_content_matches_key (exp : Expected) (entry : Mem) (fs : List (Str × Content))
    (h : load exp entry = .hit fs) :
    sameSet fs (exp.files.filter fun f => isModuleFile f.1) = true ∧
      entry.find markerPath = some markerCanonical := by
  unfold load at h
  cases hm : entry.find markerPath with
  | none => rw [hm] at h; cases h
  | some tok =>
    rw [hm] at h
    simp only at h
    split at h
    · cases h
    · split at h
      · cases h
      · split at h
        · rename_i hc
          injection h with h
          simp only [Bool.and_eq_true, decide_eq_true_eq] at hc
          subst h
          exact ⟨hc.1, by rw [hc.2]⟩
        · cases h

/-- The same for the tar layout; an undecodable archive is a miss (and is removed). -/
theorem served_content_matches_key_tar (exp : Expected) (t : Option (Option Mem)) (fs : List (Str × Content))
    (h : (loadTar exp t).1 = .hit fs) :
    sameSet fs (exp.files.filter fun f => isModuleFile f.1) = true := by
  unfold loadTar at h
  cases t with
  | none => cases h
  | some o =>
    cases o with
    | none => cases h
    | some e => exact (served_content_matches_key exp e fs h).1

theorem corrupt_tar_is_miss_and_removed (exp : Expected) : loadTar exp (some none) = (.miss, none) := rfl

/-- The initial system: ANY entry `e` left behind by earlier processes (torn prefixes, missing
    files, complete files in any combination), nobody holds the lock, `n` writers about to store
    the same module. -/
def initFrom (e : Mem) (n : Nat) : Sys := { entry := e, lock := none, writers := List.replicate n .start }

/-- The empty (or absent) entry. -/
def init (n : Nat) : Sys := initFrom [] n

theorem initFrom_inv (exp : Expected) (e : Mem) (n : Nat)
    (hk : OnlyPayloadKeys exp e) (hn : NodupKeys e) (hm : markerOK e = false) : Inv exp (initFrom e n) := by
  refine ⟨?_, ?_, ?_, hk, hn⟩
  · intro h; simp only [initFrom] at h; rw [hm] at h; cases h
  · intro w d f h
    simp only [initFrom] at h
    by_cases hw : w < n
    · rw [List.getElem?_replicate] at h; simp [hw] at h
    · rw [List.getElem?_replicate] at h; simp [hw] at h
  · intro w h; cases h

theorem init_inv (exp : Expected) (n : Nat) : Inv exp (init n) :=
  initFrom_inv exp [] n (by intro kv h; cases h) (by simp [NodupKeys]) (by simp [markerOK, Mem.find])

/-- marker_implies_complete: start from ANY entry without a valid marker (whatever earlier
    crashed/failed stores left: torn prefixes, missing or complete files) and take any
    interleaving of any number of writers storing the module — files written in parallel in any
    order, crashes at any step, failures of any write.  Whenever the commit marker is valid, every
    file and side file is present in full. -/
theorem marker_implies_complete (exp : Expected) (wf : WF exp) (e : Mem)
    (hk : OnlyPayloadKeys exp e) (hn : NodupKeys e) (hm : markerOK e = false) (n : Nat) (acts : List Act)
    (h : markerOK (runActs exp (initFrom e n) acts).entry = true) :
    Complete exp (runActs exp (initFrom e n) acts).entry ∧
      (runActs exp (initFrom e n) acts).entry.find markerPath = some markerCanonical :=
  (runActs_inv wf acts (initFrom e n) (initFrom_inv exp e n hk hn hm)).markerComplete h

/-- At most one writer is ever between acquiring the lock and releasing it. -/
theorem writers_exclusive (exp : Expected) (wf : WF exp) (e : Mem)
    (hk : OnlyPayloadKeys exp e) (hn : NodupKeys e) (hm : markerOK e = false) (n : Nat) (acts : List Act)
    (w w' : Nat) (d d' : List Nat) (f f' : List (Nat × Nat))
    (h : (runActs exp (initFrom e n) acts).writers[w]? = some (.writing d f))
    (h' : (runActs exp (initFrom e n) acts).writers[w']? = some (.writing d' f')) : w = w' :=
  writing_unique (runActs_inv wf acts (initFrom e n) (initFrom_inv exp e n hk hn hm)) h h'

/-- What a reader (or a crash) can find while a store is in progress: every object the writer has
    closed is there in full, and every object in flight holds exactly a prefix of its content —
    never bytes of anything else. -/
theorem inflight_is_prefix (exp : Expected) (wf : WF exp) (e : Mem)
    (hk : OnlyPayloadKeys exp e) (hn : NodupKeys e) (hm : markerOK e = false) (n : Nat) (acts : List Act)
    (w : Nat) (d : List Nat) (f : List (Nat × Nat))
    (h : (runActs exp (initFrom e n) acts).writers[w]? = some (.writing d f)) :
    (∀ i ∈ d, ∀ pc, exp.payload[i]? = some pc → (runActs exp (initFrom e n) acts).entry.find pc.1 = some pc.2) ∧
    (∀ ik ∈ f, ik.1 ∉ d ∧ ∃ pc, exp.payload[ik.1]? = some pc ∧ ik.2 ≤ pc.2.length ∧
      (runActs exp (initFrom e n) acts).entry.find pc.1 = some (takeStr ik.2 pc.2)) :=
  ((runActs_inv wf acts (initFrom e n) (initFrom_inv exp e n hk hn hm)).writing w d f h).2.2

/-- complete_is_stable: once the marker is valid no step of any writer modifies the entry, so
    readers may stream the files without holding the lock. -/
theorem complete_is_stable (exp : Expected) (s : Sys) (inv : Inv exp s) (hm : markerOK s.entry = true) (a : Act) :
    (step exp s a).entry = s.entry :=
  step_entry_stable exp s inv hm a

/-- failed_store_not_complete (marker_needs_success): for any number of concurrent writers and any
    interleaving with crashes and failures, the entry is marked complete only if some store
    returned success; a failed or interrupted store never leaves the entry marked complete. -/
theorem failed_store_not_complete (exp : Expected) (wf : WF exp) (e : Mem) (hm : markerOK e = false)
    (n : Nat) (acts : List Act)
    (h : ∀ w : Nat, (runActs exp (initFrom e n) acts).writers[w]? ≠ some (WPc.finished true)) :
    markerOK (runActs exp (initFrom e n) acts).entry = false := by
  cases hmk : markerOK (runActs exp (initFrom e n) acts).entry with
  | false => rfl
  | true =>
    exfalso
    obtain ⟨w, hw⟩ := marker_needs_success exp wf acts (initFrom e n)
      (by intro h; simp only [initFrom] at h; rw [hm] at h; cases h) hmk
    exact h w hw

/-- store_success_then_hit: in every reachable state (any interleaving, crashes, failures, any
    starting entry without a valid marker) in which the marker is valid, a load is a HIT and
    serves exactly the pinned module files. -/
theorem store_success_then_hit (exp : Expected) (wf : WF exp) (hside : SidesOutsideFiles exp) (e : Mem)
    (hk : OnlyPayloadKeys exp e) (hn : NodupKeys e) (hm : markerOK e = false)
    (n : Nat) (acts : List Act)
    (h : markerOK (runActs exp (initFrom e n) acts).entry = true) :
    load exp (runActs exp (initFrom e n) acts).entry = .hit (moduleFilesOf (runActs exp (initFrom e n) acts).entry) ∧
      sameSet (moduleFilesOf (runActs exp (initFrom e n) acts).entry) (exp.files.filter fun f => isModuleFile f.1) = true := by
  have inv := runActs_inv wf acts (initFrom e n) (initFrom_inv exp e n hk hn hm)
  obtain ⟨hc, hmc⟩ := inv.markerComplete h
  exact complete_loads_hit exp hside _ hc hmc inv.keys inv.nodupKeys

/-- "store returned nil ⇒ the next load is a hit": in every reachable state in which SOME store
    has returned success — at that moment and at any later one, whatever the other writers do —
    the marker is valid and a load serves exactly the pinned module files. -/
theorem store_returned_nil_then_hit (exp : Expected) (wf : WF exp) (hside : SidesOutsideFiles exp) (e : Mem)
    (hk : OnlyPayloadKeys exp e) (hn : NodupKeys e) (hm : markerOK e = false)
    (n : Nat) (acts : List Act) (w : Nat)
    (h : (runActs exp (initFrom e n) acts).writers[w]? = some (WPc.finished true)) :
    markerOK (runActs exp (initFrom e n) acts).entry = true ∧
    load exp (runActs exp (initFrom e n) acts).entry = .hit (moduleFilesOf (runActs exp (initFrom e n) acts).entry) := by
  have hmk := success_needs_marker exp wf acts (initFrom e n) (initFrom_inv exp e n hk hn hm)
    (by intro w0 h0
        simp only [initFrom] at h0
        rw [List.getElem?_replicate] at h0
        split at h0 <;> cases h0) w h
  exact ⟨hmk, (store_success_then_hit exp wf hside e hk hn hm n acts hmk).1⟩

/-- later_store_repairs: take ANY entry whose keys are payload paths (or the marker), without a
    valid marker and whose marker, if any, parses — whatever torn prefixes, missing files or
    complete files it holds, in particular "a later file complete, an earlier one torn" — then any
    history `hist` of further stores that crashed or failed, leaving the lock free.  One
    fault-free store by a fresh writer, writing the files in ANY order with any number in flight
    and growing by arbitrary prefixes (`FaultFree`), returns success, releases the lock, leaves
    every file and side file in full with the canonical marker, and a load HITS with exactly the
    pinned module files. -/
theorem later_store_repairs (exp : Expected) (wf : WF exp) (hside : SidesOutsideFiles exp) (e : Mem)
    (hk : OnlyPayloadKeys exp e) (hn : NodupKeys e) (hm : markerOK e = false) (hg : markerGarbled e = false)
    (n : Nat) (hist : List Act) (w : Nat)
    (hlock : (runActs exp (initFrom e n) hist).lock = none)
    (hw : (runActs exp (initFrom e n) hist).writers[w]? = some WPc.start)
    (acts : List Act) (hff : FaultFree exp w acts) :
    let s' := runActs exp (runActs exp (initFrom e n) hist) (storeWith w acts)
    markerOK s'.entry = true ∧ s'.writers[w]? = some (WPc.finished true) ∧ s'.lock = none ∧
      Complete exp s'.entry ∧ load exp s'.entry = .hit (moduleFilesOf s'.entry) ∧
      sameSet (moduleFilesOf s'.entry) (exp.files.filter fun f => isModuleFile f.1) = true := by
  have inv := runActs_inv wf hist (initFrom e n) (initFrom_inv exp e n hk hn hm)
  have hg' := runActs_garbled exp wf hist (initFrom e n) hg
  obtain ⟨h1, h2, h3⟩ := store_completes exp wf (runActs exp (initFrom e n) hist) inv w hlock hw hg' acts hff
  have inv' := runActs_inv wf (storeWith w acts) _ inv
  obtain ⟨hc, hmc⟩ := inv'.markerComplete h1
  obtain ⟨l1, l2⟩ := complete_loads_hit exp hside _ hc hmc inv'.keys inv'.nodupKeys
  exact ⟨h1, h2, h3, hc, l1, l2⟩

/-- As coded: a `module.yaml` that is present but not parsable makes `putModuleData` return the
    YAML error — the store neither takes the lock nor writes anything, so such an entry is NOT
    repaired by later stores (the reader treats it as a miss every time).  Only tampering can
    produce it: `runActs_garbled` shows no writer history does. -/
theorem unparsable_marker_blocks_store (exp : Expected) (s : Sys) (w : Nat)
    (hw : s.writers[w]? = some WPc.start) (hlock : s.lock = none) (hg : markerGarbled s.entry = true) :
    (step exp s (.acquire w)).writers[w]? = some (WPc.finished false) ∧
      (step exp s (.acquire w)).entry = s.entry ∧ (step exp s (.acquire w)).lock = none := by
  have hm : markerOK s.entry = false := by
    unfold markerGarbled at hg; unfold markerOK
    cases hf : s.entry.find markerPath with
    | none => rfl
    | some tok =>
      rw [hf] at hg; simp only [decide_eq_true_eq] at hg; subst hg; decide
  have h1 : step exp s (.acquire w) = { s with writers := setPc s.writers w (WPc.finished false) } := by
    simp only [step, hw, hlock, hm, hg, if_true]; rfl
  rw [h1]
  exact ⟨by simp only [setPc]; exact getElem?_set_eq _ _ _ (lt_of_getElem?_some hw), rfl, hlock⟩

/-- No history of writers (crashes, failures, anything) produces an unparsable marker. -/
theorem writers_never_garble_marker (exp : Expected) (wf : WF exp) (e : Mem) (hg : markerGarbled e = false)
    (n : Nat) (acts : List Act) : markerGarbled (runActs exp (initFrom e n) acts).entry = false :=
  runActs_garbled exp wf acts (initFrom e n) hg

/-! ### "A store that has returned is over" and "the entry only changes under the lock" -/

/-- The writer (process) an action belongs to. -/
def actWriter : Act → Nat
  | .acquire w => w | .truncate w _ => w | .grow w _ _ => w | .fill w _ => w
  | .fail w => w | .commit w => w | .commitFail w => w | .crash w => w

/-- finished_writer_is_inert: once a store has RETURNED (with nil or with an error) or its process
    has died, no action of that writer is enabled any more — no Put, no Write, no Close, no marker
    put, no second acquire: the whole system (entry, lock, every pc) stays as it is.  A primitive
    of a writer observed after its store returned is therefore outside the model (the harness
    oracle `write-after-store-returned`; the `run` lines replay it as a no-op and disagree with
    the entry the implementation really has). -/
theorem finished_writer_is_inert (exp : Expected) (s : Sys) (w : Nat)
    (hw : (∃ b, s.writers[w]? = some (WPc.finished b)) ∨ s.writers[w]? = some WPc.crashed)
    (a : Act) (ha : actWriter a = w) : step exp s a = s := by
  rcases hw with ⟨b, hw⟩ | hw <;>
  cases a <;> simp only [actWriter] at ha <;> subst ha <;> simp only [step, hw]

/-- … for any number of such late actions (a failed store's leftover copy jobs). -/
theorem returned_store_writes_nothing (exp : Expected) (w : Nat) (acts : List Act)
    (hacts : ∀ a ∈ acts, actWriter a = w) (s : Sys)
    (hw : (∃ b, s.writers[w]? = some (WPc.finished b)) ∨ s.writers[w]? = some WPc.crashed) :
    runActs exp s acts = s := by
  induction acts with
  | nil => rfl
  | cons a rest ih =>
    rw [runActs_cons, finished_writer_is_inert exp s w hw a (hacts a List.mem_cons_self)]
    exact ih (fun x hx => hacts x (List.mem_cons_of_mem _ hx))

/-- entry_changes_only_under_lock: in every reachable state, an action that modifies the entry is an
    action of the writer that holds the exclusive lock (harness oracle
    `write-without-exclusive-lock`). -/
theorem entry_changes_only_under_lock (exp : Expected) (s : Sys) (inv : Inv exp s) (a : Act)
    (h : (step exp s a).entry ≠ s.entry) : s.lock = some (actWriter a) := by
  cases a with
  | acquire w => exfalso; apply h; simp only [step]; repeat' split
                 all_goals rfl
  | truncate w i =>
    simp only [step] at h; split at h
    · rename_i d f hw; exact (inv.writing w d f hw).1
    · exact absurd rfl h
  | grow w i k =>
    simp only [step] at h; split at h
    · rename_i d f hw; exact (inv.writing w d f hw).1
    · exact absurd rfl h
  | fill w i =>
    simp only [step] at h; split at h
    · rename_i d f hw; exact (inv.writing w d f hw).1
    · exact absurd rfl h
  | fail w => exfalso; apply h; simp only [step]; split <;> rfl
  | commit w =>
    simp only [step] at h; split at h
    · rename_i d f hw; exact (inv.writing w d f hw).1
    · exact absurd rfl h
  | commitFail w => exfalso; apply h; simp only [step]; split
                    · split <;> rfl
                    · rfl
  | crash w => exfalso; apply h; simp only [step]; split <;> rfl

/-! ### "A failed write is reported before the marker" — derived from the C15 model -/

open BufModel.Faults in
/-- marker_only_after_reported_success: run the store's write phase (`storage.Copy` of the files =
    C15 `copyAll`, `PutPath` of the side files, atomic `PutPath` of the marker = C15 `atomicRun`)
    under ANY fault schedule.  If it reports success then no scheduled fault fired, no step of
    the marker put failed, every payload object is in the entry in full and the marker is the one
    that was put. -/
theorem marker_only_after_reported_success (exp : Expected) (wf : WF exp) (hv : PayloadValid exp)
    (chunk : Content → List Content) (hchunk : ∀ c, joinContent (chunk c) = c)
    (s : Sched) (mch : List Content) (mfail : Option Nat) (hr : FailAtInRange mch mfail) (d d' : Dest)
    (h : storeRun Facts.allTrue s mch mfail d (fileJobs exp chunk) (sideJobs exp chunk) = (false, d')) :
    d'.fired = d.fired ∧ mfail = none ∧ Complete exp d'.mem ∧
      d'.mem.find markerPath = some (joinContent mch) :=
  storeRun_ok exp wf hv chunk hchunk s mch mfail hr d d' h

open BufModel.Faults in
/-- fault_fires_then_store_errors: if any scheduled fault fires while the files or side files are
    written, the store reports an error … -/
theorem fault_fires_then_store_errors (exp : Expected) (wf : WF exp) (hv : PayloadValid exp)
    (chunk : Content → List Content) (hchunk : ∀ c, joinContent (chunk c) = c)
    (s : Sched) (mch : List Content) (mfail : Option Nat) (hr : FailAtInRange mch mfail) (d : Dest)
    (hfired : (storeRun Facts.allTrue s mch mfail d (fileJobs exp chunk) (sideJobs exp chunk)).2.fired ≠ d.fired) :
    (storeRun Facts.allTrue s mch mfail d (fileJobs exp chunk) (sideJobs exp chunk)).1 = true :=
  storeRun_fault_reported exp wf hv chunk hchunk s mch mfail hr d hfired

open BufModel.Faults in
/-- … and store_error_leaves_marker_untouched: a store that reports an error — whichever phase
    failed, with whatever defer plumbing (`fx`) — has not written the marker: the object at
    `module.yaml` is the one that was there before, so an entry without a valid marker stays
    without one. -/
theorem store_error_leaves_marker_untouched (exp : Expected) (wf : WF exp) (hv : PayloadValid exp)
    (chunk : Content → List Content) (fx : Facts)
    (s : Sched) (mch : List Content) (mfail : Option Nat) (d : Dest)
    (h : (storeRun fx s mch mfail d (fileJobs exp chunk) (sideJobs exp chunk)).1 = true) :
    markerOK (storeRun fx s mch mfail d (fileJobs exp chunk) (sideJobs exp chunk)).2.mem = markerOK d.mem := by
  unfold markerOK
  rw [storeRun_err_marker_untouched exp wf hv chunk fx s mch mfail d h]

/-! ### Tar layout: one atomic object -/

/-- At every instant of a tar store — what a concurrent reader sees and what a crash leaves — the
    object at the tar path is the previous one (or absent) or the complete new archive. -/
theorem tar_instant_old_or_new (old : Option Content) (chunks : List Content) (j : Nat) :
    (tarCrash old chunks j).final = old ∨ (tarCrash old chunks j).final = some (BufModel.Faults.joinContent chunks) :=
  BufProofs.C15.atomic_prefix_old_or_new old chunks j

/-- A tar store in which any step fails reports an error and leaves the previous object. -/
theorem tar_failed_put_leaves_old (old : Option Content) (chunks : List Content) (k : Nat)
    (hk : k ≤ chunks.length + 2) :
    tarStore old chunks (some k) = (true, { final := old, temp := none }) :=
  BufProofs.C15.atomic_failed_leaves_old old chunks k hk

/-- A fault-free tar store (over anything: absent, garbage, an older archive) reports success and
    the archive then loads as a HIT with exactly the pinned module files. -/
theorem tar_store_then_hit (exp : Expected) (wf : WF exp) (hside : SidesOutsideFiles exp)
    (decode : Content → Option Mem) (old : Option Content) (chunks : List Content)
    (hdec : decode (BufModel.Faults.joinContent chunks) = some (tarEntry exp)) :
    (tarStore old chunks none).1 = false ∧
      (loadTar exp (tarView decode (tarStore old chunks none).2)).1 = .hit (moduleFilesOf (tarEntry exp)) ∧
      sameSet (moduleFilesOf (tarEntry exp)) (exp.files.filter fun f => isModuleFile f.1) = true := by
  have hs : tarStore old chunks none = (false, { final := some (BufModel.Faults.joinContent chunks), temp := none }) :=
    BufProofs.C15.atomic_success old chunks
  obtain ⟨l1, l2⟩ := complete_loads_hit exp hside (tarEntry exp) (tarEntry_complete wf) (tarEntry_marker exp)
    (tarEntry_onlyKeys exp) (tarEntry_nodup wf)
  rw [hs]
  refine ⟨rfl, ?_, l2⟩
  simp only [tarView, Option.map, hdec, loadTar]
  exact l1

/-- At every crash point of a tar store a load behaves exactly as on the previous object, or is a
    HIT with the pinned module files — never anything in between. -/
theorem tar_crash_old_or_hit (exp : Expected) (wf : WF exp) (hside : SidesOutsideFiles exp)
    (decode : Content → Option Mem) (old : Option Content) (chunks : List Content)
    (hdec : decode (BufModel.Faults.joinContent chunks) = some (tarEntry exp)) (j : Nat) :
    loadTar exp (tarView decode (tarCrash old chunks j)) = loadTar exp (old.map decode) ∨
      (loadTar exp (tarView decode (tarCrash old chunks j))).1 = .hit (moduleFilesOf (tarEntry exp)) := by
  rcases tar_instant_old_or_new old chunks j with h | h
  · left; simp only [tarView, h]
  · right
    obtain ⟨l1, _⟩ := complete_loads_hit exp hside (tarEntry exp) (tarEntry_complete wf) (tarEntry_marker exp)
      (tarEntry_onlyKeys exp) (tarEntry_nodup wf)
    simp only [tarView, h, Option.map, hdec, loadTar]
    exact l1

/-- An archive that does not decode is a miss and is removed (so the next store starts clean). -/
theorem tar_corrupt_is_miss_and_removed (exp : Expected) (decode : Content → Option Mem) (c : Content)
    (h : decode c = none) :
    loadTar exp (tarView decode { final := some c, temp := none }) = (.miss, none) := by
  simp [tarView, h, loadTar]

/-- provider_never_returns_missing: the cache provider either yields a load result that is not a
    miss, or an error. -/
theorem provider_never_returns_missing (r1 : LoadResult) (putOk : Bool) (r2 : LoadResult) :
    provider r1 putOk r2 ≠ .value .miss := by
  unfold provider
  cases r1 <;> cases putOk <;> cases r2 <;> simp

-- non-vacuity
def exExp : Expected :=
  { files := [("a.proto".toList, "AAAA"), ("x.txt".toList, "X")], sides := [("v1_buf_yaml/buf.yaml".toList, "Y")] }
example : WF exExp := ⟨by decide, by decide⟩
example : SidesOutsideFiles exExp := by intro s hs; simp [exExp] at hs; subst hs; decide

/-- A leftover entry: the LATER file is complete, the EARLIER one is torn, the side file is
    missing, and a parsable-but-invalid marker is present. -/
def exTorn : Mem :=
  [("files/x.txt".toList, "X"), ("files/a.proto".toList, "AA"), (markerPath, "Minvalid0")]
example : OnlyPayloadKeys exExp exTorn := by unfold OnlyPayloadKeys; decide
example : NodupKeys exTorn := by unfold NodupKeys; decide
example : markerOK exTorn = false ∧ markerGarbled exTorn = false := by decide

/-- parallel copy: everything in flight at once, prefixes growing, closed in another order -/
def exActs : List Act :=
  [.truncate 1 2, .truncate 1 0, .truncate 1 1, .grow 1 0 2, .fill 1 1, .grow 1 0 3, .fill 1 2, .fill 1 0]
example : FaultFree exExp 1 exActs :=
  ⟨by decide, by
    intro i hi
    have : i = 0 ∨ i = 1 ∨ i = 2 := by simp [exExp, Expected.payload] at hi; omega
    rcases this with e | e | e <;> subst e
    · exact ⟨[.truncate 1 2], [.truncate 1 1, .grow 1 0 2, .fill 1 1, .grow 1 0 3, .fill 1 2], [], rfl⟩
    · exact ⟨[.truncate 1 2, .truncate 1 0], [.grow 1 0 2], [.grow 1 0 3, .fill 1 2, .fill 1 0], rfl⟩
    · exact ⟨[], [.truncate 1 0, .truncate 1 1, .grow 1 0 2, .fill 1 1, .grow 1 0 3], [.fill 1 0], rfl⟩⟩
example : FaultFree exExp 1 (seqSchedule 1 [2, 0, 1]) :=
  seqSchedule_faultFree exExp 1 [2, 0, 1] (by decide)
example : FaultFree exExp 1 (parSchedule 1 [2, 0, 1] [1, 2, 0]) :=
  parSchedule_faultFree exExp 1 _ _ (by decide) (by decide)
-- the hypotheses of later_store_repairs: writer 0 crashes mid-store on the torn entry, writer 1 is fresh
example : (runActs exExp (initFrom exTorn 2) [.acquire 0, .truncate 0 1, .truncate 0 0, .grow 0 0 1, .crash 0]).lock = none ∧
    (runActs exExp (initFrom exTorn 2) [.acquire 0, .truncate 0 1, .truncate 0 0, .grow 0 0 1, .crash 0]).writers[1]? = some .start := by
  decide
example : (runActs exExp (runActs exExp (initFrom exTorn 2) [.acquire 0, .truncate 0 1, .truncate 0 0, .grow 0 0 1, .crash 0])
    (storeWith 1 exActs)).entry.find markerPath = some markerCanonical := by decide
example : (match load exExp (runActs exExp (runActs exExp (initFrom exTorn 2) [.acquire 0, .truncate 0 1, .truncate 0 0, .grow 0 0 1, .crash 0])
    (storeWith 1 exActs)).entry with | .hit _ => true | _ => false) = true := by decide
-- a state with two files in flight (inflight_is_prefix, writers_exclusive are not vacuous)
example : (runActs exExp (init 2) [.acquire 0, .acquire 1, .truncate 0 1, .truncate 0 0, .grow 0 0 3]).writers[0]? =
    some (.writing [] [(0, 3), (1, 0)]) := by decide
-- a failed store and an unparsable marker
example : markerOK (runActs exExp (init 1) [.acquire 0, .truncate 0 0, .fill 0 0, .fail 0]).entry = false := by decide
example : markerGarbled [(markerPath, markerUnparsable)] = true := by decide
-- the fault link
example : PayloadValid exExp := by unfold PayloadValid; decide
example : ∀ c, BufModel.Faults.joinContent ((fun c => [c]) c) = c := by intro c; simp [BufModel.Faults.joinContent]
example : FailAtInRange ["M:", "canonical"] (some 4) ∧ FailAtInRange ["M:", "canonical"] none := by
  constructor <;> intro k h <;> simp at h <;> (subst h; decide)

def exChunk : Content → List Content := fun c => [c]

set_option maxRecDepth 100000 in
/-- cache_poison_counterexample (the recorded finding, fixed in /repo a3d0d8c): with the pre-fix
    `copyPath` (its deferred Close joined a stale variable) a failed file Put is reported as
    success by `storage.Copy`, so the store writes the marker over an entry that lacks the file:
    every later load is a digest mismatch and — the marker being valid — no later store repairs
    it.  This is exactly the step `marker_only_after_reported_success` rules out for the current
    facts. -/
theorem cache_poison_counterexample :
    let fx : BufModel.Faults.Facts := { BufModel.Faults.Facts.allTrue with copyPath := false }
    let s : BufModel.Faults.Sched := [⟨"files/a.proto".toList, .put, 0⟩]
    let r := storeRun fx s [markerCanonical] none ⟨[], []⟩ (fileJobs exExp exChunk) (sideJobs exExp exChunk)
    r.1 = false ∧ r.2.mem.find markerPath = some markerCanonical ∧ r.2.mem.find "files/a.proto".toList = none ∧
      (match load exExp r.2.mem with | .mismatch => true | _ => false) = true := by decide

set_option maxRecDepth 100000 in
example :
    let s : BufModel.Faults.Sched := [⟨"files/a.proto".toList, .put, 0⟩]
    let r := storeRun BufModel.Faults.Facts.allTrue s [markerCanonical] none ⟨[], []⟩ (fileJobs exExp exChunk) (sideJobs exExp exChunk)
    r.1 = true ∧ r.2.fired ≠ [] ∧ markerOK r.2.mem = false := by decide

set_option maxRecDepth 100000 in
example : (storeRun BufModel.Faults.Facts.allTrue [] [markerCanonical] none ⟨[], []⟩
    (fileJobs exExp exChunk) (sideJobs exExp exChunk)).1 = false := by decide

set_option maxRecDepth 100000 in
/-- The entry the stored regression (seed C09-m8) produces: writer 1 has stored the module
    completely; then a leftover copy job of writer 0 — whose store had already returned its error —
    does its Put (os.Create truncates) on `files/a.proto`.  The marker is valid, the file is empty:
    a fresh load is a digest mismatch although nobody tampered with the entry, and a reader that
    had verified the digest before streams an empty file. -/
theorem late_truncate_counterexample :
    let done := runActs exExp (init 2) (Act.acquire 0 :: Act.truncate 0 1 :: Act.fail 0 :: storeWith 1 (seqSchedule 1 [0, 1, 2]))
    let torn := putObj done.entry "files/a.proto".toList ""
    done.writers[0]? = some (WPc.finished false) ∧ done.writers[1]? = some (WPc.finished true) ∧
    markerOK done.entry = true ∧ markerOK torn = true ∧
      (match load exExp done.entry with | .hit _ => true | _ => false) = true ∧
      (match load exExp torn with | .mismatch => true | _ => false) = true ∧
      -- whereas in the model writer 0's late Put is a no-op
      (step exExp done (Act.truncate 0 0)).entry = done.entry := by decide

-- finished_writer_is_inert / entry_changes_only_under_lock: a returned (failed) store exists, and an
-- action that does change the entry exists (by the lock holder)
example : (runActs exExp (init 1) [.acquire 0, .truncate 0 0, .fail 0]).writers[0]? = some (.finished false) := by decide
example : (step exExp (runActs exExp (init 1) [.acquire 0]) (.truncate 0 0)).entry ≠ (runActs exExp (init 1) [.acquire 0]).entry ∧
    (runActs exExp (init 1) [.acquire 0]).lock = some (actWriter (.truncate 0 0)) := by decide
-- store_returned_nil_then_hit: a reachable state in which a store has returned success
example : (runActs exExp (initFrom exTorn 2) (storeWith 1 exActs)).writers[1]? = some (.finished true) := by decide
-- unparsable_marker_blocks_store: its hypotheses hold in the initial system over a garbled entry
example : (initFrom [(markerPath, markerUnparsable)] 1).writers[0]? = some .start ∧
    (initFrom [(markerPath, markerUnparsable)] 1).lock = none ∧
    markerGarbled (initFrom [(markerPath, markerUnparsable)] 1).entry = true := by decide
-- tar layout: a codec under which the archive decodes to the serialised entry
example : (fun c : Content => if c = "abcd" then some (tarEntry exExp) else none)
    (BufModel.Faults.joinContent ["ab", "cd"]) = some (tarEntry exExp) := by decide
example : (fun c : Content => if c = "abcd" then some (tarEntry exExp) else none) "garbage" = none := by decide
-- tar layout
example : (tarStore (some "OLD") ["ab", "cd"] none).2.final = some "abcd" := by decide
example : tarStore (some "OLD") ["ab", "cd"] (some 2) = (true, { final := some "OLD", temp := none }) := by decide

/-! ### The lock hypothesis made explicit: what breaks when the lock is handed out twice

  Everything above that speaks about writers (`Inv`, `marker_implies_complete`, `writers_exclusive`,
  `complete_is_stable`, `entry_changes_only_under_lock`, …) rests on ONE fact about the lock file:
  `acquire` is enabled only when nobody holds the lock (`s.lock = none` in `step`).  For
  `filelock.lockForFunc` as coded this is: a Lock call on a held lock times out, the caller gets an
  error and does nothing — the disabled `acquire` (a no-op).  The stored regression C09-m9
  ("abandoned lock recovery": after the timeout a lock file older than an hour is unlinked and the
  lock taken on the NEW inode) grants the lock although it is held.  This section names the
  assumption, restates preservation with it as a hypothesis, and shows that it is necessary. -/

/-- How a Lock call answers when the lock is HELD by a live process. -/
inductive LockRule where
  /-- as coded: the call times out, the store returns the lock error, nothing is written -/
  | asCoded
  /-- seed C09-m9: the waiter unlinks the holder's lock file and locks a new inode: granted -/
  | abandonedRecovery
  deriving DecidableEq, Repr

/-- The lock handed out without looking at who holds it: `acquire` minus its `lock = none` test
    (the marker re-check under the "lock" is still made). -/
def stealLock (_exp : Expected) (s : Sys) (w : Nat) : Sys :=
  match s.writers[w]? with
  | some .start =>
    if markerOK s.entry then { s with writers := setPc s.writers w (.finished true) }
    else if markerGarbled s.entry then { s with writers := setPc s.writers w (.finished false) }
    else { s with lock := some w, writers := setPc s.writers w (.writing [] []) }
  | _ => s

/-- Writer `w` asks for the exclusive lock under a rule. -/
def acquireWith : LockRule → Expected → Sys → Nat → Sys
  | .asCoded, exp, s, w => step exp s (.acquire w)
  | .abandonedRecovery, exp, s, w => stealLock exp s w

/-- Histories in which the lock may also be stolen. -/
inductive XAct where
  | act (a : Act)
  | steal (w : Nat)
  deriving Repr

def xstep (exp : Expected) (s : Sys) : XAct → Sys
  | .act a => step exp s a
  | .steal w => stealLock exp s w

def xrun (exp : Expected) (s : Sys) (xs : List XAct) : Sys := xs.foldl (xstep exp) s

/-- "flock gives mutual exclusion", as a property of a history: whenever the lock is handed out
    by `steal`, nobody holds it at that moment. -/
def LockRespected (exp : Expected) : Sys → List XAct → Prop
  | _, .nil => True
  | s, x :: rest => (∀ w, x = .steal w → s.lock = none) ∧ LockRespected exp (xstep exp s x) rest

/-- The two rules differ ONLY when the lock is held: on a free lock the steal is the coded acquire. -/
theorem steal_is_acquire_when_free (exp : Expected) (s : Sys) (w : Nat) (h : s.lock = none) :
    stealLock exp s w = step exp s (.acquire w) := by
  unfold stealLock
  simp only [step, h]
  cases hw : s.writers[w]? with
  | none => rfl
  | some pc => cases pc <;> rfl

/-- As coded, a waiter that meets a held lock does not proceed: its store changes nothing (harness:
    a contender of a live holder issues no primitive and its Lock call reports an error). -/
theorem timed_out_waiter_does_nothing (exp : Expected) (s : Sys) (w h : Nat) (hl : s.lock = some h) :
    acquireWith .asCoded exp s w = s := by
  simp only [acquireWith, step, hl]
  cases s.writers[w]? with
  | none => rfl
  | some pc => cases pc <;> rfl

/-- no_steal_preserves: the invariant behind every writer theorem is preserved along any history —
    crashes, failures, any interleaving — PROVIDED the lock is respected (`LockRespected`: the
    flock assumption, now a named hypothesis).  Histories of plain `Act`s (the real model) satisfy
    it trivially, see `plain_history_respects_lock`. -/
theorem no_steal_preserves {exp : Expected} (wf : WF exp) (xs : List XAct) (s : Sys) (inv : Inv exp s)
    (h : LockRespected exp s xs) : Inv exp (xrun exp s xs) := by
  induction xs generalizing s with
  | nil => exact inv
  | cons x rest ih =>
    obtain ⟨h1, h2⟩ := h
    refine ih (xstep exp s x) ?_ h2
    cases x with
    | act a => exact step_inv wf s inv a
    | steal w =>
      simp only [xstep]
      rw [steal_is_acquire_when_free exp s w (h1 w rfl)]
      exact step_inv wf s inv (.acquire w)

theorem plain_history_respects_lock (exp : Expected) (acts : List Act) (s : Sys) :
    LockRespected exp s (acts.map XAct.act) ∧ xrun exp s (acts.map XAct.act) = runActs exp s acts := by
  induction acts generalizing s with
  | nil => exact ⟨trivial, rfl⟩
  | cons a rest ih =>
    obtain ⟨i1, i2⟩ := ih (step exp s a)
    refine ⟨⟨?_, i1⟩, i2⟩
    intro w hw
    exact XAct.noConfusion hw

theorem exExp_wf : WF exExp := ⟨by decide, by decide⟩

/-- mutual_exclusion_needed: the hypothesis of `no_steal_preserves` cannot be dropped.  There is a
    reachable state satisfying `Inv` (writer 0 inside its store) whose successor under the
    abandoned-lock rule violates it: two writers are in their critical section, the lock names
    only one of them. -/
theorem mutual_exclusion_needed :
    ∃ (exp : Expected) (s : Sys) (w : Nat), WF exp ∧ Inv exp s ∧ s.lock ≠ none ∧
      ¬ Inv exp (acquireWith .abandonedRecovery exp s w) ∧
      (∃ w' d d' f f', w' ≠ w ∧ (acquireWith .abandonedRecovery exp s w).writers[w]? = some (.writing d f) ∧
        (acquireWith .abandonedRecovery exp s w).writers[w']? = some (.writing d' f')) := by
  refine ⟨exExp, runActs exExp (init 2) [.acquire 0], 1, exExp_wf,
    runActs_inv exExp_wf _ _ (init_inv exExp 2), by decide, ?_, ⟨0, [], [], [], [], by decide, by decide, by decide⟩⟩
  intro hinv
  have h0 := (hinv.writing 0 [] [] (by decide)).1
  exact absurd h0 (by decide)

set_option maxRecDepth 100000 in
/-- overlapping_writers_counterexample (the stored regression C09-m9, step by step).  Writer 0 holds
    the lock and is slow; writer 1 is granted the lock as well (`steal`) and stores the module
    completely: valid canonical marker, every file in full, a load is a HIT — a reader's digest
    check has passed.  Then the slow writer goes on: its next Put truncates `files/a.proto`.
    The entry that was complete is MODIFIED (the conclusion of `complete_is_stable` fails — its
    hypothesis `Inv` is what the steal destroyed), the marker is still valid, a fresh load is a
    digest mismatch, and the reader that had verified now reads an empty file.  Under the coded
    rule the same request of writer 1 is a no-op and writer 0's store ends in a hit. -/
theorem overlapping_writers_counterexample :
    let held := xrun exExp (init 2) [.act (.acquire 0), .steal 1]
    let done := xrun exExp held ((storeWith 1 (seqSchedule 1 [0, 1, 2])).map .act)
    let torn := step exExp done (.truncate 0 0)
    -- both in their critical section
    held.writers[0]? = some (.writing [] []) ∧ held.writers[1]? = some (.writing [] []) ∧
    -- writer 1 completed: what a reader verifies
    done.writers[1]? = some (.finished true) ∧ markerOK done.entry = true ∧
      done.entry.find "files/a.proto".toList = some "AAAA" ∧
      (match load exExp done.entry with | .hit _ => true | _ => false) = true ∧
    -- the slow writer's next primitive modifies the complete entry
    torn.entry ≠ done.entry ∧ markerOK torn.entry = true ∧
      torn.entry.find "files/a.proto".toList = some "" ∧
      (match load exExp torn.entry with | .mismatch => true | _ => false) = true ∧
    -- as coded: writer 1's request while the lock is held changes nothing
    acquireWith .asCoded exExp (runActs exExp (init 2) [.acquire 0]) 1 = runActs exExp (init 2) [.acquire 0] := by
  refine ⟨by decide, by decide, by decide, by decide, by decide, by decide, by decide, by decide, by decide, by decide, ?_⟩
  exact timed_out_waiter_does_nothing exExp _ 1 0 (by decide)

-- LockRespected is satisfiable by a history that DOES contain a steal (on a free lock), and fails
-- for the counterexample's history
example : LockRespected exExp (init 2) [.steal 0, .act (.truncate 0 0), .act (.fail 0), .steal 1] := by
  refine ⟨?_, ?_, ?_, ?_, trivial⟩
  · intro w _; decide
  · intro w hw; exact XAct.noConfusion hw
  · intro w hw; exact XAct.noConfusion hw
  · intro w _; decide
example : ¬ LockRespected exExp (init 2) [.act (.acquire 0), .steal 1] := by
  intro h
  exact absurd (h.2.1 1 rfl) (by decide)

end BufProofs.C09
