import BufModel.Cache
import BufProofs.Lemmas.CacheLemmas
/-
  C09 — The module cache never serves wrong content: crashes, faults, races, tampering.
-/
namespace BufProofs.C09
open BufModel.Path BufModel.Bucket BufModel.Cache

/-- served_content_matches_key: in ANY entry state whatsoever — half-written by a crashed or
    failed store, modified by any number of concurrent writers, tampered with in any way — a
    load that returns content returns exactly the module files the key's digest pins (and the
    marker carries the pinned deps).  Everything else is a miss or a digest-mismatch error. -/
theorem served_content_matches_key (exp : Expected) (entry : Mem) (fs : List (Str × Content))
    (h : load exp entry = .hit fs) :
    sameSet fs (exp.files.filter fun f => isModuleFile f.1) = true ∧
      entry.find markerPath = some markerCanonical := by
  unfold load at h
  cases hm : entry.find markerPath with
  | none => rw [hm] at h; cases h
  | some tok =>
    rw [hm] at h
    simp only at h
    split at h
    · cases h
    · split at h
      · cases h
      · split at h
        · rename_i hc
          injection h with h
          simp only [Bool.and_eq_true, decide_eq_true_eq] at hc
          subst h
          exact ⟨hc.1, by rw [hc.2]⟩
        · cases h

/-- The same for the tar layout; an undecodable archive is a miss (and is removed). -/
theorem served_content_matches_key_tar (exp : Expected) (t : Option (Option Mem)) (fs : List (Str × Content))
    (h : (loadTar exp t).1 = .hit fs) :
    sameSet fs (exp.files.filter fun f => isModuleFile f.1) = true := by
  unfold loadTar at h
  cases t with
  | none => cases h
  | some o =>
    cases o with
    | none => cases h
    | some e => exact (served_content_matches_key exp e fs h).1

theorem corrupt_tar_is_miss_and_removed (exp : Expected) : loadTar exp (some none) = (.miss, none) := rfl

/-- The initial system: empty (or absent) entry, nobody holds the lock, `n` writers about to
    store the same module. -/
def init (n : Nat) : Sys := { entry := [], lock := none, writers := List.replicate n .start }

theorem init_inv (exp : Expected) (n : Nat) : Inv exp (init n) := by
  refine ⟨?_, ?_, ?_, ?_, ?_⟩
  · intro h; simp [init, markerOK, Mem.find] at h
  · intro w i t h
    simp only [init] at h
    by_cases hw : w < n
    · rw [List.getElem?_replicate] at h; simp [hw] at h
    · rw [List.getElem?_replicate] at h; simp [hw] at h
  · intro w h; cases h
  · intro kv h; cases h
  · simp [init, NodupKeys]

/-- marker_implies_complete: for every interleaving of any number of writers storing the module
    — with crashes at any step, failures of any write, and torn (truncated) files in between —
    whenever the commit marker is valid, every file and side file is present in full. -/
theorem marker_implies_complete (exp : Expected) (wf : WF exp) (n : Nat) (acts : List Act)
    (h : markerOK (runActs exp (init n) acts).entry = true) :
    Complete exp (runActs exp (init n) acts).entry ∧
      (runActs exp (init n) acts).entry.find markerPath = some markerCanonical :=
  (runActs_inv wf acts (init n) (init_inv exp n)).markerComplete h

/-- At most one writer is ever between acquiring the lock and releasing it. -/
theorem writers_exclusive (exp : Expected) (wf : WF exp) (n : Nat) (acts : List Act) (w w' i i' : Nat) (t t' : Bool)
    (h : (runActs exp (init n) acts).writers[w]? = some (.writing i t))
    (h' : (runActs exp (init n) acts).writers[w']? = some (.writing i' t')) : w = w' :=
  writing_unique (runActs_inv wf acts (init n) (init_inv exp n)) h h'

/-- complete_is_stable: once the marker is valid no step of any writer modifies the entry, so
    readers may stream the files without holding the lock. -/
theorem complete_is_stable (exp : Expected) (s : Sys) (inv : Inv exp s) (hm : markerOK s.entry = true) (a : Act) :
    (step exp s a).entry = s.entry := by
  have nowriting : ∀ (w i : Nat) (t : Bool), s.writers[w]? ≠ some (WPc.writing i t) := by
    intro w i t h
    have := (inv.writing w i t h).2.1
    rw [hm] at this; cases this
  cases a with
  | acquire w =>
    simp only [step]; split
    · split <;> rfl
    · rfl
  | truncate w =>
    simp only [step]; split
    · rename_i i hw; exact absurd hw (nowriting w i false)
    · rfl
  | fill w =>
    simp only [step]; split
    · rename_i i hw; exact absurd hw (nowriting w i true)
    · rfl
  | fail w =>
    simp only [step]; split
    · split <;> rfl
    · rfl
  | commit w =>
    simp only [step]; split
    · rename_i i hw; exact absurd hw (nowriting w i false)
    · rfl
  | commitFail w =>
    simp only [step]; split
    · split <;> rfl
    · rfl
  | crash w =>
    simp only [step]; split <;> rfl

/-- failed_store_not_complete: for any number of concurrent writers and any interleaving with
    crashes and failures, the entry is marked complete only if some store returned success;
    in particular a single failed or interrupted store never leaves the entry marked complete. -/
theorem failed_store_not_complete (exp : Expected) (wf : WF exp) (n : Nat) (acts : List Act)
    (h : ∀ w : Nat, (runActs exp (init n) acts).writers[w]? ≠ some (WPc.finished true)) :
    markerOK (runActs exp (init n) acts).entry = false := by
  cases hmk : markerOK (runActs exp (init n) acts).entry with
  | false => rfl
  | true =>
    exfalso
    obtain ⟨w, hw⟩ := marker_needs_success exp wf acts (init n)
      (by intro h; simp [init, markerOK, Mem.find] at h) hmk
    exact h w hw

/-- later_store_repairs: take ANY state reachable by any interleaving of writers with crashes and
    failures in which no process is currently inside a store (the lock is free) — files may be
    missing, truncated or half-written and there may be no marker.  One further, fault-free
    store of the same module ends with a valid marker, returns success, and every file and side
    file is then present in full. -/
theorem later_store_repairs (exp : Expected) (wf : WF exp) (n : Nat) (acts : List Act) (w : Nat)
    (hlock : (runActs exp (init n) acts).lock = none)
    (hw : (runActs exp (init n) acts).writers[w]? = some WPc.start) :
    let s' := runActs exp (runActs exp (init n) acts) (storeActs exp w)
    markerOK s'.entry = true ∧ s'.writers[w]? = some (WPc.finished true) ∧ Complete exp s'.entry := by
  have inv := runActs_inv wf acts (init n) (init_inv exp n)
  obtain ⟨h1, h2⟩ := store_completes exp (runActs exp (init n) acts) w hlock hw
  have inv' := runActs_inv wf (storeActs exp w) _ inv
  exact ⟨h1, h2, (inv'.markerComplete h1).1⟩

/-- store_success_then_hit: in every reachable state (any interleaving, crashes, failures) in
    which the marker is valid, a load is a HIT and serves exactly the pinned module files —
    so "store returned nil ⇒ the next load is a hit with exactly the files", and after
    `later_store_repairs` the repaired entry loads. -/
theorem store_success_then_hit (exp : Expected) (wf : WF exp) (hside : SidesOutsideFiles exp)
    (n : Nat) (acts : List Act)
    (h : markerOK (runActs exp (init n) acts).entry = true) :
    load exp (runActs exp (init n) acts).entry = .hit (moduleFilesOf (runActs exp (init n) acts).entry) ∧
      sameSet (moduleFilesOf (runActs exp (init n) acts).entry) (exp.files.filter fun f => isModuleFile f.1) = true := by
  have inv := runActs_inv wf acts (init n) (init_inv exp n)
  obtain ⟨hc, hm⟩ := inv.markerComplete h
  exact complete_loads_hit exp hside _ hc hm inv.keys inv.nodupKeys

/-- provider_never_returns_missing: the cache provider either yields a load result that is not a
    miss, or an error. -/
theorem provider_never_returns_missing (r1 : LoadResult) (putOk : Bool) (r2 : LoadResult) :
    provider r1 putOk r2 ≠ .value .miss := by
  unfold provider
  cases r1 <;> cases putOk <;> cases r2 <;> simp

-- non-vacuity
def exExp : Expected :=
  { files := [("a.proto".toList, "A"), ("x.txt".toList, "X")], sides := [("v1_buf_yaml/buf.yaml".toList, "Y")] }
example : WF exExp := ⟨by decide, by decide⟩
example : SidesOutsideFiles exExp := by intro s hs; simp [exExp] at hs; subst hs; decide
example : (runActs exExp (init 2) [.acquire 0, .truncate 0, .fill 0, .crash 0, .acquire 1, .truncate 1, .fill 1,
    .truncate 1, .fill 1, .truncate 1, .fill 1, .commit 1]).entry.find markerPath = some markerCanonical := by decide
example : (match load exExp (runActs exExp (init 2) [.acquire 0, .truncate 0, .fill 0, .crash 0, .acquire 1, .truncate 1, .fill 1,
    .truncate 1, .fill 1, .truncate 1, .fill 1, .commit 1]).entry with | .hit _ => true | _ => false) = true := by decide

end BufProofs.C09
