import BufModel.Faults
import BufGen.AstFacts
import BufProofs.Lemmas.BucketLemmas
import BufProofs.Lemmas.FaultLemmas
/-
  C15 — Write failures are always reported; atomic puts are all-or-nothing.
-/
namespace BufProofs.C15
open BufModel.Path BufModel.Bucket BufModel.Faults
/-- The regenerated source facts: in the current tree every deferred Close of the storage
    helpers is joined into the named return value.  (If someone changes one of them to join a
    stale variable, this `decide` fails and the proof leg breaks.) -/
theorem facts_hold : BufGen.AstFacts.facts = Facts.allTrue := by decide

/-- no_silent_failure, one object (PutPath, CopyReader, CopyReadObject, ForWriteObject — all
    have the shape Put; defer Close-join; write): for EVERY fault schedule, if the helper
    reports success then no fault fired and the destination holds the complete content. -/
theorem writeObj_ok (s : Sched) (d d' : Dest) (path : Str) (chunks : List Content)
    (h : writeObj true s d path chunks = (false, d')) :
    d'.fired = d.fired ∧ ∃ p, validatePath path = .ok p ∧
      d'.mem = (p, joinContent chunks) :: d.mem.erase p := by
  unfold writeObj at h
  split at h
  · simp at h
  · cases hv : validatePath path with
    | error e => rw [hv] at h; simp at h
    | ok p =>
      rw [hv] at h
      simp only at h
      have herr := congrArg Prod.fst h
      have hd := congrArg Prod.snd h
      simp only [deferJoin_true, Bool.or_eq_false_iff] at herr
      obtain ⟨hw, hc⟩ := herr
      have hwn : (writeChunks s path 0 chunks).2 = none := by
        cases hh : (writeChunks s path 0 chunks).2 with
        | none => rfl
        | some f => rw [hh] at hw; simp at hw
      have hall := writeChunks_none s path 0 chunks hwn
      subst hd
      simp only [hwn, hc, hall]
      exact ⟨by simp, p, rfl, rfl⟩

/-- Conversely every scheduled fault that is reached makes the helper fail. -/
theorem fault_implies_error_put (s : Sched) (d : Dest) (path : Str) (chunks : List Content)
    (h : s.has ⟨path, .put, 0⟩ = true) : (writeObj true s d path chunks).1 = true := by
  unfold writeObj; simp [h]

theorem fault_implies_error_close (s : Sched) (d : Dest) (path : Str) (chunks : List Content)
    (h : s.has ⟨path, .close, 0⟩ = true) : (writeObj true s d path chunks).1 = true := by
  unfold writeObj
  split
  · rfl
  · cases hv : validatePath path with
    | error e => simp
    | ok p => simp [h]

theorem fault_implies_error_write (s : Sched) (d : Dest) (path : Str) (chunks : List Content) (k : Nat)
    (hk : k < chunks.length) (h : s.has ⟨path, .write, k⟩ = true) :
    (writeObj true s d path chunks).1 = true := by
  unfold writeObj
  split
  · rfl
  · cases hv : validatePath path with
    | error e => simp
    | ok p =>
      have := writeChunks_fault s path 0 chunks k hk (by simpa using h)
      simp [this]

/-- … whatever order the scheduler ran the jobs in (every permutation). -/
theorem copyAll_verdict_schedule_independent (fx : Facts) (s : Sched) (d₁ d₂ : Dest)
    (jobs₁ jobs₂ : List (Str × List Content)) (hperm : jobs₁.Perm jobs₂) :
    (copyAll fx s d₁ jobs₁).1 = (copyAll fx s d₂ jobs₂).1 := by
  rw [copyAll_err_iff_any, copyAll_err_iff_any]
  exact hperm.any_eq

/-- no_silent_failure for storage.Copy: success ⇒ no fault fired, every job counted, and every
    object is in the destination in full (paths are the distinct validated paths of a walk). -/
theorem copyAll_ok (s : Sched) (jobs : List (Str × List Content)) (d d' : Dest) (n : Nat)
    (hvalid : ∀ j ∈ jobs, validatePath j.1 = .ok j.1)
    (hnodup : (jobs.map (·.1)).Nodup)
    (h : copyAll Facts.allTrue s d jobs = (false, d', n)) :
    d'.fired = d.fired ∧ n = jobs.length ∧
      (∀ j ∈ jobs, d'.mem.find j.1 = some (joinContent j.2)) ∧
      (∀ k, k ∉ jobs.map (·.1) → d'.mem.find k = d.mem.find k) := by
  induction jobs generalizing d n with
  | nil => simp [copyAll] at h; obtain ⟨h1, h2⟩ := h; subst h1; subst h2; simp
  | cons j rest ih =>
    obtain ⟨p, cs⟩ := j
    simp only [copyAll] at h
    have h1 := congrArg Prod.fst h
    have h2 := congrArg (fun x => x.2.1) h
    have h3 := congrArg (fun x => x.2.2) h
    simp only [Bool.or_eq_false_iff] at h1 h2 h3
    obtain ⟨hj, hrest⟩ := h1
    have hjw : writeObj true s d p cs = (false, (copyPath Facts.allTrue s d p cs).2) := by
      have : (copyPath Facts.allTrue s d p cs) = writeObj true s d p cs := by
        simp [copyPath, Facts.allTrue]
      rw [← this]; exact Prod.ext hj rfl
    obtain ⟨hf, q, hq, hmem⟩ := writeObj_ok s d _ p cs hjw
    have hpq : q = p := by
      have := hvalid (p, cs) (by simp); simp only at this; rw [this] at hq; injection hq with e; exact e.symm
    subst hpq
    simp only [List.map, List.nodup_cons] at hnodup
    obtain ⟨ihf, ihn, ihall, ihframe⟩ :=
      ih (copyPath Facts.allTrue s d q cs).2 (copyAll Facts.allTrue s (copyPath Facts.allTrue s d q cs).2 rest).2.2
        (fun j hj => hvalid j (List.mem_cons_of_mem _ hj)) hnodup.2
        (by rw [← h2]; exact Prod.ext hrest (Prod.ext rfl rfl))
    refine ⟨by rw [ihf, hf], ?_, ?_, ?_⟩
    · rw [← h3, hj, ihn]; simp; omega
    · intro j hjm
      rcases List.mem_cons.mp hjm with e | hr
      · subst e
        rw [ihframe q hnodup.1, hmem, find_cons_eq]
      · exact ihall j hr
    · intro k hk
      simp only [List.map, List.mem_cons, not_or] at hk
      rw [ihframe k hk.2, hmem, find_cons_ne _ _ _ _ (fun e => hk.1 e.symm), find_erase_ne _ _ _ (fun e => hk.1 e.symm)]

/-- no_silent_failure for Untar / Unzip: success ⇒ no fault fired. -/
theorem untarAll_ok (s : Sched) (entries : List (Str × List Content)) (d d' : Dest)
    (h : untarAll Facts.allTrue s d entries = (false, d')) : d'.fired = d.fired := by
  induction entries generalizing d with
  | nil => simp [untarAll] at h; rw [← h]
  | cons e rest ih =>
    obtain ⟨name, cs⟩ := e
    simp only [untarAll] at h
    cases hu : unmapArchivePath name 0 (fun _ => true) with
    | error er => rw [hu] at h; simp at h
    | ok o =>
      rw [hu] at h
      cases o with
      | none => exact ih d h
      | some p =>
        simp only at h
        split at h
        · simp at h
        · rename_i hne
          have hw : writeObj true s d p cs = (false, (writeObj true s d p cs).2) := by
            have : (writeObj true s d p cs).1 = false := by simpa [Facts.allTrue] using hne
            exact Prod.ext this rfl
          obtain ⟨hf, _⟩ := writeObj_ok s d _ p cs hw
          have := ih _ h
          simpa [Facts.allTrue, hf] using this

/-- The test that derives the facts is not vacuous: the stale-variable shape of the recorded
    copyPath defect, a Close that is not joined at all, and a helper that no longer exists are
    all rejected. -/
theorem joinsNamed_rejects :
    joinsNamed { found := true, named := "retErr", defers := [("retErr", "err", "r.Close()")] } = false ∧
    joinsNamed { found := true, named := "retErr", defers := [] } = false ∧
    joinsNamed { found := true, named := "", defers := [("err", "err", "r.Close()")] } = false ∧
    joinsNamed { found := false, named := "retErr", defers := [("retErr", "retErr", "r.Close()")] } = false := by
  decide

/-- Why the facts matter: a helper whose defer joins a stale variable OVERWRITES the write error
    with the (nil) Close error — the failed write is reported as success. -/
theorem stale_defer_drops_write_error :
    (writeObj false [⟨"a".toList, .write, 0⟩] ⟨[], []⟩ "a".toList ["x"]).1 = false := by decide

/-- The targets an archive extraction must produce: validated destination path ↦ content. -/
def untarTargets : List (Str × List Content) → List (Str × Content)
  | [] => []
  | (name, cs) :: rest =>
    match unmapArchivePath name 0 (fun _ => true) with
    | .ok (some p) =>
      (match validatePath p with
        | .ok q => (q, joinContent cs) :: untarTargets rest
        | .error _ => untarTargets rest)
    | _ => untarTargets rest

/-- no_silent_failure for Untar, completeness half: success ⇒ every entry that maps to a
    destination path is there in full (distinct destination paths), nothing else changed. -/
theorem untarAll_complete (s : Sched) (entries : List (Str × List Content)) (d d' : Dest)
    (hnodup : ((untarTargets entries).map (·.1)).Nodup)
    (h : untarAll Facts.allTrue s d entries = (false, d')) :
    (∀ t ∈ untarTargets entries, d'.mem.find t.1 = some t.2) ∧
    (∀ k, k ∉ (untarTargets entries).map (·.1) → d'.mem.find k = d.mem.find k) := by
  induction entries generalizing d with
  | nil => simp [untarAll] at h; subst h; simp [untarTargets]
  | cons e rest ih =>
    obtain ⟨name, cs⟩ := e
    simp only [untarAll] at h
    cases hu : unmapArchivePath name 0 (fun _ => true) with
    | error er => rw [hu] at h; simp at h
    | ok o =>
      rw [hu] at h
      cases o with
      | none =>
        have e : untarTargets ((name, cs) :: rest) = untarTargets rest := by simp [untarTargets, hu]
        rw [e] at hnodup ⊢
        exact ih d hnodup h
      | some p =>
        simp only at h
        split at h
        · simp at h
        · rename_i hne
          have hw : writeObj true s d p cs = (false, (writeObj true s d p cs).2) := by
            have : (writeObj true s d p cs).1 = false := by simpa [Facts.allTrue] using hne
            exact Prod.ext this rfl
          obtain ⟨_, q, hq, hmem⟩ := writeObj_ok s d _ p cs hw
          have e : untarTargets ((name, cs) :: rest) = (q, joinContent cs) :: untarTargets rest := by
            simp [untarTargets, hu, hq]
          rw [e] at hnodup ⊢
          simp only [List.map, List.nodup_cons] at hnodup
          have h' : untarAll Facts.allTrue s (writeObj true s d p cs).2 rest = (false, d') := by
            simpa [Facts.allTrue] using h
          obtain ⟨ihall, ihframe⟩ := ih _ hnodup.2 h'
          refine ⟨?_, ?_⟩
          · intro t ht
            rcases List.mem_cons.mp ht with e1 | hr
            · subst e1
              rw [ihframe q hnodup.1, hmem, find_cons_eq]
            · exact ihall t hr
          · intro k hk
            simp only [List.map, List.mem_cons, not_or] at hk
            rw [ihframe k hk.2, hmem, find_cons_ne _ _ _ _ (fun e => hk.1 e.symm), find_erase_ne _ _ _ (fun e => hk.1 e.symm)]

/-- Unzip goes through copyZipFile; with the current facts it behaves exactly like Untar, so
    `untarAll_ok` and `untarAll_complete` cover it. -/
theorem unzipAll_eq_untarAll (s : Sched) (entries : List (Str × List Content)) (d : Dest) :
    unzipAll Facts.allTrue s d entries = untarAll Facts.allTrue s d entries := by
  induction entries generalizing d with
  | nil => rfl
  | cons e rest ih =>
    obtain ⟨name, cs⟩ := e
    simp only [unzipAll, untarAll]
    cases unmapArchivePath name 0 (fun _ => true) with
    | error er => rfl
    | ok o =>
      cases o with
      | none => exact ih d
      | some p =>
        simp only [copyZipFile, Facts.allTrue, deferJoin_true, Bool.or_false]
        by_cases hc : (writeObj true s d p cs).1 = true
        · simp [hc]
        · simp only [hc, if_false]; exact ih _

/-- Tar / Zip into an io.Writer: a failure of the body OR of the archive writer's Close (which
    writes the trailer) is reported — and with a stale-variable defer the body error would be
    lost. -/
theorem archive_writer_reports (body close : Bool) :
    tarOut Facts.allTrue body close = (body || close) ∧ zipOut Facts.allTrue body close = (body || close) ∧
    archiveOut false true false = false := by
  simp [tarOut, zipOut, archiveOut, Facts.allTrue, deferJoin]

/-- The recorded finding (fixed in /repo a3d0d8c): with the pre-fix `copyPath` (its defer joined
    the stale Get error) a failed destination Put is reported as success. -/
theorem copyPath_counterexample :
    let fx : Facts := { Facts.allTrue with copyPath := false }
    let s : Sched := [⟨"a".toList, .put, 0⟩]
    (copyAll fx s ⟨[], []⟩ [("a".toList, ["x"])]).1 = false ∧
    (copyAll fx s ⟨[], []⟩ [("a".toList, ["x"])]).2.1.mem = [] := by decide

/-- The generated-file flush reports a failure of ANY output location (not only the last one),
    and reports success only if every output was flushed. -/
theorem flush_reports_any_failure (fails : List Bool) :
    (flushOuts fails).1 = fails.any id ∧ ((flushOuts fails).1 = false → (flushOuts fails).2 = fails.length) := by
  induction fails with
  | nil => simp [flushOuts]
  | cons f rest ih =>
    unfold flushOuts
    cases f with
    | true => simp
    | false =>
      simp only [Bool.false_eq_true, if_false, List.any_cons, id, Bool.false_or, List.length_cons]
      exact ⟨ih.1, fun h => by rw [ih.2 h]⟩

/-! ### Atomic put -/

/-- A fault-free atomic put ends with the complete new content and no temp file. -/
theorem atomic_success (old : Option Content) (chunks : List Content) :
    atomicRun old chunks none = (false, { final := some (joinContent chunks), temp := none }) := by
  unfold atomicRun
  simp only [reduceCtorEq, if_false, atomicWrites_noFail, Bool.false_eq_true, Bool.or_self, decide_false]
  have h1 : aStep { final := old, temp := none } AStep.createTemp = { final := old, temp := some "" } := rfl
  rw [h1]
  have h2 := wfold_temp old "" chunks
  simp only [aStep, h2]
  simp

/-- atomic_all_or_nothing, failure half: whichever single step fails (createTemp, any write, the
    file close, the rename), the put reports an error, the object at the final path is exactly
    the previous one and no temp object remains. -/
theorem atomic_failed_leaves_old (old : Option Content) (chunks : List Content) (k : Nat)
    (hk : k ≤ chunks.length + 2) :
    atomicRun old chunks (some k) = (true, { final := old, temp := none }) := by
  unfold atomicRun
  by_cases h0 : k = 0
  · subst h0; simp
  · have hne : ¬ (some k = some 0) := by simp [h0]
    rw [if_neg hne]
    have hfin := atomicWrites_final (some k) (aStep { final := old, temp := none } .createTemp) 1 false chunks
    have hfin' : (atomicWrites (some k) (aStep { final := old, temp := none } .createTemp) 1 false chunks).1.final = old := by
      rw [hfin]; rfl
    simp only
    by_cases hw : k ≤ chunks.length
    · have hb := atomicWrites_hits k chunks (aStep { final := old, temp := none } .createTemp) 1 false (by omega) (by omega)
      rw [hb]; simp only [Bool.true_or, if_true]; rw [hfin']
    · by_cases h2 : k = chunks.length + 1
      · have : decide (some k = some (chunks.length + 1)) = true := by simp [h2]
        rw [this]; simp only [Bool.or_true, if_true]; rw [hfin']
      · have h3 : k = chunks.length + 2 := by omega
        split
        · rw [hfin']
        · have : some k = some (chunks.length + 2) := by rw [h3]
          rw [if_pos this, hfin']

/-- atomic_all_or_nothing, every-instant half: after ANY number of steps of an atomic put (the
    state a concurrent reader sees, and the state a crash leaves behind) the object at the final
    path is the previous content — until the rename — or the complete new content — after it. -/
theorem atomic_prefix_old_or_new (old : Option Content) (chunks : List Content) (j : Nat) :
    (atomicPrefix old chunks j).final = old ∨
      (atomicPrefix old chunks j).final = some (joinContent chunks) := by
  unfold atomicPrefix atomicSteps
  have e : [AStep.createTemp] ++ chunks.map AStep.write ++ [AStep.closeFile, AStep.rename] =
      ([AStep.createTemp] ++ chunks.map AStep.write ++ [AStep.closeFile]) ++ [AStep.rename] := by simp
  by_cases hj : j ≤ chunks.length + 2
  · left
    rw [e, List.take_append_of_le_length (by simp; omega)]
    rw [foldl_no_rename_final]
    intro st hst
    have hm := List.mem_of_mem_take hst
    simp at hm
    rcases hm with h | ⟨c, _, h⟩ | h
    · rw [h]; simp
    · rw [← h]; simp
    · rw [h]; simp
  · right
    have hlen : ([AStep.createTemp] ++ chunks.map AStep.write ++ [AStep.closeFile, AStep.rename]).length ≤ j := by
      simp; omega
    rw [List.take_of_length_le hlen]
    simp only [List.foldl_append, List.foldl_cons, List.foldl_nil, List.foldl_map]
    have h1 : aStep { final := old, temp := none } AStep.createTemp = { final := old, temp := some "" } := rfl
    rw [h1]
    have h2 := wfold_temp old "" chunks
    unfold wfold at h2
    show (aStep (aStep (List.foldl (fun d c => aStep d (AStep.write c)) { final := old, temp := some "" } chunks)
      AStep.closeFile) AStep.rename).final = some (joinContent chunks)
    show (List.foldl (fun d c => aStep d (AStep.write c)) { final := old, temp := some "" } chunks).temp = _
    rw [h2]; simp

/-- atomic_all_or_nothing under CONCURRENT puts of one path: two atomic puts (each with its own
    temp file, as `os.CreateTemp` guarantees) interleaved in ANY way — after any number of steps
    of any schedule, what a reader finds at the final path is the previous content, or the
    complete content of the one put, or the complete content of the other; never a mixture,
    never a prefix. -/
theorem atomic_concurrent_old_or_new (old : Option Content) (ca cb : List Content) (sched : List Bool) (j : Nat) :
    (concurrentPrefix false old ca cb sched j).final = old ∨
    (concurrentPrefix false old ca cb sched j).final = some (joinContent ca) ∨
    (concurrentPrefix false old ca cb sched j).final = some (joinContent cb) := by
  unfold concurrentPrefix
  exact merge2_good old ca cb _ sched _ _ _ (Nat.le_refl _) (winv_start ca) (winv_start cb) (Or.inl rfl) j

/-- Why the temp name must be fresh per put: with one fixed temp name the second put truncates
    the first one's data and the first then publishes a mixture. -/
theorem shared_temp_counterexample :
    (concurrentPrefix true (some "OLD") ["A1", "A2"] ["B1"] [true, true, false, false, true, true, true] 7).final
      = some "B1A2" := by
  simp [concurrentPrefix, atomicSteps, merge2, cStep]

example : (concurrentPrefix false (some "OLD") ["A1", "A2"] ["B1"] [true, true, false, false, true, true, true] 7).final
      = some "A1A2" := by
  simp [concurrentPrefix, atomicSteps, merge2, cStep]

/-- Recorded finding (`atomic-put-producer-failure-published`, not repaired: `WriteObjectCloser`
    has no way to abort): when the producer of the content fails between Put and Close — no
    Write fails — the deferred Close of the helpers publishes the truncated temp file.  The
    theorems above quantify over Put / Write / Close / Rename failures and crashes, as the
    property's quantifier does; this witness shows the all-or-nothing clause is false for
    producer failures. -/
theorem atomic_producer_failure_counterexample :
    atomicProducerFail (some "OLD") ["AB", "CD"] 1 = (true, { final := some "AB", temp := none }) := by decide

/-- By contrast a non-atomic put exposes truncated content (why the cache marker must be
    written atomically). -/
theorem nonatomic_may_truncate :
    plainPrefix (some "OLD") ["AB", "CD"] 2 = some "AB" := by decide

/-- The temp object of an atomic put exists only strictly between createTemp and rename; before
    the put and after its last step the directory holds no temp object.  (While the put is in
    progress a `Walk` of a disk bucket can see the temp file — a different object from the one
    being put; recorded in DESIGN.md.) -/
theorem atomic_temp_window (old : Option Content) (chunks : List Content) :
    (atomicPrefix old chunks 0).temp = none ∧
    (∀ j, chunks.length + 3 ≤ j → (atomicPrefix old chunks j).temp = none) := by
  refine ⟨rfl, ?_⟩
  intro j hj
  have := atomic_success old chunks
  unfold atomicPrefix atomicSteps
  have hlen : ([AStep.createTemp] ++ chunks.map AStep.write ++ [AStep.closeFile, AStep.rename]).length ≤ j := by
    simp; omega
  rw [List.take_of_length_le hlen]
  simp only [List.foldl_append, List.foldl_cons, List.foldl_nil, List.foldl_map]
  have h1 : aStep { final := old, temp := none } AStep.createTemp = { final := old, temp := some "" } := rfl
  rw [h1]
  have h2 := wfold_temp old "" chunks
  unfold wfold at h2
  simp [aStep, h2]

-- non-vacuity

example : writeObj true [] ⟨[], []⟩ "a//b".toList ["x", "y"] = (false, ⟨[("a/b".toList, "xy")], []⟩) := by decide

example : (writeObj true [⟨"a".toList, .write, 1⟩] ⟨[], []⟩ "a".toList ["x", "y"]).1 = true := by decide

example : atomicRun (some "OLD") ["AB", "CD"] (some 2) = (true, { final := some "OLD", temp := none }) := by decide

/-! ### Error values: a write failing inside a Walk callback is reported whatever it looks like -/

/-- With the repaired walk (an error of the callback is returned as it is) every helper shape,
    on a disk or memory source, reports a failing Put / Write / Close of the destination for
    EVERY error value — ENOENT in a *PathError, io.EOF, filepath.SkipDir, context.Canceled,
    wrapped or joined: nothing is mistaken for "the prefix does not exist" or "skip". -/
theorem walk_copy_reports_every_error_value (disk : Bool) (h : WalkHelper) (p : Prim) (e : ErrV) :
    (walkCopy .fixed disk h p e).isSome = true := by
  unfold walkCopy diskWalkReturn
  cases disk <;> rfl

/-- A memory source never looked at the value (under any rule of the disk walk). -/
theorem walk_copy_memory_reports (rule : WalkRule) (h : WalkHelper) (p : Prim) (e : ErrV) :
    (walkCopy rule false h p e).isSome = true := rfl

/-- AS CODED before the repair, the helpers of the tree (`WalkReadObjects`, export.go, `copyPath`)
    still report every error value out of a disk source — but only because each of them happens
    to wrap the callback's error in `errors.Join`, which `os.IsNotExist` and `==` cannot see
    through. -/
theorem as_coded_joining_helpers_report (h : WalkHelper) (hh : h ≠ .walkBare) (p : Prim) (e : ErrV) :
    (walkCopy .asCoded true h p e).isSome = true := by
  cases h <;> first | exact absurd rfl hh | (cases p <;> rfl)

/-- … and a loop that returns the write error as it is loses it: a Put failing with a bare
    `*fs.PathError{ENOENT}` (the destination path is a dangling symlink) makes the disk walk stop
    and return nil.  `Walk`'s contract ("if f returns error, Walk will stop short and return this
    error") is broken as coded; recorded finding `walk-callback-write-failure-not-reported`. -/
theorem as_coded_bare_loop_swallows_not_exist_counterexample :
    walkCopy .asCoded true .walkBare .put (.pathError .enoent) = none ∧
    walkCopy .asCoded true .walkBare .put (.sentinel .skipDir) = none ∧
    walkCopy .asCoded false .walkBare .put (.pathError .enoent) = some (.pathError .enoent) := by decide

/-- The as-coded rule swallows exactly the values `os.IsNotExist` accepts and a bare SkipDir. -/
theorem as_coded_swallows_iff (e : ErrV) :
    diskWalkReturn .asCoded e = none ↔ (e = .sentinel .skipDir ∨ osIsNotExist e = true) := by
  unfold diskWalkReturn
  by_cases h1 : e = .sentinel .skipDir
  · simp [h1]
  · by_cases h2 : osIsNotExist e = true
    · simp [h1, h2]
    · simp [h1, h2]

/-- Seed C15-m5 (`errors.Is(err, fs.ErrNotExist)` instead of `os.IsNotExist(err)`): now the
    joins no longer protect — `WalkReadObjects` + `CopyReadObject` out of a disk source with a
    Write failing with ENOENT returns nil. -/
theorem errors_is_rule_swallows_wrapped_counterexample :
    walkCopy .errorsIs true .wroCopyReadObject .write (.pathError .enoent) = none ∧
    walkCopy .asCoded true .wroCopyReadObject .write (.pathError .enoent) ≠ none := by decide

/-- `errors.Is` sees through every wrapper that `os.IsNotExist` does not: the two rules differ
    exactly on wrapped / joined values. -/
theorem osIsNotExist_implies_errorsIs (e : ErrV) (h : osIsNotExist e = true) : errorsIsNotExist e = true := by
  cases e <;> simp_all [osIsNotExist, errorsIsNotExist]

/-- A stale directory listing: the repaired walk visits every surviving entry … -/
theorem fixed_walk_visits_every_survivor (l : List Bool) :
    visitStale .fixed l = (l.filter (!·)).length := by
  induction l with
  | nil => rfl
  | cons g rest ih =>
    cases g
    · simp [visitStale, ih]; omega
    · simp [visitStale, ih]

/-- … as coded it stops at the first vanished entry and reports success (recorded finding
    `walk-truncated-by-vanished-entry`): here the temp file of a concurrent atomic Put is renamed
    away before it is visited and the two objects behind it are never seen. -/
theorem as_coded_walk_truncated_counterexample :
    visitStale .asCoded [false, false, false, true, false, false] = 3 ∧
    visitStale .fixed [false, false, false, true, false, false] = 5 := by decide

-- non-vacuity
example : walkCopy .fixed true .walkBare .put (.pathError .enoent) = some (.pathError .enoent) := by decide
example : walkCopy .asCoded true .wroPutPath .close (.sentinel .eof) = some (.join1 (.join1 (.sentinel .eof))) := by decide
example : errorsIsNotExist (.wrap (.join2 (.sentinel .eof) (.pathError .enoent))) = true ∧
    osIsNotExist (.wrap (.join2 (.sentinel .eof) (.pathError .enoent))) = false := by decide

/-! ### REAL failures of the file behind a disk put (close(2) / write(2); harness part X) -/

/-- The correspondence includes the real-close cases: for a PLAIN put on a disk bucket, a file
    whose `write(2)` / `close(2)` really fails behaves — error AND destination — exactly like the
    wrapper's write / close fault of part A (`writeObj`): what reached the file stays, the failure
    is joined into the helper's result.  For every schedule, helper plumbing and path. -/
theorem real_plain_put_is_wrapper_fault (joins : Bool) (s : Sched) (d : Dest) (path : Str)
    (chunks : List Content) :
    realPut .asCoded joins false s d path chunks = writeObj joins s d path chunks := by
  unfold realPut writeObj
  split
  · rfl
  · cases validatePath path with
    | error e => rfl
    | ok p => simp [osClose]

/-- storageos' Close as coded returns the result of `file.Close()` — for a plain put as it is,
    for an atomic put joined with the recorded write error — and renames only when nothing
    failed. -/
theorem osClose_reports_every_failure (c : OsClose) :
    (osClose .asCoded c).1 = (c.fileCloseErr || (c.atomic && (c.writeErr || c.renameErr))) ∧
    ((osClose .asCoded c).2 = (!c.atomic || !(c.writeErr || c.fileCloseErr || c.renameErr))) := by
  obtain ⟨a, w, f, r⟩ := c
  cases a <;> cases w <;> cases f <;> cases r <;> decide

/-- no_silent_failure for real failures, one object, plain or atomic: for EVERY schedule, if the
    helper reports success then no `write(2)` and no `close(2)` failed and the destination holds
    the complete content. -/
theorem realPut_ok (atomic : Bool) (s : Sched) (d d' : Dest) (path : Str) (chunks : List Content)
    (h : realPut .asCoded true atomic s d path chunks = (false, d')) :
    d'.fired = d.fired ∧ s.has ⟨path, .close, 0⟩ = false ∧ (writeChunks s path 0 chunks).2 = none ∧
      ∃ p, validatePath path = .ok p ∧ d'.mem = (p, joinContent chunks) :: d.mem.erase p := by
  cases atomic with
  | false =>
    rw [real_plain_put_is_wrapper_fault] at h
    obtain ⟨hf, p, hp, hm⟩ := writeObj_ok s d d' path chunks h
    refine ⟨hf, ?_, ?_, p, hp, hm⟩
    · cases hc : s.has ⟨path, .close, 0⟩ with
      | false => rfl
      | true => have := fault_implies_error_close s d path chunks hc; rw [h] at this; simp at this
    · cases hw : (writeChunks s path 0 chunks).2 with
      | none => rfl
      | some f =>
        exfalso
        unfold writeObj at h
        split at h
        · simp at h
        · cases hv : validatePath path with
          | error e => rw [hv] at h; simp at h
          | ok q => rw [hv] at h; simp [hw] at h
  | true =>
    unfold realPut at h
    split at h
    · simp at h
    · cases hv : validatePath path with
      | error e => rw [hv] at h; simp at h
      | ok p =>
        rw [hv] at h
        simp only at h
        have herr := congrArg Prod.fst h
        have hd := congrArg Prod.snd h
        simp only [deferJoin_true, Bool.or_eq_false_iff] at herr
        obtain ⟨hw, hc⟩ := herr
        have hwn : (writeChunks s path 0 chunks).2 = none := by
          cases hh : (writeChunks s path 0 chunks).2 with
          | none => rfl
          | some f => rw [hh] at hw; simp at hw
        have hall := writeChunks_none s path 0 chunks hwn
        have hcl : s.has ⟨path, .close, 0⟩ = false := by
          cases hcc : s.has ⟨path, .close, 0⟩ with
          | false => rfl
          | true => simp [osClose, hwn, hcc] at hc
        subst hd
        refine ⟨by simp [hwn, hcl], hcl, hwn, p, rfl, ?_⟩
        simp [osClose, hwn, hcl, hall]

/-- Conversely a failing `close(2)` is reported by every helper whose deferred Close joins the
    named return, plain or atomic … -/
theorem real_close_failure_reported (atomic : Bool) (s : Sched) (d : Dest) (path : Str)
    (chunks : List Content) (h : s.has ⟨path, .close, 0⟩ = true) :
    (realPut .asCoded true atomic s d path chunks).1 = true := by
  unfold realPut
  split
  · rfl
  · cases validatePath path with
    | error e => rfl
    | ok p => cases atomic <;> simp [osClose, h]

/-- … and so is a failing `write(2)`. -/
theorem real_write_failure_reported (atomic : Bool) (s : Sched) (d : Dest) (path : Str)
    (chunks : List Content) (k : Nat) (hk : k < chunks.length) (h : s.has ⟨path, .write, k⟩ = true) :
    (realPut .asCoded true atomic s d path chunks).1 = true := by
  unfold realPut
  split
  · rfl
  · cases validatePath path with
    | error e => rfl
    | ok p =>
      have := writeChunks_fault s path 0 chunks k hk (by simpa using h)
      simp [this]

/-- atomic_all_or_nothing for real failures: an atomic put whose `write(2)` or `close(2)` failed
    leaves the destination exactly as it was (the previous object or none) — whatever the
    helper's plumbing — and a successful one holds the complete content. -/
theorem real_atomic_put_all_or_nothing (joins : Bool) (s : Sched) (d : Dest) (path : Str)
    (chunks : List Content) (hput : s.has ⟨path, .put, 0⟩ = false) :
    (realPut .asCoded joins true s d path chunks).2.mem = d.mem ∨
    ∃ p, validatePath path = .ok p ∧
      (realPut .asCoded joins true s d path chunks).2.mem = (p, joinContent chunks) :: d.mem.erase p := by
  unfold realPut
  simp only [hput, Bool.false_eq_true, if_false]
  cases hv : validatePath path with
  | error e => exact Or.inl rfl
  | ok p =>
    cases hw : (writeChunks s path 0 chunks).2 with
    | some f => exact Or.inl (by simp [osClose, hw])
    | none =>
      cases hc : s.has ⟨path, .close, 0⟩ with
      | true => exact Or.inl (by simp [osClose, hw, hc])
      | false =>
        refine Or.inr ⟨p, rfl, ?_⟩
        simp [osClose, hw, hc, writeChunks_none s path 0 chunks hw]

/-- The decision of the atomic branch is the step machine's: error and final object of `realPut`
    agree with `atomicRun` failing at the corresponding step (write k = step k+1, the file close
    = step n+1). -/
theorem real_atomic_put_agrees_with_atomicRun (s : Sched) (d : Dest) (p : Str) (chunks : List Content)
    (hput : s.has ⟨p, .put, 0⟩ = false) (hv : validatePath p = .ok p)
    (hw : (writeChunks s p 0 chunks).2 = none) :
    let failAt := if s.has ⟨p, .close, 0⟩ then some (chunks.length + 1) else none
    let r := realPut .asCoded true true s d p chunks
    r.1 = (atomicRun (d.mem.find p) chunks failAt).1 ∧
      r.2.mem.find p = (atomicRun (d.mem.find p) chunks failAt).2.final := by
  cases hc : s.has ⟨p, .close, 0⟩ with
  | true =>
    simp only [if_true]
    rw [atomic_failed_leaves_old _ _ _ (by omega)]
    unfold realPut
    simp [hput, hv, hw, hc, osClose]
  | false =>
    simp only [Bool.false_eq_true, if_false]
    rw [atomic_success]
    unfold realPut
    simp [hput, hv, hw, hc, osClose, writeChunks_none s p 0 chunks hw, find_cons_eq]

/-- no_silent_failure for the multi-object helpers under real failures (storage.Copy: `par`;
    Untar / Unzip / walk loops: sequential): success ⇒ no `write(2)` / `close(2)` of any object
    failed. -/
theorem realAll_ok (par atomic : Bool) (outer : Option Bool) (houter : outer = none ∨ outer = some true)
    (s : Sched) (jobs : List (Str × List Content)) (d d' : Dest) (n : Nat)
    (h : realAll .asCoded par true outer atomic s d jobs = (false, d', n)) :
    d'.fired = d.fired ∧
      ∀ j ∈ jobs, s.has ⟨j.1, .close, 0⟩ = false ∧ (writeChunks s j.1 0 j.2).2 = none := by
  induction jobs generalizing d n with
  | nil => simp [realAll] at h; obtain ⟨h1, _⟩ := h; subst h1; simp
  | cons j rest ih =>
    obtain ⟨p, cs⟩ := j
    have hstep : ∃ n', (realPut .asCoded true atomic s d p cs).1 = false ∧
        realAll .asCoded par true outer atomic s (realPut .asCoded true atomic s d p cs).2 rest = (false, d', n') := by
      rcases houter with e | e <;> subst e <;> cases par <;>
        simp only [realAll, deferJoin_true, Bool.or_false, Bool.false_eq_true, if_false, if_true] at h
      all_goals
        cases hr : (realPut .asCoded true atomic s d p cs).1 with
        | true => simp [hr] at h
        | false =>
          simp only [hr, Bool.false_or, Bool.false_eq_true, if_false] at h
          have h1 := congrArg Prod.fst h
          have h2 := congrArg (fun x => x.2.1) h
          simp only at h1 h2
          exact ⟨_, rfl, Prod.ext h1 (Prod.ext h2 rfl)⟩
    obtain ⟨n', hr, hrest⟩ := hstep
    obtain ⟨hf, hc, hw, _⟩ := realPut_ok atomic s d _ p cs (Prod.ext hr rfl)
    obtain ⟨ihf, ihall⟩ := ih _ n' hrest
    refine ⟨by rw [ihf, hf], ?_⟩
    intro j hj
    rcases List.mem_cons.mp hj with e | hm
    · subst e; exact ⟨hc, hw⟩
    · exact ihall j hm

/-- Seed C15-m8 (`Close` ends with `return nil`): the result of `file.Close()` of a PLAIN put is
    dropped — PutPath over a file whose close fails reports success — while the atomic branch is
    unchanged; and the second Close no longer answers storage.ErrClosed. -/
theorem close_drops_plain_close_error_counterexample :
    (realPut .dropsPlainCloseError true false [⟨"a".toList, .close, 0⟩] ⟨[], []⟩ "a".toList ["x"]).1 = false ∧
    (realPut .asCoded true false [⟨"a".toList, .close, 0⟩] ⟨[], []⟩ "a".toList ["x"]).1 = true ∧
    (realPut .dropsPlainCloseError true true [⟨"a".toList, .close, 0⟩] ⟨[], []⟩ "a".toList ["x"]).1 = true ∧
    secondCloseIsErrClosed .dropsPlainCloseError false = false ∧
    (∀ a, secondCloseIsErrClosed .asCoded a = true) := by decide

/-- Seed C09-m7 (the atomic `Close` no longer consults the recorded write error): the helper
    still returns the write error, but the torn temp file is renamed over the previous object. -/
theorem close_ignores_write_error_counterexample :
    let s : Sched := [⟨"a".toList, .write, 1⟩]
    let d : Dest := ⟨[("a".toList, "OLD")], []⟩
    (realPut .ignoresWriteErr true true s d "a".toList ["x", "y"]) = (true, ⟨[("a".toList, "x")], [⟨"a".toList, .write, 1⟩]⟩) ∧
    (realPut .asCoded true true s d "a".toList ["x", "y"]).2.mem = [("a".toList, "OLD")] := by decide

-- non-vacuity
example : realAll .asCoded true true (some true) false [⟨"b".toList, .close, 0⟩] ⟨[], []⟩
    [("a".toList, ["x"]), ("b".toList, ["y", "z"])] =
    (true, ⟨[("b".toList, "yz"), ("a".toList, "x")], [⟨"b".toList, .close, 0⟩]⟩, 1) := by decide
example : realAll .asCoded false true none true [⟨"a".toList, .close, 0⟩] ⟨[("a".toList, "OLD")], []⟩
    [("a".toList, ["x"]), ("b".toList, ["y"])] = (true, ⟨[("a".toList, "OLD")], [⟨"a".toList, .close, 0⟩]⟩, 0) := by decide
example : realAll .asCoded true true (some true) true [] ⟨[("a".toList, "OLD")], []⟩
    [("a".toList, ["x"]), ("b".toList, ["y"])] = (false, ⟨[("b".toList, "y"), ("a".toList, "x")], []⟩, 2) := by decide

/-! ### Pre-existing destinations (strengthening S6F, harness part E) -/

/-- A plain put (wrapper faults or real `write(2)`/`close(2)` failures alike) REPLACES the object:
    for every schedule that lets the Put through, whatever the destination held at `p` before —
    longer, shorter, of equal length, nothing — afterwards it holds exactly what THIS put wrote
    (all chunks, or the chunks before the first failing write). -/
theorem plain_put_overwrite_exact (joins : Bool) (s : Sched) (d : Dest) (path p : Str)
    (chunks : List Content) (hput : s.has ⟨path, .put, 0⟩ = false) (hv : validatePath path = .ok p) :
    (writeObj joins s d path chunks).2.mem.find p = some (joinContent (writeChunks s path 0 chunks).1) := by
  unfold writeObj
  simp only [hput, Bool.false_eq_true, if_false, hv]
  exact find_cons_eq _ _ _

/-- … and no other object of the destination changes (the bystanders of part E). -/
theorem plain_put_overwrite_frame (joins : Bool) (s : Sched) (d : Dest) (path p q : Str)
    (chunks : List Content) (hv : validatePath path = .ok p) (hq : p ≠ q) :
    (writeObj joins s d path chunks).2.mem.find q = d.mem.find q := by
  unfold writeObj
  split
  · rfl
  · simp only [hv]
    rw [find_cons_ne _ _ _ _ hq, find_erase_ne _ _ _ hq]

/-- no_silent_failure over previous content, one object, plain or atomic, real failures: success ⇒
    the object is exactly the complete new content — nothing of the previous content survives. -/
theorem overwrite_success_exact (atomic : Bool) (s : Sched) (d d' : Dest) (path : Str)
    (chunks : List Content) (h : realPut .asCoded true atomic s d path chunks = (false, d')) :
    ∃ p, validatePath path = .ok p ∧ d'.mem.find p = some (joinContent chunks) ∧
      ∀ q, p ≠ q → d'.mem.find q = d.mem.find q := by
  obtain ⟨_, _, _, p, hp, hm⟩ := realPut_ok atomic s d d' path chunks h
  refine ⟨p, hp, ?_, ?_⟩
  · rw [hm]; exact find_cons_eq _ _ _
  · intro q hq; rw [hm, find_cons_ne _ _ _ _ hq, find_erase_ne _ _ _ hq]

/-- atomic_all_or_nothing over previous content, at full strength: an atomic put that returns an
    error (a `write(2)` or the `close(2)` failed) leaves the WHOLE destination exactly as it was —
    the previous object of any length included. -/
theorem failed_atomic_put_keeps_previous (s : Sched) (d d' : Dest) (path : Str) (chunks : List Content)
    (hput : s.has ⟨path, .put, 0⟩ = false)
    (h : realPut .asCoded true true s d path chunks = (true, d')) : d'.mem = d.mem := by
  unfold realPut at h
  simp only [hput, Bool.false_eq_true, if_false] at h
  cases hv : validatePath path with
  | error e => rw [hv] at h; simp only at h; rw [← (Prod.mk.inj h).2]
  | ok p =>
    rw [hv] at h
    simp only at h
    obtain ⟨herr, hd⟩ := Prod.mk.inj h
    subst hd
    cases hw : (writeChunks s path 0 chunks).2 with
    | some f => simp [osClose]
    | none =>
      cases hc : s.has ⟨path, .close, 0⟩ with
      | true => simp [osClose]
      | false => simp [osClose, hw, hc] at herr

/-- Opening with truncation: the file is what was written, whatever it held. -/
theorem overwrite_truncates (old : Option (List Char)) (w : List Char) :
    overwriteBytes .truncates old w = w := by
  cases old <;> rfl

/-- Seed C15-m9 is INVISIBLE from a fresh destination … -/
theorem keepsTail_invisible_without_previous (w : List Char) : overwriteBytes .keepsTail none w = w := rfl

/-- … and from any previous content that is not LONGER than the new one: without `O_TRUNC` the
    result is the new content exactly when `old.length ≤ written.length`.  (Why the fault
    enumeration from empty destinations, and part X's short `OLDa`, could not see it.) -/
theorem keepsTail_correct_iff (o w : List Char) :
    overwriteBytes .keepsTail (some o) w = w ↔ o.length ≤ w.length := by
  unfold overwriteBytes
  simp only
  constructor
  · intro h
    have h2 : (w ++ List.drop w.length o).length = w.length := by rw [h]
    simp only [List.length_append, List.length_drop] at h2
    omega
  · intro h
    rw [List.drop_eq_nil_of_le h, List.append_nil]

/-- Longer previous content: the file is neither the new content nor (unless the new content
    happens to be a prefix of it) the previous content. -/
theorem keepsTail_neither_old_nor_new (o w : List Char) (hlen : w.length < o.length) :
    overwriteBytes .keepsTail (some o) w ≠ w ∧
    (w ≠ o.take w.length → overwriteBytes .keepsTail (some o) w ≠ o) := by
  refine ⟨fun h => by have := (keepsTail_correct_iff o w).mp h; omega, ?_⟩
  intro hne h
  apply hne
  unfold overwriteBytes at h
  simp only at h
  have := congrArg (List.take w.length) h
  simpa using this

/-- `plainPrefix` (the model's plain put observed step by step) is the truncating instance. -/
theorem plainPrefix_eq_truncates (old : Option Content) (chunks : List Content) (j : Nat) :
    plainPrefixWith .truncates old chunks j = plainPrefix old chunks j := by
  unfold plainPrefixWith plainPrefix overwrite
  split
  · rfl
  · rw [overwrite_truncates, String.ofList_toList]

/-- Seed C15-m9 in the model: PutPath of "new" over "0123456789" with every call returning nil
    leaves "new3456789" — neither the previous nor the complete new content — where the coded
    `os.Create` leaves "new"; equal-length and shorter previous contents do not show it. -/
theorem open_without_trunc_counterexample :
    overwrite .keepsTail (some "0123456789") "new" = "new3456789" ∧
    overwrite .truncates (some "0123456789") "new" = "new" ∧
    overwrite .keepsTail (some "abc") "new" = "new" ∧
    overwrite .keepsTail (some "ab") "new" = "new" ∧
    overwrite .keepsTail none "new" = "new" ∧
    plainPrefixWith .keepsTail (some "0123456789") ["ne", "w"] 1 = some "0123456789" ∧
    plainPrefix (some "0123456789") ["ne", "w"] 1 = some "" ∧
    (writeObj true [] ⟨[("a".toList, "0123456789")], []⟩ "a".toList ["ne", "w"]).2.mem = [("a".toList, "new")] := by
  decide

-- non-vacuity: an overwrite that succeeds, one whose close fails (plain: what was written stays;
-- atomic: the previous content stays)
example : realPut .asCoded true false [] ⟨[("a".toList, "LONGER-OLD"), ("k".toList, "KEEP")], []⟩ "a".toList ["x"] =
    (false, ⟨[("a".toList, "x"), ("k".toList, "KEEP")], []⟩) := by decide
example : realPut .asCoded true true [⟨"a".toList, .close, 0⟩] ⟨[("a".toList, "LONGER-OLD")], []⟩ "a".toList ["x"] =
    (true, ⟨[("a".toList, "LONGER-OLD")], [⟨"a".toList, .close, 0⟩]⟩) := by decide
example : realPut .asCoded true false [⟨"a".toList, .close, 0⟩] ⟨[("a".toList, "LONGER-OLD")], []⟩ "a".toList ["x"] =
    (true, ⟨[("a".toList, "x")], [⟨"a".toList, .close, 0⟩]⟩) := by decide

/-! ### A reader open across an overwrite (harness part E5) -/

/-- all-or-nothing as a READER sees it: a reader opened on the previous content and kept open
    across ANY sequence of completed puts of the same path, puts of other paths, in-flight writers
    (same path, other paths, other buckets) and their closes, interleaved with its own reads,
    delivers exactly the previous content — never a byte of a later put. -/
theorem reader_across_overwrite_reads_previous (old : List Char) (ops : List ROp) :
    (readerAcross .asCoded old ops).1 = old := by
  unfold readerAcross
  simp only
  rw [closeAll_got]
  obtain ⟨hs, hg⟩ := rfold_inv old ops _ (rinv_init old)
  show (List.foldl (rStep .asCoded) (RSt.init old) ops).got ++
      ((List.foldl (rStep .asCoded) (RSt.init old) ops).snap.drop (List.foldl (rStep .asCoded) (RSt.init old) ops).pos).take
        (List.foldl (rStep .asCoded) (RSt.init old) ops).snap.length = old
  rw [hs, hg, ← List.take_add]
  exact List.take_of_length_le (by omega)

/-- The object at the path afterwards is the content of the last completed put of that path
    (here: one overwrite, no writer of the same path in flight). -/
theorem reader_across_overwrite_object (old new : List Char) (k : Nat) :
    readerAcross .asCoded old [.read k, .put new] = (old, new) := by
  refine Prod.ext (reader_across_overwrite_reads_previous old _) ?_
  simp [readerAcross, rStep, RSt.init, donate, scribble]

/-- Seed C15-m10 in the model (the replaced object's array seeds the next writer's buffer): the
    reader opened on "OLDOLD" delivers "xyDOLD" after an unrelated, still unpublished writer wrote
    "xy"; as coded it delivers "OLDOLD". -/
theorem recycled_buffer_counterexample :
    readerAcross .recycles "OLDOLD".toList [.put "NEW".toList, .wOther "xy".toList] = ("xyDOLD".toList, "NEW".toList) ∧
    readerAcross .asCoded "OLDOLD".toList [.put "NEW".toList, .wOther "xy".toList] = ("OLDOLD".toList, "NEW".toList) ∧
    readerAcross .recycles "OLDOLD".toList [.read 3, .put "NEW".toList, .wOther "xyzw".toList] = ("OLDwLD".toList, "NEW".toList) := by
  decide

example : readerAcross .asCoded "abc".toList [.read 1, .wSame "S".toList, .put "N".toList, .read 1, .closeW] =
    ("abc".toList, "S".toList) := by decide

end BufProofs.C15
