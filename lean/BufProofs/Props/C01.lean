import BufProofs.Lemmas.BuildImageLemmas
import BufProofs.Lemmas.TargetModelsAgree
/-
  C01 — An image is the exact, closed, ordered compilation of the targeted files.
  Property theorems only (over `BufModel.Targeting.buildImage`, which is what Driver/C01 runs; the
  compiler is the parameter `c`, `perm` the order in which it returns the root files).
  Helper lemmas: BufProofs/Lemmas (GraphLemmas: shared DFS invariant; DfsLemmas: fuel, failure,
  set agreement; TargetCharLemmas: targeting; BuildImageLemmas: the pipeline as a whole).

  First pass (conditional on `buildImage … = .ok img`): `image_nodup`, `image_closed`,
  `image_minimal`, `image_topological`, `image_flags`, `targets_exact`, `sort_canonical`,
  `dup_path_rejected`.
  Second pass (answers handoff/AUDIT.md §C01):
  * targeting characterised — `map_has_equal_or_containing_path_iff`, `is_target_file_paths`,
    `is_target_file_proto_ref`, `module_target_files_exact`, `target_list_exact`,
    `targets_exact_files`, `nontarget_files_are_imports`, `target_models_agree` (= C11's model);
  * success / fuel — `fuel_suffices`, `build_succeeds_of_roots`, `build_succeeds`,
    `target_list_succeeds`;
  * failure — `unopenable_import_fails`, `import_cycle_fails`, `build_fails_iff`.
-/
namespace BufProofs.C01
open BufModel.Path BufModel.Graph BufModel.Targeting

/-- each path once. -/
theorem image_nodup (t : TWS) (c : Compiler) (perm : List Str → List Str) (img : List ImgFile)
    (h : buildImage t c perm = .ok img) : (img.map (·.path)).Nodup := by
  obtain ⟨roots, vis, order, _, hdfs, _, _, himg⟩ := buildImage_ok h
  obtain ⟨⟨new, e, _, _, nd, _, _, _⟩, _⟩ := dfsRoots_post _ _ _ _ _ hdfs
  simp only [List.nil_append] at e
  subst e; subst himg
  rw [map_mk_path]; exact nd

/-- closed: every file the compiler says an image file imports is in the image. -/
theorem image_closed (t : TWS) (c : Compiler) (perm : List Str → List Str) (img : List ImgFile)
    (h : buildImage t c perm = .ok img) :
    ∀ f ∈ img, ∀ d ∈ c.imports f.path, d ∈ img.map (·.path) := by
  obtain ⟨roots, vis, order, _, hdfs, _, _, himg⟩ := buildImage_ok h
  obtain ⟨⟨new, e, m, _, _, _, cl, _⟩, _⟩ := dfsRoots_post _ _ _ _ _ hdfs
  simp only [List.nil_append] at e
  subst e; subst himg
  intro f hf d hd
  rw [map_mk_path]
  obtain ⟨p, hp, rfl⟩ := List.mem_map.mp hf
  obtain ⟨cs, hs, hc⟩ := cl p hp
  simp only [mkImgFile_path] at hd
  have hcs : cs = c.imports p := by
    unfold csucc at hs
    split at hs
    · injection hs with hs; exact hs.symm
    · exact absurd hs (by simp)
  subst hcs
  have := (m d).mp (hc d hd)
  simpa using this

/-- minimal: every image file is a target or reachable from one through imports. -/
theorem image_minimal (t : TWS) (c : Compiler) (perm : List Str → List Str) (img : List ImgFile)
    (h : buildImage t c perm = .ok img) :
    ∃ roots, targetList t = .ok roots ∧ ∀ f ∈ img, ∃ r ∈ roots, Reach (csucc t.ws c) r f.path := by
  obtain ⟨roots, vis, order, hroots, hdfs, _, _, himg⟩ := buildImage_ok h
  obtain ⟨⟨new, e, _, _, _, rch, _, _⟩, _⟩ := dfsRoots_post _ _ _ _ _ hdfs
  simp only [List.nil_append] at e
  subst e; subst himg
  refine ⟨roots, hroots, ?_⟩
  intro f hf
  obtain ⟨p, hp, rfl⟩ := List.mem_map.mp hf
  exact rch p hp

/-- topological: every import of an image file stands strictly before it. -/
theorem image_topological (t : TWS) (c : Compiler) (perm : List Str → List Str) (img : List ImgFile)
    (h : buildImage t c perm = .ok img) :
    ∀ pre f post, img = pre ++ f :: post → ∀ d ∈ c.imports f.path, d ∈ pre.map (·.path) := by
  obtain ⟨roots, vis, order, _, _, htopo, _, himg⟩ := buildImage_ok h
  intro pre f post hsplit d hd
  subst himg
  obtain ⟨l1, l2', hl, hpre, hrest⟩ := List.map_eq_append_iff.mp hsplit
  obtain ⟨x, l2, hl2, hx, _⟩ := List.map_eq_cons_iff.mp hrest
  subst hl2; subst hl
  obtain ⟨cs, hs, hc⟩ := isTopo_sound _ _ _ htopo l1 x l2 rfl
  subst hx
  simp only [mkImgFile_path] at hd
  have hcs : cs = c.imports x := by
    unfold csucc at hs
    split at hs
    · injection hs with hs; exact hs.symm
    · exact absurd hs (by simp)
  subst hcs
  have := hc d hd
  rw [← hpre, map_mk_path]
  simpa using this

/-- For an acyclic import relation the order check inside `buildImage` never rejects the DFS
    order: a failure of that check really is an import cycle.  Stated for a generic `succ` and
    GLOBAL acyclicity; the connection to `buildImage` is `build_succeeds_of_roots` /
    `build_fails_iff`, which use the sharper form (acyclicity only below the roots) of the same
    argument, and `import_cycle_fails` for the converse. -/
theorem dfs_order_topological_of_acyclic {α : Type} [DecidableEq α] (succ : α → Option (List α))
    (hac : ∀ x cs c, succ x = some cs → c ∈ cs → ¬ Reach succ c x)
    (fuel : Nat) (roots vis order : List α) (h : dfsRoots succ fuel roots = .ok (vis, order)) :
    isTopo succ [] order = true := by
  obtain ⟨⟨new, e, _, _, _, _, cl, ord⟩, _⟩ := dfsRoots_post _ _ _ _ _ h
  simp only [List.nil_append] at e
  subst e
  apply ordFrom_acyclic_isTopo succ hac order [] _ ord
  intro x hx hn
  obtain ⟨cs, hs, _⟩ := cl x hx
  rw [hn] at hs; exact absurd hs (by simp)

/-- flags: a file is marked import exactly when it is not one of the targeted files. -/
theorem image_flags (t : TWS) (c : Compiler) (perm : List Str → List Str) (img : List ImgFile)
    (h : buildImage t c perm = .ok img) :
    ∃ roots, targetList t = .ok roots ∧ ∀ f ∈ img, (f.isImport = true ↔ f.path ∉ roots) := by
  obtain ⟨roots, vis, order, hroots, _, _, _, himg⟩ := buildImage_ok h
  refine ⟨roots, hroots, ?_⟩
  subst himg
  intro f hf
  obtain ⟨p, _, rfl⟩ := List.mem_map.mp hf
  simp [mkImgFile]

/-- the non-import files of the image are exactly the targeted files (all of them, nothing else). -/
theorem targets_exact (t : TWS) (c : Compiler) (perm : List Str → List Str) (img : List ImgFile)
    (h : buildImage t c perm = .ok img) :
    ∃ roots, targetList t = .ok roots ∧
      ∀ p, p ∈ roots ↔ ∃ f ∈ img, f.path = p ∧ f.isImport = false := by
  obtain ⟨roots, vis, order, hroots, hdfs, _, _, himg⟩ := buildImage_ok h
  obtain ⟨⟨new, e, m, _, _, _, _, _⟩, rts⟩ := dfsRoots_post _ _ _ _ _ hdfs
  simp only [List.nil_append] at e
  subst e; subst himg
  refine ⟨roots, hroots, ?_⟩
  intro p
  constructor
  · intro hp
    have hin : p ∈ order := by have := (m p).mp (rts p hp); simpa using this
    exact ⟨mkImgFile t.ws c roots p, List.mem_map.mpr ⟨p, hin, rfl⟩, rfl, by simp [mkImgFile, hp]⟩
  · rintro ⟨f, hf, rfl, hi⟩
    obtain ⟨q, _, rfl⟩ := List.mem_map.mp hf
    simp only [mkImgFile, Bool.not_eq_false', decide_eq_true_eq] at hi
    exact hi

/-- The result does not depend on the order in which the compiler hands back the compiled root
    files: any permutation gives the same image (or the same error).
    THIN BY CONSTRUCTION (audit C01 weak point 5): the compiler's output enters the model only as
    `perm roots`, and the model's `checkAndSortFiles` validates that list (length, no empty name,
    no duplicate, every root present) and then returns `roots` verbatim — exactly as
    build_image.go does (it re-indexes the compiled files by the input path order).  So the
    content of this theorem is `checkAndSortFiles_perm`: the four validations are multiset
    properties.  It says nothing about the order in which protocompile schedules work or reports
    one of several errors; that is excluded by the generator (one planted defect per workspace). -/
theorem sort_canonical (t : TWS) (c : Compiler) (perm : List Str → List Str)
    (hperm : ∀ l, (perm l).Perm l) : buildImage t c perm = buildImage t c id := by
  unfold buildImage
  split
  · rfl
  · rename_i roots _
    rw [checkAndSortFiles_perm (hperm roots)]
    rfl

/-- `newImage` never lets an image with a repeated path through. -/
theorem dup_path_rejected (files fs : List ImgFile) (h : newImage files = .ok fs) :
    (fs.map (·.path)).Nodup := by
  have hfs := newImage_ok h
  subst hfs
  unfold newImage at h
  split at h; · exact absurd h (by simp)
  split at h
  · exact absurd h (by simp)
  · rename_i u hgo
    cases u
    exact (newImage_go_nodup fs [] [] hgo).1

/-- Error clause (partial, MODEL-ONLY): the diagnostic buf reports for a compiler error keeps the
    compiler's line and column and carries the external (user-given) path recorded for the file.
    This is a statement about the three-line model function `annotate` over a free resolver
    `externalOf`; `annotate` is NOT run by Driver/C01 (the driver handles only `img` lines), so
    there is no model/implementation correspondence for it.  The clause "diagnostics positioned at
    the offending file:line:column using the path the user gave" is checked by the ORACLE ONLY
    (harness/cmd/c01 section B: planted unknown type / duplicate field number / syntax error at a
    known line:column, classes `annotation-position`, `no-diagnostics`).  That the compiler
    positions its errors at the offending token is library behaviour (protocompile).  The
    "no image" half of the clause IS proved: `unopenable_import_fails`, `import_cycle_fails`,
    `build_fails_iff`; syntax/type errors have no representation in `Compiler`. -/
theorem annotation_position_partial (externalOf : Str → Option Str) (e : CompilerError) (x : Str)
    (hx : externalOf e.file = some x) (hne : x ≠ []) :
    annotate externalOf e = { externalPath := x, line := e.line, col := e.col } := by
  simp [annotate, hx, hne]

/-! ## Second pass

### Targeting characterised (audit C01 weak point 1) -/

/-- `normalpath.MapHasEqualOrContainingPath m p` ⇔ some entry of `m` equals or contains `p`
    (component-wise; the Dir-walk with fuel of the model is eliminated). -/
theorem map_has_equal_or_containing_path_iff (m : List Str) (p : Str) :
    mapHasEqualOrContainingPath m p = true ↔ ∃ q ∈ m, equalsOrContainsPath q p = true :=
  mapHas_iff m p

/-- `getIsTargetFileForPathUncached`, user-level reading without a proto-file reference:
    target file ⇔ the module is targeted ∧ (no `--path` given ∨ some `--path` equals or contains
    the file) ∧ no `--exclude-path` equals or contains it. -/
theorem is_target_file_paths (t : TWS) (m : Nat) (f : PFile) (hpf : (cfgOf t m).protoFile = []) :
    isTargetIn t m f = true ↔
      modIsTarget t m = true ∧
      ((cfgOf t m).paths = [] ∨ ∃ q ∈ (cfgOf t m).paths, equalsOrContainsPath q f.path = true) ∧
      (∀ q ∈ (cfgOf t m).excludes, equalsOrContainsPath q f.path = false) :=
  isTargetFile_paths_iff _ _ _ f hpf

/-- … with a proto-file reference (`buf build a/b.proto`, `#include_package_files=true`): the
    referenced file is a target; with include_package_files so is every file of the module whose
    package equals the non-empty package of the referenced file (if the module has that file —
    with shared roots it may not, then nothing else is targeted). -/
theorem is_target_file_proto_ref (t : TWS) (m : Nat) (f : PFile) (hpf : (cfgOf t m).protoFile ≠ [])
    (hnd : ((modFiles t.ws m).map (·.path)).Nodup) :
    isTargetIn t m f = true ↔
      modIsTarget t m = true ∧
      (f.path = (cfgOf t m).protoFile ∨
        ((cfgOf t m).includePackageFiles = true ∧
          ∃ g ∈ modFiles t.ws m, g.path = (cfgOf t m).protoFile ∧ g.pkg ≠ [] ∧ g.pkg = f.pkg)) :=
  isTargetFile_protoFile_iff_mem _ _ _ f hpf hnd

/-- `moduleReadBucket.WalkFileInfos(WithOnlyTargetFiles)` — the per-`--path` walk with the
    seen-set, or the whole-bucket walk — yields exactly the target files of the module.
    Side condition `WfCfg`: no proto-file reference together with `--path` (AddLocalModule rejects
    that combination); without it only soundness (→) holds, `mem_moduleTargetFiles_sound`. -/
theorem module_target_files_exact (t : TWS) (m : Nat) (f : PFile) (hwf : WfCfg (cfgOf t m)) :
    f ∈ (moduleTargetFiles t m).1 ↔ f ∈ modFiles t.ws m ∧ isTargetIn t m f = true :=
  mem_moduleTargetFiles hwf

/-- `GetTargetFileInfos` → the root list handed to the compiler: sorted, duplicate-free, and a
    path is a root iff it is the path of a file `f` of a module `m` with `isTargetIn t m f`.
    No dedup / first-wins is involved: when a path is a target file twice `targetList` fails with
    `dupPath` (that is the `roots.Nodup` conjunct read backwards). -/
theorem target_list_exact (t : TWS) (roots : List Str) (hwf : WfCfgs t) (h : targetList t = .ok roots) :
    roots.Pairwise (fun a b => strLe a b = true) ∧ roots.Nodup ∧ roots ≠ [] ∧
    ∀ p, p ∈ roots ↔ ∃ m f, f ∈ modFiles t.ws m ∧ isTargetIn t m f = true ∧ f.path = p :=
  ⟨targetList_sorted h, targetList_nodup h, targetList_ne_nil h, mem_targetList hwf h⟩

/-- `targets_exact` with the target decision spelled out (DESIGN §6: `nonImports = {f | isTarget
    cfg f}`): the files of the image marked non-import are exactly the paths of the target files. -/
theorem targets_exact_files (t : TWS) (c : Compiler) (perm : List Str → List Str) (img : List ImgFile)
    (hwf : WfCfgs t) (h : buildImage t c perm = .ok img) (p : Str) :
    (∃ f ∈ img, f.path = p ∧ f.isImport = false) ↔
      ∃ m g, g ∈ modFiles t.ws m ∧ isTargetIn t m g = true ∧ g.path = p := by
  obtain ⟨roots, hroots, hex⟩ := targets_exact t c perm img h
  rw [← hex p, mem_targetList hwf hroots]

/-- Non-target files enter an image only as imports.  For every file `f` of a built image:
    (1) `f` is marked non-import iff it is a target file; (2) `f` is reachable through the
    compiler's import lists from some target file; (3) if a module that is NOT targeted provides
    `f`'s path then `f` is marked import. -/
theorem nontarget_files_are_imports (t : TWS) (c : Compiler) (perm : List Str → List Str)
    (img : List ImgFile) (hwf : WfCfgs t) (h : buildImage t c perm = .ok img) :
    ∀ f ∈ img,
      (f.isImport = false ↔ ∃ m g, g ∈ modFiles t.ws m ∧ isTargetIn t m g = true ∧ g.path = f.path) ∧
      (∃ m g, g ∈ modFiles t.ws m ∧ isTargetIn t m g = true ∧ Reach (csucc t.ws c) g.path f.path) ∧
      (∀ m, modIsTarget t m = false → (∃ g ∈ modFiles t.ws m, g.path = f.path) → f.isImport = true) :=
  nontarget_files_core t c perm img hwf h

/-- The two models of the target-file decision agree (audit C01 weak point 6): without a
    proto-file reference — the only case C11's `BufModel.ImagePaths.isTargetFile` covers — it
    computes the same Boolean as `BufModel.Targeting.isTargetFile` (C01/C10), for every module
    flag, `--path` / `--exclude-path` lists and file. -/
theorem target_models_agree (mt : Bool) (cfg : TCfg) (files : List PFile) (f : PFile)
    (fs : List BufModel.ImagePaths.File) (hpf : cfg.protoFile = []) :
    isTargetFile mt cfg files f =
      BufModel.ImagePaths.isTargetFile
        { isTarget := mt, targetPaths := cfg.paths, excludePaths := cfg.excludes, files := fs } f.path :=
  isTargetFile_eq_imagePaths mt cfg files f fs hpf

/-! ### Success and fuel (audit C01 weak point 2) -/

/-- Fuel suffices: for EVERY workspace, targeting, compiler and return order `buildImage` never
    reports `.fuel` (the bound `|allPaths| + |roots| + 1` exceeds the number of openable paths). -/
theorem fuel_suffices (t : TWS) (c : Compiler) (perm : List Str → List Str) :
    buildImage t c perm ≠ .error .fuel :=
  buildImage_ne_fuel t c perm

/-- `GetTargetFileInfos` succeeds when every bucket lists a path once, no path is a target file
    of two modules, a targeted module walked without `--path` has a .proto file, and at least one
    file is targeted. -/
theorem target_list_succeeds (t : TWS) (hwf : WfCfgs t)
    (hfiles : ∀ m, ((modFiles t.ws m).map (·.path)).Nodup)
    (hdisj : ∀ m m' f f', m ≠ m' → f ∈ modFiles t.ws m → f' ∈ modFiles t.ws m' →
      isTargetIn t m f = true → isTargetIn t m' f' = true → f.path ≠ f'.path)
    (hnonempty : ∀ m, m < t.ws.mods.length → modIsTarget t m = true → (cfgOf t m).paths = [] →
      (modFiles t.ws m).isEmpty = false)
    (hsome : ∃ m f, f ∈ modFiles t.ws m ∧ isTargetIn t m f = true) :
    ∃ roots, targetList t = .ok roots :=
  targetList_ok_of t hwf hfiles hdisj hnonempty hsome

/-- Buildable ⇒ an image exists (given the root list): every path reachable from a root opens
    (exactly one module provides it, or none and it is a built-in WKT — this is also "no
    duplicate path among the reachable files"), no reachable file lies on an import cycle, the
    compiler returns the roots in some permutation, one commit per module name, no empty root
    name → `buildImage` returns an image.  This is where `dfs_order_topological_of_acyclic` meets
    `buildImage`: under `hac` the DFS order passes the `isTopo` check. -/
theorem build_succeeds_of_roots (t : TWS) (c : Compiler) (perm : List Str → List Str) (roots : List Str)
    (hroots : targetList t = .ok roots)
    (hopen : ∀ r ∈ roots, ∀ p, Reach (csucc t.ws c) r p → csucc t.ws c p ≠ none)
    (hac : ∀ r ∈ roots, ∀ x, Reach (csucc t.ws c) r x → ∀ cs d, csucc t.ws c x = some cs → d ∈ cs →
      ¬ Reach (csucc t.ws c) d x)
    (hperm : (perm roots).Perm roots) (hcommit : OneCommitPerName t.ws) (hpathne : ∀ r ∈ roots, r ≠ []) :
    ∃ img, buildImage t c perm = .ok img :=
  buildImage_ok_of_roots t c perm roots hroots hopen hac hperm hcommit hpathne

/-- Buildable ⇒ an image exists, stated on the workspace alone (nothing about `targetList`):
    well-formed targeting options; every bucket lists a path once, no empty path; a targeted
    module walked without `--path` has a .proto file; at least one target file; everything
    reachable from a target file opens; nothing reachable lies on an import cycle; the compiler
    returns the roots in some permutation; one commit per module name. -/
theorem build_succeeds (t : TWS) (c : Compiler) (perm : List Str → List Str) (hwf : WfCfgs t)
    (hfiles : ∀ m, ((modFiles t.ws m).map (·.path)).Nodup)
    (hpathne : ∀ m f, f ∈ modFiles t.ws m → f.path ≠ [])
    (hnonempty : ∀ m, m < t.ws.mods.length → modIsTarget t m = true → (cfgOf t m).paths = [] →
      (modFiles t.ws m).isEmpty = false)
    (hsome : ∃ m f, f ∈ modFiles t.ws m ∧ isTargetIn t m f = true)
    (hopen : ∀ m f, f ∈ modFiles t.ws m → isTargetIn t m f = true →
      ∀ p, Reach (csucc t.ws c) f.path p → csucc t.ws c p ≠ none)
    (hac : ∀ m f, f ∈ modFiles t.ws m → isTargetIn t m f = true →
      ∀ x, Reach (csucc t.ws c) f.path x → ∀ cs d, csucc t.ws c x = some cs → d ∈ cs →
        ¬ Reach (csucc t.ws c) d x)
    (hperm : ∀ l, (perm l).Perm l) (hcommit : OneCommitPerName t.ws) :
    ∃ img, buildImage t c perm = .ok img := by
  -- a target path two modules provide could not be opened: disjointness follows from `hopen`
  have hdisj : ∀ m m' f f', m ≠ m' → f ∈ modFiles t.ws m → f' ∈ modFiles t.ws m' →
      isTargetIn t m f = true → isTargetIn t m' f' = true → f.path ≠ f'.path := by
    intro m m' f f' hne hf hf' ht _ hp
    have hdup := owner_dup_of_two hne ⟨f, hf, rfl⟩ ⟨f', hf', hp.symm⟩
    have hn : csucc t.ws c f.path = none :=
      csucc_none_iff.mpr (openFile_error_iff.mpr (Or.inl hdup))
    exact hopen m f hf ht f.path (Reach.refl _) hn
  obtain ⟨roots, hroots⟩ := targetList_ok_of t hwf hfiles hdisj hnonempty hsome
  apply buildImage_ok_of_roots t c perm roots hroots _ _ (hperm roots) hcommit
  · intro r hr
    obtain ⟨m, f, hf, _, rfl⟩ := mem_targetList_sound hroots hr
    exact hpathne m f hf
  · intro r hr
    obtain ⟨m, f, hf, ht, rfl⟩ := mem_targetList_sound hroots hr
    exact hopen m f hf ht
  · intro r hr
    obtain ⟨m, f, hf, ht, rfl⟩ := mem_targetList_sound hroots hr
    exact hac m f hf ht

/-! ### "Does not compile ⇒ no image" (audit C01 weak point 4) -/

/-- A path reachable from a target through the compiler's import lists that cannot be opened —
    nobody provides it and it is no built-in well-known type, or two modules provide it — ⇒ no
    image. -/
theorem unopenable_import_fails (t : TWS) (c : Compiler) (perm : List Str → List Str)
    (roots : List Str) (hroots : targetList t = .ok roots) (r p : Str) (hr : r ∈ roots)
    (hreach : Reach (csucc t.ws c) r p) (hnone : csucc t.ws c p = none) :
    ∃ e, buildImage t c perm = .error e :=
  buildImage_error_of_unopenable t c perm roots hroots r p hr hreach hnone

/-- `csucc … = none` spelled out: the owner lookup reports a duplicate, or nobody provides the path
    and it is not a built-in well-known type. -/
theorem unopenable_iff (ws : WS) (c : Compiler) (p : Str) :
    csucc ws c p = none ↔ owner ws p = .dup ∨ (owner ws p = .none ∧ isWkt ws p = false) := by
  rw [csucc_none_iff, openFile_error_iff]

/-- A reachable file on an import cycle ⇒ no image. -/
theorem import_cycle_fails (t : TWS) (c : Compiler) (perm : List Str → List Str)
    (roots : List Str) (hroots : targetList t = .ok roots) (r x d : Str) (cs : List Str) (hr : r ∈ roots)
    (hreach : Reach (csucc t.ws c) r x) (hs : csucc t.ws c x = some cs) (hd : d ∈ cs)
    (hcyc : Reach (csucc t.ws c) d x) :
    ∃ e, buildImage t c perm = .error e :=
  buildImage_error_of_cycle t c perm roots hroots r x d cs hr hreach hs hd hcyc

/-- Exactly when a build fails (once the root list exists and the side conditions on the compiler's
    return order, commits and names hold): some reachable path cannot be opened, or some reachable
    file lies on an import cycle.  No spurious failure, no missed one. -/
theorem build_fails_iff (t : TWS) (c : Compiler) (perm : List Str → List Str) (roots : List Str)
    (hroots : targetList t = .ok roots) (hperm : (perm roots).Perm roots)
    (hcommit : OneCommitPerName t.ws) (hpathne : ∀ r ∈ roots, r ≠ []) :
    (∃ e, buildImage t c perm = .error e) ↔
      (∃ r ∈ roots, ∃ p, Reach (csucc t.ws c) r p ∧ csucc t.ws c p = none) ∨
      (∃ r ∈ roots, ∃ x cs d, Reach (csucc t.ws c) r x ∧ csucc t.ws c x = some cs ∧ d ∈ cs ∧
        Reach (csucc t.ws c) d x) := by
  constructor
  · rintro ⟨e, he⟩
    apply Classical.byContradiction
    intro hno
    have hopen : ∀ r ∈ roots, ∀ p, Reach (csucc t.ws c) r p → csucc t.ws c p ≠ none :=
      fun r hr p hp hn => hno (Or.inl ⟨r, hr, p, hp, hn⟩)
    have hac : ∀ r ∈ roots, ∀ x, Reach (csucc t.ws c) r x → ∀ cs d, csucc t.ws c x = some cs → d ∈ cs →
        ¬ Reach (csucc t.ws c) d x :=
      fun r hr x hx cs d hs hd hc => hno (Or.inr ⟨r, hr, x, cs, d, hx, hs, hd, hc⟩)
    obtain ⟨img, himg⟩ := buildImage_ok_of_roots t c perm roots hroots hopen hac hperm hcommit hpathne
    rw [himg] at he; cases he
  · rintro (⟨r, hr, p, hp, hn⟩ | ⟨r, hr, x, cs, d, hx, hs, hd, hc⟩)
    · exact buildImage_error_of_unopenable t c perm roots hroots r p hr hp hn
    · exact buildImage_error_of_cycle t c perm roots hroots r x d cs hr hx hs hd hc

/-! non-vacuity: a two-module workspace whose target imports a file of the other module and a
    well-known type -/
def exWs : TWS :=
  { ws := { mods := [ { files := [{ path := "a.proto".toList, imports := ["b.proto".toList, "google/protobuf/any.proto".toList] }],
                        isTarget := true, isLocal := true },
                      { files := [{ path := "b.proto".toList, imports := [] }, { path := "c.proto".toList, imports := [] }],
                        isTarget := false, isLocal := true, name := some 1, commit := 0 } ],
            wkt := [{ path := "google/protobuf/any.proto".toList, imports := [] }] },
    cfgs := [{}, {}] }

def exC : Compiler :=
  { imports := fun p => if p = "a.proto".toList then ["b.proto".toList, "google/protobuf/any.proto".toList] else []
    unused := fun _ => []
    syntaxUnspecified := fun _ => false }

example : (buildImage exWs exC id).map (fun l => l.map (fun f => (String.ofList f.path, f.isImport))) =
    .ok [("b.proto", true), ("google/protobuf/any.proto", true), ("a.proto", false)] := by decide

example : buildImage exWs exC List.reverse = buildImage exWs exC id :=
  sort_canonical exWs exC List.reverse (fun l => List.reverse_perm l)

/-! ### non-vacuity of the second-pass hypotheses (all on concrete workspaces, by evaluation) -/

theorem exWs_wf : WfCfgs exWs := wfCfgs_of_all (by decide)
theorem exWs_roots : targetList exWs = .ok ["a.proto".toList] := by decide
theorem exWs_commit : OneCommitPerName exWs.ws := oneCommit_of_check (by decide)

/-- the compile closure of `exWs` evaluated once; it witnesses `hopen` and `hac`. -/
theorem exWs_run :
    dfsRoots (csucc exWs.ws exC) 10 ["a.proto".toList] =
      .ok (["google/protobuf/any.proto".toList, "b.proto".toList, "a.proto".toList],
           ["b.proto".toList, "google/protobuf/any.proto".toList, "a.proto".toList]) := by decide

theorem exWs_hyps :
    (∀ r ∈ ["a.proto".toList], ∀ p, Reach (csucc exWs.ws exC) r p → csucc exWs.ws exC p ≠ none) ∧
    (∀ r ∈ ["a.proto".toList], ∀ x, Reach (csucc exWs.ws exC) r x → ∀ cs d,
      csucc exWs.ws exC x = some cs → d ∈ cs → ¬ Reach (csucc exWs.ws exC) d x) :=
  run_witnesses_hyps exWs_run (by decide)

-- `build_succeeds_of_roots`: all six hypotheses hold for `exWs`, with a non-identity return order
example : ∃ img, buildImage exWs exC List.reverse = .ok img :=
  build_succeeds_of_roots exWs exC List.reverse _ exWs_roots exWs_hyps.1 exWs_hyps.2
    (List.reverse_perm _) exWs_commit (by decide)

-- `build_succeeds`: the workspace-level hypotheses hold for `exWs`
example : ∃ img, buildImage exWs exC List.reverse = .ok img := by
  have hmem : ∀ m f, f ∈ modFiles exWs.ws m → isTargetIn exWs m f = true → f.path ∈ ["a.proto".toList] :=
    fun m f hf ht => (mem_targetList exWs_wf exWs_roots f.path).mpr ⟨m, f, hf, ht, rfl⟩
  exact build_succeeds exWs exC List.reverse exWs_wf
    (modFiles_forall (P := fun l => (l.map (·.path)).Nodup) (by simp) (by decide))
    (fun m => modFiles_forall (P := fun l => ∀ f ∈ l, f.path ≠ []) (by simp) (by decide) m)
    (by decide)
    ⟨0, { path := "a.proto".toList, imports := ["b.proto".toList, "google/protobuf/any.proto".toList] }, by decide, by decide⟩
    (fun m f hf ht => exWs_hyps.1 _ (hmem m f hf ht))
    (fun m f hf ht => exWs_hyps.2 _ (hmem m f hf ht))
    (fun l => List.reverse_perm l) exWs_commit

-- `target_list_succeeds` / `target_list_exact` / `targets_exact_files` / `nontarget_files_are_imports`:
-- `exWs_wf`, `exWs_roots` and the `decide` example above instantiate their hypotheses; the
-- non-target module 1 provides b.proto, which is in the image as an import:
example : ∀ img, buildImage exWs exC id = .ok img → ∀ f ∈ img, f.path = "b.proto".toList → f.isImport = true := by
  intro img h f hf hp
  exact (nontarget_files_are_imports exWs exC id img exWs_wf h f hf).2.2 1 (by decide)
    ⟨{ path := "b.proto".toList, imports := [] }, by decide, hp.symm⟩

-- `target_list_succeeds`: its hypotheses hold for `exWs` (module 0 is the only targeted one)
example : ∃ roots, targetList exWs = .ok roots := by
  have honly : ∀ m f, f ∈ modFiles exWs.ws m → isTargetIn exWs m f = true → m = 0 := by
    intro m f hf ht
    have hlt : m < 2 := modFiles_lt hf
    have hall : ∀ m, m < 2 → modIsTarget exWs m = true → m = 0 := by decide
    exact hall m hlt (modIsTarget_of_isTargetIn ht)
  exact target_list_succeeds exWs exWs_wf
    (modFiles_forall (P := fun l => (l.map (·.path)).Nodup) (by simp) (by decide))
    (fun m m' f f' hne hf hf' ht ht' _ => hne ((honly m f hf ht).trans (honly m' f' hf' ht').symm))
    (by decide)
    ⟨0, { path := "a.proto".toList, imports := ["b.proto".toList, "google/protobuf/any.proto".toList] }, by decide, by decide⟩

-- `module_target_files_exact` / `target_list_exact` / `targets_exact_files` on `exWs`
example : ∀ p, p ∈ ["a.proto".toList] ↔ ∃ m f, f ∈ modFiles exWs.ws m ∧ isTargetIn exWs m f = true ∧ f.path = p :=
  (target_list_exact exWs _ exWs_wf exWs_roots).2.2.2

/-- `--path a --exclude-path a/x` on a module with a/x/1.proto, a/y.proto, ab/z.proto (a sibling
    directory that string-prefix matching would wrongly include). -/
def exWsP : TWS :=
  { ws := { mods := [ { files := [{ path := "a/x/1.proto".toList, imports := [] }, { path := "a/y.proto".toList, imports := [] },
                                  { path := "ab/z.proto".toList, imports := [] }],
                        isTarget := true, isLocal := true } ],
            wkt := [] },
    cfgs := [{ paths := ["a".toList], excludes := ["a/x".toList] }] }

example : (cfgOf exWsP 0).protoFile = [] ∧ WfCfgs exWsP := ⟨rfl, wfCfgs_of_all (by decide)⟩
example : targetList exWsP = .ok ["a/y.proto".toList] := by decide
example : isTargetIn exWsP 0 { path := "a/y.proto".toList, imports := [] } = true :=
  (is_target_file_paths exWsP 0 _ rfl).mpr
    ⟨rfl, Or.inr ⟨"a".toList, by decide, by decide⟩, by decide⟩

/-- proto-file reference p/a.proto with include_package_files: p/b.proto has the same package,
    q/c.proto another one. -/
def exWsF : TWS :=
  { ws := { mods := [ { files := [{ path := "p/a.proto".toList, imports := [], pkg := "p".toList },
                                  { path := "p/b.proto".toList, imports := [], pkg := "p".toList },
                                  { path := "q/c.proto".toList, imports := [], pkg := "q".toList }],
                        isTarget := true, isLocal := true } ],
            wkt := [] },
    cfgs := [{ protoFile := "p/a.proto".toList, includePackageFiles := true }] }

example : (cfgOf exWsF 0).protoFile ≠ [] ∧ ((modFiles exWsF.ws 0).map (·.path)).Nodup ∧ WfCfgs exWsF :=
  ⟨by decide, by decide, wfCfgs_of_all (by decide)⟩
example : targetList exWsF = .ok ["p/a.proto".toList, "p/b.proto".toList] := by decide
example : isTargetIn exWsF 0 { path := "p/b.proto".toList, imports := [], pkg := "p".toList } = true :=
  (is_target_file_proto_ref exWsF 0 _ (by decide) (by decide)).mpr
    ⟨rfl, Or.inr ⟨rfl, { path := "p/a.proto".toList, imports := [], pkg := "p".toList }, by decide, rfl, by decide, rfl⟩⟩

/-- a target that imports a path nobody provides. -/
def exWsBad : TWS :=
  { ws := { mods := [ { files := [{ path := "a.proto".toList, imports := ["missing.proto".toList] }],
                        isTarget := true, isLocal := true } ],
            wkt := [] },
    cfgs := [{}] }
def exBadC : Compiler :=
  { imports := fun p => if p = "a.proto".toList then ["missing.proto".toList] else []
    unused := fun _ => [], syntaxUnspecified := fun _ => false }

-- the hypotheses of `unopenable_import_fails` hold …
example : ∃ e, buildImage exWsBad exBadC id = .error e :=
  unopenable_import_fails exWsBad exBadC id ["a.proto".toList] (by decide) "a.proto".toList "missing.proto".toList
    (by decide)
    (Reach.step (Reach.refl _) (by decide : csucc exWsBad.ws exBadC "a.proto".toList = some ["missing.proto".toList]) (by decide))
    (by decide)
-- … and the model reports the compiler diagnostic
example : buildImage exWsBad exBadC id = .error .compile := by decide

/-- a.proto ⇄ b.proto -/
def exWsCyc : TWS :=
  { ws := { mods := [ { files := [{ path := "a.proto".toList, imports := ["b.proto".toList] },
                                  { path := "b.proto".toList, imports := ["a.proto".toList] }],
                        isTarget := true, isLocal := true } ],
            wkt := [] },
    cfgs := [{ paths := ["a.proto".toList] }] }
def exCycC : Compiler :=
  { imports := fun p => if p = "a.proto".toList then ["b.proto".toList] else if p = "b.proto".toList then ["a.proto".toList] else []
    unused := fun _ => [], syntaxUnspecified := fun _ => false }

-- the hypotheses of `import_cycle_fails` hold (root a, x = a, d = b, b reaches a) …
example : ∃ e, buildImage exWsCyc exCycC id = .error e :=
  import_cycle_fails exWsCyc exCycC id ["a.proto".toList] (by decide) "a.proto".toList "a.proto".toList
    "b.proto".toList ["b.proto".toList] (by decide) (Reach.refl _) (by decide) (by decide)
    (Reach.step (Reach.refl _) (by decide : csucc exWsCyc.ws exCycC "b.proto".toList = some ["a.proto".toList]) (by decide))
example : buildImage exWsCyc exCycC id = .error .compile := by decide

-- `build_fails_iff`: its side conditions hold for `exWs` (no failure: right-hand side false) and
-- for `exWsBad` (failure: first disjunct)
example : ¬ ∃ e, buildImage exWs exC id = .error e := by
  rw [build_fails_iff exWs exC id _ exWs_roots (List.Perm.refl _) exWs_commit (by decide)]
  rintro (⟨r, hr, p, hp, hn⟩ | ⟨r, hr, x, cs, d, hx, hs, hd, hc⟩)
  · exact exWs_hyps.1 r hr p hp hn
  · exact exWs_hyps.2 r hr x hx cs d hs hd hc

-- `dfs_order_topological_of_acyclic`: `hac` is satisfiable — the graph 0 → 1
def exSucc : Nat → Option (List Nat) := fun n => if n = 0 then some [1] else if n = 1 then some [] else none

theorem exSucc_acyclic : ∀ x cs c, exSucc x = some cs → c ∈ cs → ¬ Reach exSucc c x := by
  intro x cs c hs hc hr
  have h1 : ∀ y, Reach exSucc 1 y → y = 1 := by
    intro y hy
    induction hy with
    | refl => rfl
    | step _ hs' hc' ih =>
      subst ih
      simp only [exSucc] at hs'
      injection hs' with hs'
      subst hs'
      simp at hc'
  unfold exSucc at hs
  split at hs
  · rename_i hx
    injection hs with hs; subst hs; subst hx
    simp only [List.mem_singleton] at hc
    subst hc
    exact absurd (h1 0 hr) (by decide)
  · split at hs
    · injection hs with hs; subst hs; simp at hc
    · cases hs

example : isTopo exSucc [] [1, 0] = true :=
  dfs_order_topological_of_acyclic exSucc exSucc_acyclic 5 [0] [1, 0] [1, 0] (by decide)

-- `dup_path_rejected`: the hypothesis is satisfiable, and a repeated path is what gets rejected
def exImgFile : ImgFile :=
  { path := "a.proto".toList, isImport := false, syntaxUnspecified := false, unusedIdx := [], modName := none, commit := 0 }
example : newImage [exImgFile] = .ok [exImgFile] := by decide
example : newImage [exImgFile, exImgFile] = .error .dupImageFile := by decide

-- `annotation_position_partial`: hypotheses satisfiable
example : annotate (fun _ => some "/tmp/ws/a.proto".toList) ⟨"a.proto".toList, 3, 7⟩ =
    { externalPath := "/tmp/ws/a.proto".toList, line := 3, col := 7 } :=
  annotation_position_partial _ _ _ rfl (by decide)

end BufProofs.C01
