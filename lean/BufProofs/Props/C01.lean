import BufProofs.Lemmas.TargetingLemmas
/-
  C01 — An image is the exact, closed, ordered compilation of the targeted files.
  Property theorems only (over `BufModel.Targeting.buildImage`; the compiler is the parameter `c`,
  `perm` the order in which it returns the root files).  Helper lemmas: BufProofs/Lemmas.
-/
namespace BufProofs.C01
open BufModel.Path BufModel.Graph BufModel.Targeting

/-- each path once. -/
theorem image_nodup (t : TWS) (c : Compiler) (perm : List Str → List Str) (img : List ImgFile)
    (h : buildImage t c perm = .ok img) : (img.map (·.path)).Nodup := by
  obtain ⟨roots, vis, order, _, hdfs, _, _, himg⟩ := buildImage_ok h
  obtain ⟨⟨new, e, _, _, nd, _, _, _⟩, _⟩ := dfsRoots_post _ _ _ _ _ hdfs
  simp only [List.nil_append] at e
  subst e; subst himg
  rw [map_mk_path]; exact nd

/-- closed: every file the compiler says an image file imports is in the image. -/
theorem image_closed (t : TWS) (c : Compiler) (perm : List Str → List Str) (img : List ImgFile)
    (h : buildImage t c perm = .ok img) :
    ∀ f ∈ img, ∀ d ∈ c.imports f.path, d ∈ img.map (·.path) := by
  obtain ⟨roots, vis, order, _, hdfs, _, _, himg⟩ := buildImage_ok h
  obtain ⟨⟨new, e, m, _, _, _, cl, _⟩, _⟩ := dfsRoots_post _ _ _ _ _ hdfs
  simp only [List.nil_append] at e
  subst e; subst himg
  intro f hf d hd
  rw [map_mk_path]
  obtain ⟨p, hp, rfl⟩ := List.mem_map.mp hf
  obtain ⟨cs, hs, hc⟩ := cl p hp
  simp only [mkImgFile_path] at hd
  have hcs : cs = c.imports p := by
    unfold csucc at hs
    split at hs
    · injection hs with hs; exact hs.symm
    · exact absurd hs (by simp)
  subst hcs
  have := (m d).mp (hc d hd)
  simpa using this

/-- minimal: every image file is a target or reachable from one through imports. -/
theorem image_minimal (t : TWS) (c : Compiler) (perm : List Str → List Str) (img : List ImgFile)
    (h : buildImage t c perm = .ok img) :
    ∃ roots, targetList t = .ok roots ∧ ∀ f ∈ img, ∃ r ∈ roots, Reach (csucc t.ws c) r f.path := by
  obtain ⟨roots, vis, order, hroots, hdfs, _, _, himg⟩ := buildImage_ok h
  obtain ⟨⟨new, e, _, _, _, rch, _, _⟩, _⟩ := dfsRoots_post _ _ _ _ _ hdfs
  simp only [List.nil_append] at e
  subst e; subst himg
  refine ⟨roots, hroots, ?_⟩
  intro f hf
  obtain ⟨p, hp, rfl⟩ := List.mem_map.mp hf
  exact rch p hp

/-- topological: every import of an image file stands strictly before it. -/
theorem image_topological (t : TWS) (c : Compiler) (perm : List Str → List Str) (img : List ImgFile)
    (h : buildImage t c perm = .ok img) :
    ∀ pre f post, img = pre ++ f :: post → ∀ d ∈ c.imports f.path, d ∈ pre.map (·.path) := by
  obtain ⟨roots, vis, order, _, _, htopo, _, himg⟩ := buildImage_ok h
  intro pre f post hsplit d hd
  subst himg
  obtain ⟨l1, l2', hl, hpre, hrest⟩ := List.map_eq_append_iff.mp hsplit
  obtain ⟨x, l2, hl2, hx, _⟩ := List.map_eq_cons_iff.mp hrest
  subst hl2; subst hl
  obtain ⟨cs, hs, hc⟩ := isTopo_sound _ _ _ htopo l1 x l2 rfl
  subst hx
  simp only [mkImgFile_path] at hd
  have hcs : cs = c.imports x := by
    unfold csucc at hs
    split at hs
    · injection hs with hs; exact hs.symm
    · exact absurd hs (by simp)
  subst hcs
  have := hc d hd
  rw [← hpre, map_mk_path]
  simpa using this

/-- For an acyclic import relation the order check inside `buildImage` never rejects the DFS
    order: a failure of that check really is an import cycle. -/
theorem dfs_order_topological_of_acyclic {α : Type} [DecidableEq α] (succ : α → Option (List α))
    (hac : ∀ x cs c, succ x = some cs → c ∈ cs → ¬ Reach succ c x)
    (fuel : Nat) (roots vis order : List α) (h : dfsRoots succ fuel roots = .ok (vis, order)) :
    isTopo succ [] order = true := by
  obtain ⟨⟨new, e, _, _, _, _, cl, ord⟩, _⟩ := dfsRoots_post _ _ _ _ _ h
  simp only [List.nil_append] at e
  subst e
  apply ordFrom_acyclic_isTopo succ hac order [] _ ord
  intro x hx hn
  obtain ⟨cs, hs, _⟩ := cl x hx
  rw [hn] at hs; exact absurd hs (by simp)

/-- flags: a file is marked import exactly when it is not one of the targeted files. -/
theorem image_flags (t : TWS) (c : Compiler) (perm : List Str → List Str) (img : List ImgFile)
    (h : buildImage t c perm = .ok img) :
    ∃ roots, targetList t = .ok roots ∧ ∀ f ∈ img, (f.isImport = true ↔ f.path ∉ roots) := by
  obtain ⟨roots, vis, order, hroots, _, _, _, himg⟩ := buildImage_ok h
  refine ⟨roots, hroots, ?_⟩
  subst himg
  intro f hf
  obtain ⟨p, _, rfl⟩ := List.mem_map.mp hf
  simp [mkImgFile]

/-- the non-import files of the image are exactly the targeted files (all of them, nothing else). -/
theorem targets_exact (t : TWS) (c : Compiler) (perm : List Str → List Str) (img : List ImgFile)
    (h : buildImage t c perm = .ok img) :
    ∃ roots, targetList t = .ok roots ∧
      ∀ p, p ∈ roots ↔ ∃ f ∈ img, f.path = p ∧ f.isImport = false := by
  obtain ⟨roots, vis, order, hroots, hdfs, _, _, himg⟩ := buildImage_ok h
  obtain ⟨⟨new, e, m, _, _, _, _, _⟩, rts⟩ := dfsRoots_post _ _ _ _ _ hdfs
  simp only [List.nil_append] at e
  subst e; subst himg
  refine ⟨roots, hroots, ?_⟩
  intro p
  constructor
  · intro hp
    have hin : p ∈ order := by have := (m p).mp (rts p hp); simpa using this
    exact ⟨mkImgFile t.ws c roots p, List.mem_map.mpr ⟨p, hin, rfl⟩, rfl, by simp [mkImgFile, hp]⟩
  · rintro ⟨f, hf, rfl, hi⟩
    obtain ⟨q, _, rfl⟩ := List.mem_map.mp hf
    simp only [mkImgFile, Bool.not_eq_false', decide_eq_true_eq] at hi
    exact hi

/-- The result does not depend on the order in which the compiler hands back the compiled root
    files: any permutation gives the same image (or the same error). -/
theorem sort_canonical (t : TWS) (c : Compiler) (perm : List Str → List Str)
    (hperm : ∀ l, (perm l).Perm l) : buildImage t c perm = buildImage t c id := by
  unfold buildImage
  split
  · rfl
  · rename_i roots _
    rw [checkAndSortFiles_perm (hperm roots)]
    rfl

/-- `newImage` never lets an image with a repeated path through. -/
theorem dup_path_rejected (files fs : List ImgFile) (h : newImage files = .ok fs) :
    (fs.map (·.path)).Nodup := by
  have hfs := newImage_ok h
  subst hfs
  unfold newImage at h
  split at h; · exact absurd h (by simp)
  split at h
  · exact absurd h (by simp)
  · rename_i u hgo
    cases u
    exact (newImage_go_nodup fs [] [] hgo).1

/-- Error clause (partial): the diagnostic buf reports for a compiler error keeps the compiler's
    line and column and carries the external (user-given) path recorded for the file.  That the
    compiler positions its errors at the offending token is library behaviour (protocompile) and
    is covered by the planted-error oracle of harness/cmd/c01 only. -/
theorem annotation_position_partial (externalOf : Str → Option Str) (e : CompilerError) (x : Str)
    (hx : externalOf e.file = some x) (hne : x ≠ []) :
    annotate externalOf e = { externalPath := x, line := e.line, col := e.col } := by
  simp [annotate, hx, hne]

/-! non-vacuity: a two-module workspace whose target imports a file of the other module and a
    well-known type -/
def exWs : TWS :=
  { ws := { mods := [ { files := [{ path := "a.proto".toList, imports := ["b.proto".toList, "google/protobuf/any.proto".toList] }],
                        isTarget := true, isLocal := true },
                      { files := [{ path := "b.proto".toList, imports := [] }, { path := "c.proto".toList, imports := [] }],
                        isTarget := false, isLocal := true, name := some 1, commit := 0 } ],
            wkt := [{ path := "google/protobuf/any.proto".toList, imports := [] }] },
    cfgs := [{}, {}] }

def exC : Compiler :=
  { imports := fun p => if p = "a.proto".toList then ["b.proto".toList, "google/protobuf/any.proto".toList] else []
    unused := fun _ => []
    syntaxUnspecified := fun _ => false }

example : (buildImage exWs exC id).map (fun l => l.map (fun f => (String.ofList f.path, f.isImport))) =
    .ok [("b.proto", true), ("google/protobuf/any.proto", true), ("a.proto", false)] := by decide

example : buildImage exWs exC List.reverse = buildImage exWs exC id :=
  sort_canonical exWs exC List.reverse (fun l => List.reverse_perm l)

end BufProofs.C01
