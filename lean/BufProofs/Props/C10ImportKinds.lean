import BufProofs.Props.C10
/-
  C10 — import MODIFIERS (strengthening round 6-E; seeds C10-m10 / C08-m9).

  `fastscan.Result.Imports` carries `IsPublic` / `IsWeak` next to every path; the code that exists
  (`getModuleDepsRec`, `FileInfo.Imports()`, the image closure) reads the path only.
  `BufModel.Graph.KFile` is a file with its import STATEMENTS (path + modifier), `KFile.scan` what
  the code makes of it — the function Driver/C10 runs on every protocol line.  Proved here:

  * every import statement, whatever its modifier, is an import of the scanned file
    (`ik_scan_mem`), an edge of the module graph (`ik_stmt_is_edge`), a direct dependency in
    every successful `ModuleDeps()` (`ik_stmt_is_direct_dep`), reported under the hypotheses of
    `deps_exact` (`ik_only_link_reported`);
  * an import statement nobody provides (and that is no well-known type) is an error whatever
    its modifier (`ik_unprovided_stmt_error`); statements that close a module cycle make
    `ModuleDeps()` fail whatever their modifiers (`ik_cycle_any_modifier`);
  * nothing depends on the modifiers: re-labelling every statement leaves the scanned module set,
    `ModuleDeps()`, the module graph, `ModuleSetToDAG` and the ls-files closure unchanged
    (`ik_scan_modifier_independent` and corollaries);
  * the COUNTER-MODEL `moduleDepsSkipWeak` (a `getModuleDepsRec` that `continue`s on `imp.IsWeak`)
    agrees with the code on every module set without weak imports (`ik_skip_weak_blind_spot` — why
    a generator without weak imports cannot see the regression) and violates the property on
    concrete module sets: `ik_skip_weak_dep_counterexample` (weak-only link: the conclusion of
    `deps_exact` fails), `ik_skip_weak_unprovided_counterexample`,
    `ik_skip_weak_cycle_counterexample`, `ik_skip_weak_chain_counterexample`.
-/
namespace BufProofs.C10
open BufModel.Path BufModel.Graph BufModel.Targeting

/-! ### every statement counts -/

/-- the scanned import list is the list of the statements' paths, in source order. -/
theorem ik_scan_imports (f : KFile) : f.scan.imports = f.stmts.map (·.1) := rfl

/-- an import statement of ANY modifier is an import of the scanned file. -/
theorem ik_scan_mem (f : KFile) (p : Str) (kd : ImpKind) (h : (p, kd) ∈ f.stmts) : p ∈ f.scan.imports :=
  List.mem_map.mpr ⟨(p, kd), h, rfl⟩

theorem ik_modFiles_scan (k : KWS) (m : Nat) : modFiles k.scan m = (kmodFiles k m).map KFile.scan := by
  unfold modFiles kmodFiles KWS.scan
  simp only [List.getElem?_map]
  cases k.mods[m]? <;> simp [KMod.scanWith]

/-- an import statement of ANY modifier in a file of module `r` is one of the imports
    `getModuleDepsRec` iterates over for `r`. -/
theorem ik_stmt_mem_allImports (k : KWS) (r : Nat) (f : KFile) (p : Str) (kd : ImpKind)
    (hf : f ∈ kmodFiles k r) (hs : (p, kd) ∈ f.stmts) : p ∈ allImports k.scan r := by
  unfold allImports
  rw [ik_modFiles_scan, List.mem_flatMap]
  exact ⟨f.scan, List.mem_map.mpr ⟨f, hf, rfl⟩, ik_scan_mem f p kd hs⟩

/-- An import statement — plain, public or weak — of a file another module `d` provides is an
    edge `r → d` of the module graph the property talks about. -/
theorem ik_stmt_is_edge (k : KWS) (r d : Nat) (f : KFile) (p : Str) (kd : ImpKind)
    (hf : f ∈ kmodFiles k r) (hs : (p, kd) ∈ f.stmts) (ho : owner k.scan p = .one d) (hne : d ≠ r) :
    d ∈ msucc k.scan r :=
  mem_msucc.mpr ⟨p, ik_stmt_mem_allImports k r f p kd hf hs, ho, hne⟩

/-- In EVERY successful `ModuleDeps()` of `r` (no hypothesis on the module set) the module that
    provides a file `r` imports — through a statement of any modifier, even when that statement
    is the only link between the two modules — is listed, and listed as a DIRECT dependency. -/
theorem ik_stmt_is_direct_dep (k : KWS) (r d : Nat) (f : KFile) (p : Str) (kd : ImpKind)
    (hf : f ∈ kmodFiles k r) (hs : (p, kd) ∈ f.stmts) (ho : owner k.scan p = .one d) (hne : d ≠ r)
    (ds : DepMap) (h : moduleDepsK k r = .ok ds) : (d, true) ∈ ds := by
  have hedge := ik_stmt_is_edge k r d f p kd hf hs ho hne
  obtain ⟨_, hmem, _, hdir⟩ := deps_sound k.scan r ds h
  have hr : ReachPlus (msuccO k.scan) r d := ReachPlus.of_succ (cs := msucc k.scan r) rfl hedge
  have hk : d ∈ DepMap.keys ds := (hmem d).mpr hr
  obtain ⟨e, he, hed⟩ := List.mem_map.mp hk
  obtain ⟨x, b⟩ := e
  simp only at hed; subst hed
  have hb : b = true := (hdir x b he).mpr hedge
  subst hb; exact he

/-- The exactness clause for the family's central member: if everything reachable from `r`
    resolves and `r` lies on no cycle, `ModuleDeps()` succeeds and lists, as a direct dependency,
    the provider of every file `r` imports with ANY modifier. -/
theorem ik_only_link_reported (k : KWS) (r d : Nat) (f : KFile) (p : Str) (kd : ImpKind)
    (hg : Good k.scan r) (hn : ¬ ReachPlus (msuccO k.scan) r r)
    (hf : f ∈ kmodFiles k r) (hs : (p, kd) ∈ f.stmts) (ho : owner k.scan p = .one d) (hne : d ≠ r) :
    ∃ ds, moduleDepsK k r = .ok ds ∧ (d, true) ∈ ds := by
  obtain ⟨ds, h, _⟩ := deps_exact k.scan r hg hn
  exact ⟨ds, h, ik_stmt_is_direct_dep k r d f p kd hf hs ho hne ds h⟩

/-- An import statement of ANY modifier that no module provides and that is no well-known type
    makes `ModuleDeps()` fail (a weak import is not "optional" for dependency resolution). -/
theorem ik_unprovided_stmt_error (k : KWS) (r : Nat) (f : KFile) (p : Str) (kd : ImpKind)
    (hf : f ∈ kmodFiles k r) (hs : (p, kd) ∈ f.stmts) (hn : owner k.scan p = .none)
    (hw : isWkt k.scan p = false) : ∃ e, moduleDepsK k r = .error e :=
  import_not_exist_error k.scan r p (ik_stmt_mem_allImports k r f p kd hf hs) hn hw

/-- Two statements of ANY modifiers `r → d` and `d → r` are a module cycle: `ModuleDeps()` of `r`
    fails (a weak import closes a cycle like any other). -/
theorem ik_cycle_any_modifier (k : KWS) (r d : Nat) (f g : KFile) (p q : Str) (k1 k2 : ImpKind)
    (hf : f ∈ kmodFiles k r) (hs : (p, k1) ∈ f.stmts) (ho : owner k.scan p = .one d) (hne : d ≠ r)
    (hg : g ∈ kmodFiles k d) (ht : (q, k2) ∈ g.stmts) (ho2 : owner k.scan q = .one r) :
    ∃ e, moduleDepsK k r = .error e := by
  have e1 := ik_stmt_is_edge k r d f p k1 hf hs ho hne
  have e2 := ik_stmt_is_edge k d r g q k2 hg ht ho2 (fun h => hne h.symm)
  exact cycle_never_ok k.scan r
    (ReachPlus.tail (cs := msucc k.scan d) (ReachPlus.of_succ (cs := msucc k.scan r) rfl e1) rfl e2)

/-! ### nothing depends on the modifiers -/

theorem ik_scan_reKind (g : Str → ImpKind → ImpKind) (f : KFile) : (f.reKind g).scan = f.scan := by
  unfold KFile.reKind KFile.scan
  simp only [List.map_map]
  congr 1

/-- Re-labelling the modifier of every import statement (any function of path and old modifier:
    all plain, all weak, swap public and weak …) does not change the module set the code sees. -/
theorem ik_scan_modifier_independent (g : Str → ImpKind → ImpKind) (k : KWS) : (k.reKind g).scan = k.scan := by
  unfold KWS.reKind KWS.scan
  simp only [List.map_map]
  congr 1
  apply List.map_congr_left
  intro m _
  simp only [Function.comp, KMod.scanWith, List.map_map]
  congr 1
  apply List.map_congr_left
  intro f _
  exact ik_scan_reKind g f

/-- `ModuleDeps()` (ids, direct flags, error class) does not depend on import modifiers. -/
theorem ik_moduleDeps_modifier_independent (g : Str → ImpKind → ImpKind) (k : KWS) (r : Nat) :
    moduleDepsK (k.reKind g) r = moduleDepsK k r := by
  unfold moduleDepsK; rw [ik_scan_modifier_independent]

/-- the module graph does not depend on import modifiers. -/
theorem ik_msucc_modifier_independent (g : Str → ImpKind → ImpKind) (k : KWS) (m : Nat) :
    msucc (k.reKind g).scan m = msucc k.scan m := by
  rw [ik_scan_modifier_independent]

/-- `ModuleSetToDAG` (`buf dep graph`) does not depend on import modifiers. -/
theorem ik_toDAG_modifier_independent (g : Str → ImpKind → ImpKind) (k : KWS) :
    toDAG (k.reKind g).scan = toDAG k.scan := by
  rw [ik_scan_modifier_independent]

/-- the `ls-files --include-imports` closure does not depend on import modifiers. -/
theorem ik_lsFiles_modifier_independent (g : Str → ImpKind → ImpKind) (k : KWS) (tf : Nat → PFile → Bool) :
    lsFiles (k.reKind g).scan tf = lsFiles k.scan tf := by
  rw [ik_scan_modifier_independent]

/-! ### the counter-model: a scanner that skips weak imports -/

theorem ik_scanSkipWeak_eq (f : KFile) (h : ∀ s ∈ f.stmts, s.2 ≠ .weak) : f.scanSkipWeak = f.scan := by
  unfold KFile.scanSkipWeak KFile.scan
  congr 2
  apply List.filter_eq_self.mpr
  intro s hs
  have := h s hs
  cases hk : s.2 <;> simp_all

/-- The blind spot: on a module set WITHOUT weak imports the counter-model and the code agree on
    everything, so no check whose inputs lack `import weak` can tell them apart. -/
theorem ik_skip_weak_blind_spot (k : KWS)
    (h : ∀ m ∈ k.mods, ∀ f ∈ m.files, ∀ s ∈ f.stmts, s.2 ≠ .weak) (r : Nat) :
    k.scanSkipWeak = k.scan ∧ moduleDepsSkipWeak k r = moduleDepsK k r := by
  have hs : k.scanSkipWeak = k.scan := by
    unfold KWS.scanSkipWeak KWS.scan
    congr 1
    apply List.map_congr_left
    intro m hm
    unfold KMod.scanWith
    congr 1
    apply List.map_congr_left
    intro f hf
    exact ik_scanSkipWeak_eq f (h m hm f hf)
  exact ⟨hs, by unfold moduleDepsSkipWeak moduleDepsK; rw [hs]⟩

def ikWkt : List PFile := [{ path := "google/protobuf/any.proto".toList, imports := [] }]

/-- A (target) reaches B only through `import weak "b/b.proto";`. -/
def ikWeakOnly : KWS :=
  { mods := [ { files := [{ path := "a/a.proto".toList, stmts := [("b/b.proto".toList, .weak), ("google/protobuf/any.proto".toList, .weak)] }], isTarget := true, isLocal := true },
              { files := [{ path := "b/b.proto".toList, stmts := [] }], isTarget := false, isLocal := true } ],
    wkt := ikWkt }

theorem ikWeakOnly_good : Good ikWeakOnly.scan 0 := good_of_goodWs (by decide) (by decide)

theorem ikWeakOnly_acyclic : ¬ ReachPlus (msuccO ikWeakOnly.scan) 0 0 := by
  exact (deps_sound ikWeakOnly.scan 0 [(1, true)] (by decide)).1

/-- Seed C10-m10 as a model: on the weak-only link the hypotheses of `deps_exact` hold, the code
    lists B as a direct dependency, and the counter-model returns the empty list although B is a
    first-hop successor of A — so it violates the conclusion of `deps_exact`. -/
theorem ik_skip_weak_dep_counterexample :
    Good ikWeakOnly.scan 0 ∧ ¬ ReachPlus (msuccO ikWeakOnly.scan) 0 0 ∧
    1 ∈ msucc ikWeakOnly.scan 0 ∧
    moduleDepsK ikWeakOnly 0 = .ok [(1, true)] ∧
    moduleDepsSkipWeak ikWeakOnly 0 = .ok [] ∧
    ¬ (∀ x, x ∈ DepMap.keys ([] : DepMap) ↔ (ReachPlus (msuccO ikWeakOnly.scan) 0 x ∧ x ≠ 0)) := by
  refine ⟨ikWeakOnly_good, ikWeakOnly_acyclic, by decide, by decide, by decide, ?_⟩
  intro h
  have h1 : ReachPlus (msuccO ikWeakOnly.scan) 0 1 :=
    ReachPlus.of_succ (cs := msucc ikWeakOnly.scan 0) rfl (by decide)
  have := (h 1).mpr ⟨h1, by decide⟩
  simp [DepMap.keys] at this

/-- `import weak "x/missing.proto";` — a file nobody provides. -/
def ikWeakMissing : KWS :=
  { mods := [ { files := [{ path := "a/a.proto".toList, stmts := [("x/missing.proto".toList, .weak)] }], isTarget := true, isLocal := true } ],
    wkt := ikWkt }

/-- The code reports the unprovided weak import; the counter-model accepts it silently. -/
theorem ik_skip_weak_unprovided_counterexample :
    moduleDepsK ikWeakMissing 0 = .error .importNotExist ∧ toDAG ikWeakMissing.scan = .error .importNotExist ∧
    moduleDepsSkipWeak ikWeakMissing 0 = .ok [] ∧ toDAG ikWeakMissing.scanSkipWeak = .ok ([0], []) := by
  decide

/-- A plain→ B weak→ A (distinct files, so no file cycle). -/
def ikWeakCycle : KWS :=
  { mods := [ { files := [{ path := "a/a.proto".toList, stmts := [("b/b.proto".toList, .plain)] }, { path := "a/z.proto".toList, stmts := [] }], isTarget := true, isLocal := true },
              { files := [{ path := "b/b.proto".toList, stmts := [] }, { path := "b/y.proto".toList, stmts := [("a/z.proto".toList, .weak)] }], isTarget := false, isLocal := true } ],
    wkt := ikWkt }

/-- The code reports the module cycle closed by a weak import (for both modules and for the DAG);
    the counter-model resolves it silently. -/
theorem ik_skip_weak_cycle_counterexample :
    moduleDepsK ikWeakCycle 0 = .error .cycle ∧ moduleDepsK ikWeakCycle 1 = .error .cycle ∧
    toDAG ikWeakCycle.scan = .error .cycle ∧
    moduleDepsSkipWeak ikWeakCycle 0 = .ok [(1, true)] ∧ moduleDepsSkipWeak ikWeakCycle 1 = .ok [] ∧
    toDAG ikWeakCycle.scanSkipWeak = .ok ([0, 1], [(0, 1)]) := by
  decide

/-- A weak→ B public→ C. -/
def ikChain : KWS :=
  { mods := [ { files := [{ path := "a/a.proto".toList, stmts := [("b/b.proto".toList, .weak)] }], isTarget := true, isLocal := true },
              { files := [{ path := "b/b.proto".toList, stmts := [("c/c.proto".toList, .pub)] }], isTarget := false, isLocal := true },
              { files := [{ path := "c/c.proto".toList, stmts := [] }], isTarget := false, isLocal := false } ],
    wkt := ikWkt }

/-- In a chain the counter-model loses the weakly imported module AND everything behind it. -/
theorem ik_skip_weak_chain_counterexample :
    moduleDepsK ikChain 0 = .ok [(1, true), (2, false)] ∧ moduleDepsK ikChain 1 = .ok [(2, true)] ∧
    toDAG ikChain.scan = .ok ([0, 1, 2], [(0, 1), (1, 2)]) ∧
    moduleDepsSkipWeak ikChain 0 = .ok [] ∧ toDAG ikChain.scanSkipWeak = .ok ([0], []) := by
  decide

/-! ### non-vacuity -/

example : ∃ ds, moduleDepsK ikWeakOnly 0 = .ok ds ∧ (1, true) ∈ ds :=
  ik_only_link_reported ikWeakOnly 0 1 _ "b/b.proto".toList .weak ikWeakOnly_good ikWeakOnly_acyclic
    (List.mem_singleton.mpr rfl) (by decide) (by decide) (by decide)

example : ∃ e, moduleDepsK ikWeakMissing 0 = .error e :=
  ik_unprovided_stmt_error ikWeakMissing 0 _ "x/missing.proto".toList .weak (List.mem_singleton.mpr rfl)
    (by decide) (by decide) (by decide)

example : ∃ e, moduleDepsK ikWeakCycle 0 = .error e :=
  ik_cycle_any_modifier ikWeakCycle 0 1 { path := "a/a.proto".toList, stmts := [("b/b.proto".toList, .plain)] }
    { path := "b/y.proto".toList, stmts := [("a/z.proto".toList, .weak)] } "b/b.proto".toList "a/z.proto".toList .plain .weak
    (by decide) (by decide) (by decide) (by decide) (by decide) (by decide) (by decide)

/-- all-plain, all-weak and all-public spellings of the chain have the same `ModuleDeps()`. -/
example : moduleDepsK (ikChain.reKind (fun _ _ => .plain)) 0 = moduleDepsK (ikChain.reKind (fun _ _ => .weak)) 0 := by
  rw [ik_moduleDeps_modifier_independent, ik_moduleDeps_modifier_independent]

/-- the weak WKT import of `ikWeakOnly` is neither a dependency nor an error. -/
example : owner ikWeakOnly.scan "google/protobuf/any.proto".toList = .none ∧
    isWkt ikWeakOnly.scan "google/protobuf/any.proto".toList = true := by decide

/-- the hypothesis of `ik_skip_weak_blind_spot` is satisfiable and fails on the counterexamples. -/
example : ∀ m ∈ (ikChain.reKind (fun _ _ => .pub)).mods, ∀ f ∈ m.files, ∀ s ∈ f.stmts, s.2 ≠ .weak := by decide

end BufProofs.C10
