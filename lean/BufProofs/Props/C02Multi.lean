import BufProofs.Props.C02
import BufProofs.Lemmas.MultiFailLemmas
import BufProofs.Lemmas.MultiClientLemmas
/-
  C02, continued — several failures at once.

  (1) Multi-failure workspaces: the module-dependency traversal (`Module.ModuleDeps()`,
      `ModuleSetToDAG`) fails in two or more dependencies; WHICH failure the error names must not
      depend on the order in which the storage enumerated the files.  Model:
      BufModel.MultiFail (= Graph.depsRec with identities).  Harness family: harness/cmd/c02/multifail.go.
  (2) Multi-client checks: lint / breaking fan out over several check clients of which some fail;
      the combined error must not depend on which client finished first nor on the parallelism.
      Model: BufModel.MultiClient over Parallel.joinedErrors.  Harness family: harness/cmd/c02/multiclient.go.
-/
namespace BufProofs.C02
open BufModel.Path BufModel.Graph BufModel.MultiFail

/-! ## (1) the traversal with several failing dependencies -/

/-- The id-carrying traversal is the traversal of C10's model: forgetting WHICH module / file /
    cycle an error names turns `moduleDepsE` into `Graph.moduleDeps` (for every workspace Graph.lean
    can express: no unparsable files, no documentation files). -/
theorem mf_erase_refines_graph (t : MFWS) (hb : t.broken = []) (hd : t.docs = []) (r : Nat) :
    eraseE (moduleDepsE t r) = moduleDeps t.ws r :=
  mf_moduleDepsE_erase t hb hd r

/-- The result of `ModuleDeps()` as coded — the dependency list, or the error WITH the identity of
    the failing file / module / cycle — is the same for every order in which the storage
    enumerates the files of the modules (`WalkPerm`: same modules, every module's files in another
    order), provided no module has two scan failures of its own (`scanDet`, decidable; see
    `mf_two_scan_failures_walk_order_counterexample` for why it is needed).  However many
    DEPENDENCIES fail, at whatever depth: the descent visits them in OpaqueID order. -/
theorem mf_error_walk_order_irrelevant (t t' : MFWS) (h : WalkPerm t t') (hdet : scanDet t = true) (r : Nat) :
    moduleDepsE t r = moduleDepsE t' r :=
  mf_moduleDepsE_walk_perm h hdet r

/-- … and so is `ModuleSetToDAG`. -/
theorem mf_dag_walk_order_irrelevant (t t' : MFWS) (h : WalkPerm t t') (hdet : scanDet t = true) :
    toDAGE t = toDAGE t' :=
  mf_toDAGE_walk_perm h hdet

/-- The one scan of a module, as coded: it fails with the FIRST scan failure in walk order, and
    otherwise discovers the owners of all imports (`discover`: each new owner once). -/
theorem mf_scan_first_failure_in_walk_order (t : MFWS) (m : Nat) (dir : Bool) (d : DepMap) :
    scanFilesE t m dir (modFiles t.ws m) d [] =
      match (scanErrs t m).head? with
      | some e => .error e
      | none => .ok (d ++ (discover t m ((modFiles t.ws m).flatMap (·.imports)) (DepMap.keys d)).map (fun k => (k, dir)),
                     discover t m ((modFiles t.ws m).flatMap (·.imports)) (DepMap.keys d)) := by
  rw [mf_scanFilesE_eq]
  unfold scanErrs
  cases ((modFiles t.ws m).flatMap (fileErrs t m)).head? <;> simp

/-- the two workspaces of seed C02-m9's demo: module 2 (`m`) imports module 1 (`b`) from x.proto and
    module 0 (`a`) from y.proto; `a` and `b` each have an import nobody provides.  `mfDemo false` is
    the walk x, y; `mfDemo true` the walk y, x. -/
def mfDemo (reversed : Bool) : MFWS :=
  let a : Mod := { files := [{ path := "a/a.proto".toList, imports := ["a/missing_a.proto".toList] }], isTarget := true, isLocal := true }
  let b : Mod := { files := [{ path := "b/b.proto".toList, imports := ["b/missing_b.proto".toList] }], isTarget := true, isLocal := true }
  let x : PFile := { path := "m/x.proto".toList, imports := ["b/b.proto".toList] }
  let y : PFile := { path := "m/y.proto".toList, imports := ["a/a.proto".toList] }
  { ws := { mods := [a, b, { files := if reversed then [y, x] else [x, y], isTarget := true, isLocal := true }], wkt := [] } }

/-- the same with `a` and `b` importing back into `m`: two module cycles through `m`. -/
def mfDemoCycles (reversed : Bool) : MFWS :=
  let a : Mod := { files := [{ path := "a/a.proto".toList, imports := ["m/x.proto".toList] }], isTarget := true, isLocal := true }
  let b : Mod := { files := [{ path := "b/b.proto".toList, imports := ["m/y.proto".toList] }], isTarget := true, isLocal := true }
  let x : PFile := { path := "m/x.proto".toList, imports := ["b/b.proto".toList] }
  let y : PFile := { path := "m/y.proto".toList, imports := ["a/a.proto".toList] }
  { ws := { mods := [a, b, { files := if reversed then [y, x] else [x, y], isTarget := true, isLocal := true }], wkt := [] } }

/-- The stored regression C02-m9 (the sort before the descent dropped): the traversal in DISCOVERY
    order names module `b`'s failure for one walk and module `a`'s for the other … -/
theorem mf_unsorted_walk_order_counterexample :
    moduleDepsUnsorted (mfDemo false) 2 = .error (.importNotExist "b/b.proto".toList "b/missing_b.proto".toList) ∧
    moduleDepsUnsorted (mfDemo true) 2 = .error (.importNotExist "a/a.proto".toList "a/missing_a.proto".toList) := by
  decide

/-- … and a different module cycle. -/
theorem mf_unsorted_cycle_walk_order_counterexample :
    moduleDepsUnsorted (mfDemoCycles false) 2 = .error (.cycle [2, 1, 2]) ∧
    moduleDepsUnsorted (mfDemoCycles true) 2 = .error (.cycle [2, 0, 2]) := by
  decide

/-- The code that exists names module `a` (the smaller OpaqueID) for both walks. -/
theorem mf_sorted_demo :
    moduleDepsE (mfDemo false) 2 = .error (.importNotExist "a/a.proto".toList "a/missing_a.proto".toList) ∧
    moduleDepsE (mfDemo true) 2 = moduleDepsE (mfDemo false) 2 ∧
    moduleDepsE (mfDemoCycles false) 2 = .error (.cycle [2, 0, 2]) ∧
    moduleDepsE (mfDemoCycles true) 2 = moduleDepsE (mfDemoCycles false) 2 := by
  decide

/-- Why `scanDet` is a hypothesis: ONE module with two files that each have an unresolvable import.
    As coded the error names the file the storage enumerated first (storage.ReadBucket.Walk promises
    no order; memory and disk buckets differ for `foo/…` and `foo-bar/…`).  Recorded as an observation
    by the harness family (members of kind `within`). -/
theorem mf_two_scan_failures_walk_order_counterexample :
    let f1 : PFile := { path := "d/foo/one.proto".toList, imports := ["d/missing_one.proto".toList] }
    let f2 : PFile := { path := "d/foo-bar/two.proto".toList, imports := ["d/missing_two.proto".toList] }
    let t (fs : List PFile) : MFWS := { ws := { mods := [{ files := fs, isTarget := true, isLocal := true }], wkt := [] } }
    moduleDepsE (t [f1, f2]) 0 = .error (.importNotExist f1.path "d/missing_one.proto".toList) ∧
    moduleDepsE (t [f2, f1]) 0 = .error (.importNotExist f2.path "d/missing_two.proto".toList) ∧
    scanDet (t [f1, f2]) = false := by
  decide

-- the hypotheses of `mf_error_walk_order_irrelevant` are satisfiable, on the demo itself
example : moduleDepsE (mfDemo false) 2 = moduleDepsE (mfDemo true) 2 :=
  mf_error_walk_order_irrelevant _ _
    { len := by decide
      files := by
        intro m
        rcases m with _ | _ | _ | m
        · simp [mfDemo, modFiles]
        · simp [mfDemo, modFiles]
        · simp only [mfDemo, modFiles, List.getElem?_cons_succ, List.getElem?_cons_zero, Option.map_some, Option.getD_some]
          exact List.Perm.swap _ _ _
        · simp [mfDemo, modFiles]
      wkt := by intro p; simp [mfDemo, isWkt]
      broken := by decide
      docs := by decide
      targets := by decide }
    (by decide) 2

/-! ## (2) several check clients, some failing -/
section MultiClient
open BufModel.Parallel BufModel.MultiClient BufProofs.MultiClientLemmas

/-- The combined error of `multiClient.Check` as coded: the errors of the failing clients in CONFIG
    order, for EVERY schedule in which all clients with a job have finished (nothing is cancelled, so
    they all do) — whichever client finished first, whatever the parallelism. -/
theorem mc_error_is_failing_clients_in_config_order (os : List Outcome) (finished : List Nat)
    (hall : ∀ c ∈ jobClients os, c ∈ finished) :
    checkErr os finished = ((List.range os.length).filter fun i => os.getD i .noRule == .fails).map .client := by
  unfold checkErr joined
  have hlen : (jobFails os).length = (jobClients os).length := by simp [jobFails]
  rw [parallelize_errors_without_cancel (jobFails os) (toJobs os finished)]
  · rw [List.map_map, hlen]
    have h1 : (itemOfJob os ∘ PErrItem.job) = (MCItem.client ∘ fun j => (jobClients os).getD j os.length) := by
      funext j; rfl
    rw [h1, ← List.map_map]
    unfold jobFails
    rw [mc_filter_getD (jobClients os) (fun i => os.getD i .noRule == .fails) os.length]
    unfold jobClients
    rw [List.filter_filter]
    congr 1
    apply List.filter_congr
    intro i _
    cases h : os.getD i .noRule <;> simp [Outcome.hasJob]
  · intro j hj
    rw [hlen] at hj
    unfold toJobs
    rw [List.mem_flatMap]
    refine ⟨(jobClients os).getD j os.length, hall _ ?_, ?_⟩
    · have : (jobClients os).getD j os.length = (jobClients os)[j] := by
        simp [List.getD_eq_getElem?_getD, hj]
      rw [this]
      exact List.getElem_mem hj
    · rw [List.mem_filter]
      exact ⟨List.mem_range.mpr hj, by simp⟩

/-- Two schedules, one error. -/
theorem mc_error_schedule_irrelevant (os : List Outcome) (finished₁ finished₂ : List Nat)
    (h₁ : ∀ c ∈ jobClients os, c ∈ finished₁) (h₂ : ∀ c ∈ jobClients os, c ∈ finished₂) :
    checkErr os finished₁ = checkErr os finished₂ := by
  rw [mc_error_is_failing_clients_in_config_order os finished₁ h₁,
    mc_error_is_failing_clients_in_config_order os finished₂ h₂]

/-- The call fails exactly when some client fails. -/
theorem mc_error_iff_some_client_fails (os : List Outcome) (finished : List Nat)
    (hall : ∀ c ∈ jobClients os, c ∈ finished) :
    checkErr os finished ≠ [] ↔ ∃ i, i < os.length ∧ os.getD i .noRule = .fails := by
  rw [mc_error_is_failing_clients_in_config_order os finished hall]
  rw [ne_eq, List.map_eq_nil_iff, List.filter_eq_nil_iff]
  constructor
  · intro h
    apply Classical.byContradiction
    intro hn
    apply h
    intro i hi hf
    exact hn ⟨i, List.mem_range.mp hi, by simpa using hf⟩
  · rintro ⟨i, hi, hf⟩ h
    exact h i (List.mem_range.mpr hi) (by rw [hf]; rfl)

/-- The stored regression C02-m10 (`thread.ParallelizeWithCancelOnFailure()` in the fan-out): the
    same two failing clients, four schedules, four different errors — both finish; the dispatch
    loop sees the cancellation before client 1 is started (parallelism 1); client 1 is running when
    client 0 fails and reports the cancellation; the other way round. -/
theorem mc_cancel_on_failure_schedule_counterexample :
    checkErrCancel [.fails, .fails] [0, 1] none [] = [.client 0, .client 1] ∧
    checkErrCancel [.fails, .fails] [0] (some 1) [] = [.client 0, .ctx] ∧
    checkErrCancel [.fails, .fails] [0, 1] none [1] = [.client 0, .cancelled 1] ∧
    checkErrCancel [.fails, .fails] [1, 0] none [0] = [.cancelled 0, .client 1] := by
  decide

/-- … while a HEALTHY client overtaken by the cancellation turns up in the error as well. -/
theorem mc_cancel_on_failure_healthy_client_counterexample :
    checkErrCancel [.ok, .fails] [1, 0] none [0] = [.cancelled 0, .client 1] ∧
    checkErr [.ok, .fails] [1, 0] = [.client 1] := by
  decide

/-- Joining the errors in completion order (a fan-out that collects the errors itself) is
    schedule-dependent too. -/
theorem mc_completion_order_counterexample :
    checkErrCompletionOrder [.fails, .fails] [0, 1] ≠ checkErrCompletionOrder [.fails, .fails] [1, 0] := by
  decide

/-- Why no successful run notices cancel-on-failure: without a failing client the variant reports
    no error either. -/
theorem mc_cancel_invisible_without_failure (os : List Outcome) (finished : List Nat)
    (hok : ∀ i, os.getD i .noRule ≠ .fails) :
    checkErrCancel os finished none [] = [] := by
  unfold checkErrCancel
  rw [List.filterMap_eq_nil_iff]
  intro j _
  have h2 : (os.getD ((jobClients os).getD j os.length) .noRule == Outcome.fails) = false := by
    have h1 := hok ((jobClients os).getD j os.length)
    cases h : os.getD ((jobClients os).getD j os.length) .noRule <;> simp_all
  simp only [List.getD_eq_getElem?_getD] at h2 ⊢
  simp [h2]

example : checkErr [.fails, .noRule, .ok, .fails] [3, 2, 0] = [.client 0, .client 3] := by decide
example : checkErr [.fails, .noRule, .ok, .fails] [0, 2, 3] = [.client 0, .client 3] :=
  (mc_error_schedule_irrelevant _ [0, 2, 3] [3, 2, 0] (by decide) (by decide)).trans (by decide)
example : mustRun [.fails, .noRule, .ok, .fails] = [0, 2, 3] := by decide

end MultiClient

end BufProofs.C02
