import BufProofs.Lemmas.RulesWorkspaceLemmas
/-
  C06 — round 6-G.

  (1) SEVERAL MODULES in one v2 buf.yaml.  Every module's `LintConfig` / `BreakingConfig` is
      `convertModule lint ws (path, ownSection)`: a function of the workspace-level section VALUE
      and of the module's own entry — never of the other modules, of their order, or of how often
      the file is read.  A workspace-level `ignore` / `ignore_only` path reaches a module iff it
      lies inside that module's directory.  (Seed C06-m9: an in-place filter of the shared slice
      made the second module read the first module's relative paths; documented by
      `in_place_filter_leaks_counterexample`.)
  (2) The DIRECTIVE PARSER: which rule ids a leading comment names.  `parseIgnoreDirectives`
      is what `commentIgnoresAt` (hence `ignoreFileLocation`) applies to the leading comment of
      every associated source path; white space around a directive line is irrelevant, a line
      carries at most one directive, the id is matched as a prefix of the directive text.
      (Seed C06-m10: only one leading blank was stripped.)
-/
namespace BufProofs.C06
open BufModel.Path BufModel.Rules BufGen.RuleTables

/-! ## several modules in one v2 buf.yaml -/

/-- The loop over the modules succeeds with `out` iff `out` lists, entry by entry and in file
    order, the conversion of every module entry — each computed from the SAME workspace-level
    section value `ws`. -/
theorem multi_module_configs_entrywise (lint : Bool) (ws : YSection) (mods : List (Str × YSection))
    (out : List (Str × EffConfig)) :
    readYamlModules lint ws mods = .ok out ↔ mods.map (convertModule lint ws) = out.map Except.ok :=
  readYamlModules_ok_iff_map lint ws mods out

/-- What one module gets: its normalised directory and — when its own section is empty — the
    workspace-level section converted for ITS directory (outside paths skipped), otherwise its
    own section (outside paths are errors).  Nothing else enters. -/
theorem module_config_is_own_or_workspace_section (lint : Bool) (ws : YSection) (p : Str) (sec : YSection)
    (d : Str) (eff : EffConfig) :
    convertModule lint ws (p, sec) = .ok (d, eff) ↔
      moduleDirOf p = .ok d ∧
      (if sec.isEmpty then sectionToEff lint true d false ws else sectionToEff lint true d true sec) = .ok eff := by
  unfold convertModule
  cases hd : moduleDirOf p with
  | error e => simp
  | ok d' =>
    have hm : moduleEff lint true d' ws sec =
        (if sec.isEmpty then sectionToEff lint true d' false ws else sectionToEff lint true d' true sec) := by
      unfold moduleEff pickSection
      cases sec.isEmpty <;> simp
    simp only [hm]
    cases hs : (if sec.isEmpty then sectionToEff lint true d' false ws else sectionToEff lint true d' true sec) with
    | error e =>
      constructor
      · intro h; cases h
      · rintro ⟨h1, h2⟩; cases h1; rw [hs] at h2; cases h2
    | ok e' =>
      constructor
      · intro h; cases h; exact ⟨rfl, hs⟩
      · rintro ⟨h1, h2⟩; cases h1; rw [hs] at h2; cases h2; rfl

/-- The configurations of a file are exactly the conversions of its entries. -/
theorem module_config_depends_on_own_entry_only (lint : Bool) (ws : YSection) (mods : List (Str × YSection))
    (out : List (Str × EffConfig)) (h : readYamlModules lint ws mods = .ok out) (o : Str × EffConfig) :
    o ∈ out ↔ ∃ m ∈ mods, convertModule lint ws m = .ok o :=
  readYamlModules_mem_out lint ws mods out h o

/-- A module entry gets the same configuration in every file with the same workspace-level
    section, whatever other modules are listed before or after it. -/
theorem module_config_same_in_every_file (lint : Bool) (ws : YSection) (mods mods' : List (Str × YSection))
    (out out' : List (Str × EffConfig)) (h : readYamlModules lint ws mods = .ok out)
    (h' : readYamlModules lint ws mods' = .ok out') (m : Str × YSection) (hm : m ∈ mods) (hm' : m ∈ mods') :
    ∃ o, convertModule lint ws m = .ok o ∧ o ∈ out ∧ o ∈ out' := by
  obtain ⟨o, ho⟩ := (readYamlModules_ok_iff lint ws mods).1 ⟨out, h⟩ m hm
  exact ⟨o, ho, (readYamlModules_mem_out lint ws mods out h o).2 ⟨m, hm, ho⟩,
    (readYamlModules_mem_out lint ws mods' out' h' o).2 ⟨m, hm', ho⟩⟩

/-- Listing the modules in another order permutes the configurations and changes none. -/
theorem multi_module_order_irrelevant (lint : Bool) (ws : YSection) (mods mods' : List (Str × YSection))
    (hp : mods.Perm mods') (out : List (Str × EffConfig)) (h : readYamlModules lint ws mods = .ok out) :
    ∃ out', readYamlModules lint ws mods' = .ok out' ∧ out.Perm out' :=
  readYamlModules_perm lint ws hp out h

/-- The read fails iff the conversion of some module entry fails (on its own). -/
theorem multi_module_read_fails_iff_a_module_fails (lint : Bool) (ws : YSection) (mods : List (Str × YSection)) :
    (∃ e, readYamlModules lint ws mods = .error e) ↔ ∃ m ∈ mods, ∃ e, convertModule lint ws m = .error e := by
  have hiff := readYamlModules_ok_iff lint ws mods
  constructor
  · rintro ⟨e, he⟩
    apply Classical.byContradiction
    intro hno
    have hall : ∀ m ∈ mods, ∃ o, convertModule lint ws m = .ok o := by
      intro m hm
      cases hc : convertModule lint ws m with
      | ok o => exact ⟨o, rfl⟩
      | error e' => exact absurd ⟨m, hm, e', hc⟩ hno
    obtain ⟨out, hout⟩ := hiff.2 hall
    rw [he] at hout; cases hout
  · rintro ⟨m, hm, e, he⟩
    cases hr : readYamlModules lint ws mods with
    | error e' => exact ⟨e', rfl⟩
    | ok out =>
      obtain ⟨o, ho⟩ := hiff.1 ⟨out, hr⟩ m hm
      rw [he] at ho; cases ho

/-- `readYamlMulti` (what a `ymulti` line runs): the module configurations are the conversions
    of the entries (sorted by directory), the top-level configuration is `topLevelEff` of the
    workspace-level section — whatever the modules are. -/
theorem readYamlMulti_spec (lint : Bool) (ws : YSection) (mods : List (Str × YSection))
    (ms : List (Str × EffConfig)) (top : Option EffConfig) (h : readYamlMulti lint ws mods = .ok (ms, top)) :
    (∀ o, o ∈ ms ↔ ∃ m ∈ effectiveModules mods, convertModule lint ws m = .ok o) ∧
      topLevelEff lint true ws = .ok top := by
  unfold readYamlMulti at h
  cases hr : readYamlModules lint ws (effectiveModules mods) with
  | error e => rw [hr] at h; cases h
  | ok out =>
    cases ht : topLevelEff lint true ws with
    | error e => rw [hr, ht] at h; cases h
    | ok t =>
      rw [hr, ht] at h
      cases h
      refine ⟨fun o => ?_, rfl⟩
      unfold sortModuleConfigs
      rw [mem_sortS]
      exact readYamlModules_mem_out lint ws _ out hr o

/-- A workspace-relative path list, made relative to one module: the module sees `r` iff some
    listed path normalises to a path INSIDE (or equal to) the module directory whose relative
    form is `r`.  Paths outside the module never contribute. -/
theorem workspace_paths_reach_module_iff_inside (dir : Str) (req : Bool) (ps rs : List Str)
    (h : relPathsFor dir req ps = .ok rs) (r : Str) :
    r ∈ rs ↔ ∃ p ∈ ps, ∃ n, normalizeAndValidate p = .ok n ∧ equalsOrContainsPath dir n = true ∧
      rel dir n = some r :=
  relPathsFor_mem_iff dir req ps rs h r

/-! ### the witness of seed C06-m9 -/

/-- `version: v2 / modules: [proto, vendor] / lint: {use: [ENUM_PASCAL_CASE], ignore: [proto/vendor]}` -/
def exWsLeak : YSection := { use := ["ENUM_PASCAL_CASE"], ignore := ["proto/vendor".toList] }
def exModsLeak : List (Str × YSection) := [("proto".toList, {}), ("vendor".toList, {})]

/-- What matters of one module's configuration in the examples. -/
structure ModSummary where
  dir : Str
  disabled : Bool
  ignore : List Str
  ignoreOnly : List (BufModel.Rules.Id × List Str)
  deriving DecidableEq, Repr

def multiSummary (r : Except RErr (List (Str × EffConfig) × Option EffConfig)) : Option (List ModSummary) :=
  match r with
  | .ok (ms, _) => some (ms.map fun m => ⟨m.1, m.2.disabled, m.2.check.ignore, m.2.check.ignoreOnly⟩)
  | .error _ => none

/-- `proto/vendor` is a directory of module `proto`: it becomes `vendor` THERE and says nothing
    about the module `vendor` (not disabled, no ignore path), in either order of the modules. -/
theorem workspace_ignore_inside_first_module_does_not_reach_second :
    multiSummary (readYamlMulti true exWsLeak exModsLeak) =
        some [⟨"proto".toList, false, ["vendor".toList], []⟩, ⟨"vendor".toList, false, [], []⟩] ∧
      multiSummary (readYamlMulti true exWsLeak exModsLeak.reverse) =
        some [⟨"proto".toList, false, ["vendor".toList], []⟩, ⟨"vendor".toList, false, [], []⟩] := by
  decide

/-- The same for `ignore_only: {ENUM_PASCAL_CASE: [proto/vendor/w.proto]}`. -/
theorem workspace_ignore_only_inside_first_module_does_not_reach_second :
    multiSummary (readYamlMulti true
        { use := ["ENUM_PASCAL_CASE"], ignoreOnly := [("ENUM_PASCAL_CASE", ["proto/vendor/w.proto".toList])] } exModsLeak) =
      some [⟨"proto".toList, false, [], [("ENUM_PASCAL_CASE", ["vendor/w.proto".toList])]⟩,
            ⟨"vendor".toList, false, [], []⟩] := by
  decide

/-- Documentation of the seeded defect: filtering the shared `ignore` slice in place hands the
    second module the FIRST module's relative path `vendor`, which equals the second module's
    directory (`isLintOrBreakingDisabledBasedOnIgnores` then disables lint for the whole module);
    the pure conversion hands it nothing. -/
theorem in_place_filter_leaks_counterexample :
    inPlaceLeftover ["proto/vendor".toList] ["vendor".toList] = ["vendor".toList] ∧
      disabledByIgnores "vendor".toList (inPlaceLeftover ["proto/vendor".toList] ["vendor".toList]) = .ok true ∧
      disabledByIgnores "vendor".toList ["proto/vendor".toList] = .ok false ∧
      relPathsFor "vendor".toList false ["proto/vendor".toList] = .ok [] ∧
      secondModuleIgnoreInPlace "proto".toList "vendor".toList ["proto/vendor/w.proto".toList] = .ok ["w.proto".toList] := by
  decide

/-- As coded (counted by the harness, not demanded by the oracle — candidate finding of round
    6-G): a workspace-level ignore path that is a strict ANCESTOR of a module directory
    (`ignore: [libs]`, modules `libs/a`, `libs/b`) is "not contained within the module" and is
    skipped: neither module is disabled nor gets an ignore path, although all their files lie
    under `libs`. -/
theorem workspace_ignore_above_module_root_skipped_counterexample :
    multiSummary (readYamlMulti true { ignore := ["libs".toList] } [("libs/a".toList, {}), ("libs/b".toList, {})]) =
      some [⟨"libs/a".toList, false, [], []⟩, ⟨"libs/b".toList, false, [], []⟩] := by
  decide

/-! ## the directive parser -/

/-- `commentIgnoresAt` — the test `ignoreFileLocation` applies to every associated source path —
    is `commentNames` on the element's leading comment. -/
theorem comment_ignore_is_directive_parser (f : FileInfo) (pre : Str) (r : Id) (p : SPath) :
    commentIgnoresAt f pre r p = commentNames pre (leadingComments f p) r := by
  rw [commentNames_eq]; rfl

/-- A comment names a rule iff one of its lines, trimmed, starts with `<prefix> <id>`. -/
theorem comment_names_iff (pre comment : Str) (r : Id) :
    commentNames pre comment r = true ↔
      ∃ line ∈ splitOnChar '\n' comment, (pre ++ ' ' :: r.toList).isPrefixOf (trimSpace line) = true := by
  unfold commentNames parseIgnoreDirectives
  rw [any_filterMap_eq, List.any_eq_true]
  constructor
  · rintro ⟨line, hl, h⟩
    rw [directiveOfLine_names] at h
    exact ⟨line, hl, h⟩
  · rintro ⟨line, hl, h⟩
    exact ⟨line, hl, by rw [directiveOfLine_names]; exact h⟩

/-- The directives of a comment given by its lines: one `directiveOfLine` per line. -/
theorem directives_linewise (pre : Str) (ls : List Str) (hne : ls ≠ []) (hnl : ∀ l ∈ ls, '\n' ∉ l) :
    parseIgnoreDirectives pre (joinLines ls) = ls.filterMap (directiveOfLine pre) :=
  parseIgnoreDirectives_joinLines pre ls hne hnl

/-- At most one directive per comment line. -/
theorem one_directive_per_line (pre : Str) (ls : List Str) (hne : ls ≠ []) (hnl : ∀ l ∈ ls, '\n' ∉ l) :
    (parseIgnoreDirectives pre (joinLines ls)).length ≤ ls.length := by
  rw [parseIgnoreDirectives_joinLines pre ls hne hnl]
  exact List.length_filterMap_le _ _

/-- WHITE-SPACE INSENSITIVITY.  Every line of the comment may be preceded and followed by any
    white space (blanks, tabs, CR, any Unicode space — everything `unicode.IsSpace` accepts
    except the newline that separates lines): the directives are the same. -/
theorem directives_whitespace_insensitive (pre : Str) (ts : List (Str × Str × Str)) (hne : ts ≠ [])
    (hpad : ∀ t ∈ ts, ∀ c ∈ t.1 ++ t.2.2, isSpaceChar c = true ∧ c ≠ '\n')
    (hnl : ∀ t ∈ ts, '\n' ∉ t.2.1) :
    parseIgnoreDirectives pre (joinLines (ts.map fun t => t.1 ++ t.2.1 ++ t.2.2)) =
      parseIgnoreDirectives pre (joinLines (ts.map fun t => t.2.1)) := by
  have hne1 : (ts.map fun t => t.1 ++ t.2.1 ++ t.2.2) ≠ [] := by
    intro h; exact hne (List.map_eq_nil_iff.1 h)
  have hne2 : (ts.map fun t => t.2.1) ≠ [] := by
    intro h; exact hne (List.map_eq_nil_iff.1 h)
  have hnl1 : ∀ l ∈ (ts.map fun t => t.1 ++ t.2.1 ++ t.2.2), '\n' ∉ l := by
    intro l hl
    obtain ⟨t, ht, rfl⟩ := List.mem_map.1 hl
    intro hmem
    rcases List.mem_append.1 hmem with h | h
    · rcases List.mem_append.1 h with h | h
      · exact (hpad t ht '\n' (List.mem_append.2 (Or.inl h))).2 rfl
      · exact hnl t ht h
    · exact (hpad t ht '\n' (List.mem_append.2 (Or.inr h))).2 rfl
  have hnl2 : ∀ l ∈ (ts.map fun t => t.2.1), '\n' ∉ l := by
    intro l hl
    obtain ⟨t, ht, rfl⟩ := List.mem_map.1 hl
    exact hnl t ht
  rw [parseIgnoreDirectives_joinLines pre _ hne1 hnl1, parseIgnoreDirectives_joinLines pre _ hne2 hnl2,
    List.filterMap_map, List.filterMap_map]
  exact ws6_filterMap_congr _ _ ts (fun t ht => directiveOfLine_pad pre t.1 t.2.1 t.2.2
    (fun c hc => (hpad t ht c (List.mem_append.2 (Or.inl hc))).1)
    (fun c hc => (hpad t ht c (List.mem_append.2 (Or.inr hc))).1))

/-- Seed C06-m10 as a statement: a directive line `<prefix> <id><tail>` names the rule wherever
    it stands in the comment (first / middle / last line) and however it is indented or padded. -/
theorem indented_directive_recognised (pre : Str) (rule : Id) (before after : List Str) (lead trail tail : Str)
    (hpad : ∀ c ∈ lead ++ trail, isSpaceChar c = true ∧ c ≠ '\n')
    (hbody : trimSpace (pre ++ ' ' :: rule.toList ++ tail) = pre ++ ' ' :: rule.toList ++ tail)
    (hnl : ∀ l ∈ before ++ [pre ++ ' ' :: rule.toList ++ tail] ++ after, '\n' ∉ l) :
    commentNames pre (joinLines (before ++ [lead ++ (pre ++ ' ' :: rule.toList ++ tail) ++ trail] ++ after)) rule = true := by
  rw [comment_names_iff]
  have hne : before ++ [lead ++ (pre ++ ' ' :: rule.toList ++ tail) ++ trail] ++ after ≠ [] := by simp
  have hnl' : ∀ l ∈ before ++ [lead ++ (pre ++ ' ' :: rule.toList ++ tail) ++ trail] ++ after, '\n' ∉ l := by
    intro l hl
    simp only [List.mem_append, List.mem_singleton] at hl
    rcases hl with (hl | rfl) | hl
    · exact hnl l (by simp [hl])
    · intro hmem
      rcases List.mem_append.1 hmem with h | h
      · rcases List.mem_append.1 h with h | h
        · exact (hpad '\n' (List.mem_append.2 (Or.inl h))).2 rfl
        · exact hnl _ (by simp) h
      · exact (hpad '\n' (List.mem_append.2 (Or.inr h))).2 rfl
    · exact hnl l (by simp [hl])
  rw [splitOnChar_joinLines _ hne hnl']
  refine ⟨lead ++ (pre ++ ' ' :: rule.toList ++ tail) ++ trail, by simp, ?_⟩
  rw [trimSpace_pad lead _ trail (fun c hc => (hpad c (List.mem_append.2 (Or.inl hc))).1)
    (fun c hc => (hpad c (List.mem_append.2 (Or.inr hc))).1), hbody]
  have : pre ++ ' ' :: rule.toList ++ tail = (pre ++ ' ' :: rule.toList) ++ tail := by simp
  rw [this, List.isPrefixOf_iff_prefix]
  exact List.prefix_append _ _

/-- The id is matched as a PREFIX of the directive text (documented in the code comment of
    `checkCommentLineForCheckIgnore`): a directive naming `r₂` names every id `r₁` that is a
    prefix of `r₂`. -/
theorem directive_id_matched_as_prefix (r₁ r₂ : Id) (text : Str) (hp : r₁.toList <+: r₂.toList)
    (h : textNames r₂ text = true) : textNames r₁ text = true := by
  unfold textNames at *
  rw [List.isPrefixOf_iff_prefix] at *
  exact hp.trans h

/-- Spellings that are no-ops as coded: no id, no separating blank, two blanks, a tab as
    separator, another case, not at the start of the line, a second directive on the same line;
    and spellings that work: tight `//`, indentation by blanks and tabs, trailing prose, a comma
    list (first id only), CR at the end of the line, a `*`-less block comment line. -/
theorem directive_spellings_as_coded :
    let names (c : String) (r : Id) := commentNames lintCommentIgnorePrefix c.toList r
    names " buf:lint:ignore\n" "ENUM_PASCAL_CASE" = false ∧
    names " buf:lint:ignoreENUM_PASCAL_CASE\n" "ENUM_PASCAL_CASE" = false ∧
    names " buf:lint:ignore  ENUM_PASCAL_CASE\n" "ENUM_PASCAL_CASE" = false ∧
    names " buf:lint:ignore\tENUM_PASCAL_CASE\n" "ENUM_PASCAL_CASE" = false ∧
    names " Buf:lint:ignore ENUM_PASCAL_CASE\n" "ENUM_PASCAL_CASE" = false ∧
    names " see buf:lint:ignore ENUM_PASCAL_CASE\n" "ENUM_PASCAL_CASE" = false ∧
    names " buf:lint:ignore ENUM_PASCAL_CASE buf:lint:ignore COMMENT_ENUM\n" "COMMENT_ENUM" = false ∧
    names " buf:lint:ignore ENUM_PASCAL_CASE, COMMENT_ENUM\n" "COMMENT_ENUM" = false ∧
    names "buf:lint:ignore ENUM_PASCAL_CASE\n" "ENUM_PASCAL_CASE" = true ∧
    names "   buf:lint:ignore ENUM_PASCAL_CASE\n" "ENUM_PASCAL_CASE" = true ∧
    names "\tbuf:lint:ignore ENUM_PASCAL_CASE  \r\n" "ENUM_PASCAL_CASE" = true ∧
    names " Docs.\n \t buf:lint:ignore ENUM_PASCAL_CASE because reasons\n More.\n" "ENUM_PASCAL_CASE" = true ∧
    names " buf:lint:ignore ENUM_PASCAL_CASE, COMMENT_ENUM\n" "ENUM_PASCAL_CASE" = true ∧
    names " buf:lint:ignore COMMENT_ENUM_VALUE\n" "COMMENT_ENUM" = true ∧
    names "\n   buf:lint:ignore ENUM_PASCAL_CASE\n " "ENUM_PASCAL_CASE" = true := by
  decide

/-! ## non-vacuity -/

example : commentNames lintCommentIgnorePrefix
    (joinLines ([" Heading:".toList] ++ ["   \t".toList ++ ("buf:lint:ignore".toList ++ ' ' :: "ENUM_PASCAL_CASE".toList ++ ", X".toList) ++ " ".toList] ++ []))
    "ENUM_PASCAL_CASE" = true :=
  indented_directive_recognised _ _ _ _ _ _ _ (by decide) (by decide) (by decide)

example : readYamlModules true exWsLeak exModsLeak ≠ .error .config := by decide

example : ∃ o, convertModule true exWsLeak ("vendor".toList, {}) = .ok o ∧ o.2.disabled = false := ⟨_, rfl, by decide⟩

end BufProofs.C06
