import BufProofs.Props.C05
import BufProofs.Lemmas.LintOrder
/-
  C05 — the DECLARATION-ORDER family.

  The per-element rules are handed ONE element at a time by the iteration helpers; the model
  (`elemRule` over `fileEnumValues`, `fileFields`, `fileRpcs`, …) is per element, in declaration
  order, with `Int` value numbers (negative numbers, aliases: several values with one number).
  The theorems below state the family explicitly: the element standing at position `|l₁|` of a list
  `l₁ ++ x :: l₂` is judged and reported at index `|l₁|`, WHATEVER `l₁` and `l₂` are — a zero value
  that is not declared first, a second name of a number, a value after a negative one, the eleventh
  field.  The `…_first_only_counterexample`s show what a rule that picks `[0]` of the parent itself
  (seed C05-m7: ENUM_ZERO_VALUE_SUFFIX over `enum.Values()[0]`) does not see, and
  `enum_zero_value_suffix_first_only_blind_spot` on which enums such a rule is indistinguishable
  from the real one (zero value first, no other name of 0 — every enum the generator used to make).
-/
namespace BufProofs.C05
open BufModel.Case BufModel.Lint

/-! ## enum values: every value, wherever it is declared -/

/-- **ENUM_ZERO_VALUE_SUFFIX, any position.**  In an enum (top-level or nested at any depth) whose
    values are `l₁ ++ v :: l₂`, where `v` has number 0 and a name without the configured suffix, the
    rule reports `v` at ITS index `|l₁|` — whatever `l₁` is: non-zero values declared before the zero
    value (closed enums), other names of 0 with or without the suffix (`allow_alias`), negative numbers. -/
theorem plant_enum_zero_value_suffix_any_position (o : Options) (rules : List Rule) (w : Schema)
    (f : File) (hf : f ∈ w) (hni : f.isImport = false) (p : List Nat) (e : Enum)
    (he : (p, e) ∈ fileEnums f) (l₁ : List EnumValue) (v : EnumValue) (l₂ : List EnumValue)
    (hv : e.values = l₁ ++ v :: l₂) (hr : .ENUM_ZERO_VALUE_SUFFIX ∈ rules)
    (hz : v.number = 0) (hs : hasSuffix o.zeroSuffix v.name = false) :
    (⟨.ENUM_ZERO_VALUE_SUFFIX, f.path, p ++ [2, l₁.length, 1]⟩ : Annotation) ∈ lint o rules w := by
  have h := elem_bad_reported o rules w .ENUM_ZERO_VALUE_SUFFIX _ rfl hr f hf hni
    (p ++ [2, l₁.length], e, v) (fileEnumValues_at f p e he l₁ v l₂ hv)
    (by show (v.number == 0 && !hasSuffix o.zeroSuffix v.name) = true; simp [hz, hs])
  simpa [ann] using h

/-- **ENUM_ZERO_VALUE_SUFFIX reports exactly the names of 0 that lack the suffix** — one annotation
    per such value, at the value's own index; nothing for a value with another number, nothing for a
    name of 0 that has the suffix, wherever they are declared. -/
theorem enum_zero_value_suffix_exactly_the_zero_names (o : Options) (rules : List Rule) (w : Schema)
    (a : Annotation) :
    (a ∈ lint o rules w ∧ a.rule = .ENUM_ZERO_VALUE_SUFFIX) ↔
      .ENUM_ZERO_VALUE_SUFFIX ∈ rules ∧ ∃ f ∈ w, f.isImport = false ∧
        ∃ p e, (p, e) ∈ fileEnums f ∧ ∃ l₁ v l₂, e.values = l₁ ++ v :: l₂ ∧
          v.number = 0 ∧ hasSuffix o.zeroSuffix v.name = false ∧
          a = ⟨.ENUM_ZERO_VALUE_SUFFIX, f.path, p ++ [2, l₁.length, 1]⟩ := by
  rw [violations_exact_elem o rules w .ENUM_ZERO_VALUE_SUFFIX _ rfl a]
  constructor
  · rintro ⟨hr, f, hf, hni, ⟨q, e, v⟩, hmem, hbad, ha⟩
    obtain ⟨p, l₁, l₂, he, hv, rfl⟩ := fileEnumValues_split f q e v hmem
    have hb : (v.number == 0 && !hasSuffix o.zeroSuffix v.name) = true := hbad
    simp only [Bool.and_eq_true, beq_iff_eq, Bool.not_eq_eq_eq_not, Bool.not_true] at hb
    exact ⟨hr, f, hf, hni, p, e, he, l₁, v, l₂, hv, hb.1, hb.2, by rw [ha]; simp [ann]⟩
  · rintro ⟨hr, f, hf, hni, p, e, he, l₁, v, l₂, hv, hz, hs, ha⟩
    refine ⟨hr, f, hf, hni, (p ++ [2, l₁.length], e, v), fileEnumValues_at f p e he l₁ v l₂ hv, ?_, ?_⟩
    · show (v.number == 0 && !hasSuffix o.zeroSuffix v.name) = true
      simp [hz, hs]
    · rw [ha]; simp [ann]

/-- **ENUM_VALUE_PREFIX, ENUM_VALUE_UPPER_SNAKE_CASE, COMMENT_ENUM_VALUE, any position and any
    number.**  The value at position `|l₁|` is judged on its own name / comment and reported at index
    `|l₁|` — no hypothesis on its number: it may repeat the number of an earlier value (an alias),
    be zero, be negative. -/
theorem enum_value_rules_any_position (o : Options) (rules : List Rule) (w : Schema)
    (f : File) (hf : f ∈ w) (hni : f.isImport = false) (p : List Nat) (e : Enum)
    (he : (p, e) ∈ fileEnums f) (l₁ : List EnumValue) (v : EnumValue) (l₂ : List EnumValue)
    (hv : e.values = l₁ ++ v :: l₂) :
    (.ENUM_VALUE_PREFIX ∈ rules → hasPrefix (toUpperSnakeCase false e.name ++ ['_']) v.name = false →
        (⟨.ENUM_VALUE_PREFIX, f.path, p ++ [2, l₁.length, 1]⟩ : Annotation) ∈ lint o rules w) ∧
    (.ENUM_VALUE_UPPER_SNAKE_CASE ∈ rules → v.name ≠ toUpperSnakeCase false v.name →
        (⟨.ENUM_VALUE_UPPER_SNAKE_CASE, f.path, p ++ [2, l₁.length, 1]⟩ : Annotation) ∈ lint o rules w) ∧
    (.COMMENT_ENUM_VALUE ∈ rules → validLeadingComment o.commentExcludes v.comment = false →
        (⟨.COMMENT_ENUM_VALUE, f.path, p ++ [2, l₁.length]⟩ : Annotation) ∈ lint o rules w) := by
  have hmem := fileEnumValues_at f p e he l₁ v l₂ hv
  refine ⟨fun hr hb => ?_, fun hr hb => ?_, fun hr hb => ?_⟩
  · have h := elem_bad_reported o rules w .ENUM_VALUE_PREFIX _ rfl hr f hf hni _ hmem
      (by show (!hasPrefix (toUpperSnakeCase false e.name ++ ['_']) v.name) = true; simp [hb])
    simpa [ann] using h
  · have h := elem_bad_reported o rules w .ENUM_VALUE_UPPER_SNAKE_CASE _ rfl hr f hf hni _ hmem
      (by show (v.name != toUpperSnakeCase false v.name) = true; simpa using hb)
    simpa [ann] using h
  · have h := elem_bad_reported o rules w .COMMENT_ENUM_VALUE _ rfl hr f hf hni _ hmem
      (by show (!validLeadingComment o.commentExcludes v.comment) = true; simp [hb])
    simpa [ann] using h

/-- **ENUM_FIRST_VALUE_ZERO reads the first DECLARED value and nothing else**: with values
    `v :: l` the rule fires iff `v.number ≠ 0` (then at the number of value 0), whatever `l`
    contains — a zero value further down does not help, a non-zero one does not hurt. -/
theorem enum_first_value_zero_reads_first_declared (o : Options) (rules : List Rule) (w : Schema)
    (f : File) (hf : f ∈ w) (hni : f.isImport = false) (p : List Nat) (e : Enum)
    (he : (p, e) ∈ fileEnums f) (v : EnumValue) (l : List EnumValue) (hv : e.values = v :: l) :
    (.ENUM_FIRST_VALUE_ZERO ∈ rules → v.number ≠ 0 →
        (⟨.ENUM_FIRST_VALUE_ZERO, f.path, p ++ [2, 0, 2]⟩ : Annotation) ∈ lint o rules w) ∧
    (v.number = 0 → ((elemRule .ENUM_FIRST_VALUE_ZERO).get rfl).bad o (p, e) = false) := by
  refine ⟨fun hr hb => ?_, fun hz => ?_⟩
  · have h := elem_bad_reported o rules w .ENUM_FIRST_VALUE_ZERO _ rfl hr f hf hni (p, e) he
      (by show (match e.values with | v :: _ => v.number != 0 | [] => false) = true
          rw [hv]; simpa using hb)
    simpa [ann] using h
  · show (match e.values with | v :: _ => v.number != 0 | [] => false) = false
    rw [hv]; simp [hz]

/-! ### the "first value only" variant (seed C05-m7) -/

/-- ENUM_ZERO_VALUE_SUFFIX rewritten as a per-ENUM rule that looks at `Values()[0]` only. -/
def zeroSuffixFirstOnly (o : Options) (f : File) : List Annotation :=
  (fileEnums f).flatMap fun (p, e) =>
    match e.values with
    | v :: _ => if v.number == 0 && !hasSuffix o.zeroSuffix v.name then [ann .ENUM_ZERO_VALUE_SUFFIX f (p ++ [2, 0, 1])] else []
    | [] => []

/-- what the real rule flags in ONE enum at `p` -/
def zeroSuffixOfEnum (o : Options) (f : File) (p : List Nat) (e : Enum) : List Annotation :=
  ((indexed e.values).filter fun (_, v) => v.number == 0 && !hasSuffix o.zeroSuffix v.name).map
    fun (i, _) => ann .ENUM_ZERO_VALUE_SUFFIX f (p ++ [2, i, 1])

/-- **The blind spot.**  On an enum whose zero value is declared FIRST and has no other name — every
    enum of a clean proto3 file, every enum the generator used to make — the "first value only"
    variant and the real rule flag the same thing: such a rewrite cannot be told from the real rule
    by planting at value 0. -/
theorem enum_zero_value_suffix_first_only_blind_spot (o : Options) (f : File) (p : List Nat) (e : Enum)
    (v : EnumValue) (l : List EnumValue) (hv : e.values = v :: l) (hl : ∀ x ∈ l, x.number ≠ 0) :
    zeroSuffixOfEnum o f p e =
      (if v.number == 0 && !hasSuffix o.zeroSuffix v.name then [ann .ENUM_ZERO_VALUE_SUFFIX f (p ++ [2, 0, 1])] else []) := by
  unfold zeroSuffixOfEnum
  rw [hv]
  have hnil : (indexFrom 1 l).filter (fun (x : Nat × EnumValue) => x.2.number == 0 && !hasSuffix o.zeroSuffix x.2.name) = [] :=
    filter_eq_nil_of_forall _ _ (fun ⟨j, x⟩ hx => by
      have := hl x (mem_indexFrom_snd l 1 j x hx)
      simp [this])
  show (((0, v) :: indexFrom 1 l).filter _).map _ = _
  rw [List.filter_cons, hnil]
  cases hb : (v.number == 0 && !hasSuffix o.zeroSuffix v.name) <;> simp [hb]

/-- the closed enum `enum Kind { KIND_ONE = 1; KIND_UNKNOWN = 0; }` and the alias enum
    `enum Color { option allow_alias = true; COLOR_UNSPECIFIED = 0; COLOR_NONE = 0; COLOR_RED = 1; }` -/
def orderKind : Enum :=
  { name := "Kind".toList, comment := " A kind.\n".toList,
    values := [⟨"KIND_ONE".toList, " One.\n".toList, 1⟩, ⟨"KIND_UNKNOWN".toList, " Zero.\n".toList, 0⟩] }
def orderColor : Enum :=
  { name := "Color".toList, comment := " A color.\n".toList, allowAlias := true,
    values := [⟨"COLOR_UNSPECIFIED".toList, " Zero.\n".toList, 0⟩, ⟨"COLOR_NONE".toList, " Zero again.\n".toList, 0⟩,
               ⟨"COLOR_RED".toList, " Red.\n".toList, 1⟩, ⟨"COLOR_DARK".toList, " Negative.\n".toList, -1⟩,
               ⟨"ZZ_CRIMSON".toList, " Red again.\n".toList, 1⟩] }
def orderFile : File :=
  { path := "acme/foo/v1/order.proto".toList, pkg := "acme.foo.v1".toList, enums := [orderKind, orderColor] }
def orderWs : Schema := [orderFile]

/-- **Seed C05-m7 as a statement.**  A zero value declared SECOND in a closed enum, and the SECOND
    name of 0 in an `allow_alias` enum, both without the suffix: the rule as coded reports both, at
    their own indices; the variant that looks at `Values()[0]` reports NOTHING.  (The other rules on
    the same file: ENUM_FIRST_VALUE_ZERO at the first enum, ENUM_NO_ALLOW_ALIAS at the second, and
    ENUM_VALUE_PREFIX at the alias `ZZ_CRIMSON = 1` — the fifth value, a second name of 1.) -/
theorem enum_zero_value_suffix_first_only_counterexample :
    lint {} [.ENUM_ZERO_VALUE_SUFFIX] orderWs =
      [⟨.ENUM_ZERO_VALUE_SUFFIX, "acme/foo/v1/order.proto".toList, [5, 0, 2, 1, 1]⟩,
       ⟨.ENUM_ZERO_VALUE_SUFFIX, "acme/foo/v1/order.proto".toList, [5, 1, 2, 1, 1]⟩] ∧
    (nonImport orderWs).flatMap (zeroSuffixFirstOnly {}) = [] ∧
    lint {} [.ENUM_FIRST_VALUE_ZERO, .ENUM_NO_ALLOW_ALIAS, .ENUM_VALUE_PREFIX, .ENUM_VALUE_UPPER_SNAKE_CASE, .COMMENT_ENUM_VALUE] orderWs =
      [⟨.ENUM_FIRST_VALUE_ZERO, "acme/foo/v1/order.proto".toList, [5, 0, 2, 0, 2]⟩,
       ⟨.ENUM_NO_ALLOW_ALIAS, "acme/foo/v1/order.proto".toList, [5, 1, 3, 2]⟩,
       ⟨.ENUM_VALUE_PREFIX, "acme/foo/v1/order.proto".toList, [5, 1, 2, 4, 1]⟩] := by decide

-- non-vacuity of the any-position theorems on `orderWs`: the second value of the first enum
example : (⟨.ENUM_ZERO_VALUE_SUFFIX, orderFile.path, [5, 0] ++ [2, 1, 1]⟩ : Annotation) ∈
    lint {} [.ENUM_ZERO_VALUE_SUFFIX] orderWs :=
  plant_enum_zero_value_suffix_any_position {} _ orderWs orderFile (.head _) rfl [5, 0] orderKind (by decide)
    [⟨"KIND_ONE".toList, " One.\n".toList, 1⟩] ⟨"KIND_UNKNOWN".toList, " Zero.\n".toList, 0⟩ [] rfl (.head _) rfl (by decide)
-- … and the fifth value of the second enum, an alias of 1 without the prefix
example : (⟨.ENUM_VALUE_PREFIX, orderFile.path, [5, 1] ++ [2, 4, 1]⟩ : Annotation) ∈
    lint {} [.ENUM_VALUE_PREFIX] orderWs :=
  (enum_value_rules_any_position {} _ orderWs orderFile (.head _) rfl [5, 1] orderColor (by decide)
    [⟨"COLOR_UNSPECIFIED".toList, " Zero.\n".toList, 0⟩, ⟨"COLOR_NONE".toList, " Zero again.\n".toList, 0⟩,
     ⟨"COLOR_RED".toList, " Red.\n".toList, 1⟩, ⟨"COLOR_DARK".toList, " Negative.\n".toList, -1⟩]
    ⟨"ZZ_CRIMSON".toList, " Red again.\n".toList, 1⟩ [] rfl).1 (.head _) (by decide)
-- the blind-spot hypothesis is what the old generator produced: zero first, numbers 1, 2, … after it
example : zeroSuffixOfEnum {} pA pathColor pColor = [] :=
  (enum_zero_value_suffix_first_only_blind_spot {} pA pathColor pColor _ _ rfl (by decide)).trans (by decide)

/-! ## the other per-element rules: the element at index `|l₁|` of its parent -/

/-- **Fields, any position.**  The field at position `|l₁|` of a message enumerated at `p` (any
    depth; not a synthetic map entry) is reported at `p ++ [2, |l₁|]` by each of the four field rules
    whose predicate it satisfies — the first field is nothing special. -/
theorem field_rules_any_position (o : Options) (rules : List Rule) (w : Schema) (f : File) (hf : f ∈ w)
    (hni : f.isImport = false) (p : List Nat) (m : Message) (hm : (p, m) ∈ fileMsgs f)
    (hme : m.mapEntry = false) (l₁ : List Field) (fd : Field) (l₂ : List Field) (h : m.fields = l₁ ++ fd :: l₂) :
    (.COMMENT_FIELD ∈ rules → fd.group = false →
        validLeadingComment o.commentExcludes fd.comment = false →
        (⟨.COMMENT_FIELD, f.path, p ++ [2, l₁.length]⟩ : Annotation) ∈ lint o rules w) ∧
    (.FIELD_LOWER_SNAKE_CASE ∈ rules → fd.name ≠ toLowerSnakeCase false fd.name →
        (⟨.FIELD_LOWER_SNAKE_CASE, f.path, p ++ [2, l₁.length] ++ [1]⟩ : Annotation) ∈ lint o rules w) ∧
    (.FIELD_NO_DESCRIPTOR ∈ rules → (trimUnderscores fd.name).map toLower = "descriptor".toList →
        (⟨.FIELD_NO_DESCRIPTOR, f.path, p ++ [2, l₁.length] ++ [1]⟩ : Annotation) ∈ lint o rules w) ∧
    (.FIELD_NOT_REQUIRED ∈ rules → fd.required = true →
        (⟨.FIELD_NOT_REQUIRED, f.path, p ++ [2, l₁.length] ++ [1]⟩ : Annotation) ∈ lint o rules w) :=
  field_rules_report o rules w f hf hni _ (some m) fd (fileFields_field_at f p m hm l₁ fd l₂ h)
    (by simp [isMapEntryParent, hme])

/-- **Extensions, any position**: nested in a message (`p ++ [6, |l₁|]`) and at file level (`[7, |l₁|]`). -/
theorem extension_rules_any_position (o : Options) (rules : List Rule) (w : Schema) (f : File) (hf : f ∈ w)
    (hni : f.isImport = false) (l₁ : List Field) (fd : Field) (l₂ : List Field)
    (hr : .COMMENT_FIELD ∈ rules) (hg : fd.group = false)
    (hc : validLeadingComment o.commentExcludes fd.comment = false) :
    (∀ p m, (p, m) ∈ fileMsgs f → m.mapEntry = false → m.exts = l₁ ++ fd :: l₂ →
        (⟨.COMMENT_FIELD, f.path, p ++ [6, l₁.length]⟩ : Annotation) ∈ lint o rules w) ∧
    (f.exts = l₁ ++ fd :: l₂ →
        (⟨.COMMENT_FIELD, f.path, [7, l₁.length]⟩ : Annotation) ∈ lint o rules w) := by
  refine ⟨fun p m hm hme h => ?_, fun h => ?_⟩
  · exact (field_rules_report o rules w f hf hni _ (some m) fd (fileFields_nestedExt_at f p m hm l₁ fd l₂ h)
      (by simp [isMapEntryParent, hme])).1 hr hg hc
  · exact (field_rules_report o rules w f hf hni _ none fd (fileFields_fileExt_at f l₁ fd l₂ h) rfl).1 hr hg hc

/-- **RPCs, any position**: the RPC at position `|r₁|` of the service at position `|s₁|` is reported
    at `[6, |s₁|, 2, |r₁|]` (comment, streaming) / `… ++ [2]`, `… ++ [3]` (request / response type). -/
theorem rpc_rules_any_position (o : Options) (rules : List Rule) (w : Schema) (f : File) (hf : f ∈ w)
    (hni : f.isImport = false) (s₁ : List Service) (s : Service) (s₂ : List Service)
    (hs : f.svcs = s₁ ++ s :: s₂) (r₁ : List Rpc) (r : Rpc) (r₂ : List Rpc) (hr : s.rpcs = r₁ ++ r :: r₂) :
    (.COMMENT_RPC ∈ rules → validLeadingComment o.commentExcludes r.comment = false →
        (⟨.COMMENT_RPC, f.path, [6, s₁.length, 2, r₁.length]⟩ : Annotation) ∈ lint o rules w) ∧
    (.RPC_REQUEST_STANDARD_NAME ∈ rules → stdNameBad o true s r = true →
        (⟨.RPC_REQUEST_STANDARD_NAME, f.path, [6, s₁.length, 2, r₁.length, 2]⟩ : Annotation) ∈ lint o rules w) ∧
    (.RPC_RESPONSE_STANDARD_NAME ∈ rules → stdNameBad o false s r = true →
        (⟨.RPC_RESPONSE_STANDARD_NAME, f.path, [6, s₁.length, 2, r₁.length, 3]⟩ : Annotation) ∈ lint o rules w) ∧
    (.RPC_PASCAL_CASE ∈ rules → r.name ≠ toPascalCase r.name →
        (⟨.RPC_PASCAL_CASE, f.path, [6, s₁.length, 2, r₁.length, 1]⟩ : Annotation) ∈ lint o rules w) ∧
    (.RPC_NO_CLIENT_STREAMING ∈ rules → r.clientStreaming = true →
        (⟨.RPC_NO_CLIENT_STREAMING, f.path, [6, s₁.length, 2, r₁.length]⟩ : Annotation) ∈ lint o rules w) ∧
    (.RPC_NO_SERVER_STREAMING ∈ rules → r.serverStreaming = true →
        (⟨.RPC_NO_SERVER_STREAMING, f.path, [6, s₁.length, 2, r₁.length]⟩ : Annotation) ∈ lint o rules w) := by
  have hmem := fileRpcs_at f s₁ s s₂ hs r₁ r r₂ hr
  refine ⟨fun h hb => ?_, fun h hb => ?_, fun h hb => ?_, fun h hb => ?_, fun h hb => ?_, fun h hb => ?_⟩
  · have := elem_bad_reported o rules w .COMMENT_RPC _ rfl h f hf hni _ hmem
      (by show (!validLeadingComment o.commentExcludes r.comment) = true; simp [hb])
    simpa [ann] using this
  · have := elem_bad_reported o rules w .RPC_REQUEST_STANDARD_NAME _ rfl h f hf hni _ hmem hb
    simpa [ann] using this
  · have := elem_bad_reported o rules w .RPC_RESPONSE_STANDARD_NAME _ rfl h f hf hni _ hmem hb
    simpa [ann] using this
  · have := elem_bad_reported o rules w .RPC_PASCAL_CASE _ rfl h f hf hni _ hmem
      (by show (r.name != toPascalCase r.name) = true; simpa using hb)
    simpa [ann] using this
  · have := elem_bad_reported o rules w .RPC_NO_CLIENT_STREAMING _ rfl h f hf hni _ hmem hb
    simpa [ann] using this
  · have := elem_bad_reported o rules w .RPC_NO_SERVER_STREAMING _ rfl h f hf hni _ hmem hb
    simpa [ann] using this

/-- **Messages, enums, oneofs, services, any position** (comment rules; the naming rules of the same
    elements go through the same enumeration lemmas): top-level message `[4, i]`, nested message
    `p ++ [3, i]`, top-level enum `[5, i]`, nested enum `p ++ [4, i]`, oneof `p ++ [8, i]`, service `[6, i]`. -/
theorem container_rules_any_position (o : Options) (rules : List Rule) (w : Schema) (f : File) (hf : f ∈ w)
    (hni : f.isImport = false) :
    (∀ l₁ m l₂, f.msgs = l₁ ++ m :: l₂ → .COMMENT_MESSAGE ∈ rules → m.mapEntry = false →
        validLeadingComment o.commentExcludes m.comment = false →
        (⟨.COMMENT_MESSAGE, f.path, [4, l₁.length]⟩ : Annotation) ∈ lint o rules w) ∧
    (∀ p m, (p, m) ∈ fileMsgs f → ∀ l₁ x l₂, m.msgs = l₁ ++ x :: l₂ → .COMMENT_MESSAGE ∈ rules → x.mapEntry = false →
        validLeadingComment o.commentExcludes x.comment = false →
        (⟨.COMMENT_MESSAGE, f.path, p ++ [3, l₁.length]⟩ : Annotation) ∈ lint o rules w) ∧
    (∀ l₁ e l₂, f.enums = l₁ ++ e :: l₂ → .COMMENT_ENUM ∈ rules →
        validLeadingComment o.commentExcludes e.comment = false →
        (⟨.COMMENT_ENUM, f.path, [5, l₁.length]⟩ : Annotation) ∈ lint o rules w) ∧
    (∀ p m, (p, m) ∈ fileMsgs f → ∀ l₁ e l₂, m.enums = l₁ ++ e :: l₂ → .COMMENT_ENUM ∈ rules →
        validLeadingComment o.commentExcludes e.comment = false →
        (⟨.COMMENT_ENUM, f.path, p ++ [4, l₁.length]⟩ : Annotation) ∈ lint o rules w) ∧
    (∀ p m, (p, m) ∈ fileMsgs f → ∀ l₁ oo l₂, m.oneofs = l₁ ++ oo :: l₂ → .COMMENT_ONEOF ∈ rules → oo.synthetic = false →
        validLeadingComment o.commentExcludes oo.comment = false →
        (⟨.COMMENT_ONEOF, f.path, p ++ [8, l₁.length]⟩ : Annotation) ∈ lint o rules w) ∧
    (∀ l₁ s l₂, f.svcs = l₁ ++ s :: l₂ → .COMMENT_SERVICE ∈ rules →
        validLeadingComment o.commentExcludes s.comment = false →
        (⟨.COMMENT_SERVICE, f.path, [6, l₁.length]⟩ : Annotation) ∈ lint o rules w) := by
  refine ⟨fun l₁ m l₂ h hr hme hc => ?_, fun p m hm l₁ x l₂ h hr hme hc => ?_, fun l₁ e l₂ h hr hc => ?_,
    fun p m hm l₁ e l₂ h hr hc => ?_, fun p m hm l₁ oo l₂ h hr hs hc => ?_, fun l₁ s l₂ h hr hc => ?_⟩
  · have := elem_bad_reported o rules w .COMMENT_MESSAGE _ rfl hr f hf hni _ (fileMsgs_top_at f l₁ m l₂ h)
      (by show (if m.mapEntry then false else !validLeadingComment o.commentExcludes m.comment) = true; simp [hme, hc])
    simpa [ann] using this
  · have := elem_bad_reported o rules w .COMMENT_MESSAGE _ rfl hr f hf hni _ (fileMsgs_nested_at f p m hm l₁ x l₂ h)
      (by show (if x.mapEntry then false else !validLeadingComment o.commentExcludes x.comment) = true; simp [hme, hc])
    simpa [ann] using this
  · have := elem_bad_reported o rules w .COMMENT_ENUM _ rfl hr f hf hni _ (fileEnums_top_at f l₁ e l₂ h)
      (by show (!validLeadingComment o.commentExcludes e.comment) = true; simp [hc])
    simpa [ann] using this
  · have := elem_bad_reported o rules w .COMMENT_ENUM _ rfl hr f hf hni _ (fileEnums_nested_at f p m hm l₁ e l₂ h)
      (by show (!validLeadingComment o.commentExcludes e.comment) = true; simp [hc])
    simpa [ann] using this
  · have := elem_bad_reported o rules w .COMMENT_ONEOF _ rfl hr f hf hni _ (fileOneofs_at f p m hm l₁ oo l₂ h)
      (by show (if oo.synthetic then false else !validLeadingComment o.commentExcludes oo.comment) = true; simp [hs, hc])
    simpa [ann] using this
  · have := elem_bad_reported o rules w .COMMENT_SERVICE _ rfl hr f hf hni _ (fileSvcs_at f l₁ s l₂ h)
      (by show (!validLeadingComment o.commentExcludes s.comment) = true; simp [hc])
    simpa [ann] using this

/-! ### "the first element of the parent only" for a field rule and an RPC rule -/

/-- COMMENT_FIELD rewritten to look at `message.Fields()[0]` only. -/
def commentFieldFirstOnly (o : Options) (f : File) : List Annotation :=
  (fileMsgs f).flatMap fun (p, m) =>
    match m.fields with
    | fd :: _ => if !m.mapEntry && !fd.group && !validLeadingComment o.commentExcludes fd.comment then [ann .COMMENT_FIELD f (p ++ [2, 0])] else []
    | [] => []

/-- RPC_REQUEST_STANDARD_NAME rewritten to look at `service.Methods()[0]` only. -/
def requestNameFirstOnly (o : Options) (f : File) : List Annotation :=
  (fileSvcs f).flatMap fun (p, s) =>
    match s.rpcs with
    | r :: _ => if stdNameBad o true s r then [ann .RPC_REQUEST_STANDARD_NAME f (p ++ [2, 0, 2])] else []
    | [] => []

/-- the multi-file witness workspace `pw` with the comment of the SECOND field of `Outer` removed and
    the request type of the SECOND RPC of `FooService` renamed -/
def orderPw : Schema :=
  setFieldComment pA.path [4, 0, 2, 1] [] (setRequestType pA.path [6, 0, 2, 1] "acme.foo.v1.ListFooReq".toList pw)

/-- **A non-first field and a non-first RPC**: the rules as coded report them at index 1; the "first
    element of the parent only" variants report nothing. -/
theorem per_element_first_only_counterexample :
    lint {} [.COMMENT_FIELD, .RPC_REQUEST_STANDARD_NAME] orderPw =
      [⟨.COMMENT_FIELD, pA.path, [4, 0, 2, 1]⟩, ⟨.RPC_REQUEST_STANDARD_NAME, pA.path, [6, 0, 2, 1, 2]⟩] ∧
    (nonImport orderPw).flatMap (commentFieldFirstOnly {}) = [] ∧
    (nonImport orderPw).flatMap (requestNameFirstOnly {}) = [] := by decide

end BufProofs.C05
