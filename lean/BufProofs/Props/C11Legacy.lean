import BufModel.LegacyStrip
import BufProofs.Lemmas.LegacyStripLemmas
/-
  Property C11, round-trip half: an image read back from a file equals the image built from the
  sources.  While an image is read, a resolver is built from the descriptors THE IMAGE SHARES
  (`NewImageForProto` → `NewLazyResolver(protoImage.GetFile()...)` → `stripLegacyOptions`).  The
  image stays what was decoded only if that pass never writes into the descriptors it is given.

  Model: BufModel/LegacyStrip.lean (pointer discipline: every call returns the caller's object as
  it is AFTER the call, together with the result).

    `legacy_strip_never_mutates_input`   the caller's descriptors are unchanged, for every tree
    `legacy_strip_result_exact`          the result is nil exactly when nothing is legacy, else the
                                         declaratively specified `specFile`
    `legacy_strip_slice`                 the slice `stripLegacyOptions` leaves behind
    `legacy_spec_touches_nothing_else`   a tree without legacy elements is returned as it is
    `legacy_spec_frame`                  what `specMsg` keeps of a message that IS changed
    `legacy_spec_is_clean`               nothing legacy is left (the Go runtime accepts the result)
    `legacy_spec_idempotent`
    `legacy_strip_unfaithful_counterexample`   storing the stripped nested clone WITHOUT cloning the
                                         enclosing message first writes into the caller's
                                         descriptor and reports "nothing changed"

  Correspondence: protocol line `legacy` (Driver/C11.lean) against the real function.
-/
namespace BufProofs.C11
open BufModel.LegacyStrip BufProofs.LegacyStripLemmas

/-! ## the message function -/

theorem legacy_head_mset_inv (rest : Nat) (opts : Option MOpts) (fields : List Fld) (nested : List Msg)
    (ranges : List ERange) (exts : List Fld) :
    Inv (if (Msg.mk rest opts fields nested ranges exts).isMset
          then (St.ensure ⟨.mk rest opts fields nested ranges exts, none⟩).write Msg.clearMset
          else (⟨.mk rest opts fields nested ranges exts, none⟩ : St Msg))
      (.mk rest opts fields nested ranges exts) (optsMset opts)
      (.mk rest (opts.map clearMsetO) fields nested ranges exts) := by
  have hism : (Msg.mk rest opts fields nested ranges exts).isMset = optsMset opts := rfl
  rw [hism]
  cases h : optsMset opts with
  | false =>
    simp only [Bool.false_eq_true, if_false]
    rw [map_clearMsetO_id opts h]
    exact Inv.init _
  | true =>
    simp only [if_true]
    refine ⟨rfl, ?_, fun hf => by cases hf⟩
    cases opts with
    | none => cases h
    | some o =>
      have ho : o.mset = some true := by
        have h' : (o.mset == some true) = true := h
        exact eq_of_beq h'
      show some (Msg.clearMset (Msg.mk rest (some o) fields nested ranges exts)) = _
      simp only [if_true, Option.map_some]
      unfold clearMsetO
      rw [if_pos ho]
      rfl

theorem legacy_head_inv (rest : Nat) (opts : Option MOpts) (fields : List Fld) (nested : List Msg)
    (ranges : List ERange) (exts : List Fld) :
    Inv (msgHead (.mk rest opts fields nested ranges exts)) (.mk rest opts fields nested ranges exts)
      (optsMset opts || fields.any Fld.isWeak)
      (.mk rest (opts.map clearMsetO) (fields.map specFld) nested ranges exts) := by
  have h1 := legacy_head_mset_inv rest opts fields nested ranges exts
  unfold msgHead
  simp only []
  rw [h1.cur]
  exact childLoop_inv fieldsL fieldsL_lawful (fun f => (f, stripField f)) Fld.isWeak specFld fields h1 rfl rfl
    (fun c _ => by rw [stripField_eq]) (fun c _ hc => specFld_of_not_weak c hc)

mutual
/-- `stripLegacyOptionsFromMessage` as written: the caller's message is untouched and the result is
    nil exactly when the message holds nothing legacy, else `specMsg`. -/
theorem legacy_stripMsg_exact : ∀ m : Msg,
    stripMsg true m = (m, if legacyMsg m then some (specMsg m) else none)
  | .mk rest opts fields nested ranges exts => by
    have ih := legacy_stripMsgs_exact nested
    have h2 := legacy_head_inv rest opts fields nested ranges exts
    have h3 := childLoop_inv nestedL nestedL_lawful (stripMsg true) legacyMsg specMsg nested h2 rfl rfl ih
      (fun c _ hc => specMsg_id c hc)
    rw [← nestedLoop_eq] at h3
    have h4 := phase_write h3 (stripRanges ranges) Msg.putRanges (ranges.any ERange.legacy) (specRanges ranges)
      (stripRanges_spec ranges) (fun hf => by rw [specRanges_id ranges hf]; rfl)
    have h5 := phase_write h4 (stripExts exts) Msg.putExts (exts.any Fld.legacyExt) (specExts exts)
      (stripExts_spec exts) (fun hf => by rw [specExts_id exts hf]; rfl)
    have hc3 : (nestedLoop true (msgHead (.mk rest opts fields nested ranges exts)).clone.isNone 0 nested
        (msgHead (.mk rest opts fields nested ranges exts))).cur.ranges = ranges := by rw [h3.cur]; rfl
    have hc4 : ((nestedLoop true (msgHead (.mk rest opts fields nested ranges exts)).clone.isNone 0 nested
        (msgHead (.mk rest opts fields nested ranges exts))).writeIf (stripRanges ranges) Msg.putRanges).cur.exts = exts := by
      rw [h4.cur]; rfl
    simp only [stripMsg, msgTail]
    rw [hc3, hc4, h5.orig, h5.clone]
    simp only [legacyMsg, specMsg, legacyMsgs_eq_any, specMsgs_eq_map]
    rfl
theorem legacy_stripMsgs_exact : ∀ l : List Msg, ∀ c ∈ l,
    stripMsg true c = (c, if legacyMsg c then some (specMsg c) else none)
  | [] => by intro c hc; cases hc
  | m :: ms => by
    intro c hc
    cases List.mem_cons.mp hc with
    | inl h => rw [h]; exact legacy_stripMsg_exact m
    | inr h => exact legacy_stripMsgs_exact ms c h
end

/-! ## the file function and the entry point -/

theorem legacy_stripFile_exact (f : File) :
    stripFile true f = (f, if legacyFile f then some (specFile f) else none) := by
  have h1 := childLoop_inv msgsL msgsL_lawful (stripMsg true) legacyMsg specMsg f.msgs (Inv.init f) rfl rfl
    (legacy_stripMsgs_exact f.msgs) (fun c _ hc => specMsg_id c hc)
  have h2 := phase_write h1 (stripExts f.exts) (fun e (x : File) => { x with exts := e }) (f.exts.any Fld.legacyExt)
    (specExts f.exts) (stripExts_spec f.exts) (fun hf => by rw [specExts_id f.exts hf]; rfl)
  have hc1 : (childLoop msgsL (stripMsg true) true true 0 f.msgs ⟨f, none⟩).cur.exts = f.exts := by
    have := h1.cur
    simp only [Option.isNone_none] at this
    rw [this]; rfl
  simp only [Option.isNone_none] at h2
  unfold stripFile
  simp only []
  rw [hc1, h2.orig, h2.clone]
  simp only [legacyFile, specFile, legacyMsgs_eq_any, specMsgs_eq_map, Bool.false_or]
  rfl

/-- **Never mutates its input**: after `stripLegacyOptionsFromFile` the caller's descriptor — the
    one the image shares — is what it was, for every descriptor tree. -/
theorem legacy_strip_never_mutates_input (f : File) : (stripFile true f).1 = f := by
  rw [legacy_stripFile_exact]

/-- **Strips exactly the legacy options**: nil (nothing to replace) iff the file holds no
    message-set option, weak option, extension above 2^29-1 or extension range reaching above it;
    otherwise the replacement is `specFile f`. -/
theorem legacy_strip_result_exact (f : File) :
    (stripFile true f).2 = if legacyFile f then some (specFile f) else none := by
  rw [legacy_stripFile_exact]

/-- **Touches nothing else** (1): a tree without legacy elements is specified to stay as it is. -/
theorem legacy_spec_touches_nothing_else (f : File) (h : legacyFile f = false) : specFile f = f := by
  unfold legacyFile at h
  rw [Bool.or_eq_false_iff] at h
  unfold specFile
  rw [specMsgs_id f.msgs h.1, specExts_id f.exts h.2]

/-- `stripLegacyOptions` on a slice: no caller descriptor changes, and slot i ends up holding
    `specFile` of file i (for a file without legacy elements that is the SAME descriptor). -/
theorem legacy_strip_slice (fs : List File) : stripFiles true fs = (fs, fs.map specFile) := by
  unfold stripFiles
  have h1 : (fs.map fun f => (stripFile true f).1) = fs :=
    map_id_of_forall _ fs (fun f _ => legacy_strip_never_mutates_input f)
  have h2 : (fs.map fun f => (stripFile true f).2.getD (stripFile true f).1) = fs.map specFile := by
    apply List.map_congr_left
    intro f _
    rw [legacy_stripFile_exact]
    cases h : legacyFile f with
    | true => rfl
    | false => simp only [Bool.false_eq_true, if_false]; exact (legacy_spec_touches_nothing_else f h).symm
  rw [h1, h2]

/-- **Touches nothing else** (2), for a message that IS changed: the opaque remainder, the number
    and order of fields, every field's number and remainder, and the nesting structure stay; the
    extensions that stay are those numbered ≤ 2^29-1, the ranges that stay are those starting
    ≤ 2^29-1, both in their order. -/
theorem legacy_spec_frame (rest : Nat) (opts : Option MOpts) (fields : List Fld) (nested : List Msg)
    (ranges : List ERange) (exts : List Fld) :
    specMsg (.mk rest opts fields nested ranges exts) =
      .mk rest (opts.map clearMsetO) (fields.map specFld) (nested.map specMsg)
        ((ranges.filter fun r => decide (r.getStart ≤ maxTag)).map specRange)
        ((exts.filter fun e => decide (e.getNumber ≤ maxTag)).map specFld)
    ∧ (fields.map specFld).map (fun f => (f.number, f.rest, f.opts.map (·.rest))) =
        fields.map (fun f => (f.number, f.rest, f.opts.map (·.rest)))
    ∧ (opts.map clearMsetO).map (·.rest) = opts.map (·.rest) := by
  refine ⟨by simp only [specMsg, specMsgs_eq_map]; rfl, ?_, ?_⟩
  · rw [List.map_map]
    apply List.map_congr_left
    intro f _
    show ((specFld f).number, (specFld f).rest, (specFld f).opts.map (·.rest)) = _
    unfold specFld Fld.clearWeak
    split
    · cases f.opts <;> rfl
    · rfl
  · cases opts with
    | none => rfl
    | some o => simp only [Option.map_some]; unfold clearMsetO; split <;> rfl

/-- Nothing legacy is left: the result is what the Go runtime can link. -/
theorem legacy_spec_is_clean (f : File) : legacyFile (specFile f) = false := by
  unfold legacyFile specFile
  show (legacyMsgs (specMsgs f.msgs) || (specExts f.exts).any Fld.legacyExt) = false
  rw [specMsgs_clean, specExts_no_legacy]; rfl

theorem legacy_spec_idempotent (f : File) : specFile (specFile f) = specFile f :=
  legacy_spec_touches_nothing_else _ (legacy_spec_is_clean f)

/-! ## the regression the model excludes -/

/-- parent `P` (nothing legacy of its own) ⊃ `MS` (message set, `extensions 4 to max`) -/
def legacyWitness : Msg :=
  .mk 1 none [⟨some 1, none, 10⟩]
    [.mk 2 (some ⟨some true, 0⟩) [] [] [⟨some 4, some 2147483647, 0⟩] []] [] []

/-- Without the clone of the enclosing message (`faithful = false`) the stripped nested message is
    stored INTO THE CALLER'S descriptor: afterwards the caller's nested message is no longer a
    message set and its range ends at 2^29, and the call reports "nothing changed" (nil). -/
theorem legacy_strip_unfaithful_counterexample :
    (stripMsg false legacyWitness).2.isNone = true ∧
    (stripMsg false legacyWitness).1.nested.map Msg.isMset = [false] ∧
    (stripMsg false legacyWitness).1.nested.map (fun n => n.ranges.map (·.stop)) = [[some 536870912]] ∧
    legacyWitness.nested.map Msg.isMset = [true] ∧
    legacyWitness.nested.map (fun n => n.ranges.map (·.stop)) = [[some 2147483647]] := by
  decide

/-! ## non-vacuity -/

def legacyWitnessFile : File := ⟨7, [legacyWitness], [⟨some 536870912, none, 3⟩, ⟨some 5, some ⟨some true, 4⟩, 5⟩]⟩

example : legacyFile legacyWitnessFile = true := by decide
example : (stripFile true legacyWitnessFile).1.msgs.map (fun m => m.nested.map Msg.isMset) = [[true]] := by decide
example : (specFile legacyWitnessFile).msgs.map (fun m => m.nested.map Msg.isMset) = [[false]] := by decide
example : (specFile legacyWitnessFile).exts = [⟨some 5, some ⟨none, 4⟩, 5⟩] := by decide
example : legacyFile ⟨0, [.mk 1 none [⟨some 1, some ⟨some false, 2⟩, 3⟩] [] [⟨some 4, some 536870912, 0⟩] []], []⟩ = false := by decide

end BufProofs.C11
