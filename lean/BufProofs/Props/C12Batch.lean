import BufProofs.Lemmas.GenBatchLemmas
/-
  C12, `buf generate` with per-plugin `types` / `exclude_types`: every plugin receives the image
  filtered by ITS OWN filter (model: BufModel.GenBatch — `execPlugins` filters once per batch of
  plugins with equal `pluginConfigKeyForImage` and hands the first plugin's result to all).

  * `render_injective`, `key_injective_on_filters`: the as-coded key (two `%v` renderings of the
    sorted name lists, strategy, remote) determines the two name lists up to order — for names that
    are non-empty and contain no blank (every name of an element or package of an image).
  * `plugin_receives_own_filter`: hence the image and the strategy that reach a plugin are those of
    its own configuration, for ANY list of plugins and any filter that is a function of the name
    sets.  `observed_classes_are_own`: the same statement in the vocabulary of the protocol line
    `g` of the C12 harness (which ties `key` / `rep` to the implementation's behaviour).
  * `key_collision_empty_name_counterexample`: as coded the hypothesis is needed — `types: [""]`
    (the unnamed package) and no filter at all, or `["a b"]` and `["a", "b"]`, have equal keys.
  * `folded_key_counterexample`: a key that appends the two sorted lists before joining them
    (the rejected change) hands `{exclude_types: [X]}` the image of `{types: [X]}`.
-/
namespace BufProofs.C12
open BufModel.Path BufModel.Generate BufModel.GenBatch

/-- `fmt.Sprintf("%v", names)` determines the names, when none is empty or contains a blank. -/
theorem render_injective (a b : List Str) (ha : ∀ s ∈ a, OkName s) (hb : ∀ s ∈ b, OkName s)
    (h : render a = render b) : a = b :=
  render_inj a b ha hb h

/-- Two plugin configurations with the same batching key have the same `types` and the same
    `exclude_types` up to order (in particular the same SETS, and the boundary between the two
    lists is part of the key), the same strategy and the same remote. -/
theorem key_injective_on_filters (p q : PCfg) (hp : NamesOK p) (hq : NamesOK q) (h : key p = key q) :
    p.types.Perm q.types ∧ p.excludes.Perm q.excludes ∧ p.strategyAll = q.strategyAll ∧ p.remote = q.remote :=
  key_inj p q hp hq h

/-- Conversely the key does not depend on the order in which the names are written. -/
theorem key_order_independent (p q : PCfg) (ht : sortStrs p.types = sortStrs q.types)
    (he : sortStrs p.excludes = sortStrs q.excludes) (hs : p.strategyAll = q.strategyAll) (hr : p.remote = q.remote) :
    key p = key q := by
  unfold key
  rw [ht, he, hs, hr]

/-- **Every plugin receives the image filtered by its own filter, split by its own strategy** —
    for every list of plugin configurations (any number, any order, equal or different filters),
    provided the filter is a function of the name sets (`hfilter`; Go keeps the names in maps) and
    the names are renderable (`hok`). -/
theorem plugin_receives_own_filter {α : Type} (filter : List Str → List Str → α)
    (hfilter : ∀ a a' b b', a.Perm a' → b.Perm b' → filter a b = filter a' b')
    (ps : List PCfg) (hok : ∀ q ∈ ps, NamesOK q) (p : PCfg) (hp : p ∈ ps) :
    received filter ps p = (filter p.types p.excludes, p.strategyAll) := by
  unfold received receivedWith
  have hspec := repWith_spec key ps p
  have hrok : NamesOK (repWith key ps p) := by
    rcases hspec.2 with hm | he
    · exact hok _ hm
    · rw [he]; exact hok p hp
  obtain ⟨h1, h2, h3, _⟩ := key_inj _ _ hrok (hok p hp) hspec.1
  show (filter (repWith key ps p).types (repWith key ps p).excludes, (repWith key ps p).strategyAll) = _
  rw [hfilter _ _ _ _ h1 h2, h3]

/-- The protocol line `g`: when the class the harness gives to a plugin's own filter result is a
    function of the filter as a pair of name sets (`hcls`), the class observed at every plugin is
    its own. -/
theorem observed_classes_are_own (ps : List (PCfg × Nat)) (hok : ∀ q ∈ ps, NamesOK q.1)
    (hcls : ∀ q ∈ ps, ∀ r ∈ ps, q.1.types.Perm r.1.types → q.1.excludes.Perm r.1.excludes → q.2 = r.2) :
    observedClasses ps = ps.map (·.2) := by
  unfold observedClasses
  apply List.map_congr_left
  intro pc hpc
  cases hf : ps.find? (fun (x : PCfg × Nat) => decide (key x.1 = key pc.1)) with
  | none => rfl
  | some r =>
    have h1 := List.find?_some hf
    have h2 := List.mem_of_find?_eq_some hf
    simp only [decide_eq_true_eq] at h1
    obtain ⟨ht, he, _, _⟩ := key_inj _ _ (hok r h2) (hok pc hpc) h1
    exact hcls r h2 pc hpc ht he

/-- Non-vacuity: three plugins over the same two names; each gets its own filter back. -/
example :
    let a : Str := "p.A".toList
    let b : Str := "p.B".toList
    let ps : List PCfg := [⟨[a, b], [], true, []⟩, ⟨[a], [b], true, []⟩, ⟨[], [b, a], true, []⟩, ⟨[b, a], [], true, []⟩]
    ps.map (received (fun t e => (sortStrs t, sortStrs e)) ps) =
      [(([a, b], []), true), (([a], [b]), true), (([], [a, b]), true), (([a, b], []), true)] := by
  decide

example : NamesOK ⟨["p.A".toList, "p.B.N".toList], ["q".toList], false, []⟩ := by
  refine ⟨?_, ?_⟩ <;> intro s hs <;> simp at hs <;> (try rcases hs with rfl | rfl) <;> (try subst hs) <;>
    exact ⟨by decide, by decide⟩

/-- As coded the side condition is needed: the unnamed package `""` as the only type and no type
    at all render alike (`[]`), and so do `["a b"]` and `["a", "b"]`; plugins configured that way
    share a batch although their filters differ. -/
theorem key_collision_empty_name_counterexample :
    key ⟨[[]], [], true, []⟩ = key ⟨[], [], true, []⟩ ∧
    key ⟨["a b".toList], [], true, []⟩ = key ⟨["a".toList, "b".toList], [], true, []⟩ ∧
    received (fun t e => (t, e)) [⟨[], [], true, []⟩, ⟨[[]], [], true, []⟩] ⟨[[]], [], true, []⟩ = (([], []), true) := by
  decide

/-- The rejected change: one string made of the sorted types followed by the sorted
    exclude_types.  `{types: [X]}` and `{exclude_types: [X]}` (and `{types: [A, B]}` /
    `{types: [A], exclude_types: [B]}`) collide, and the later plugin receives the image of the
    earlier one's filter. -/
theorem folded_key_counterexample :
    let x : Str := "p.X".toList
    let a : Str := "p.A".toList
    let b : Str := "p.B".toList
    foldedKey ⟨[x], [], true, []⟩ = foldedKey ⟨[], [x], true, []⟩ ∧
    foldedKey ⟨[a, b], [], true, []⟩ = foldedKey ⟨[a], [b], true, []⟩ ∧
    receivedWith foldedKey (fun t e => (t, e)) [⟨[x], [], true, []⟩, ⟨[], [x], true, []⟩] ⟨[], [x], true, []⟩
      = (([x], []), true) ∧
    received (fun t e => (t, e)) [⟨[x], [], true, []⟩, ⟨[], [x], true, []⟩] ⟨[], [x], true, []⟩
      = (([], [x]), true) := by
  decide

end BufProofs.C12
