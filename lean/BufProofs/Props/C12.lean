import BufProofs.Lemmas.FilterLemmas
import BufProofs.Lemmas.FilterRewriteLemmas
import BufProofs.Lemmas.FilterOutputLemmas
import BufProofs.Lemmas.FilterCommentLemmas
import BufProofs.Lemmas.FilterOneofLemmas
/-
  C12 — Type filtering yields a self-contained, minimal, otherwise unchanged image.
  Model: BufModel/Filter.lean (closure = task machine `run`, rewrite = `remapFile`).

  OUTPUT-LEVEL theorems (about what `filterWith cfgFixed` — the function the driver runs — returns):
    * filter_drops_excludes           no name an exclude removes (the element, its indexed descendants;
                                      for a package every element of its files) is declared in the
                                      output, none is the type of a kept field / extension nor the
                                      request / response type of a kept method; none is the extendee of
                                      a kept extension when the filter has an include or the image has
                                      no import file (the hypothesis that excludes known finding 9e)
    * filter_keeps_includes           an included message / enum / service is present (input condition:
                                      unique ids only — the structural part of `WFIdx` is now PROVED for
                                      every `buildIndex` output: `buildIndex_wf`)
    * filter_links_partial            every type / extendee / request / response reference of the output
                                      resolves to an element declared in the output, in the same file or
                                      in a file the referring file lists as dependency; every `oneof_index`
                                      of every message (any depth) is in range and every oneof has a member
                                      (include filters, or images without import files; map-entry /
                                      extension-range clauses of `linksB` not covered)
    * filter_links_oneof_index        the oneof-index clause alone, for EVERY filter (no mode hypothesis):
                                      provable since the repair of `oneof-index-not-renumbered`
    * comments_follow_file_partial    source locations, FILE level (`remapLocs` over the merged marks of
                                      the whole file): messages at any nesting depth — kept ones move to
                                      the path with the new indexes, everything at or below a dropped
                                      one is deleted (non-interference of siblings / sections / levels)
    * fuel_suffices / driver_fuel_suffices
  CLOSURE-LEVEL and MODEL-SANITY lemmas (kept, labelled as such):
    * filter_drops_excludes_closure_partial, filter_links_closure_partial, filter_links_imports_partial,
      filter_keeps_includes_closure_partial, closure_closed (the worklist invariant)
    * rewrite_drops_*, remapX_unchanged, survivors_unchanged_partial, remapSlice_items/_index: these
      restate the definition of `remapX` / `remapSlice` (true by construction); their weight is on the
      correspondence leg
    * comments_follow_elements_partial / comments_follow_messages_partial / marks_stay_below: ONE slice's
      own marks (superseded for messages by comments_follow_file_partial)
    * closure_oneof_dropped_only_if_empty (the third run invariant `OInv`), rewrite_renumbers_oneofs
      (a kept member of a kept oneof still names ITS oneof), dropped_extension_adds_nothing
    * include_extension_excluded_type_is_conflict (model sanity: the new check of `includeType`)
    * *_counterexample                the pre-fix behaviours (9a, 9b, 9d, 9f, dropped extension keeps its
                                      extendee's import, included extension silently dropped), the as-coded
                                      families that are recorded known findings, the model's too small
                                      `defaultFuel`
  NOT proved (correspondence + implementation oracle only): the map-entry / extension-range
    clauses of `linksB`, filter_minimal, filter_total, filter_idempotent (not statable: no
    OFile → Image), message-level survivors_unchanged.  See handoff/C12-proofs2.md, C12-fixes.md.
-/
namespace BufProofs.C12
open BufModel.Filter BufProofs.FilterLemmas BufProofs.FilterClosure BufProofs.FilterRewrite
open BufProofs.FilterIndex BufProofs.FilterOutput BufProofs.FilterComment BufProofs.FilterOneof

/-! ### excludes -/

/-- CLOSURE level only (any cfg, including the pre-fix `cfgOld`, so this cannot by itself imply the
    output clause — see `filter_drops_excludes` for that): an element named by an exclude is
    `excluded` in the final closure — through includes, the include-everything default and
    addExtensions — and `hasType` is false for it. -/
theorem filter_drops_excludes_closure_partial (cfg : Cfg) (img : Image) (o : Opts) (fuel : Nat) (st : St)
    (h : closure cfg img o fuel = .ok st) (n : Id) (hn : n ∈ o.excludes) (i : Info)
    (hi : (buildIndex img).find (.el n) = some i) :
    st.get (.el n) = some .excluded ∧ ∀ noInc, hasType st noInc (.el n) = false := by
  have e := closure_excluded cfg img o fuel st h n hn i hi
  exact ⟨e, fun _ => by unfold hasType; rw [e]⟩

/-- Model sanity (restates `remapMsg`): the rewrite drops a message whose id is not `hasType`. -/
theorem rewrite_drops_message (c : RCtx) (path : List Nat) (m : Msg) (h : c.has (.el m.id) = false) :
    (remapMsg c path m).1 = none := by
  cases m with
  | mk id fields oneofs exts nested enums rangeOpts reserved mapEntry opts =>
    unfold remapMsg
    simp only [Msg.id] at h
    simp [h]

/-- Model sanity (restate `remapEnum/Service/Method/Field`): … and an enum, a service, a method, an
    extension with such an id; and every field or extension whose type, and (after the fix of 9b)
    every method whose request or response type, is not kept. -/
theorem rewrite_drops_enum (c : RCtx) (p : List Nat) (e : Enum) (h : c.has (.el e.id) = false) :
    (remapEnum c p e).1 = none := by unfold remapEnum; simp [h]

theorem rewrite_drops_service (c : RCtx) (p : List Nat) (s : Service) (h : c.has (.el s.id) = false) :
    (remapService c p s).1 = none := by unfold remapService; simp [h]

theorem rewrite_drops_method (c : RCtx) (p : List Nat) (m : Method)
    (h : c.has (.el m.id) = false ∨ (c.methodIO = true ∧ (c.has (.el m.input) = false ∨ c.has (.el m.output) = false))) :
    (remapMethod c p m).1 = none := by
  unfold remapMethod
  rcases h with h | ⟨hio, h | h⟩ <;> simp [*]

theorem rewrite_drops_field_of_type (c : RCtx) (p : List Nat) (f : Field) (t : Id)
    (ht : f.ty = some t) (h : c.has (.el t) = false) : (remapField c p f).1 = none := by
  unfold remapField
  split
  · rfl
  · simp [ht, h]

theorem rewrite_drops_extension (c : RCtx) (p : List Nat) (f : Field) (e : Id)
    (he : f.extendee = some e) (h : c.has (.el f.id) = false) : (remapField c p f).1 = none := by
  unfold remapField
  simp [he, h]

/-! ### survivors -/

theorem remapField_unchanged (c : RCtx) (p : List Nat) (x y : Field) (h : (remapField c p x).1 = some y) : y = x := by
  unfold remapField at h
  split at h
  · cases h
  · split at h
    · split at h
      · simpa using h.symm
      · cases h
    · simpa using h.symm

theorem remapEnum_unchanged (c : RCtx) (p : List Nat) (x y : Enum) (h : (remapEnum c p x).1 = some y) : y = x := by
  unfold remapEnum at h
  split at h
  · simpa using h.symm
  · cases h

theorem remapMethod_unchanged (c : RCtx) (p : List Nat) (x y : Method) (h : (remapMethod c p x).1 = some y) : y = x := by
  unfold remapMethod at h
  split at h
  · simpa using h.symm
  · cases h

/-- The list remapSlice returns is exactly the kept items in their original order … -/
theorem remapSlice_items {α β} (path : List Nat) (f : List Nat → α → Option β × Marks) (xs : List α) (fr to : Nat) :
    (remapSlice path f xs fr to).1 = keptFrom path f xs fr :=
  BufProofs.FilterLemmas.remapSlice_items path f xs fr to

/-- … so kept fields, extensions, enums and methods are the original descriptors, unchanged and in
    order (`Sublist`).  True by construction of `remapX` (they only keep or drop); the protocol
    renders ids only, so "otherwise unchanged" rests on the Go oracle.  Partial: the statement for
    messages (nested declarations filtered recursively, namespace-only messages cleared) is not
    proved here. -/
theorem survivors_unchanged_partial (c : RCtx) (path : List Nat) (fs : List Field) (es : List Enum) (ms : List Method) :
    (remapSlice path (remapField c) fs 0 0).1.Sublist fs ∧
    (remapSlice path (remapEnum c) es 0 0).1.Sublist es ∧
    (remapSlice path (remapMethod c) ms 0 0).1.Sublist ms := by
  refine ⟨?_, ?_, ?_⟩
  · rw [remapSlice_items]; exact keptFrom_sublist _ _ (remapField_unchanged c) _ _
  · rw [remapSlice_items]; exact keptFrom_sublist _ _ (remapEnum_unchanged c) _ _
  · rw [remapSlice_items]; exact keptFrom_sublist _ _ (remapMethod_unchanged c) _ _

/-! ### remapSlice index arithmetic and source paths -/

/-- The trie node remapSlice leaves for element `i`: deleted iff dropped; moved to `newIdx` (= number
    of kept elements before it) iff that differs from `i`; untouched otherwise.  Holds for any two
    adjacent dropped elements, a dropped prefix, a dropped suffix, …: it is proved for all flag lists. -/
theorem remapSlice_index (path : List Nat) (bs : List Bool) (i : Nat) (hi : i < bs.length) :
    actAt (sliceMarks path bs 0 0) (path ++ [i]) =
      if bs[i] = false then some Act.deleted
      else if i ≠ newIdx bs i 0 then some (Act.moved (newIdx bs i 0)) else none := by
  have := actAt_sliceMarks path bs 0 0 i hi
  simpa using this

/-- For a list of declarations without nested marks (fields, extensions, enums, methods, oneofs,
    dependencies): the source location `path ++ [i]` of element `i` is deleted exactly when the
    element is dropped and otherwise becomes `path ++ [newIdx i]` with its comments kept.
    Partial: SLICE level — the marks are those of this one slice and `fixPath` starts at the slice's
    own node; `hleaf` fails for service lists.  The file-level statement (merged marks of the whole
    file, walk from the root) is `comments_follow_file_partial` (messages only). -/
theorem comments_follow_elements_partial {α β} (path : List Nat) (f : List Nat → α → Option β × Marks)
    (hleaf : ∀ p x, (f p x).2 = []) (xs : List α) (i : Nat) (hi : i < (flagsFrom path f xs 0).length) :
    fixPath (remapSlice path f xs 0 0).2 path [i] =
      if (flagsFrom path f xs 0)[i] = false then none
      else some ([newIdx (flagsFrom path f xs 0) i 0], false) := by
  rw [remapSlice_marks path f hleaf]
  exact fixPath_slice path _ i hi

/-- The closure's answer does not depend on the fuel once there is one. -/
theorem fuel_monotone (c : Ctx) (n k : Nat) (st st' : St) (ts : List Task)
    (h : run c n st ts = .ok st') : run c (n + k) st ts = .ok st' :=
  run_fuel_mono c n k st st' ts h

/-! ### witnesses -/

def errOf {α} : Except Err α → Option Err | .error e => some e | .ok _ => none
def linksOf : Except Err (List OFile) → Option Bool | .ok o => some (linksB o) | .error _ => none
def idsOf : Except Err (List OFile) → Option (List (Id × List Id))
  | .ok o => some (o.map fun f => (f.id, (presentFile f).map (·.id))) | .error _ => none

/-- per top-level message of the output: id, (field id, oneof index + 1 or 0) of its fields -/
def oneofIdxOf : Except Err (List OFile) → Option (List (Id × List (Id × Nat)))
  | .ok o => some ((o.map fun f => f.msgs.map fun m =>
      (m.id, m.fields.map (fun x => (x.id, match x.oneof with | some i => i + 1 | none => 0)))).flatten)
  | .error _ => none
/-- per top-level message of the output: id, number of oneof declarations -/
def oneofCountOf : Except Err (List OFile) → Option (List (Id × Nat))
  | .ok o => some ((o.map fun f => f.msgs.map fun m => (m.id, m.oneofs.length)).flatten)
  | .error _ => none

def m0 (id : Id) (fields : List Field := []) : Msg := .mk id fields [] [] [] [] [] false false []
def fld (id : Id) (ty : Option Id := none) (oneof : Option Nat := none) : Field := ⟨id, ty, oneof, none, []⟩

/-- a.proto (file 1, package 10): `message X`(11) with comment 1, `message Y`(12) with comment 2;
    e.proto (file 2, package 20): no types. -/
def imgTypeless : Image :=
  { files := [
      { id := 1, pkg := 10, isImport := false, deps := [], types := [11, 12], msgs := [m0 11, m0 12],
        enums := [], svcs := [], exts := [], opts := [], locs := [⟨[4, 0], 1⟩, ⟨[4, 1], 2⟩] },
      { id := 2, pkg := 20, isImport := false, deps := [], types := [], msgs := [], enums := [], svcs := [],
        exts := [], opts := [], locs := [] }],
    pkgs := [0, 10, 20] }

/-- 9a (pre-fix): an exclude-only filter on an image that has a file without types fails. -/
theorem filter_total_typeless_counterexample :
    errOf (filterOld imgTypeless { includes := [], excludes := [11] }) = some .missing := by decide

-- non-vacuity / the fixed behaviour: Y survives, its comment follows it to index 0
example : (match filter imgTypeless { includes := [], excludes := [11] } with
    | .ok o => some (o.map fun f => (f.id, f.msgs.map Msg.id, f.locs)) | .error _ => none) =
    some [(1, [12], [⟨[4, 0], 2⟩]), (2, [], [])] := by decide

/-- file 1: `message X`(11) `message Y`(12) `service S`(13) { rpc A(X) returns (Y) (14); rpc C(Y) returns (Y) (15) } -/
def imgRpc : Image :=
  { files := [
      { id := 1, pkg := 10, isImport := false, deps := [], types := [11, 12, 13, 14, 15], msgs := [m0 11, m0 12],
        enums := [], svcs := [⟨13, [⟨14, 11, 12, []⟩, ⟨15, 12, 12, []⟩], []⟩], exts := [], opts := [], locs := [] }],
    pkgs := [0, 10] }

/-- 9b (pre-fix): excluding an RPC request type makes the exclude-only filter fail. -/
theorem filter_total_rpc_counterexample :
    errOf (filterOld imgRpc { includes := [], excludes := [11] }) = some .conflict := by decide

example : idsOf (filter imgRpc { includes := [], excludes := [11] }) = some [(1, [12, 13, 15])] ∧
    linksOf (filter imgRpc { includes := [], excludes := [11] }) = some true := by decide

/-- 9f (pre-fix): when nothing survives, the unfiltered image (with the excluded X) came back. -/
theorem filter_drops_excludes_old_counterexample :
    idsOf (filterOld imgRpc { includes := [], excludes := [10] }) = some [(1, [11, 12, 13, 14, 15])] ∧
    errOf (filter imgRpc { includes := [], excludes := [10] }) = some .empty := by decide

/-- file 1: `message X`(11); `message Z`(12) { map<string,X> m (field 21 → entry 13); int32 k (22) }
    with nested map-entry message 13 { key (23), value (24): X }. -/
def imgMap : Image :=
  { files := [
      { id := 1, pkg := 10, isImport := false, deps := [], types := [11, 12, 13],
        msgs := [m0 11, .mk 12 [fld 21 (some 13), fld 22] [] []
                   [.mk 13 [fld 23, fld 24 (some 11)] [] [] [] [] [] false true []] [] [] false false []],
        enums := [], svcs := [], exts := [], opts := [], locs := [] }],
    pkgs := [0, 10] }

/-- Known finding (as coded): excluding a map value type leaves a one-field map entry: no link. -/
theorem filter_links_map_value_counterexample :
    linksOf (filter imgMap { includes := [], excludes := [11] }) = some false := by decide

/-- file 1: X(11), Y(12), `message A`(13) { oneof first { X x (21) } oneof second { Y y (22); int32 z (23) } } -/
def imgOneof : Image :=
  { files := [
      { id := 1, pkg := 10, isImport := false, deps := [], types := [11, 12, 13],
        msgs := [m0 11, m0 12, .mk 13 [fld 21 (some 11) (some 0), fld 22 (some 12) (some 1), fld 23 none (some 1)]
                   [⟨[]⟩, ⟨[]⟩] [] [] [] [] false false []],
        enums := [], svcs := [], exts := [], opts := [], locs := [] }],
    pkgs := [0, 10] }

/-- 9d (pre-fix, `cfgStaleOneof`): the emptied oneof is removed but `oneof_index` 1 is not renumbered
    — field y(22) and z(23) point past the one remaining oneof and the result does not link. -/
theorem filter_links_oneof_index_counterexample :
    linksOf (filterWith cfgStaleOneof imgOneof { includes := [13], excludes := [11] } (defaultFuel imgOneof)) = some false ∧
    oneofIdxOf (filterWith cfgStaleOneof imgOneof { includes := [13], excludes := [11] } (defaultFuel imgOneof)) =
      some [(12, []), (13, [(22, 2), (23, 2)])] ∧
    oneofCountOf (filterWith cfgStaleOneof imgOneof { includes := [13], excludes := [11] } (defaultFuel imgOneof)) =
      some [(12, 0), (13, 1)] := by decide

-- the repaired behaviour: the members of `second` now carry index 0 and the result links
example : linksOf (filter imgOneof { includes := [13], excludes := [11] }) = some true ∧
    oneofIdxOf (filter imgOneof { includes := [13], excludes := [11] }) = some [(12, []), (13, [(22, 1), (23, 1)])] ∧
    oneofCountOf (filter imgOneof { includes := [13], excludes := [11] }) = some [(12, 0), (13, 1)] := by decide

/-- target a.proto (file 1, pkg 10, imports 2): A(11){ D1 x }; non-target dep.proto (file 2, pkg 20,
    imports 3): D1(21), D2(22){ O o }; non-target other.proto (file 3, pkg 30): O(31). -/
def imgImport : Image :=
  { files := [
      { id := 3, pkg := 30, isImport := true, deps := [], types := [31], msgs := [m0 31], enums := [], svcs := [],
        exts := [], opts := [], locs := [] },
      { id := 2, pkg := 20, isImport := true, deps := [⟨3, false⟩], types := [21, 22],
        msgs := [m0 21, m0 22 [fld 41 (some 31)]], enums := [], svcs := [], exts := [], opts := [], locs := [] },
      { id := 1, pkg := 10, isImport := false, deps := [⟨2, false⟩], types := [11, 12],
        msgs := [m0 11 [fld 42 (some 21)], m0 12], enums := [], svcs := [], exts := [], opts := [], locs := [] }],
    pkgs := [0, 10, 20, 30] }

/-- Known finding (as coded): an exclude-only filter keeps the unvisited D2 of a non-target file but
    drops the file its field needs. -/
theorem filter_links_unvisited_import_counterexample :
    linksOf (filter imgImport { includes := [], excludes := [12] }) = some false ∧
    idsOf (filter imgImport { includes := [], excludes := [12] }) = some [(2, [21, 22]), (1, [11])] := by decide

-- with an include filter the same image is cut down to what A needs and links
example : linksOf (filter imgImport { includes := [11], excludes := [] }) = some true ∧
    idsOf (filter imgImport { includes := [11], excludes := [] }) = some [(2, [21]), (1, [11])] := by decide

-- non-vacuity of filter_drops_excludes_closure_partial: the closure succeeds, the excluded name is indexed
example : (match closure cfgFixed imgRpc { includes := [], excludes := [11] } (defaultFuel imgRpc) with
    | .ok st => some (st.get (.el 11)) | .error _ => none) = some (some .excluded) ∧
    ((buildIndex imgRpc).find (.el 11)).isSome = true := by decide

-- non-vacuity of comments_follow_elements_partial / remapSlice_index: drop two adjacent elements
example : fixPath (sliceMarks [4] [true, false, false, true] 0 0) [4] [3] = some ([1], false) ∧
    fixPath (sliceMarks [4] [true, false, false, true] 0 0) [4] [2] = none := by decide

/-! ### fuel -/

/-- `fuelBound img` (= 1 + the sum over the index of the expansion and enclosing costs, see
    `FilterClosure.eCost/cCost`) always suffices: with at least that much fuel neither the closure
    nor the filter ever answers `fuel`, for every cfg, image and filter.  Proof: the potential
    `wTasks stack + potSum state` strictly decreases with every machine step (`step_cost`). -/
theorem fuel_suffices (cfg : Cfg) (img : Image) (o : Opts) (fuel : Nat) (h : fuelBound img ≤ fuel) :
    closure cfg img o fuel ≠ .error .fuel ∧ filterWith cfg img o fuel ≠ .error .fuel :=
  ⟨closure_ne_fuel cfg img o fuel h, filterWith_ne_fuel cfg img o fuel h⟩

/-- `defaultFuel` suffices for every image whose `fuelBound` it dominates (a computable condition
    on the image alone).  Partial: the condition cannot be dropped — `defaultFuel` does not count
    option lists (enum values, extension ranges, oneofs, `Any` payloads), see
    `defaultFuel_insufficient_counterexample`. -/
theorem defaultFuel_suffices_partial (img : Image) (o : Opts) (h : fuelBound img ≤ defaultFuel img) :
    filter img o ≠ .error .fuel ∧ filterOld img o ≠ .error .fuel :=
  ⟨filterWith_ne_fuel _ img o _ h, filterWith_ne_fuel _ img o _ h⟩

-- non-vacuity: the condition holds on the witness images of this file
example : fuelBound imgRpc ≤ defaultFuel imgRpc ∧ fuelBound imgImport ≤ defaultFuel imgImport ∧
    fuelBound imgMap ≤ defaultFuel imgMap ∧ fuelBound imgOneof ≤ defaultFuel imgOneof := by decide

/-- one file with one enum of `n` values (no options anywhere) -/
def imgBigEnum (n : Nat) : Image :=
  { files := [
      { id := 1, pkg := 10, isImport := false, deps := [], types := [11], msgs := [],
        enums := [Enum.mk 11 (List.replicate n []) []], svcs := [], exts := [], opts := [], locs := [] }],
    pkgs := [0, 10] }

set_option maxRecDepth 100000 in
/-- MODEL defect (not of buf): `defaultFuel` is too small for an enum with 300 values — the model
    answers `fuel` where the implementation succeeds; with `fuelBound` it succeeds. -/
theorem defaultFuel_insufficient_counterexample :
    errOf (filter (imgBigEnum 300) { includes := [11], excludes := [] }) = some .fuel ∧
    errOf (filterWith cfgFixed (imgBigEnum 300) { includes := [11], excludes := [] } (fuelBound (imgBigEnum 300))) = none := by
  decide

/-! ### the worklist invariant and what follows from it -/

/-- **The worklist invariant, closure level** (`FilterClosure.run_closed` lifted through all
    phases).  For the current code (`svcMarksInput = false`) the final closure state is `Closed`:
    for every indexed key `k ↦ i`
      * if `k` has a non-excluded mode, its parent has a mode (`PostEncl`), and
      * if `k` is visited (implicit/explicit), every sub-task its expansion pushed has its
        post-condition (`Reqs`): field / extension / method types, extendees, option extensions and
        Any payloads are visited-or-excluded with the import `file(k) → file(target)` recorded,
        the file of `k` is in `seen`, custom options explored, oneofs with no live member excluded.
    Nothing is assumed about the image; cycles in the type graph are covered. -/
theorem closure_closed (cfg : Cfg) (hcfg : cfg.svcMarksInput = false) (img : Image) (o : Opts) (fuel : Nat)
    (st : St) (h : closure cfg img o fuel = .ok st) : Closed ⟨cfg, buildIndex img, o.customOpts⟩ st := by
  obtain ⟨_, _, _, hg⟩ := closure_good cfg hcfg img o fuel st h
  exact hg.1

/-- **filter_links, closure level** (partial: the rewrite-level statement `linksB out` is not
    derived).  In the final closure of the current code, for every visited message `M` (mode
    implicit or explicit) and every field `f` of `M` with a message/enum type `t`:
    either `t` is excluded (the rewrite then drops `f`: `rewrite_drops_field_of_type`), or `t` is
    itself visited-or-excluded *and*, unless it ended excluded, the file of `t` is in `seen` and
    is either `M`'s own file or the import edge `file(M) → file(t)` is recorded (which is what
    `remapDeps` lists).  Likewise both types of a visited method, and the extendee and type of a
    visited extension; and every key with a non-excluded mode has a parent with a mode.
    No hypothesis on the image or the filter is needed at this level: the known-finding
    families break `linksB` only in the rewrite (map entry loses its value field) or through
    `hasType` of *unvisited* keys in exclude-only filters. -/
theorem filter_links_closure_partial (cfg : Cfg) (hcfg : cfg.svcMarksInput = false) (img : Image) (o : Opts) (fuel : Nat)
    (st : St) (h : closure cfg img o fuel = .ok st) (k : Key) (i : Info)
    (hi : (buildIndex img).find k = some i) :
    let c : Ctx := ⟨cfg, buildIndex img, o.customOpts⟩
    (1 ≤ rk st k → rk st k ≤ 3 → ∀ p, i.parent = some p → 1 ≤ rk st p) ∧
    (2 ≤ rk st k → rk st k ≤ 3 →
      i.file ∈ st.seen ∧
      (i.kind = .msg → ∀ f ∈ i.fields, ∀ t, f.ty = some t →
        rk st (.el t) = 4 ∨ PostAdd c st (.el t) (some i.file)) ∧
      (i.kind = .method → PostAdd c st (.el i.input) (some i.file) ∧ PostAdd c st (.el i.output) (some i.file)) ∧
      (i.kind = .ext → ∀ f e, i.fld = some f → f.extendee = some e →
        PostAdd c st (.el e) (some i.file) ∧ ∀ t, f.ty = some t → PostAdd c st (.el t) (some i.file))) := by
  intro c
  have hc := closure_closed cfg hcfg img o fuel st h k i hi
  refine ⟨fun h1 h3 => hc.1 h1 h3, fun h2 h3 => ?_⟩
  have hr := hc.2 h2 h3
  refine ⟨?_, ?_, ?_, ?_⟩
  · exact (hr (.imp none i.file) (by unfold reqTasks postTasks; simp)).1
  · intro hk f hf t ht
    have := hr (.field f i.file) (by unfold reqTasks; rw [hk]; simp only [List.mem_append, List.mem_map]; exact Or.inl (Or.inl (Or.inl ⟨f, hf, rfl⟩)))
    rcases this with ⟨t', ht', h4⟩ | ⟨h1, _⟩
    · rw [ht] at ht'; cases ht'; exact Or.inl h4
    · exact Or.inr (h1 t ht)
  · intro hk
    exact ⟨hr (.add (.el i.input) (some i.file) false) (by unfold reqTasks; rw [hk]; simp),
      hr (.add (.el i.output) (some i.file) false) (by unfold reqTasks; rw [hk]; simp)⟩
  · intro hk f e hf he
    refine ⟨hr (.add (.el e) (some i.file) false) (by unfold reqTasks; simp [hk, hf, he]), ?_⟩
    intro t ht
    exact hr (.add (.el t) (some i.file) false) (by unfold reqTasks; simp [hk, hf, he, ht])

-- non-vacuity: A(11){ D1 x } of imgImport is visited, D1(21) is visited, the edge 1 → 2 is recorded
example : (match closure cfgFixed imgImport { includes := [11], excludes := [] } (defaultFuel imgImport) with
    | .ok st => some (st.get (.el 11), st.get (.el 21), st.edges, st.seen) | .error _ => none) =
    some (some .explicit, some .explicit, [(1, 2)], [1, 2]) := by decide

/-- **every needed import is listed** (output level).  For a successful filter of the current code,
    an output file `of`, a visited message `M` of that file and a field of `M` whose type `t` is not
    excluded (so the rewrite keeps the field): the file that declares `t` is `of` itself or is
    listed in `of.deps`.  No hypothesis on image or filter.  (That the listed file is itself in
    the output is enforced by `rewrite`'s `internal` check; that `t` is *present* there needs the
    hypotheses of `filter_keeps_includes` and is proved only for includes.) -/
theorem filter_links_imports_partial (img : Image) (o : Opts) (fuel : Nat) (st : St) (out : List OFile)
    (hcl : closure cfgFixed img o fuel = .ok st) (hrw : rewrite cfgFixed st o.includes.isEmpty img = .ok out)
    (of : OFile) (hof : of ∈ out) (k : Key) (i : Info) (hi : (buildIndex img).find k = some i)
    (h2 : 2 ≤ rk st k) (h3 : rk st k ≤ 3) (hfile : i.file = of.id) (hk : i.kind = .msg)
    (f : Field) (hf : f ∈ i.fields) (t : Id) (ht : f.ty = some t) (hne : rk st (.el t) ≠ 4)
    (it : Info) (hit : (buildIndex img).find (.el t) = some it) :
    it.file = of.id ∨ it.file ∈ of.deps := by
  obtain ⟨f0, _, hr⟩ := rewrite_origin cfgFixed rfl st _ img out hrw of hof
  obtain ⟨hid, hdeps⟩ := remapFile_deps _ f0 of hr
  have hl := (filter_links_closure_partial cfgFixed rfl img o fuel st hcl k i hi).2 h2 h3
  rcases hl.2.1 hk f hf t ht with h4 | hp
  · exact absurd h4 hne
  · obtain ⟨_, h4 | he⟩ := hp it hit
    · exact absurd h4 hne
    · rcases he.2 i.file rfl with e | e
      · left; rw [← e, hfile]
      · right
        rw [hdeps]
        rw [hfile, hid] at e
        exact remapDeps_lists st f0 it.file e

/-! ### includes are kept -/

/-- **filter_keeps_includes, closure level**: an include naming any indexed non-extension element
    (message, enum, service, method) ends `explicit` in the closure of the current code — later
    includes, the include-everything default and addExtensions never demote it.  (Extensions are
    not covered by this invariant: an extension key is the one kind of element key a later step may
    still exclude.  Including an extension whose extendee or — since the repair of
    `included-extension-silently-dropped` — whose value type is excluded is an error:
    `include_extension_excluded_type_is_conflict`.) -/
theorem filter_keeps_includes_closure_partial (cfg : Cfg) (hcfg : cfg.svcMarksInput = false) (img : Image) (o : Opts)
    (fuel : Nat) (st : St) (h : closure cfg img o fuel = .ok st) (n : Id) (hn : n ∈ o.includes)
    (i : Info) (hi : (buildIndex img).find (.el n) = some i) (hne : i.fld = none) :
    st.get (.el n) = some .explicit :=
  closure_keeps_includes cfg hcfg img o fuel st h n hn i hi hne

/-- **The structural part of `WFIdx` is a theorem**: for every image whose index has unique keys
    (`UniqIdx`: no two indexed elements share an id — the one genuine input condition; implied by
    `Nodup` of the key list, `buildIndex_wf_of_nodup`) the index `buildIndex` builds is well-formed:
    parent pointers never name a oneof key nor an extension, and descendant lists are closed under
    children. -/
theorem buildIndex_wf (img : Image) (hu : UniqIdx (buildIndex img)) : WFIdx (buildIndex img) :=
  wfIdx_of_uniq img hu

theorem buildIndex_wf_of_nodup (img : Image) (h : ((buildIndex img).map (·.key)).Nodup) :
    WFIdx (buildIndex img) := wfIdx_of_nodup img h

-- non-vacuity of buildIndex_wf / buildIndex_wf_of_nodup: the index of a three-file image with imports has
-- unique keys (both forms of the hypothesis), and the proved `WFIdx` agrees with the executable check
example : ((buildIndex imgImport).map (·.key)).Nodup ∧ uniqIdxB (buildIndex imgImport) = true ∧
    wfIdxB (buildIndex imgImport) = true := by decide

/-- **filter_keeps_includes** (output level, messages / enums / services): if the filter of the
    current code succeeds on an image with unique ids (`UniqIdx`, decidable: `uniqIdxB`), every
    include that names a message, an enum or a service is present in the output, in the output file
    with the id of its own file.  Any filter: other includes, excludes (an exclude of the element or
    of an ancestor makes the filter fail with `conflict` instead), option flags; any fuel.  Methods
    and packages are not covered here. -/
theorem filter_keeps_includes (img : Image) (o : Opts) (fuel : Nat) (out : List OFile)
    (h : filterWith cfgFixed img o fuel = .ok out) (hu : UniqIdx (buildIndex img))
    (n : Id) (hn : n ∈ o.includes) (i : Info) (hi : (buildIndex img).find (.el n) = some i)
    (hkind : i.kind = .msg ∨ i.kind = .enum ∨ i.kind = .svc) (hfld : i.fld = none) :
    ∃ of ∈ out, of.id = i.file ∧ n ∈ (presentFile of).map (·.id) :=
  filterWith_keeps_include img o fuel out h (wfIdx_of_uniq img hu) n hn i hi hfld
    (by rcases hkind with h | h | h <;> rw [h] <;> simp) (by rcases hkind with h | h | h <;> rw [h] <;> simp)

-- non-vacuity: the hypotheses hold for imgImport with include A(11) and the filter succeeds
example : uniqIdxB (buildIndex imgImport) = true ∧
    (((buildIndex imgImport).find (.el 11)).map (fun i => (i.kind, i.fld))) = some (.msg, none) ∧
    idsOf (filter imgImport { includes := [11], excludes := [12] }) = some [(2, [21]), (1, [11])] := by decide

-- non-vacuity of filter_links_imports_partial: file 1 (A{ D1 x }) lists file 2 (D1)
example : (match filter imgImport { includes := [11], excludes := [] } with
    | .ok o => some (o.map fun f => (f.id, f.deps)) | .error _ => none) = some [(2, []), (1, [2])] := by decide

/-! ### source paths of nested message lists -/

/-- **comments_follow_elements for message lists at any nesting depth** (top-level messages of a
    file, `path = [4]`, or nested messages of a message at `p`, `path = p ++ [3]`), with all the
    marks of the nested declarations present in the trie: the location `path ++ [i]` of message `i`
    is deleted exactly when the message is dropped (`msgFlags` = `has` of its id) and otherwise
    becomes `path ++ [newIdx i]` (the number of kept messages before it); its comments are blanked
    exactly when the trie has a `noComment` mark there (namespace-only message that was cleared).
    Any two adjacent dropped messages, dropped prefixes/suffixes, arbitrary nesting below.
    Partial: one message list's own marks, `fixPath` started at the list node; the file-level
    statement is `comments_follow_file_partial`. -/
theorem comments_follow_messages_partial (c : RCtx) (path : List Nat) (ms : List Msg) (i : Nat)
    (hi : i < (msgFlags c ms).length) :
    fixPath (remapMsgs c path ms 0 0).2 path [i] =
      if (msgFlags c ms)[i] = false then none
      else some ([newIdx (msgFlags c ms) i 0], noCommentAt (remapMsgs c path ms 0 0).2 (path ++ [i])) :=
  fixPath_remapMsgs c path ms i hi

/-- the marks a message at `p` leaves are a `noComment` at `p` or lie strictly below `p`; so they
    never disturb the source paths of its siblings or ancestors. -/
theorem marks_stay_below (c : RCtx) (p : List Nat) (m : Msg) : Below p (remapMsg c p m).2 :=
  below_remapMsg c p m

-- non-vacuity: nested messages [13 dropped, 14 kept (with a dropped nested 15 of its own)] below [4,0,3]
example :
    let c : RCtx := ⟨{ modes := [(.el 14, .explicit)] }, false, true, true⟩
    let ms := [m0 13, Msg.mk 14 [] [] [] [m0 15] [] [] false false []]
    fixPath (remapMsgs c [4, 0, 3] ms 0 0).2 [4, 0, 3] [1] = some ([0], false) ∧
    fixPath (remapMsgs c [4, 0, 3] ms 0 0).2 [4, 0, 3] [0] = none ∧ msgFlags c ms = [false, true] := by decide

/-! ### excludes, at the level of the function the driver runs -/

/-- **filter_drops_excludes** (output of `filterWith cfgFixed`, the function the driver runs).
    Let `x` be a name an exclude removes (`ExclKey`: the excluded element itself or one of its indexed
    descendants — nested messages, enums, extensions, methods —; for an excluded package, every
    element of its files).  If the filter succeeds, then in every output file
      * `x` is not declared (`outIds`: messages, enums, services, methods, extensions at any depth),
      * `x` is not the type of a kept field or extension (at any depth) nor the request / response
        type of a kept method (`typeRefs`),
      * `x` is not the extendee of a kept extension (`extendeeRefs`) — provided the filter has an
        include or the image has no import file and `FileTypes` lists every declared element
        (`NoImportCover`).  This is exactly the hypothesis that excludes known finding 9e
        (`exclude-only-import-file-not-closed`: an exclude-only filter keeps UNVISITED extensions of
        import files, whose extendee may be excluded).  The map-value family (9c) breaks linking, not
        this clause: a map entry that loses its value field refers to nothing excluded.
    Input conditions (decidable, `uniqIdxB` / `wfRefsB`): ids are unique; every extension names an
    extendee that is not itself an extension; ordinary fields carry no extendee.  Any fuel, any
    option flags. -/
theorem filter_drops_excludes (img : Image) (o : Opts) (fuel : Nat) (out : List OFile)
    (h : filterWith cfgFixed img o fuel = .ok out) (hu : UniqIdx (buildIndex img)) (hr : WFRefs (buildIndex img))
    (x : Id) (hx : ExclKey img o (.el x)) (of : OFile) (hof : of ∈ out) :
    x ∉ outIds of ∧ x ∉ typeRefs of ∧ ((o.includes ≠ [] ∨ NoImportCover img) → x ∉ extendeeRefs of) :=
  filterWith_drops_excludes img o fuel out h hu hr x hx of hof

/-- file 1 (target): `message X`(11) { extensions; message XN (12) }; `message Y`(13) { X x (31); XN n (32);
    int32 k (33) }; `extend X { Y e1 (14) }`; `service S`(15) { rpc A(X) returns (Y) (16); rpc B(Y) returns (Y) (17) };
    `message Z`(18). -/
def imgExt : Image :=
  { files := [
      { id := 1, pkg := 10, isImport := false, deps := [], types := [11, 12, 13, 14, 15, 16, 17, 18],
        msgs := [.mk 11 [] [] [] [m0 12] [] [[]] false false [],
                 m0 13 [fld 31 (some 11), fld 32 (some 12), fld 33], m0 18],
        enums := [], svcs := [⟨15, [⟨16, 11, 13, []⟩, ⟨17, 13, 13, []⟩], []⟩],
        exts := [⟨14, some 13, none, some 11, []⟩], opts := [], locs := [] }],
    pkgs := [0, 10] }

-- non-vacuity of filter_drops_excludes, ALL hypotheses, exclude-only filter: excluding X removes X and
-- its nested XN, the two fields typed by them, the extension of X and the method taking X
example : idsOf (filter imgExt { includes := [], excludes := [11] }) = some [(1, [13, 18, 15, 17])] ∧
    idsOf (filter imgExt { includes := [], excludes := [] }) = some [(1, [11, 12, 13, 18, 15, 16, 17, 14])] := by
  decide

example : ∀ out, filterWith cfgFixed imgExt { includes := [], excludes := [11] } (defaultFuel imgExt) = .ok out →
    ∀ of ∈ out, 12 ∉ outIds of ∧ 12 ∉ typeRefs of ∧ 11 ∉ extendeeRefs of := by
  intro out h of hof
  have hu := uniqIdx_of_B (buildIndex imgExt) (by decide)
  have hr := wfRefs_of_B (buildIndex imgExt) (by decide)
  have a := filter_drops_excludes imgExt _ _ out h hu hr 12 (exclKey_of_B _ _ _ (by decide)) of hof
  have b := filter_drops_excludes imgExt _ _ out h hu hr 11 (exclKey_of_B _ _ _ (by decide)) of hof
  exact ⟨a.1, a.2.1, b.2.2 (Or.inr (noImportCover_of_B imgExt (by decide)))⟩

-- … and with an include filter (first disjunct of the mode hypothesis)
example : idsOf (filter imgExt { includes := [15, 14], excludes := [12] }) = some [(1, [11, 13, 15, 16, 17, 14])] ∧
    uniqIdxB (buildIndex imgExt) = true ∧ wfRefsB (buildIndex imgExt) = true ∧
    exclKeyB imgExt { includes := [15, 14], excludes := [12] } (.el 12) = true := by decide

/-! ### links, at the level of the function the driver runs -/

/-- **filter_links, output level** (partial: the reference and the oneof clauses of `linksB`).  If the
    filter of the current code succeeds, then for every output file `of`
    (1) every reference `t` it contains — the type of a kept field or extension at any depth, the
        request / response type of a kept method (`typeRefs`), the extendee of a kept extension
        (`extendeeRefs`) — is DECLARED by an output file `of'` (`outIds`), and `of'` is `of` itself or is
        listed in `of.deps`;
    (2) in every message of `of`, at any nesting depth (`msgsAll`), every `oneof_index` is in range
        of the message's oneof declarations (`OneofOK`) and every oneof declaration has a member
        field (`OneofFull`) — the two oneof clauses of `msgOK`.  NEW with the repair of
        `oneof-index-not-renumbered`; false for the pre-fix rewrite
        (`filter_links_oneof_index_counterexample`).
    Hypotheses: unique ids (`UniqIdx`); extensions name non-extension extendees, ordinary fields
    have none (`WFRefs`); every reference of the INPUT image resolves to an indexed message / enum
    (`RefsResolve`) and every `oneof_index` of the INPUT is in range (`OneofsWF`) — the props.py
    assumption "images are well-formed"; and the mode hypothesis that excludes known finding 9e: the
    filter has an include, or the image has no import file and `FileTypes` lists every declared
    element (`NoImportCover`).  All five are decidable (`uniqIdxB`, `wfRefsB`, `refsResolveB`,
    `oneofsWFB`, `noImportCoverB`).
    Not covered (the other clauses of `linksB`, false as coded on the recorded family 9c): a map
    entry keeps two fields, an extendee keeps its extension ranges; and that every listed dependency
    is itself in the output (enforced by `rewrite`'s `internal` check, not restated here). -/
theorem filter_links_partial (img : Image) (o : Opts) (fuel : Nat) (out : List OFile)
    (h : filterWith cfgFixed img o fuel = .ok out) (hu : UniqIdx (buildIndex img)) (hr : WFRefs (buildIndex img))
    (hres : RefsResolve (buildIndex img)) (hw : OneofsWF (buildIndex img))
    (hmode : o.includes ≠ [] ∨ NoImportCover img) (of : OFile) (hof : of ∈ out) :
    (∀ t, (t ∈ typeRefs of ∨ t ∈ extendeeRefs of) →
      ∃ of' ∈ out, t ∈ outIds of' ∧ (of'.id = of.id ∨ of'.id ∈ of.deps)) ∧
    (∀ y ∈ msgsAll of.msgs, OneofOK y ∧ OneofFull y) :=
  ⟨fun t ht => filterWith_refs_resolve img o fuel out h hu hr hres hmode of hof t ht,
   fun y hy => ⟨filterWith_oneofs_ok img o fuel out h hu hw of hof y hy,
     filterWith_oneofs_full img o fuel out h hu hr hres hw hmode of hof y hy⟩⟩

/-- **the oneof-index clause of filter_links, for every filter**.  If the filter of the current code
    succeeds on an image with unique ids whose own oneof indexes are in range, then in every message
    of every output file, at any nesting depth, every `oneof_index` is in range of the oneof
    declarations the message kept.  No mode hypothesis: exclude-only filters over images with import
    files (family 9e) are covered too — an unvisited message keeps all its oneofs.  This is the
    statement the defect `oneof-index-not-renumbered` made false (`protodesc`: "invalid oneof
    index"); it rests on the rewrite renumbering the kept fields (`rewrite_renumbers_oneofs`) and
    on the run invariant `closure_oneof_dropped_only_if_empty`. -/
theorem filter_links_oneof_index (img : Image) (o : Opts) (fuel : Nat) (out : List OFile)
    (h : filterWith cfgFixed img o fuel = .ok out) (hu : UniqIdx (buildIndex img)) (hw : OneofsWF (buildIndex img))
    (of : OFile) (hof : of ∈ out) (y : Msg) (hy : y ∈ msgsAll of.msgs) (g : Field) (hg : g ∈ y.fields)
    (j : Nat) (hj : g.oneof = some j) : j < y.oneofs.length :=
  filterWith_oneofs_ok img o fuel out h hu hw of hof y hy g hg j hj

/-- **The third run invariant, closure level** (`FilterOneof.OInv`, by induction over the task
    machine with the stack invariant "every `oneofs` task names an element key").  In the final
    closure of the current code a oneof key is excluded only if EVERY member field of that oneof has
    an excluded type — so the rewrite, which drops exactly the fields whose type is excluded, never
    keeps a member of a oneof it drops.  Nothing is assumed about the image or the filter. -/
theorem closure_oneof_dropped_only_if_empty (cfg : Cfg) (hcfg : cfg.svcMarksInput = false) (img : Image) (o : Opts)
    (fuel : Nat) (st : St) (h : closure cfg img o fuel = .ok st) (m : Id) (n : Nat) (i : Info)
    (hx : st.get (.oneof m n) = some .excluded) (hi : (buildIndex img).find (.el m) = some i)
    (f : Field) (hf : f ∈ i.fields) (ho : f.oneof = some n) :
    ∃ t, f.ty = some t ∧ st.get (.el t) = some .excluded := by
  obtain ⟨t, ht, h4⟩ := closure_oinv cfg hcfg img o fuel st h m n i (rk_excl.mpr hx) hi f hf ho
  exact ⟨t, ht, rk_excl.mp h4⟩

/-- Model sanity + list arithmetic (rewrite level, any `RCtx` that renumbers): in a kept message
    that is not enclosing-only, a kept field `g0` that is a member of input oneof `i` (in range, not
    dropped) comes out with `oneof_index = j` where `j` = number of kept oneofs before `i`; `j` is in
    range of the output's oneof list and the output's oneof `j` IS the input's oneof `i`: the field
    still names its oneof. -/
theorem rewrite_renumbers_oneofs (c : RCtx) (id : Id) (path : List Nat) (oneofs : List Oneof) (g0 : Field) (i : Nat)
    (hi : g0.oneof = some i) (hlt : i < oneofs.length) (hk : c.st.get (.oneof id i) ≠ some .excluded) :
    ∃ j, (renumberOneof (newOneofIndexes c.st id oneofs.length 0 0) g0).oneof = some j ∧
      j < (remapSlice (path ++ [8]) (remapOneof c id) oneofs 0 0).1.length ∧
      (remapSlice (path ++ [8]) (remapOneof c id) oneofs 0 0).1[j]? = oneofs[i]? := by
  obtain ⟨j, h1, h2, h3, _⟩ := renumbered_names_oneof c id path oneofs g0 i hi hlt hk
  exact ⟨j, h1, h2, h3⟩

-- non-vacuity of the oneof clauses, ALL hypotheses of filter_links_partial (include filter): imgOneof,
-- include A(13), exclude X(11) — oneof `first` is dropped, y and z follow `second` to index 0
example : uniqIdxB (buildIndex imgOneof) = true ∧ wfRefsB (buildIndex imgOneof) = true ∧
    refsResolveB (buildIndex imgOneof) = true ∧ oneofsWFB (buildIndex imgOneof) = true ∧
    oneofIdxOf (filter imgOneof { includes := [13], excludes := [11] }) = some [(12, []), (13, [(22, 1), (23, 1)])] := by
  decide

example : ∀ out, filterWith cfgFixed imgOneof { includes := [13], excludes := [11] } (defaultFuel imgOneof) = .ok out →
    ∀ of ∈ out, ∀ y ∈ msgsAll of.msgs, OneofOK y ∧ OneofFull y := by
  intro out h of hof
  exact (filter_links_partial imgOneof _ _ out h (uniqIdx_of_B _ (by decide)) (wfRefs_of_B _ (by decide))
    (refsResolve_of_B _ (by decide)) (oneofsWF_of_B _ (by decide)) (Or.inl (by simp)) of hof).2

-- non-vacuity, include filter over an image WITH import files: A{ D1 x } pulls D1 from file 2
example : uniqIdxB (buildIndex imgImport) = true ∧ wfRefsB (buildIndex imgImport) = true ∧
    refsResolveB (buildIndex imgImport) = true ∧
    (match filter imgImport { includes := [11], excludes := [] } with
      | .ok o => some (o.map fun f => (f.id, f.deps, outIds f, typeRefs f)) | .error _ => none) =
      some [(2, [], [21], []), (1, [2], [11], [21])] := by decide

-- non-vacuity, exclude-only filter over an image without import files (second disjunct), with an
-- extension, a service and nested messages: every reference of the output resolves in the output
example : uniqIdxB (buildIndex imgExt) = true ∧ wfRefsB (buildIndex imgExt) = true ∧
    refsResolveB (buildIndex imgExt) = true ∧ noImportCoverB imgExt = true ∧
    (match filter imgExt { includes := [], excludes := [18] } with
      | .ok o => some (o.map fun f => (outIds f, typeRefs f, extendeeRefs f)) | .error _ => none) =
      some [([11, 12, 13, 15, 16, 17, 14], [11, 12, 13, 11, 13, 13, 13], [11])] := by decide

/-! ### an extension dropped for its value type contributes nothing (repair of `dropped-extension-leaves-extendee-import`) -/

/-- Current code (`extendeeFirst = false`): `addElement` of a not yet visited extension whose value
    type is already excluded — and whose extendee is not — marks the extension excluded and pushes NO
    task: the extendee is not added, no import is recorded (`seen`, `edges` unchanged), no other key
    changes.  (Before the repair the step pushed `add extendee (ref := the extension's file)` first,
    which recorded the import of the extendee's file although the extension is dropped:
    `filter_minimal_dropped_extension_counterexample`.) -/
theorem dropped_extension_adds_nothing (c : Ctx) (hcfg : c.cfg.extendeeFirst = false) (st : St) (k : Key)
    (ref : Option Id) (implied : Bool) (i : Info) (f : Field) (e t : Id)
    (hi : c.idx.find k = some i) (hkind : i.kind = .ext) (hf : i.fld = some f) (he : f.extendee = some e)
    (ht : f.ty = some t) (hx : st.isExcl (.el t) = true) (hnew : st.get k = none) :
    ∃ st1, step c st (.add k ref implied) = .ok (st1, []) ∧ st1.get k = some .excluded ∧
      st1.seen = st.seen ∧ st1.edges = st.edges ∧ ∀ k', k' ≠ k → st1.get k' = st.get k' := by
  have hte : ∀ s : St, (∀ k', k' ≠ k → s.get k' = st.get k') → k ≠ .el t → typeExcluded s f = true := by
    intro s hs hne
    unfold typeExcluded St.isExcl
    rw [ht]
    simp only [hs _ (Ne.symm hne)]
    exact hx
  have hkt : k ≠ .el t := by
    intro e'
    rw [e'] at hnew
    unfold St.isExcl at hx
    rw [hnew] at hx
    simp at hx
  have hstep : step c st (.add k ref implied) = expand c (st.set k (newMode implied)) k ref implied i := by
    simp only [step, hi, hnew]
  have hother : ∀ k', k' ≠ k → ((st.set k (newMode implied)).set k .excluded).get k' = st.get k' := by
    intro k' hk'
    rw [get_set, get_set]
    simp [hk']
  refine ⟨(st.set k (newMode implied)).set k .excluded, ?_, by rw [get_set]; simp, rfl, rfl, hother⟩
  rw [hstep]
  unfold expand
  by_cases hee : (st.set k (newMode implied)).isExcl (.el e) = true
  · simp only [hkind, hf, he, hee, if_true]
  · have h2 := hte (st.set k (newMode implied)) (fun k' hk' => by rw [get_set]; simp [hk']) hkt
    simp only [hkind, hf, he, hee, hcfg, h2, if_false, Bool.not_false, Bool.and_self, if_true, Bool.false_eq_true]

/-- x/f4.proto (file 1, imports file 2): `message NE`(11); `message K`(12) { int32 k (31) };
    `extend M7 { NE x89 (13) }`.  y/f1.proto (file 2): `message M7`(21) { extensions … }. -/
def imgDropExt : Image :=
  { files := [
      { id := 2, pkg := 10, isImport := false, deps := [], types := [21],
        msgs := [.mk 21 [] [] [] [] [] [[]] false false []], enums := [], svcs := [], exts := [], opts := [], locs := [] },
      { id := 1, pkg := 10, isImport := false, deps := [⟨2, false⟩], types := [11, 12, 13],
        msgs := [m0 11, m0 12 [fld 31]], enums := [], svcs := [],
        exts := [⟨13, some 11, none, some 21, []⟩], opts := [], locs := [] }],
    pkgs := [0, 10] }

def depsOf : Except Err (List OFile) → Option (List (Id × List Id))
  | .ok o => some (o.map fun f => (f.id, f.deps)) | .error _ => none

/-- pre-fix (`cfgExtendeeFirst`): excluding the value type NE drops the extension x89, but file 1 keeps
    the import of file 2 (the extendee's file) although nothing it still declares refers to file 2 —
    for an include filter and for an exclude-only filter.  The current code drops that import. -/
theorem filter_minimal_dropped_extension_counterexample :
    depsOf (filterWith cfgExtendeeFirst imgDropExt { includes := [12, 21], excludes := [11] } (defaultFuel imgDropExt)) =
      some [(2, []), (1, [2])] ∧
    depsOf (filterWith cfgExtendeeFirst imgDropExt { includes := [], excludes := [11] } (defaultFuel imgDropExt)) =
      some [(2, []), (1, [2])] ∧
    depsOf (filter imgDropExt { includes := [12, 21], excludes := [11] }) = some [(2, []), (1, [])] ∧
    depsOf (filter imgDropExt { includes := [], excludes := [11] }) = some [(2, []), (1, [])] ∧
    idsOf (filter imgDropExt { includes := [12, 21], excludes := [11] }) = some [(2, [21]), (1, [12])] ∧
    idsOf (filterWith cfgExtendeeFirst imgDropExt { includes := [12, 21], excludes := [11] } (defaultFuel imgDropExt)) =
      some [(2, [21]), (1, [12])] := by decide

-- non-vacuity of dropped_extension_adds_nothing: x89(13) of imgDropExt after NE(11) was excluded
example : ((buildIndex imgDropExt).find (.el 13)).map (fun i => (i.kind, i.fld.map (fun f => (f.extendee, f.ty)))) =
    some (.ext, some (some 21, some 11)) := by decide

/-! ### including an extension whose value type is excluded (repair of `included-extension-silently-dropped`) -/

/-- Current code (`silentExtDrop = false`): `includeType` of an extension (not an import, not itself
    excluded, extendee not excluded) whose value type is excluded answers `conflict` — the filter
    fails loudly instead of succeeding without the included extension. -/
theorem include_extension_excluded_type_is_conflict (c : Ctx) (hcfg : c.cfg.silentExtDrop = false) (img : Image)
    (o : Opts) (fuel : Nat) (st : St) (n : Id) (i : Info) (f : Field) (e t : Id)
    (hi : c.idx.find (.el n) = some i) (hf : i.fld = some f) (he : f.extendee = some e) (ht : f.ty = some t)
    (hx : st.isExcl (.el t) = true) :
    ∃ err, includeType c img o fuel st n = .error err := by
  unfold includeType
  rw [hi]
  simp only []
  split
  · exact ⟨_, rfl⟩
  · split
    · exact ⟨_, rfl⟩
    · split
      · exact ⟨_, rfl⟩
      · have h2 : extTypeExcluded st i = true := by
          unfold extTypeExcluded typeExcluded
          rw [hf]
          simp only [he, ht, hx, Option.isSome_some, Bool.and_self]
        simp only [hcfg, h2, Bool.not_false, Bool.and_self, if_true]
        exact ⟨_, rfl⟩

/-- pre-fix (`cfgSilentExtDrop`): `include: [K, x89]`, `exclude: [NE]` (the value type of x89) on imgDropExt
    succeeds and the result does not contain the included extension 13; the current code answers
    `conflict` (also for the include of x89 alone).  When the value type is kept the extension is kept. -/
theorem filter_keeps_includes_extension_counterexample :
    idsOf (filterWith cfgSilentExtDrop imgDropExt { includes := [12, 13], excludes := [11] } (defaultFuel imgDropExt)) =
      some [(1, [12])] ∧
    errOf (filter imgDropExt { includes := [12, 13], excludes := [11] }) = some .conflict ∧
    errOf (filter imgDropExt { includes := [13], excludes := [11] }) = some .conflict ∧
    idsOf (filter imgDropExt { includes := [13], excludes := [12] }) = some [(2, [21]), (1, [11, 13])] := by decide

/-! ### source locations at file level -/

/-- **comments follow their elements, FILE level** (partial: messages).  `remapFile` remaps every
    location of the file with `newPath` over the MERGED marks of all sections and nesting levels
    (`fileMarks`).  For every message `m` reached from the top-level list through kept messages
    (`MsgAt`: old path `4 :: p`, e.g. `[4, i, 3, j, 3, k]`; `p'` = the same path with every index
    replaced by the number of kept siblings before it):
      * the location of `m` is mapped to `4 :: p'` (comments blanked iff the trie holds a `noComment`
        there), and every input location with that path appears in the output with the new path;
      * every location below `m` is mapped by continuing the walk below `m` and prefixing `4 :: p'`
        (`cont`) — so marks of siblings, of other sections of the file and of other nesting levels
        never interfere;
      * every location at or below a dropped nested message of `m`, and at or below a dropped
        top-level message, is deleted.
    Gap (hence `_partial`): the leaf children of a message (fields, enums, oneofs, extensions: slice
    level only, `comments_follow_elements_partial`), top-level enums / extensions, services and
    methods, dependency paths; the converse "only those are deleted" is not stated. -/
theorem comments_follow_file_partial (c : RCtx) (f : File) (of : OFile) (hof : remapFile c f = some of) :
    of.locs = remapLocs (fileMarks c f) f.locs ∧
    (∀ p p' m, MsgAt c f.msgs p p' m →
      newPath (fileMarks c f) (4 :: p) = some (4 :: p', noCommentAt (fileMarks c f) (4 :: p)) ∧
      (∀ l ∈ f.locs, l.path = 4 :: p →
        (⟨4 :: p', if noCommentAt (fileMarks c f) (4 :: p) then 0 else l.tag⟩ : Loc) ∈ of.locs) ∧
      (∀ rest, newPath (fileMarks c f) (4 :: p ++ rest) = cont (fileMarks c f) (4 :: p) rest (4 :: p')) ∧
      (∀ i (hi : i < m.nested.length), c.has (.el m.nested[i].id) = false →
        ∀ rest, newPath (fileMarks c f) (4 :: p ++ 3 :: i :: rest) = none)) ∧
    (∀ i (hi : i < f.msgs.length), c.has (.el f.msgs[i].id) = false →
      ∀ rest, newPath (fileMarks c f) (4 :: i :: rest) = none) := by
  have hl := remapFile_locs c f of hof
  refine ⟨hl, ?_, fun i hi hk rest => newPath_dropped_top c f i hi hk rest⟩
  intro p p' m hm
  have h0 : newPath (fileMarks c f) (4 :: p) = some (4 :: p', noCommentAt (fileMarks c f) (4 :: p)) := by
    have := newPath_msgAt c f p p' m hm []
    simpa [cont] using this
  refine ⟨h0, ?_, fun rest => newPath_msgAt c f p p' m hm rest,
    fun i hi hk rest => newPath_dropped_nested c f p p' m hm i hi hk rest⟩
  intro l hlm hp
  rw [hl]
  unfold remapLocs
  rw [List.mem_filterMap]
  exact ⟨l, hlm, by rw [hp, h0]⟩

/-- top level [G(10), A(11)]; A nests [B(12), C(13)]; C nests [D(14), E(15)]; G, B, D are dropped. -/
def msgC : Msg := .mk 13 [] [] [] [m0 14, m0 15] [] [] false false []
def msgA : Msg := .mk 11 [] [] [] [m0 12, msgC] [] [] false false []
def fileNest : File :=
  { id := 1, pkg := 10, isImport := false, deps := [], types := [10, 11, 12, 13, 14, 15],
    msgs := [m0 10, msgA],
    enums := [], svcs := [], exts := [], opts := [],
    locs := [⟨[4, 1, 3, 1, 3, 1], 7⟩, ⟨[4, 1, 3, 1, 3, 0, 1], 8⟩, ⟨[4, 1, 3, 1, 3, 1, 1], 9⟩] }

def cNest : RCtx := ⟨{ modes := [(.file 1, .explicit), (.el 11, .enclosing), (.el 13, .enclosing), (.el 15, .explicit)] }, false, true, true⟩

-- non-vacuity of comments_follow_file_partial: E(15) sits at [4,1,3,1,3,1]; all three index levels shift
example : MsgAt cNest fileNest.msgs [1, 3, 1, 3, 1] [0, 3, 0, 3, 0] (m0 15) :=
  MsgAt.nest [1, 3, 1] [0, 3, 0] msgC
    (MsgAt.nest [1] [0] msgA (MsgAt.top (c := cNest) (ms := fileNest.msgs) 1 (by decide) (by decide)) 1 (by decide) (by decide))
    1 (by decide) (by decide)

example : (remapFile cNest fileNest).map (·.locs) = some [⟨[4, 0, 3, 0, 3, 0], 7⟩, ⟨[4, 0, 3, 0, 3, 0, 1], 9⟩] := by decide

/-- The fuel the correspondence driver actually runs with, `max (defaultFuel img) (fuelBound img)`,
    is never exhausted (repair of the model defect recorded by
    `defaultFuel_insufficient_counterexample`). -/
theorem driver_fuel_suffices (cfg : Cfg) (img : Image) (o : Opts) :
    filterWith cfg img o (max (defaultFuel img) (fuelBound img)) ≠ .error .fuel :=
  (fuel_suffices cfg img o _ (Nat.le_max_right _ _)).2

end BufProofs.C12
