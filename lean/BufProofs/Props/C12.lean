import BufProofs.Lemmas.FilterLemmas
/-
  C12 — Type filtering yields a self-contained, minimal, otherwise unchanged image.
  Model: BufModel/Filter.lean (closure = task machine `run`, rewrite = `remapFile`).

  Proved here, for all images / filters / fuel of the model:
    * filter_drops_excludes_partial   excluded names stay excluded through the whole closure and the
                                      rewrite drops every declaration / field / extension / method that
                                      is, or is typed by, an excluded element
    * survivors_unchanged_partial     kept fields, extensions, enums, methods are the originals, in order
    * remapSlice_items / remapSlice_index / comments_follow_elements
                                      index arithmetic of remapSlice and the source-path remap of a list
    * fuel_monotone                   the closure's answer does not depend on the fuel once it has one
    * *_counterexample                the pre-fix behaviours (9a, 9b, 9f) and the four families that are
                                      still as coded (recorded known findings)
  NOT proved (held by the correspondence on every run and judged by the implementation oracle):
    filter_links, filter_keeps_includes, filter_minimal, filter_idempotent, filter_total — they need
    the worklist invariant of the traversal ("every requirement of a visited element is satisfied or
    on the stack") which is not formalised; that `defaultFuel` suffices is likewise only checked
    (a `fuel` error would be a protocol disagreement).  The message-level part of
    survivors_unchanged / comments_follow_elements (nested messages, namespace-only messages) is
    covered by the correspondence of every source location and by the oracle.
-/
namespace BufProofs.C12
open BufModel.Filter BufProofs.FilterLemmas

/-! ### excludes -/

/-- An element named by an exclude is `excluded` in the final closure — through includes, the
    include-everything default and addExtensions — and `hasType` is false for it. -/
theorem filter_drops_excludes_partial (cfg : Cfg) (img : Image) (o : Opts) (fuel : Nat) (st : St)
    (h : closure cfg img o fuel = .ok st) (n : Id) (hn : n ∈ o.excludes) (i : Info)
    (hi : (buildIndex img).find (.el n) = some i) :
    st.get (.el n) = some .excluded ∧ ∀ noInc, hasType st noInc (.el n) = false := by
  have e := closure_excluded cfg img o fuel st h n hn i hi
  exact ⟨e, fun _ => by unfold hasType; rw [e]⟩

/-- The rewrite drops a message whose id is not `hasType`. -/
theorem rewrite_drops_message (c : RCtx) (path : List Nat) (m : Msg) (h : c.has (.el m.id) = false) :
    (remapMsg c path m).1 = none := by
  cases m with
  | mk id fields oneofs exts nested enums rangeOpts reserved mapEntry opts =>
    unfold remapMsg
    simp only [Msg.id] at h
    simp [h]

/-- … and an enum, a service, a method, an extension with such an id; and every field or extension
    whose type, and (after the fix of 9b) every method whose request or response type, is not kept. -/
theorem rewrite_drops_enum (c : RCtx) (p : List Nat) (e : Enum) (h : c.has (.el e.id) = false) :
    (remapEnum c p e).1 = none := by unfold remapEnum; simp [h]

theorem rewrite_drops_service (c : RCtx) (p : List Nat) (s : Service) (h : c.has (.el s.id) = false) :
    (remapService c p s).1 = none := by unfold remapService; simp [h]

theorem rewrite_drops_method (c : RCtx) (p : List Nat) (m : Method)
    (h : c.has (.el m.id) = false ∨ (c.methodIO = true ∧ (c.has (.el m.input) = false ∨ c.has (.el m.output) = false))) :
    (remapMethod c p m).1 = none := by
  unfold remapMethod
  rcases h with h | ⟨hio, h | h⟩ <;> simp [*]

theorem rewrite_drops_field_of_type (c : RCtx) (p : List Nat) (f : Field) (t : Id)
    (ht : f.ty = some t) (h : c.has (.el t) = false) : (remapField c p f).1 = none := by
  unfold remapField
  split
  · rfl
  · simp [ht, h]

theorem rewrite_drops_extension (c : RCtx) (p : List Nat) (f : Field) (e : Id)
    (he : f.extendee = some e) (h : c.has (.el f.id) = false) : (remapField c p f).1 = none := by
  unfold remapField
  simp [he, h]

/-! ### survivors -/

theorem remapField_unchanged (c : RCtx) (p : List Nat) (x y : Field) (h : (remapField c p x).1 = some y) : y = x := by
  unfold remapField at h
  split at h
  · cases h
  · split at h
    · split at h
      · simpa using h.symm
      · cases h
    · simpa using h.symm

theorem remapEnum_unchanged (c : RCtx) (p : List Nat) (x y : Enum) (h : (remapEnum c p x).1 = some y) : y = x := by
  unfold remapEnum at h
  split at h
  · simpa using h.symm
  · cases h

theorem remapMethod_unchanged (c : RCtx) (p : List Nat) (x y : Method) (h : (remapMethod c p x).1 = some y) : y = x := by
  unfold remapMethod at h
  split at h
  · simpa using h.symm
  · cases h

/-- The list remapSlice returns is exactly the kept items in their original order … -/
theorem remapSlice_items {α β} (path : List Nat) (f : List Nat → α → Option β × Marks) (xs : List α) (fr to : Nat) :
    (remapSlice path f xs fr to).1 = keptFrom path f xs fr :=
  BufProofs.FilterLemmas.remapSlice_items path f xs fr to

/-- … so kept fields, extensions, enums and methods are the original descriptors, unchanged and in
    order (`Sublist`).  Partial: the statement for messages (nested declarations filtered
    recursively, namespace-only messages cleared) is not proved here. -/
theorem survivors_unchanged_partial (c : RCtx) (path : List Nat) (fs : List Field) (es : List Enum) (ms : List Method) :
    (remapSlice path (remapField c) fs 0 0).1.Sublist fs ∧
    (remapSlice path (remapEnum c) es 0 0).1.Sublist es ∧
    (remapSlice path (remapMethod c) ms 0 0).1.Sublist ms := by
  refine ⟨?_, ?_, ?_⟩
  · rw [remapSlice_items]; exact keptFrom_sublist _ _ (remapField_unchanged c) _ _
  · rw [remapSlice_items]; exact keptFrom_sublist _ _ (remapEnum_unchanged c) _ _
  · rw [remapSlice_items]; exact keptFrom_sublist _ _ (remapMethod_unchanged c) _ _

/-! ### remapSlice index arithmetic and source paths -/

/-- The trie node remapSlice leaves for element `i`: deleted iff dropped; moved to `newIdx` (= number
    of kept elements before it) iff that differs from `i`; untouched otherwise.  Holds for any two
    adjacent dropped elements, a dropped prefix, a dropped suffix, …: it is proved for all flag lists. -/
theorem remapSlice_index (path : List Nat) (bs : List Bool) (i : Nat) (hi : i < bs.length) :
    actAt (sliceMarks path bs 0 0) (path ++ [i]) =
      if bs[i] = false then some Act.deleted
      else if i ≠ newIdx bs i 0 then some (Act.moved (newIdx bs i 0)) else none := by
  have := actAt_sliceMarks path bs 0 0 i hi
  simpa using this

/-- For a list of declarations without nested marks (fields, extensions, enums, methods, oneofs,
    dependencies): the source location `path ++ [i]` of element `i` is deleted exactly when the
    element is dropped and otherwise becomes `path ++ [newIdx i]` with its comments kept. -/
theorem comments_follow_elements {α β} (path : List Nat) (f : List Nat → α → Option β × Marks)
    (hleaf : ∀ p x, (f p x).2 = []) (xs : List α) (i : Nat) (hi : i < (flagsFrom path f xs 0).length) :
    fixPath (remapSlice path f xs 0 0).2 path [i] =
      if (flagsFrom path f xs 0)[i] = false then none
      else some ([newIdx (flagsFrom path f xs 0) i 0], false) := by
  rw [remapSlice_marks path f hleaf]
  exact fixPath_slice path _ i hi

/-- The closure's answer does not depend on the fuel once there is one. -/
theorem fuel_monotone (c : Ctx) (n k : Nat) (st st' : St) (ts : List Task)
    (h : run c n st ts = .ok st') : run c (n + k) st ts = .ok st' :=
  run_fuel_mono c n k st st' ts h

/-! ### witnesses -/

def errOf {α} : Except Err α → Option Err | .error e => some e | .ok _ => none
def linksOf : Except Err (List OFile) → Option Bool | .ok o => some (linksB o) | .error _ => none
def idsOf : Except Err (List OFile) → Option (List (Id × List Id))
  | .ok o => some (o.map fun f => (f.id, (presentFile f).map (·.id))) | .error _ => none

def m0 (id : Id) (fields : List Field := []) : Msg := .mk id fields [] [] [] [] [] false false []
def fld (id : Id) (ty : Option Id := none) (oneof : Option Nat := none) : Field := ⟨id, ty, oneof, none, []⟩

/-- a.proto (file 1, package 10): `message X`(11) with comment 1, `message Y`(12) with comment 2;
    e.proto (file 2, package 20): no types. -/
def imgTypeless : Image :=
  { files := [
      { id := 1, pkg := 10, isImport := false, deps := [], types := [11, 12], msgs := [m0 11, m0 12],
        enums := [], svcs := [], exts := [], opts := [], locs := [⟨[4, 0], 1⟩, ⟨[4, 1], 2⟩] },
      { id := 2, pkg := 20, isImport := false, deps := [], types := [], msgs := [], enums := [], svcs := [],
        exts := [], opts := [], locs := [] }],
    pkgs := [0, 10, 20] }

/-- 9a (pre-fix): an exclude-only filter on an image that has a file without types fails. -/
theorem filter_total_typeless_counterexample :
    errOf (filterOld imgTypeless { includes := [], excludes := [11] }) = some .missing := by decide

-- non-vacuity / the fixed behaviour: Y survives, its comment follows it to index 0
example : (match filter imgTypeless { includes := [], excludes := [11] } with
    | .ok o => some (o.map fun f => (f.id, f.msgs.map Msg.id, f.locs)) | .error _ => none) =
    some [(1, [12], [⟨[4, 0], 2⟩]), (2, [], [])] := by decide

/-- file 1: `message X`(11) `message Y`(12) `service S`(13) { rpc A(X) returns (Y) (14); rpc C(Y) returns (Y) (15) } -/
def imgRpc : Image :=
  { files := [
      { id := 1, pkg := 10, isImport := false, deps := [], types := [11, 12, 13, 14, 15], msgs := [m0 11, m0 12],
        enums := [], svcs := [⟨13, [⟨14, 11, 12, []⟩, ⟨15, 12, 12, []⟩], []⟩], exts := [], opts := [], locs := [] }],
    pkgs := [0, 10] }

/-- 9b (pre-fix): excluding an RPC request type makes the exclude-only filter fail. -/
theorem filter_total_rpc_counterexample :
    errOf (filterOld imgRpc { includes := [], excludes := [11] }) = some .conflict := by decide

example : idsOf (filter imgRpc { includes := [], excludes := [11] }) = some [(1, [12, 13, 15])] ∧
    linksOf (filter imgRpc { includes := [], excludes := [11] }) = some true := by decide

/-- 9f (pre-fix): when nothing survives, the unfiltered image (with the excluded X) came back. -/
theorem filter_drops_excludes_old_counterexample :
    idsOf (filterOld imgRpc { includes := [], excludes := [10] }) = some [(1, [11, 12, 13, 14, 15])] ∧
    errOf (filter imgRpc { includes := [], excludes := [10] }) = some .empty := by decide

/-- file 1: `message X`(11); `message Z`(12) { map<string,X> m (field 21 → entry 13); int32 k (22) }
    with nested map-entry message 13 { key (23), value (24): X }. -/
def imgMap : Image :=
  { files := [
      { id := 1, pkg := 10, isImport := false, deps := [], types := [11, 12, 13],
        msgs := [m0 11, .mk 12 [fld 21 (some 13), fld 22] [] []
                   [.mk 13 [fld 23, fld 24 (some 11)] [] [] [] [] [] false true []] [] [] false false []],
        enums := [], svcs := [], exts := [], opts := [], locs := [] }],
    pkgs := [0, 10] }

/-- Known finding (as coded): excluding a map value type leaves a one-field map entry: no link. -/
theorem filter_links_map_value_counterexample :
    linksOf (filter imgMap { includes := [], excludes := [11] }) = some false := by decide

/-- file 1: X(11), Y(12), `message A`(13) { oneof first { X x (21) } oneof second { Y y (22); int32 z (23) } } -/
def imgOneof : Image :=
  { files := [
      { id := 1, pkg := 10, isImport := false, deps := [], types := [11, 12, 13],
        msgs := [m0 11, m0 12, .mk 13 [fld 21 (some 11) (some 0), fld 22 (some 12) (some 1), fld 23 none (some 1)]
                   [⟨[]⟩, ⟨[]⟩] [] [] [] [] false false []],
        enums := [], svcs := [], exts := [], opts := [], locs := [] }],
    pkgs := [0, 10] }

/-- Known finding (as coded): the emptied oneof is removed but `oneof_index` 1 is not renumbered. -/
theorem filter_links_oneof_index_counterexample :
    linksOf (filter imgOneof { includes := [13], excludes := [11] }) = some false := by decide

/-- target a.proto (file 1, pkg 10, imports 2): A(11){ D1 x }; non-target dep.proto (file 2, pkg 20,
    imports 3): D1(21), D2(22){ O o }; non-target other.proto (file 3, pkg 30): O(31). -/
def imgImport : Image :=
  { files := [
      { id := 3, pkg := 30, isImport := true, deps := [], types := [31], msgs := [m0 31], enums := [], svcs := [],
        exts := [], opts := [], locs := [] },
      { id := 2, pkg := 20, isImport := true, deps := [⟨3, false⟩], types := [21, 22],
        msgs := [m0 21, m0 22 [fld 41 (some 31)]], enums := [], svcs := [], exts := [], opts := [], locs := [] },
      { id := 1, pkg := 10, isImport := false, deps := [⟨2, false⟩], types := [11, 12],
        msgs := [m0 11 [fld 42 (some 21)], m0 12], enums := [], svcs := [], exts := [], opts := [], locs := [] }],
    pkgs := [0, 10, 20, 30] }

/-- Known finding (as coded): an exclude-only filter keeps the unvisited D2 of a non-target file but
    drops the file its field needs. -/
theorem filter_links_unvisited_import_counterexample :
    linksOf (filter imgImport { includes := [], excludes := [12] }) = some false ∧
    idsOf (filter imgImport { includes := [], excludes := [12] }) = some [(2, [21, 22]), (1, [11])] := by decide

-- with an include filter the same image is cut down to what A needs and links
example : linksOf (filter imgImport { includes := [11], excludes := [] }) = some true ∧
    idsOf (filter imgImport { includes := [11], excludes := [] }) = some [(2, [21]), (1, [11])] := by decide

-- non-vacuity of filter_drops_excludes_partial: the closure succeeds, the excluded name is indexed
example : (match closure cfgFixed imgRpc { includes := [], excludes := [11] } (defaultFuel imgRpc) with
    | .ok st => some (st.get (.el 11)) | .error _ => none) = some (some .excluded) ∧
    ((buildIndex imgRpc).find (.el 11)).isSome = true := by decide

-- non-vacuity of comments_follow_elements / remapSlice_index: drop two adjacent elements
example : fixPath (sliceMarks [4] [true, false, false, true] 0 0) [4] [3] = some ([1], false) ∧
    fixPath (sliceMarks [4] [true, false, false, true] 0 0) [4] [2] = none := by decide

end BufProofs.C12
