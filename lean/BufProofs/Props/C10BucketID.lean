import BufProofs.Lemmas.BucketIDLemmas
import BufProofs.Lemmas.DepsLemmas
/-
  C10 (fifth pass) — every module of a workspace keeps an identity of its own.

  bufworkspace identifies the local modules of a workspace by a BucketID
  (`bucketIDToModuleConfig`, `Module.BucketID()`, and — for a module without `name:` —
  `Module.OpaqueID()`, the key under which ModuleSetBuilder DEDUPLICATES the added modules, the
  node name of `buf dep graph` and the key of the per-module lint / breaking configuration).  In a
  v2 buf.yaml several modules may share one `path:` (overlapping directories separated by
  includes / excludes), so the ids are derived: `foo`, `foo-2`, `foo-3`, …, and, when that collides
  with a directory that is literally named `foo-2`, `foo-1`, `foo-2`, `foo-2-1` (every DirPath
  suffixed).  Dependency resolution can only be exact if distinct modules get distinct ids.

  Model: BufModel/BucketID.lean (`bucketIDsForDirPaths`, `bucketIDsV2` = bucketIDsForModuleConfigsV2,
  the stable sort of NewBufYAMLFile, OpaqueIDs, validateBufWorkYAMLDirPaths), as coded.

  * `bucketID_v2_nodup` / `bucketID_v2_injective` — the coded scheme is injective on positions for
    EVERY list of DirPaths: no precondition on the directory names is needed (whatever characters
    a DirPath contains, `fmt.Sprintf("%s-%d")` is cut unambiguously at its LAST '-', because `%d`
    prints digits only: `bid_suffixed_inj`).  `bucketID_fallback_nodup` is the second pass alone.
  * `bucketID_length` — one id per module config, in order.
  * `bucketID_distinct_paths_identity` — pairwise distinct DirPaths keep their DirPath as id (the
    "99% of the v2 workspaces" comment); `bucketID_first_pass_kept` — the ids are the documented
    `foo`, `foo-2`, … unless a directory is named like the suffixed id of a repeated DirPath.
  * `bucketID_first_pass_counterexample` — the first pass alone is NOT injective ([foo, foo, foo-2]),
    i.e. the duplicate check and the second pass are needed.
  * `bucketID_seeded_counterexample` — the regressed second pass of seed C10-m8 (a DirPath that is
    not repeated keeps its plain name) gives two modules the id `foo-2`.
  * workspace level (normalised `path:`s, stable sort, ids handed back per buf.yaml entry):
    `bid_v2_sorted_exact`, `bid_v2_ids_length`, `bid_v2_bucketIDs_nodup`, `bid_v2_opaqueIDs_nodup`
    (OpaqueIDs are distinct when the names are distinct and no `name:` equals a BucketID) and
    `bid_v2_opaque_collision_counterexample` (a module NAMED like the directory of an unnamed module:
    equal OpaqueIDs — buf then silently drops one of the two modules; recorded observation).
  * v1: `bid_v1_bucketIDs_nodup`, `bid_v1_duplicate_rejected` (a buf.work.yaml listing one directory
    twice — also spelled differently — is rejected, so DirPaths can serve as BucketIDs).
-/
namespace BufProofs.C10
open BufModel.Path BufModel.Graph BufModel.BucketID

/-- one id per module config. -/
theorem bucketID_length (paths : List Str) : (bucketIDsV2 paths).length = paths.length :=
  bid_bucketIDsV2_length paths

/-- the second pass (`firstIDHasSuffix = true`) is injective for every list of DirPaths. -/
theorem bucketID_fallback_nodup (paths : List Str) : (bucketIDsForDirPaths paths true).Nodup :=
  bid_idsFrom_true_nodup [] paths

/-- `bucketIDsForModuleConfigsV2` never gives two module configs the same BucketID — for EVERY
    list of DirPaths (normalised or not, with or without directories named like derived ids). -/
theorem bucketID_v2_nodup (paths : List Str) : (bucketIDsV2 paths).Nodup := by
  unfold bucketIDsV2
  simp only
  split
  · exact bucketID_fallback_nodup paths
  · rename_i h
    exact bid_hasDuplicates_false (by simpa using h)

/-- the same, by positions: distinct positions in the module list get distinct ids. -/
theorem bucketID_v2_injective (paths : List Str) (i j : Nat) (hi : i < (bucketIDsV2 paths).length)
    (hj : j < (bucketIDsV2 paths).length) (hij : i ≠ j) : (bucketIDsV2 paths)[i] ≠ (bucketIDsV2 paths)[j] := by
  intro h
  exact hij ((List.getElem_inj (bucketID_v2_nodup paths)).mp h)

/-- pairwise distinct DirPaths are their own BucketIDs. -/
theorem bucketID_distinct_paths_identity (paths : List Str) (h : paths.Nodup) : bucketIDsV2 paths = paths := by
  have h1 : bucketIDsForDirPaths paths false = paths :=
    bid_idsFrom_false_distinct [] paths h (fun _ _ hm => by cases hm)
  unfold bucketIDsV2
  simp only [h1, bid_hasDuplicates_of_nodup h]
  rfl

/-- unless a directory is literally named `<p>-<k>` for a DirPath `p` used by at least `k ≥ 2`
    modules, the ids are the documented `p`, `p-2`, `p-3`, … of the first pass. -/
theorem bucketID_first_pass_kept (paths : List Str)
    (h : ∀ p k, 2 ≤ k → k ≤ runningCount p paths → suffixed p k ∉ paths) :
    bucketIDsV2 paths = bucketIDsForDirPaths paths false := by
  have hn : (bucketIDsForDirPaths paths false).Nodup := by
    apply bid_idsFrom_false_nodup [] paths
    intro p k hk hle
    refine ⟨(fun hm => by cases hm), h p k hk ?_⟩
    simpa [runningCount] using hle
  unfold bucketIDsV2
  simp only [bid_hasDuplicates_of_nodup hn]
  rfl

/-- the first pass alone is not injective: directory `foo-2` next to two modules at `foo`; the
    coded scheme answers with `foo-1`, `foo-2`, `foo-2-1`. -/
theorem bucketID_first_pass_counterexample :
    ¬ (bucketIDsForDirPaths ["foo".toList, "foo".toList, "foo-2".toList] false).Nodup ∧
    bucketIDsV2 ["foo".toList, "foo".toList, "foo-2".toList] = ["foo-1".toList, "foo-2".toList, "foo-2-1".toList] := by
  decide

/-- seed C10-m8: keeping the plain DirPath of every non-repeated DirPath in the second pass gives
    the second module at `foo` and the module at `foo-2` the same id — in the sorted order
    `bufYAMLFile.ModuleConfigs()` returns as well as in the order of the buf.yaml. -/
theorem bucketID_seeded_counterexample :
    seededIDsV2 ["foo".toList, "foo".toList, "foo-2".toList] = ["foo-1".toList, "foo-2".toList, "foo-2".toList] ∧
    ¬ (seededIDsV2 ["foo".toList, "foo".toList, "foo-2".toList]).Nodup ∧
    ¬ (seededIDsV2 ["foo-2".toList, "foo".toList, "foo".toList]).Nodup := by
  decide

/-! ### the workspace level -/

/-- `BufYAMLFile.ModuleConfigs()` lists every entry of buf.yaml exactly once, each with its own
    DirPath and name. -/
theorem bid_v2_sorted_exact (dirs : List (Str × Option Str)) :
    ((v2Sorted dirs).map (fun x => x.1)).Perm (List.range dirs.length) ∧
    ∀ x ∈ v2Sorted dirs, dirs[x.1]? = some (x.2.1, x.2.2) := by
  have hp := bid_sortStable_perm (fun x : Nat × Str × Option Str => x.2.1) (dirs.zipIdx.map (fun x => (x.2, x.1.1, x.1.2)))
  constructor
  · have := hp.map (fun x => x.1)
    refine this.trans ?_
    rw [List.map_map]
    have e : (dirs.zipIdx.map ((fun x : Nat × Str × Option Str => x.1) ∘ fun x => (x.2, x.1.1, x.1.2))) = List.range dirs.length := by
      have : ((fun x : Nat × Str × Option Str => x.1) ∘ fun x : (Str × Option Str) × Nat => (x.2, x.1.1, x.1.2)) = Prod.snd := rfl
      rw [this, List.zipIdx_map_snd, List.range_eq_range']
    rw [e]
  · intro x hx
    have hx' := (hp.mem_iff).mp hx
    obtain ⟨y, hy, rfl⟩ := List.mem_map.mp hx'
    obtain ⟨a, b⟩ := y
    have := List.mem_zipIdx hy
    simp only [Nat.zero_add, Nat.sub_zero] at this
    simp only
    rw [List.getElem?_eq_getElem this.2.1, ← this.2.2]

/-- one (BucketID, OpaqueID) pair per entry of buf.yaml. -/
theorem bid_v2_ids_length (dirs : List (Str × Option Str)) : (v2IDs dirs).length = dirs.length := by
  rw [(bid_v2_ids_perm dirs).length_eq, bid_v2SortedIDs_length]

/-- the modules of a v2 buf.yaml get pairwise distinct BucketIDs. -/
theorem bid_v2_bucketIDs_nodup (dirs : List (Str × Option Str)) : ((v2IDs dirs).map (fun x => x.1)).Nodup := by
  have hp := (bid_v2_ids_perm dirs).map (fun x => x.1)
  rw [hp.nodup_iff, bid_v2SortedIDs_fst]
  exact bucketID_v2_nodup _

/-- … and pairwise distinct OpaqueIDs, PROVIDED the names are distinct (checked by
    `NewBufYAMLFile`) and no `name:` equals a BucketID (checked by nobody). -/
theorem bid_v2_opaqueIDs_nodup (dirs : List (Str × Option Str))
    (hn : (someNames (dirs.map (fun x => x.2))).Nodup)
    (hd : ∀ v ∈ someNames (dirs.map (fun x => x.2)), v ∉ (v2IDs dirs).map (fun x => x.1)) :
    ((v2IDs dirs).map (fun x => x.2)).Nodup := by
  have hp := (bid_v2_ids_perm dirs).map (fun x => x.2)
  rw [hp.nodup_iff, bid_v2SortedIDs_snd]
  -- the names in sorted order are a permutation of the names in buf.yaml order
  have hperm : ((v2Sorted dirs).map (fun x => x.2.2)).Perm (dirs.map (fun x => x.2)) := by
    have h1 := (bid_sortStable_perm (fun x : Nat × Str × Option Str => x.2.1) (dirs.zipIdx.map (fun x => (x.2, x.1.1, x.1.2)))).map (fun x => x.2.2)
    refine h1.trans ?_
    rw [List.map_map]
    have : ((fun x : Nat × Str × Option Str => x.2.2) ∘ fun x : (Str × Option Str) × Nat => (x.2, x.1.1, x.1.2))
        = (fun x : Str × Option Str => x.2) ∘ Prod.fst := rfl
    rw [this, ← List.map_map, List.zipIdx_map_fst]
  have hsome : ∀ {a b : List (Option Str)}, a.Perm b → (someNames a).Perm (someNames b) := by
    intro a b h
    induction h with
    | nil => exact List.Perm.refl _
    | cons x _ ih => cases x <;> simp only [someNames] <;> first | exact ih | exact List.Perm.cons _ ih
    | swap x y l => cases x <;> cases y <;> simp only [someNames] <;> first | exact List.Perm.refl _ | exact List.Perm.swap _ _ _
    | trans _ _ ih1 ih2 => exact ih1.trans ih2
  have hs := hsome hperm
  apply bid_opaqueIDs_nodup
  · exact bucketID_v2_nodup _
  · exact hs.nodup_iff.mpr hn
  · intro v hv hm
    apply hd v (hs.mem_iff.mp hv)
    have hp1 := (bid_v2_ids_perm dirs).map (fun x => x.1)
    rw [hp1.mem_iff, bid_v2SortedIDs_fst]
    exact hm

/-- what the driver runs (`path:` as written → normalised → sorted → ids per entry): a buf.yaml
    whose paths are all valid gets one BucketID per entry, pairwise distinct. -/
theorem bid_v2_resolve_nodup (entries : List Entry) (r : List (Str × Str)) (h : v2Resolve entries = .ok r) :
    r.length = entries.length ∧ (r.map (fun x => x.1)).Nodup := by
  unfold v2Resolve at h
  split at h
  · cases h
  · rename_i ds hds
    simp only [Except.ok.injEq] at h
    subst h
    have hlen : ∀ (es : List Entry) (out : List Str), mapE (fun e => entryDirPath e.raw) es = .ok out → out.length = es.length := by
      intro es
      induction es with
      | nil => intro out h; simp only [mapE, Except.ok.injEq] at h; subst h; rfl
      | cons e es ih =>
        intro out h
        unfold mapE at h
        split at h
        · cases h
        · split at h
          · cases h
          · rename_i ys hys
            simp only [Except.ok.injEq] at h
            subst h
            simp only [List.length_cons, ih ys hys]
    refine ⟨?_, bid_v2_bucketIDs_nodup _⟩
    rw [bid_v2_ids_length, List.length_zip, List.length_map, hlen entries ds hds, Nat.min_self]

/-- the hypothesis "no name equals a BucketID" cannot be dropped: an unnamed module in the
    directory `buf.build/acme/x` and a module NAMED buf.build/acme/x in directory `y` have the
    same OpaqueID (ModuleSetBuilder then keeps only the first of the two). -/
theorem bid_v2_opaque_collision_counterexample :
    (v2IDs [("buf.build/acme/x".toList, none), ("y".toList, some "buf.build/acme/x".toList)]).map (fun x => x.2)
      = ["buf.build/acme/x".toList, "buf.build/acme/x".toList] := by
  decide

/-- a buf.work.yaml that is accepted has pairwise distinct BucketIDs (= directories). -/
theorem bid_v1_bucketIDs_nodup (dirs ids : List Str) (h : v1Resolve dirs = .ok ids) : ids.Nodup := by
  unfold v1Resolve at h
  split at h
  · cases h
  · split at h
    · cases h
    · rename_i seen hc
      simp only at h
      split at h
      · cases h
      · simp only [Except.ok.injEq] at h
        subst h
        have := bid_v1Collect_nodup dirs [] seen List.nodup_nil hc
        exact (sortBy_perm strLe seen).nodup_iff.mpr this

/-- a directory listed twice — under any two spellings that normalise to the same path — makes
    buf.work.yaml invalid. -/
theorem bid_v1_duplicate_rejected (pre mid post : List Str) (a b n : Str)
    (ha : normalizeAndValidate a = .ok n) (hb : normalizeAndValidate b = .ok n) :
    ∀ ids, v1Resolve (pre ++ a :: mid ++ b :: post) ≠ .ok ids := by
  intro ids h
  -- the collected key set would contain n twice
  have key : ∀ (ds seen out : List Str), v1Collect seen ds = .ok out →
      (∀ s ∈ seen, s ∈ out) ∧ ∀ d ∈ ds, ∀ m, normalizeAndValidate d = .ok m → m ∈ out := by
    intro ds
    induction ds with
    | nil =>
      intro seen out h
      simp only [v1Collect, Except.ok.injEq] at h
      subst h
      exact ⟨fun _ hs => hs, fun _ hd => by cases hd⟩
    | cons d ds ih =>
      intro seen out h
      unfold v1Collect at h
      split at h
      · cases h
      · rename_i m hm
        split at h
        · cases h
        · split at h
          · cases h
          · obtain ⟨i1, i2⟩ := ih (m :: seen) out h
            refine ⟨fun s hs => i1 s (List.mem_cons_of_mem _ hs), ?_⟩
            intro d' hd' m' hm'
            rcases List.mem_cons.mp hd' with e | e
            · subst e
              rw [hm] at hm'
              cases hm'
              exact i1 _ List.mem_cons_self
            · exact i2 d' e m' hm'
  have dup : ∀ (ds seen out : List Str), n ∈ seen → b ∈ ds → v1Collect seen ds ≠ .ok out := by
    intro ds
    induction ds with
    | nil => intro _ _ _ hb'; cases hb'
    | cons d ds ih =>
      intro seen out hn hb' h
      unfold v1Collect at h
      split at h
      · cases h
      · rename_i m hm
        split at h
        · cases h
        · rename_i hns
          split at h
          · cases h
          · rcases List.mem_cons.mp hb' with e | e
            · subst e
              rw [hb] at hm
              cases hm
              exact hns hn
            · exact ih (m :: seen) out (List.mem_cons_of_mem _ hn) e h
  have split1 : ∀ (pre seen out : List Str), v1Collect seen (pre ++ a :: (mid ++ b :: post)) ≠ .ok out := by
    intro pre
    induction pre with
    | nil =>
      intro seen out h
      simp only [List.nil_append] at h
      unfold v1Collect at h
      rw [ha] at h
      simp only at h
      split at h
      · cases h
      · split at h
        · cases h
        · exact dup _ _ out List.mem_cons_self (List.mem_append_right _ List.mem_cons_self) h
    | cons d ds ih =>
      intro seen out h
      simp only [List.cons_append] at h
      unfold v1Collect at h
      split at h
      · cases h
      · split at h
        · cases h
        · split at h
          · cases h
          · exact ih _ out h
  unfold v1Resolve at h
  split at h
  · cases h
  · split at h
    · cases h
    · rename_i seen hc
      rw [List.append_assoc] at hc
      exact split1 pre [] seen hc

/-! ### non-vacuity -/

/-- the documented example of the source comment. -/
example : bucketIDsV2 ["foo".toList, "bar".toList, "foo".toList, "bar".toList, "bar".toList, "new".toList, "foo".toList]
    = ["foo".toList, "bar".toList, "foo-2".toList, "bar-2".toList, "bar-3".toList, "new".toList, "foo-3".toList] := by decide

/-- `bucketID_first_pass_kept` applies to [foo, foo, foo-3] (no directory `foo-2`) … -/
example : bucketIDsV2 ["foo".toList, "foo".toList, "foo-3".toList] = ["foo".toList, "foo-2".toList, "foo-3".toList] := by decide

/-- … the second pass is collision free even when directories are named like ITS ids. -/
example : bucketIDsV2 ["foo".toList, "foo".toList, "foo-1".toList, "foo-2".toList, "foo-2-1".toList]
    = ["foo-1".toList, "foo-2".toList, "foo-1-1".toList, "foo-2-1".toList, "foo-2-1-1".toList] := by decide

/-- a workspace with different spellings of one path, a name and a derived-looking directory:
    ids per buf.yaml entry. -/
example : v2Resolve [{ raw := "foo-2".toList }, { raw := "./foo/".toList, name := some "buf.test/a/b".toList }, { raw := "foo".toList }]
    = .ok [("foo-2-1".toList, "foo-2-1".toList), ("foo-1".toList, "buf.test/a/b".toList), ("foo-2".toList, "foo-2".toList)] := by decide

/-- the hypotheses of `bid_v2_opaqueIDs_nodup` are satisfiable with a named module present. -/
example : (someNames ([("foo".toList, some "buf.test/a/b".toList), ("foo".toList, none)].map (fun x => x.2))).Nodup ∧
    ∀ v ∈ someNames ([("foo".toList, some "buf.test/a/b".toList), ("foo".toList, (none : Option Str))].map (fun x => x.2)),
      v ∉ (v2IDs [("foo".toList, some "buf.test/a/b".toList), ("foo".toList, none)]).map (fun x => x.1) := by decide

example : v1Resolve ["foo".toList, "bar".toList, "Foo".toList] = .ok ["Foo".toList, "bar".toList, "foo".toList] := by decide
example : v1Resolve ["foo".toList, "bar".toList, "./foo/".toList] = .error .duplicate := by decide
example : v1Resolve ["foo".toList, "foo/bar".toList] = .error .contains := by decide

end BufProofs.C10
