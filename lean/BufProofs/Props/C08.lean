import BufProofs.Lemmas.DigestLemmas
import BufModel.DigestHistory
/-
  C08 — Module digests are a pure, sensitive function of content; manifests canonical.
  Property theorems only; helper lemmas live in BufProofs/Lemmas/{Manifest,Digest}Lemmas.lean.

  `H : Bytes → Digest` (SHAKE256) is a parameter everywhere.  Purity theorems hold for every H;
  the sensitivity theorem carries the explicit hypothesis that H does not collide on the byte
  strings that the two computations being compared actually hash (`NoCollision`).

  Line feeds: since the `fix:` that makes `bufcas.NewFileNode` reject a path containing U+000A
  (handoff/C08-newline-fix.diff) "no path contains a line feed" is no longer a hypothesis of
  the round-trip and sensitivity theorems — it follows from the nodes having been accepted by
  `newFileNode`, resp. from the digest computation having succeeded (`digest_ok_newline_free`).
  The pre-fix behaviour (`newFileNodeOld`, `Old.moduleB5`) survives only in the two recorded
  `…_counterexample` theorems.
-/
namespace BufProofs.C08
open BufModel.Path BufModel.Manifest BufModel.Digest

/-- What a `bufcas.Manifest` is by construction: unique paths, every node accepted by
    `NewFileNode`.  Nothing else — that no path contains U+000A now FOLLOWS (`WF.no_newline`). -/
def WF (nodes : List FileNode) : Prop :=
  (nodes.map (·.path)).Nodup ∧ ∀ n ∈ nodes, newFileNode n.path n.digest = .ok n

theorem WF.valid {nodes : List FileNode} (h : WF nodes) : ∀ n ∈ nodes, validateNodePath n.path = .ok () :=
  fun n hn => (newFileNode_eq_ok (h.2 n hn)).1

/-- a node accepted by the repaired `NewFileNode` has no line feed in its path -/
theorem WF.no_newline {nodes : List FileNode} (h : WF nodes) : ∀ n ∈ nodes, '\n' ∉ n.path :=
  fun n hn => validateNodePath_no_newline (h.valid n hn)

/-- The regenerated constants are the ones the hand-written part of the model assumes
    (digest type name of bufcas, digest length, shape of getStorageMatcher and of the
    documentation-file lookup).  Fails to elaborate when /repo changes any of them. -/
theorem consts_match_model :
    BufGen.ConstsC08.casDigestName.toList = shake256Name ∧
    BufGen.ConstsC08.digestLength = 64 ∧
    BufGen.ConstsC08.storageMatcherShape =
      "MatchOr(MatchPathExt,MatchPathEqual(licenseFilePath),MatchPathEqual(getDocFilePathForStorageReadBucket))" ∧
    BufGen.ConstsC08.docLookupBody =
      "{ for _, docFilePath := range orderedDocFilePaths { if _, err := bucket.Stat(ctx, docFilePath); err == nil { return docFilePath } } return \"\" }" :=
  ⟨by decide, by decide, rfl, rfl⟩

/-- Canonical manifest text parses back to an equal manifest: for every set of file nodes with
    unique paths, each accepted by `NewFileNode` (double spaces, unicode, anything else allowed;
    no separate line-feed hypothesis), `NewManifest` succeeds and `ParseManifest(m.String())`
    returns exactly `m`. -/
theorem manifest_roundtrip (nodes : List FileNode) (h : WF nodes) :
    ∃ m, newManifest nodes = .ok m ∧ m.Perm nodes ∧ parseManifest (manifestString m) = .ok m := by
  refine ⟨sortBy pathLe nodes, newManifest_of_nodup nodes h.1, sortBy_perm pathLe nodes, ?_⟩
  have hp := sortBy_perm pathLe nodes
  exact parseManifest_manifestString _ (sortBy_canonical nodes h.1)
    (fun n hn => h.valid n (hp.subset hn))

/-- The canonical text determines the manifest: two well-formed node sets with the same
    manifest text are the same set of (path, digest) pairs. -/
theorem manifestString_injective (n₁ n₂ : List FileNode) (h1 : WF n₁) (h2 : WF n₂)
    (m₁ m₂ : Manifest) (e1 : newManifest n₁ = .ok m₁) (e2 : newManifest n₂ = .ok m₂)
    (h : manifestString m₁ = manifestString m₂) : m₁ = m₂ ∧ n₁.Perm n₂ := by
  have s1 := (newManifest_eq_ok e1).2
  have s2 := (newManifest_eq_ok e2).2
  have p1 := sortBy_perm pathLe n₁
  have p2 := sortBy_perm pathLe n₂
  subst s1; subst s2
  have := manifestString_inj (sortBy_canonical n₁ h1.1) (sortBy_canonical n₂ h2.1)
    (fun n hn => h1.valid n (p1.subset hn)) (fun n hn => h2.valid n (p2.subset hn)) h
  exact ⟨this, p1.symm.trans (this ▸ p2)⟩

/-- PURITY.  The b5 digest of a module is a function of the SET of its module files
    ((path, content) pairs matched by `.proto` | LICENSE | the chosen documentation file) and of
    its dependency digests: two buckets that agree on their module files — whatever the
    backend, whatever order their walk enumerates (a bucket here IS a walk order), whatever
    other files they hold — have the same digest (or fail identically).  Module name, commit,
    bucket ID and targeting are not inputs of `moduleB5` at all.  "Fail identically" includes
    the repaired line-feed case: when a module-file path contains U+000A both computations
    return `pathLineFeed` (non-module files with a line feed are irrelevant). -/
theorem digest_is_function_of_module_files (H : Bytes → Digest) (b₁ b₂ : Bucket) (deps : List MDigest)
    (h1 : BucketOK b₁) (h2 : BucketOK b₂)
    (hsame : ∀ e, e ∈ filterModule b₁ ↔ e ∈ filterModule b₂) :
    moduleB5 H b₁ deps = moduleB5 H b₂ deps := by
  by_cases n1 : NoNewline (filterModule b₁)
  · have n2 : NoNewline (filterModule b₂) := fun e he => n1 e ((hsame e).mpr he)
    cases hd : deps.all (fun d => d.type = .b5) with
    | false => rw [moduleB5_err H b₁ deps h1 n1 hd, moduleB5_err H b₂ deps h2 n2 hd]
    | true =>
      rw [moduleB5_eq H b₁ deps h1 n1 hd, moduleB5_eq H b₂ deps h2 n2 hd,
        moduleManifest_congr H b₁ b₂ h1 h2 hsame]
  · have n2 : ¬ NoNewline (filterModule b₂) := fun n2 => n1 (fun e he => n2 e ((hsame e).mp he))
    rw [moduleB5_newline_err H b₁ deps h1 n1, moduleB5_newline_err H b₂ deps h2 n2]

/-- Enumeration order: ANY permutation of the walk gives the same digest. -/
theorem digest_walk_order (H : Bytes → Digest) (b₁ b₂ : Bucket) (deps : List MDigest)
    (h1 : BucketOK b₁) (hp : b₁.Perm b₂) : moduleB5 H b₁ deps = moduleB5 H b₂ deps := by
  have h2 : BucketOK b₂ :=
    ⟨((hp.map (·.1)).nodup_iff).mp h1.1, fun e he => h1.2 e (hp.symm.subset he)⟩
  exact digest_is_function_of_module_files H b₁ b₂ deps h1 h2 (filterModule_perm hp)

/-- Non-module files: dropping every file that is not a module file changes nothing
    (no well-formedness needed: the matcher is idempotent). -/
theorem digest_ignores_non_module_files (H : Bytes → Digest) (b : Bucket) (deps : List MDigest) :
    moduleB5 H (filterModule b) deps = moduleB5 H b deps := by
  unfold moduleB5
  rw [filterModule_idem]

/-- The order in which dependency digests are supplied is irrelevant. -/
theorem digest_perm_deps (H : Bytes → Digest) (b : Bucket) (d₁ d₂ : List MDigest) (hp : d₁.Perm d₂) :
    moduleB5 H b d₁ = moduleB5 H b d₂ := by
  have hall : d₁.all (fun d => decide (d.type = .b5)) = d₂.all (fun d => decide (d.type = .b5)) := by
    apply Bool.eq_iff_iff.mpr
    simp only [List.all_eq_true]
    exact ⟨fun h x hx => h x (hp.symm.subset hx), fun h x hx => h x (hp.subset hx)⟩
  have hs : sortBy strLe (d₁.map mdigestString) = sortBy strLe (d₂.map mdigestString) :=
    sortStr_eq_of_perm (hp.map _)
  unfold moduleB5 b5ForDepDigests
  rw [depStrings_eq, depStrings_eq, hall]
  cases filesDigest H (filterModule b) with
  | error e => rfl
  | ok fd =>
    cases d₂.all (fun d => decide (d.type = .b5)) with
    | false => rfl
    | true => simp only [if_true, hs]

/-- "H is injective on the inputs compared": no two of the listed byte strings collide. -/
def NoCollision (H : Bytes → Digest) (S : List Bytes) : Prop :=
  ∀ x ∈ S, ∀ y ∈ S, H x = H y → x = y

/-- Core of the sensitivity argument, in the closed-form vocabulary (`NoNewline` on the module
    files and "all deps b5" as explicit hypotheses, so that `moduleB5` has its closed form on both
    sides).  The property-level statement is `digest_sensitive` below, which DERIVES these two
    hypotheses from the computations having succeeded; this form is what the module-set
    theorems use (`SetOK` carries them). -/
theorem digest_sensitive_module_files (H : Bytes → Digest) (b₁ b₂ : Bucket) (d₁ d₂ : List MDigest)
    (h1 : BucketOK b₁) (h2 : BucketOK b₂) (n1 : NoNewline (filterModule b₁)) (n2 : NoNewline (filterModule b₂))
    (hd1 : d₁.all (fun d => d.type = .b5) = true) (hd2 : d₂.all (fun d => d.type = .b5) = true)
    (hH : NoCollision H (b5Inputs H b₁ d₁ ++ b5Inputs H b₂ d₂))
    (heq : moduleB5 H b₁ d₁ = moduleB5 H b₂ d₂) :
    (∀ e, e ∈ filterModule b₁ ↔ e ∈ filterModule b₂) ∧ d₁.Perm d₂ := by
  have f1 := h1.filter
  have f2 := h2.filter
  -- the hashed inputs, in closed form
  have ft1 : b5FinalText H (filterModule b₁) d₁ = [b5Preimage (H (utf8 (manifestString (moduleManifest H b₁)))) (sortBy strLe (d₁.map mdigestString))] := by
    unfold b5FinalText; rw [filesDigest_eq H b₁ h1 n1, depStrings_eq, if_pos hd1]
  have ft2 : b5FinalText H (filterModule b₂) d₂ = [b5Preimage (H (utf8 (manifestString (moduleManifest H b₂)))) (sortBy strLe (d₂.map mdigestString))] := by
    unfold b5FinalText; rw [filesDigest_eq H b₂ h2 n2, depStrings_eq, if_pos hd2]
  have in1 : ∀ x, x ∈ b5Inputs H b₁ d₁ → x ∈ b5Inputs H b₁ d₁ ++ b5Inputs H b₂ d₂ := fun x hx => List.mem_append_left _ hx
  have in2 : ∀ x, x ∈ b5Inputs H b₂ d₂ → x ∈ b5Inputs H b₁ d₁ ++ b5Inputs H b₂ d₂ := fun x hx => List.mem_append_right _ hx
  have mC1 : ∀ e ∈ filterModule b₁, e.2 ∈ b5Inputs H b₁ d₁ := by
    intro e he; unfold b5Inputs; rw [filterModule_idem]
    exact List.mem_append_left _ (List.mem_append_left _ (List.mem_map.mpr ⟨e, he, rfl⟩))
  have mC2 : ∀ e ∈ filterModule b₂, e.2 ∈ b5Inputs H b₂ d₂ := by
    intro e he; unfold b5Inputs; rw [filterModule_idem]
    exact List.mem_append_left _ (List.mem_append_left _ (List.mem_map.mpr ⟨e, he, rfl⟩))
  have mT1 : utf8 (manifestString (moduleManifest H b₁)) ∈ b5Inputs H b₁ d₁ := by
    unfold b5Inputs; rw [manifestText_eq H b₁ h1 n1]; simp
  have mT2 : utf8 (manifestString (moduleManifest H b₂)) ∈ b5Inputs H b₂ d₂ := by
    unfold b5Inputs; rw [manifestText_eq H b₂ h2 n2]; simp
  have mP1 : utf8 (b5Preimage (H (utf8 (manifestString (moduleManifest H b₁)))) (sortBy strLe (d₁.map mdigestString))) ∈ b5Inputs H b₁ d₁ := by
    unfold b5Inputs; rw [ft1]; simp
  have mP2 : utf8 (b5Preimage (H (utf8 (manifestString (moduleManifest H b₂)))) (sortBy strLe (d₂.map mdigestString))) ∈ b5Inputs H b₂ d₂ := by
    unfold b5Inputs; rw [ft2]; simp
  -- step 1: the final preimages are equal
  rw [moduleB5_eq H b₁ d₁ h1 n1 hd1, moduleB5_eq H b₂ d₂ h2 n2 hd2] at heq
  have hHeq := congrArg MDigest.digest (Except.ok.inj heq)
  have hpre := utf8_inj (hH _ (in1 _ mP1) _ (in2 _ mP2) hHeq)
  -- step 2: split the preimage at the newlines
  have nl1 : ∀ l ∈ digestString (H (utf8 (manifestString (moduleManifest H b₁)))) :: sortBy strLe (d₁.map mdigestString), '\n' ∉ l := by
    intro l hl
    rcases List.mem_cons.mp hl with rfl | hl
    · exact digestString_no_newline _
    · rcases List.mem_map.mp ((sortBy_perm strLe _).subset hl) with ⟨d, _, rfl⟩
      exact mdigestString_no_newline d
  have nl2 : ∀ l ∈ digestString (H (utf8 (manifestString (moduleManifest H b₂)))) :: sortBy strLe (d₂.map mdigestString), '\n' ∉ l := by
    intro l hl
    rcases List.mem_cons.mp hl with rfl | hl
    · exact digestString_no_newline _
    · rcases List.mem_map.mp ((sortBy_perm strLe _).subset hl) with ⟨d, _, rfl⟩
      exact mdigestString_no_newline d
  have hlists := joinC_inj '\n' (by simp) (by simp) nl1 nl2 hpre
  have hfd : H (utf8 (manifestString (moduleManifest H b₁))) = H (utf8 (manifestString (moduleManifest H b₂))) :=
    digestString_inj (List.cons.inj hlists).1
  have hdeps : sortBy strLe (d₁.map mdigestString) = sortBy strLe (d₂.map mdigestString) := (List.cons.inj hlists).2
  -- step 3: the manifests are equal
  have htext := utf8_inj (hH _ (in1 _ mT1) _ (in2 _ mT2) hfd)
  have pm1 := sortBy_perm pathLe (nodesOf H (filterModule b₁))
  have pm2 := sortBy_perm pathLe (nodesOf H (filterModule b₂))
  have nodeProps : ∀ (b : Bucket), BucketOK (filterModule b) → NoNewline (filterModule b) →
      ∀ n ∈ sortBy pathLe (nodesOf H (filterModule b)), validateNodePath n.path = .ok () := by
    intro b fb nb n hn
    have hn' := (sortBy_perm pathLe _).subset hn
    rcases List.mem_map.mp hn' with ⟨e, he, rfl⟩
    exact nodePaths_ok fb.2 nb e he
  have hman : moduleManifest H b₁ = moduleManifest H b₂ :=
    manifestString_inj
      (sortBy_canonical _ (by rw [nodesOf_paths]; exact f1.1))
      (sortBy_canonical _ (by rw [nodesOf_paths]; exact f2.1))
      (fun n hn => nodeProps b₁ f1 n1 n hn) (fun n hn => nodeProps b₂ f2 n2 n hn) htext
  have hnodes : (nodesOf H (filterModule b₁)).Perm (nodesOf H (filterModule b₂)) := by
    have : sortBy pathLe (nodesOf H (filterModule b₁)) = sortBy pathLe (nodesOf H (filterModule b₂)) := hman
    exact pm1.symm.trans (this ▸ pm2)
  -- step 4: node sets equal ⇒ entry sets equal (H does not collide on the contents)
  have half : ∀ (x y : Bucket), (nodesOf H x).Perm (nodesOf H y) →
      (∀ e ∈ x, ∀ e' ∈ y, H e.2 = H e'.2 → e.2 = e'.2) → ∀ e, e ∈ x → e ∈ y := by
    intro x y hp hc e he
    have : (⟨e.1, H e.2⟩ : FileNode) ∈ nodesOf H y := hp.subset (List.mem_map.mpr ⟨e, he, rfl⟩)
    rcases List.mem_map.mp this with ⟨e', he', hfe⟩
    have hp' : e'.1 = e.1 := congrArg FileNode.path hfe
    have hd' : H e'.2 = H e.2 := congrArg FileNode.digest hfe
    have hc' := hc e he e' he' hd'.symm
    have : e' = e := Prod.ext hp' hc'.symm
    exact this ▸ he'
  refine ⟨fun e => ⟨?_, ?_⟩, ?_⟩
  · exact half _ _ hnodes (fun e he e' he' hh => hH _ (in1 _ (mC1 e he)) _ (in2 _ (mC2 e' he')) hh) e
  · exact half _ _ hnodes.symm (fun e he e' he' hh => hH _ (in2 _ (mC2 e he)) _ (in1 _ (mC1 e' he')) hh) e
  -- step 5: dependency digests
  · have hp : (d₁.map mdigestString).Perm (d₂.map mdigestString) :=
      (sortBy_perm strLe _).symm.trans (hdeps ▸ sortBy_perm strLe _)
    exact perm_of_map_perm mdigestString (fun a b => mdigestString_inj) d₁ d₂ hp

/-- A SUCCESSFUL digest computation covers only line-feed-free module-file paths and b5
    dependency digests: `Module.Digest(b5)` builds one `NewFileNode` per module file, and the
    repaired `NewFileNode` rejects U+000A.  No hypothesis on the bucket at all. -/
theorem digest_ok_newline_free (H : Bytes → Digest) (b : Bucket) (deps : List MDigest) (g : MDigest)
    (h : moduleB5 H b deps = .ok g) :
    NoNewline (filterModule b) ∧ (∀ e ∈ filterModule b, newFileNode e.1 (H e.2) = .ok ⟨e.1, H e.2⟩) ∧
      deps.all (fun d => d.type = .b5) = true :=
  ⟨moduleB5_ok_noNewline h, fun e he => newFileNode_ok _ (moduleB5_ok_paths h e he), moduleB5_ok_deps_b5 h⟩

/-- THE REPAIRED BEHAVIOUR, digest level: on a real bucket, a module file whose path contains
    U+000A makes `Module.Digest(b5)` fail with the line-feed error, for every dependency list
    and every walk order — never a digest.  (A line feed in a NON-module file's path is
    harmless: `digest_ignores_non_module_files`.) -/
theorem digest_rejects_line_feed (H : Bytes → Digest) (b : Bucket) (deps : List MDigest) (h : BucketOK b)
    (e : Entry) (he : e ∈ filterModule b) (hnl : '\n' ∈ e.1) :
    moduleB5 H b deps = .error .pathLineFeed :=
  moduleB5_newline_err H b deps h (fun hn => hn e he hnl)

/-- …and node level: a path the old `NewFileNode` accepted is accepted by the repaired one iff it
    contains no line feed; with a line feed the result is the line-feed error. -/
theorem newFileNode_rejects_line_feed (p : Str) (d : Digest) (hold : newFileNodeOld p d = .ok ⟨p, d⟩) :
    newFileNode p d = if '\n' ∈ p then .error .pathLineFeed else .ok ⟨p, d⟩ := by
  have hv : validateNodePathOld p = .ok () := by
    unfold newFileNodeOld at hold
    cases h : validateNodePathOld p with
    | error e => rw [h] at hold; cases hold
    | ok u => rfl
  unfold newFileNode
  rw [validateNodePath_of_old hv]
  by_cases hn : '\n' ∈ p
  · simp [hn]
  · simp [hn]

/-- The fix changes nothing else: whenever no module-file path contains a line feed, the
    repaired computation returns exactly what the pre-fix computation returned (same digest or
    same error). -/
theorem fix_only_affects_line_feed_paths (H : Bytes → Digest) (b : Bucket) (deps : List MDigest)
    (hn : NoNewline (filterModule b)) : moduleB5 H b deps = Old.moduleB5 H b deps :=
  (oldModuleB5_eq H b deps hn).symm

/-- SENSITIVITY.  Two SUCCESSFUL b5 computations on real buckets with the same digest, H not
    colliding on the byte strings the two computations hash (module file contents, the two
    manifest texts, the two final preimages): then the module-file sets are equal and the
    dependency-digest multisets are permutations of each other.  Contrapositive
    (`digest_changes`): any change of a byte or of a path of a module file, any added or removed
    module file, any changed, added or removed dependency digest changes the digest.
    There is NO line-feed hypothesis and no "deps are b5" hypothesis: both follow from success
    (`digest_ok_newline_free`).  Before the fix the line-feed hypothesis was indispensable
    (`newline_collision_counterexample`). -/
theorem digest_sensitive (H : Bytes → Digest) (b₁ b₂ : Bucket) (d₁ d₂ : List MDigest)
    (h1 : BucketOK b₁) (h2 : BucketOK b₂)
    (hH : NoCollision H (b5Inputs H b₁ d₁ ++ b5Inputs H b₂ d₂))
    (g : MDigest) (e1 : moduleB5 H b₁ d₁ = .ok g) (e2 : moduleB5 H b₂ d₂ = .ok g) :
    (∀ e, e ∈ filterModule b₁ ↔ e ∈ filterModule b₂) ∧ d₁.Perm d₂ :=
  digest_sensitive_module_files H b₁ b₂ d₁ d₂ h1 h2 (moduleB5_ok_noNewline e1) (moduleB5_ok_noNewline e2)
    (moduleB5_ok_deps_b5 e1) (moduleB5_ok_deps_b5 e2) hH (e1.trans e2.symm)

/-- Same statement, contrapositive reading used in the property text: two successful
    computations over different module-file sets or different dependency-digest multisets give
    different digests. -/
theorem digest_changes (H : Bytes → Digest) (b₁ b₂ : Bucket) (d₁ d₂ : List MDigest)
    (h1 : BucketOK b₁) (h2 : BucketOK b₂)
    (hH : NoCollision H (b5Inputs H b₁ d₁ ++ b5Inputs H b₂ d₂))
    (g₁ g₂ : MDigest) (e1 : moduleB5 H b₁ d₁ = .ok g₁) (e2 : moduleB5 H b₂ d₂ = .ok g₂)
    (hdiff : (∃ e, ¬ (e ∈ filterModule b₁ ↔ e ∈ filterModule b₂)) ∨ ¬ d₁.Perm d₂) :
    g₁ ≠ g₂ := by
  intro hg
  subst hg
  have := digest_sensitive H b₁ b₂ d₁ d₂ h1 h2 hH g₁ e1 e2
  rcases hdiff with ⟨e, he⟩ | hp
  · exact he (this.1 e)
  · exact hp this.2

/-- The general form, failures included: on real buckets, if the two results are EQUAL and one of
    them is a digest, the conclusion of `digest_sensitive` holds; i.e. a digest is never equal to
    the result for a different module-file set / dependency multiset, whether that result is a
    digest or an error. -/
theorem digest_sensitive_of_eq (H : Bytes → Digest) (b₁ b₂ : Bucket) (d₁ d₂ : List MDigest)
    (h1 : BucketOK b₁) (h2 : BucketOK b₂)
    (hH : NoCollision H (b5Inputs H b₁ d₁ ++ b5Inputs H b₂ d₂))
    (g : MDigest) (e1 : moduleB5 H b₁ d₁ = .ok g) (heq : moduleB5 H b₁ d₁ = moduleB5 H b₂ d₂) :
    (∀ e, e ∈ filterModule b₁ ↔ e ∈ filterModule b₂) ∧ d₁.Perm d₂ :=
  digest_sensitive H b₁ b₂ d₁ d₂ h1 h2 hH g e1 (heq ▸ e1)

/-- `digest_changes` in the closed-form vocabulary (used by the module-set theorems). -/
theorem digest_changes_module_files (H : Bytes → Digest) (b₁ b₂ : Bucket) (d₁ d₂ : List MDigest)
    (h1 : BucketOK b₁) (h2 : BucketOK b₂) (n1 : NoNewline (filterModule b₁)) (n2 : NoNewline (filterModule b₂))
    (hd1 : d₁.all (fun d => d.type = .b5) = true) (hd2 : d₂.all (fun d => d.type = .b5) = true)
    (hH : NoCollision H (b5Inputs H b₁ d₁ ++ b5Inputs H b₂ d₂))
    (hdiff : (∃ e, ¬ (e ∈ filterModule b₁ ↔ e ∈ filterModule b₂)) ∨ ¬ d₁.Perm d₂) :
    moduleB5 H b₁ d₁ ≠ moduleB5 H b₂ d₂ := by
  intro heq
  have := digest_sensitive_module_files H b₁ b₂ d₁ d₂ h1 h2 n1 n2 hd1 hd2 hH heq
  rcases hdiff with ⟨e, he⟩ | hp
  · exact he (this.1 e)
  · exact hp this.2

/-! ### Module sets: local modules recurse over their resolved dependencies -/

/-- Fuel suffices: when the resolved dependencies of every local module have smaller indices
    (the module set is acyclic — `ModuleDeps` rejects cycles — and numbered topologically), the
    digest of module `i` is the same for every fuel > i; in particular `length + 1` is enough
    for every module and the recursion never reports `moduleCycle` for want of fuel. -/
theorem moduleDigest_fuel (H : Bytes → Digest) (ms : List Mod)
    (htopo : ∀ (i : Nat) (m : Mod), ms[i]? = some m → m.isLocal = true → ∀ j ∈ m.deps, j < i) :
    ∀ i fuel, i < fuel → moduleDigest H ms fuel i = moduleDigest H ms (i + 1) i := by
  intro i
  induction i using Nat.strongRecOn with
  | _ i ih =>
    intro fuel hf
    obtain ⟨f, rfl⟩ : ∃ f, fuel = f + 1 := ⟨fuel - 1, by omega⟩
    unfold moduleDigest
    cases hm : ms[i]? with
    | none => rfl
    | some m =>
      simp only []
      by_cases hl : m.isLocal = true
      · simp only [hl, if_true]
        have : mapExcept (moduleDigest H ms f) m.deps = mapExcept (moduleDigest H ms i) m.deps := by
          apply mapExcept_congr
          intro j hj
          have hji := htopo i m hm hl j hj
          rw [ih j hji f (by omega), ih j hji i hji]
        rw [this]
      · have hl' : m.isLocal = false := by simpa using hl
        simp only [hl']
        rfl

/-- Fuel suffices for ANY numbering of an acyclic module set: acyclicity is witnessed by a rank
    function that decreases along the resolved dependencies of local modules (no relation
    between rank and index is assumed).  The digest of module `i` is the same for every
    fuel > rank i.  `moduleDigest_fuel` is the instance `rank = id`. -/
theorem moduleDigest_fuel_any_numbering (H : Bytes → Digest) (ms : List Mod) (rank : Nat → Nat)
    (hacyc : ∀ (i : Nat) (m : Mod), ms[i]? = some m → m.isLocal = true → ∀ j ∈ m.deps, rank j < rank i) :
    ∀ i fuel, rank i < fuel → moduleDigest H ms fuel i = moduleDigest H ms (rank i + 1) i := by
  have key : ∀ r i, rank i = r → ∀ fuel, r < fuel → moduleDigest H ms fuel i = moduleDigest H ms (r + 1) i := by
    intro r
    induction r using Nat.strongRecOn with
    | _ r ih =>
      intro i hri fuel hf
      obtain ⟨f, rfl⟩ : ∃ f, fuel = f + 1 := ⟨fuel - 1, by omega⟩
      unfold moduleDigest
      cases hm : ms[i]? with
      | none => rfl
      | some m =>
        simp only []
        by_cases hl : m.isLocal = true
        · simp only [hl, if_true]
          have : mapExcept (moduleDigest H ms f) m.deps = mapExcept (moduleDigest H ms r) m.deps := by
            apply mapExcept_congr
            intro j hj
            have hji : rank j < r := hri ▸ hacyc i m hm hl j hj
            rw [ih (rank j) hji j rfl f (by omega), ih (rank j) hji j rfl r hji]
          rw [this]
        · have hl' : m.isLocal = false := by simpa using hl
          simp only [hl']
          rfl
  intro i fuel hf
  exact key (rank i) i rfl fuel hf

/-- … in particular `ms.length + 1` — the fuel the driver uses — is enough for every module of an
    acyclic set whose ranks stay below its size (the height of a node in an acyclic graph on n
    nodes is < n), however the modules are numbered. -/
theorem moduleDigest_fuel_length (H : Bytes → Digest) (ms : List Mod) (rank : Nat → Nat)
    (hacyc : ∀ (i : Nat) (m : Mod), ms[i]? = some m → m.isLocal = true → ∀ j ∈ m.deps, rank j < rank i)
    (hbound : ∀ i, rank i ≤ ms.length) :
    ∀ i fuel, ms.length < fuel → moduleDigest H ms fuel i = moduleDigest H ms (ms.length + 1) i := by
  intro i fuel hf
  rw [moduleDigest_fuel_any_numbering H ms rank hacyc i fuel (by have := hbound i; omega),
    moduleDigest_fuel_any_numbering H ms rank hacyc i (ms.length + 1) (by have := hbound i; omega)]

/-- Module digests in a set do not depend on anything but the buckets' module files, the
    resolved dependency structure and the pinned digests: replacing every bucket by one that
    agrees on its module files leaves every digest unchanged. -/
theorem moduleDigest_congr (H : Bytes → Digest) (ms₁ ms₂ : List Mod)
    (hlen : ms₁.length = ms₂.length)
    (hrel : ∀ (i : Nat) (m₁ m₂ : Mod), ms₁[i]? = some m₁ → ms₂[i]? = some m₂ →
      m₁.isLocal = m₂.isLocal ∧ m₁.deps = m₂.deps ∧ m₁.pinned = m₂.pinned ∧
      BucketOK m₁.bucket ∧ BucketOK m₂.bucket ∧
      ∀ e, e ∈ filterModule m₁.bucket ↔ e ∈ filterModule m₂.bucket) :
    ∀ fuel i, moduleDigest H ms₁ fuel i = moduleDigest H ms₂ fuel i := by
  intro fuel
  induction fuel with
  | zero => intro i; rfl
  | succ f ih =>
    intro i
    unfold moduleDigest
    cases h1 : ms₁[i]? with
    | none =>
      have : ms₂[i]? = none := by
        rw [List.getElem?_eq_none_iff] at h1 ⊢; omega
      rw [this]
    | some m₁ =>
      have hi : i < ms₂.length := by
        have := (List.getElem?_eq_some_iff.mp h1).1; omega
      have h2 : ms₂[i]? = some ms₂[i] := List.getElem?_eq_getElem hi
      rw [h2]
      obtain ⟨e1, e2, e3, o1, o2, hs⟩ := hrel i m₁ ms₂[i] h1 h2
      simp only [e1, e2, e3]
      have hfun : (moduleDigest H ms₁ f) = (moduleDigest H ms₂ f) := funext ih
      rw [hfun]
      split
      · split
        · rfl
        · exact digest_is_function_of_module_files H _ _ _ o1 o2 hs
      · exact digest_is_function_of_module_files H _ _ _ o1 o2 hs

/-! ### Module sets: a change in a (transitive) local dependency reaches the dependant -/

theorem NoCollision.mono {H : Bytes → Digest} {S T : List Bytes} (h : NoCollision H T) (hs : ∀ x ∈ S, x ∈ T) :
    NoCollision H S := fun x hx y hy e => h x (hs x hx) y (hs y hy) e

/-- The changed module itself: replacing the bucket of local module `k` by one with a different
    module-file set changes the digest of `k` (its dependencies cannot depend on it, so their
    digests stay the same).  The new bucket is ANY real bucket: when one of its module-file paths
    contains U+000A the result changes from a digest to the line-feed error. -/
theorem moduleSet_changed_module (H : Bytes → Digest) (ms : List Mod) (k : Nat) (mk : Mod) (b' : Bucket)
    (hk : ms[k]? = some mk) (hkl : mk.isLocal = true) (h1 : SetOK ms)
    (hb : BucketOK b')
    (hdiff : ∃ e, ¬ (e ∈ filterModule mk.bucket ↔ e ∈ filterModule b'))
    (hH : NoCollision H (inputsAt H ms k ++ inputsAt H (withBucket ms k mk b') k)) :
    dg H ms k ≠ dg H (withBucket ms k mk b') k := by
  by_cases hn : NoNewline (filterModule b')
  case neg =>
    obtain ⟨e, he⟩ := (dg_newline_err H (withBucket ms k mk b') (withBucket_topo k mk b' hk h1.topo) k _
      (withBucket_get_self ms k mk b' hk) hb hn).1
    rw [(dg_eq_val H ms h1 k mk hk).1, he]
    intro hc; cases hc
  have h2 := h1.withBucket k mk b' hk hb hn
  have hk' := withBucket_get_self ms k mk b' hk
  obtain ⟨e1, a1⟩ := dg_eq_moduleB5 H ms h1 k mk hk
  obtain ⟨e2, a2⟩ := dg_eq_moduleB5 H _ h2 k _ hk'
  have hkl' : k < ms.length := (List.getElem?_eq_some_iff.mp hk).1
  have hD : depDigests H (withBucket ms k mk b') { mk with bucket := b' } = depDigests H ms mk := by
    simp only [depDigests, hkl, if_true]
    apply List.map_congr_left
    intro l hl
    have hlk := h1.topo k mk hk hkl l hl
    have hml : ms[l]? = some ms[l] := List.getElem?_eq_getElem (by omega)
    have := dg_unchanged H ms k mk b' h1 h2 l ms[l] hml (by omega) (by
      by_cases hll : (ms[l]).isLocal = true
      · right; intro hkin
        have := h1.topo l ms[l] hml hll k hkin
        omega
      · left; simpa using hll)
    simp only [val, this]
  have i1 : inputsAt H ms k = b5Inputs H mk.bucket (depDigests H ms mk) := by simp [inputsAt, hk]
  have i2 : inputsAt H (withBucket ms k mk b') k = b5Inputs H b' (depDigests H ms mk) := by
    simp only [inputsAt, hk']; rw [hD]
  rw [e1, e2, hD]
  rw [i1, i2] at hH
  exact digest_changes_module_files H mk.bucket b' _ _ (h1.bucket k mk hk).1 hb (h1.bucket k mk hk).2 hn a1 a1 hH
    (Or.inl hdiff)

/-- MODULE-SET SENSITIVITY.  In a module set as buf builds it (`SetOK`: acyclic, dependency
    lists transitively closed and duplicate-free, well-formed buckets), changing the module-file
    set of a local module `k` — to that of ANY real bucket; if a module-file path of the new bucket
    contains U+000A the dependants lose their digest altogether (`dg_newline_err`) —
    changes the digest of EVERY local module `i` that depends on it —
    directly or transitively: `ModuleDeps()` lists transitive dependencies, so `k ∈ deps i` —
    provided H does not collide on the byte strings hashed along the way (the digest
    computations of `i` and of its dependencies, before and after the change).  The digests of
    the other dependencies of `i` may change as well (those that depend on `k`); a counting
    argument on the value `digest(k)` shows the dependency-digest multiset of `i` cannot stay the
    same. -/
theorem moduleSet_sensitive (H : Bytes → Digest) (ms : List Mod) (k : Nat) (mk : Mod) (b' : Bucket)
    (hk : ms[k]? = some mk) (hkl : mk.isLocal = true) (h1 : SetOK ms)
    (hb : BucketOK b')
    (hdiff : ∃ e, ¬ (e ∈ filterModule mk.bucket ↔ e ∈ filterModule b'))
    (i : Nat) (mi : Mod) (hi : ms[i]? = some mi) (hil : mi.isLocal = true) (hik : k ∈ mi.deps)
    (hH : NoCollision H ((i :: mi.deps).flatMap (inputsAt H ms) ++
      (i :: mi.deps).flatMap (inputsAt H (withBucket ms k mk b')))) :
    dg H ms i ≠ dg H (withBucket ms k mk b') i := by
  have hki : k < i := h1.topo i mi hi hil k hik
  have hilen : i < ms.length := (List.getElem?_eq_some_iff.mp hi).1
  have hi' : (withBucket ms k mk b')[i]? = some mi := by
    rw [withBucket_get_ne ms k mk b' (by omega)]; exact hi
  by_cases hn : NoNewline (filterModule b')
  case neg =>
    obtain ⟨e, he⟩ := (dg_newline_err H (withBucket ms k mk b') (withBucket_topo k mk b' hk h1.topo) k _
      (withBucket_get_self ms k mk b' hk) hb hn).2 i mi hi' hil hik
    rw [(dg_eq_val H ms h1 i mi hi).1, he]
    intro hc; cases hc
  have h2 := h1.withBucket k mk b' hk hb hn
  have hk' := withBucket_get_self ms k mk b' hk
  -- membership of the hashed inputs in the no-collision list
  have inA : ∀ a ∈ i :: mi.deps, ∀ x ∈ inputsAt H ms a, x ∈ (i :: mi.deps).flatMap (inputsAt H ms) ++
      (i :: mi.deps).flatMap (inputsAt H (withBucket ms k mk b')) :=
    fun a ha x hx => List.mem_append_left _ (List.mem_flatMap.mpr ⟨a, ha, hx⟩)
  have inB : ∀ a ∈ i :: mi.deps, ∀ x ∈ inputsAt H (withBucket ms k mk b') a, x ∈ (i :: mi.deps).flatMap (inputsAt H ms) ++
      (i :: mi.deps).flatMap (inputsAt H (withBucket ms k mk b')) :=
    fun a ha x hx => List.mem_append_right _ (List.mem_flatMap.mpr ⟨a, ha, hx⟩)
  have kmem : k ∈ i :: mi.deps := List.mem_cons_of_mem _ hik
  -- the changed module
  have hbase : dg H ms k ≠ dg H (withBucket ms k mk b') k :=
    moduleSet_changed_module H ms k mk b' hk hkl h1 hb hdiff (hH.mono (by
      intro x hx
      rcases List.mem_append.mp hx with hx | hx
      · exact inA k kmem x hx
      · exact inB k kmem x hx))
  have hvk1 := (dg_eq_val H ms h1 k mk hk).1
  have hvk2 := (dg_eq_val H _ h2 k _ hk').1
  have hvalk : val H (withBucket ms k mk b') k ≠ val H ms k := by
    intro e; apply hbase; rw [hvk1, hvk2, e]
  intro heq
  obtain ⟨e1, a1⟩ := dg_eq_moduleB5 H ms h1 i mi hi
  obtain ⟨e2, a2⟩ := dg_eq_moduleB5 H _ h2 i mi hi'
  rw [e1, e2] at heq
  have ii1 : inputsAt H ms i = b5Inputs H mi.bucket (depDigests H ms mi) := by simp [inputsAt, hi]
  have ii2 : inputsAt H (withBucket ms k mk b') i = b5Inputs H mi.bucket (depDigests H (withBucket ms k mk b') mi) := by
    simp [inputsAt, hi']
  have hperm := (digest_sensitive_module_files H mi.bucket mi.bucket _ _ (h1.bucket i mi hi).1 (h1.bucket i mi hi).1
    (h1.bucket i mi hi).2 (h1.bucket i mi hi).2 a1 a2 (hH.mono (by
      intro x hx
      rcases List.mem_append.mp hx with hx | hx
      · exact inA i List.mem_cons_self x (ii1 ▸ hx)
      · exact inB i List.mem_cons_self x (ii2 ▸ hx))) heq).2
  simp only [depDigests, hil, if_true] at hperm
  have hcount := hperm.count_eq (val H ms k)
  simp only [List.count, List.countP_map] at hcount
  -- … but the value digest(k) occurs strictly less often after the change
  have hlt : mi.deps.countP ((fun d => d == val H ms k) ∘ val H (withBucket ms k mk b')) <
      mi.deps.countP ((fun d => d == val H ms k) ∘ val H ms) := by
    apply countP_lt_of_imp
    · intro j hj hv
      simp only [Function.comp, beq_iff_eq] at hv ⊢
      have hji := h1.topo i mi hi hil j hj
      have hmj : ms[j]? = some ms[j] := List.getElem?_eq_getElem (by omega)
      by_cases hjk : j = k
      · subst hjk; exact absurd hv hvalk
      · have hmj' : (withBucket ms k mk b')[j]? = some ms[j] := by
          rw [withBucket_get_ne ms k mk b' hjk]; exact hmj
        by_cases hdep : (ms[j]).isLocal = false ∨ k ∉ (ms[j]).deps
        · have := dg_unchanged H ms k mk b' h1 h2 j ms[j] hmj hjk hdep
          have hv' : val H ms j = val H (withBucket ms k mk b') j := by simp only [val, this]
          rw [hv', hv]
        · -- j is local and depends on k: its dependency list is strictly longer than k's
          exfalso
          have hjl : (ms[j]).isLocal = true := by
            cases hb : (ms[j]).isLocal with
            | true => rfl
            | false => exact absurd (Or.inl hb) hdep
          have hkj : k ∈ (ms[j]).deps := by
            apply Classical.byContradiction; intro hnot; exact hdep (Or.inr hnot)
          obtain ⟨f1, b1⟩ := dg_eq_moduleB5 H _ h2 j ms[j] hmj'
          obtain ⟨f2, b2⟩ := dg_eq_moduleB5 H ms h1 k mk hk
          have hdg : dg H (withBucket ms k mk b') j = dg H ms k := by
            rw [(dg_eq_val H _ h2 j ms[j] hmj').1, hvk1, hv]
          rw [f1, f2] at hdg
          have jmem : j ∈ i :: mi.deps := List.mem_cons_of_mem _ hj
          have ij : inputsAt H (withBucket ms k mk b') j = b5Inputs H (ms[j]).bucket (depDigests H (withBucket ms k mk b') ms[j]) := by
            simp [inputsAt, hmj']
          have ik : inputsAt H ms k = b5Inputs H mk.bucket (depDigests H ms mk) := by simp [inputsAt, hk]
          have hp := (digest_sensitive_module_files H (ms[j]).bucket mk.bucket _ _ (h1.bucket j ms[j] hmj).1 (h1.bucket k mk hk).1
            (h1.bucket j ms[j] hmj).2 (h1.bucket k mk hk).2 b1 b2 (hH.mono (by
              intro x hx
              rcases List.mem_append.mp hx with hx | hx
              · exact inB j jmem x (ij ▸ hx)
              · exact inA k kmem x (ik ▸ hx))) hdg).2
          have hlen := hp.length_eq
          simp only [depDigests, hjl, hkl, if_true, List.length_map] at hlen
          have hsub : (k :: mk.deps) ⊆ (ms[j]).deps := by
            intro x hx
            rcases List.mem_cons.mp hx with rfl | hx
            · exact hkj
            · exact h1.closed j ms[j] hmj hjl k hkj mk hk hkl x hx
          have hnd : (k :: mk.deps).Nodup := by
            refine List.nodup_cons.mpr ⟨?_, h1.nodup k mk hk⟩
            intro hkk
            have := h1.topo k mk hk hkl k hkk
            omega
          have := hnd.length_le_of_subset hsub
          simp only [List.length_cons] at this
          omega
    · exact ⟨k, hik, by simp [Function.comp], by
        simp only [Function.comp, beq_eq_false_iff_ne, ne_eq]; exact hvalk⟩
  omega

/-! ### b4 -/

/-- b4 digests are likewise a function of the module-file set (and of the v1 buf.yaml /
    buf.lock object data they also cover). -/
theorem b4_is_function_of_module_files (H : Bytes → Digest) (b₁ b₂ : Bucket) (yaml lock : Option ObjectData)
    (h1 : BucketOK b₁) (h2 : BucketOK b₂)
    (hsame : ∀ e, e ∈ filterModule b₁ ↔ e ∈ filterModule b₂) :
    moduleB4 H b₁ yaml lock = moduleB4 H b₂ yaml lock := by
  have f1 := h1.filter
  have f2 := h2.filter
  have hperm : (filterModule b₁).Perm (filterModule b₂) :=
    (List.perm_ext_iff_of_nodup (nodup_of_nodup_map _ f1.1) (nodup_of_nodup_map _ f2.1)).mpr hsame
  unfold moduleB4 b4Digest
  rw [filterModule_idem, filterModule_idem]
  by_cases n1 : NoNewline (filterModule b₁)
  case neg =>
    have n2 : ¬ NoNewline (filterModule b₂) := fun n2 => n1 (fun e he => n2 e ((hsame e).mp he))
    rw [walkNodes_err_newline H _ f1.2 n1, walkNodes_err_newline H _ f2.2 n2]
  have n2 : NoNewline (filterModule b₂) := fun e he => n1 e ((hsame e).mpr he)
  rw [walkNodes_ok H _ (nodePaths_ok f1.2 n1), walkNodes_ok H _ (nodePaths_ok f2.2 n2)]
  simp only []
  cases objectNodes H [yaml, lock] with
  | error e => rfl
  | ok extra =>
    simp only []
    have hn : (nodesOf H (filterModule b₁) ++ extra).Perm (nodesOf H (filterModule b₂) ++ extra) :=
      (hperm.map _).append_right extra
    have hman : manifestDigest H (nodesOf H (filterModule b₁) ++ extra) =
        manifestDigest H (nodesOf H (filterModule b₂) ++ extra) := by
      unfold manifestDigest
      by_cases hnd : ((nodesOf H (filterModule b₁) ++ extra).map (·.path)).Nodup
      · have hnd2 : ((nodesOf H (filterModule b₂) ++ extra).map (·.path)).Nodup :=
          ((hn.map (·.path)).nodup_iff).mp hnd
        rw [newManifest_of_nodup _ hnd, newManifest_of_nodup _ hnd2]
        have : sortBy pathLe (nodesOf H (filterModule b₁) ++ extra) = sortBy pathLe (nodesOf H (filterModule b₂) ++ extra) :=
          sortBy_eq_of_perm pathLe pathLe_total pathLe_trans hn
            (fun a b ha hb hab hba => pathLe_antisymm_of_nodup hnd ha hb hab hba)
        rw [this]
      · have hnd2 : ¬ ((nodesOf H (filterModule b₂) ++ extra).map (·.path)).Nodup :=
          fun h => hnd (((hn.map (·.path)).nodup_iff).mpr h)
        have e1 : hasDupPath (nodesOf H (filterModule b₁) ++ extra) = true := by
          cases hh : hasDupPath (nodesOf H (filterModule b₁) ++ extra) with
          | true => rfl
          | false => exact absurd ((hasDupPath_false_iff _).mp hh) hnd
        have e2 : hasDupPath (nodesOf H (filterModule b₂) ++ extra) = true := by
          cases hh : hasDupPath (nodesOf H (filterModule b₂) ++ extra) with
          | true => rfl
          | false => exact absurd ((hasDupPath_false_iff _).mp hh) hnd2
        simp only [newManifest, e1, e2, if_true]
    rw [hman]

/-- b4 SENSITIVITY, analogous to `digest_sensitive`: a b4 digest covers the module files and the
    v1 buf.yaml / buf.lock object data (`b4Entries`).  If H does not collide on what the two
    computations hash (`b4Inputs`: the file contents, the object data, the two manifest texts),
    two successful computations with the same digest cover the same set of (path, content) pairs
    (no line-feed hypothesis: success implies every covered path passed `NewFileNode`).  Contrapositive: any changed byte or path of a module
    file, any changed, added or removed buf.yaml / buf.lock changes the b4 digest. -/
theorem b4_sensitive (H : Bytes → Digest) (b₁ b₂ : Bucket) (y₁ l₁ y₂ l₂ : Option ObjectData)
    (h1 : BucketOK b₁) (h2 : BucketOK b₂)
    (hH : NoCollision H (b4Inputs H b₁ y₁ l₁ ++ b4Inputs H b₂ y₂ l₂))
    (d : MDigest) (e1 : moduleB4 H b₁ y₁ l₁ = .ok d) (e2 : moduleB4 H b₂ y₂ l₂ = .ok d) :
    ∀ e, e ∈ b4Entries b₁ y₁ l₁ ↔ e ∈ b4Entries b₂ y₂ l₂ := by
  obtain ⟨nd1, v1, hd1, t1⟩ := moduleB4_eq_ok H b₁ y₁ l₁ h1 d e1
  obtain ⟨nd2, v2, hd2, t2⟩ := moduleB4_eq_ok H b₂ y₂ l₂ h2 d e2
  have in1 : ∀ x, x ∈ b4Inputs H b₁ y₁ l₁ → x ∈ b4Inputs H b₁ y₁ l₁ ++ b4Inputs H b₂ y₂ l₂ := fun x hx => List.mem_append_left _ hx
  have in2 : ∀ x, x ∈ b4Inputs H b₂ y₂ l₂ → x ∈ b4Inputs H b₁ y₁ l₁ ++ b4Inputs H b₂ y₂ l₂ := fun x hx => List.mem_append_right _ hx
  -- contents and object data are hashed inputs
  have mC : ∀ (b : Bucket) (y l : Option ObjectData), ∀ e ∈ b4Entries b y l, e.2 ∈ b4Inputs H b y l := by
    intro b y l e he
    unfold b4Inputs; rw [filterModule_idem]
    rcases List.mem_append.mp he with he | he
    · exact List.mem_append_left _ (List.mem_append_left _ (List.mem_map.mpr ⟨e, he, rfl⟩))
    · refine List.mem_append_left _ (List.mem_append_right _ ?_)
      simp only [objEntries, List.mem_filterMap] at he ⊢
      obtain ⟨o, ho, hoe⟩ := he
      refine ⟨o, ho, ?_⟩
      cases o with
      | none => cases hoe
      | some od => simp only [Option.map_some, Option.some.injEq] at hoe ⊢; rw [← hoe]
  have mT1 : utf8 (manifestString (sortBy pathLe (nodesOf H (b4Entries b₁ y₁ l₁)))) ∈ b4Inputs H b₁ y₁ l₁ := by
    unfold b4Inputs; rw [t1]; simp
  have mT2 : utf8 (manifestString (sortBy pathLe (nodesOf H (b4Entries b₂ y₂ l₂)))) ∈ b4Inputs H b₂ y₂ l₂ := by
    unfold b4Inputs; rw [t2]; simp
  -- step 1: the manifest texts are equal
  have hHeq : H (utf8 (manifestString (sortBy pathLe (nodesOf H (b4Entries b₁ y₁ l₁))))) =
      H (utf8 (manifestString (sortBy pathLe (nodesOf H (b4Entries b₂ y₂ l₂))))) := by
    have := hd1.symm.trans hd2
    exact congrArg MDigest.digest this
  have htext := utf8_inj (hH _ (in1 _ mT1) _ (in2 _ mT2) hHeq)
  -- step 2: the manifests are equal
  have nodeProps : ∀ (es : List Entry), (∀ e ∈ es, validateNodePath e.1 = .ok ()) →
      ∀ n ∈ sortBy pathLe (nodesOf H es), validateNodePath n.path = .ok () := by
    intro es hv n hm
    have hm' := (sortBy_perm pathLe _).subset hm
    rcases List.mem_map.mp hm' with ⟨e, he, rfl⟩
    exact hv e he
  have hman := manifestString_inj (sortBy_canonical _ nd1) (sortBy_canonical _ nd2)
    (fun n hn => nodeProps _ v1 n hn) (fun n hn => nodeProps _ v2 n hn) htext
  have hnodes : (nodesOf H (b4Entries b₁ y₁ l₁)).Perm (nodesOf H (b4Entries b₂ y₂ l₂)) :=
    (sortBy_perm pathLe _).symm.trans (hman ▸ sortBy_perm pathLe _)
  -- step 3: node sets equal ⇒ entry sets equal
  have half : ∀ (x y : List Entry), (nodesOf H x).Perm (nodesOf H y) →
      (∀ e ∈ x, ∀ e' ∈ y, H e.2 = H e'.2 → e.2 = e'.2) → ∀ e, e ∈ x → e ∈ y := by
    intro x y hp hc e he
    have : (⟨e.1, H e.2⟩ : FileNode) ∈ nodesOf H y := hp.subset (List.mem_map.mpr ⟨e, he, rfl⟩)
    rcases List.mem_map.mp this with ⟨e', he', hfe⟩
    have hp' : e'.1 = e.1 := congrArg FileNode.path hfe
    have hd' : H e'.2 = H e.2 := congrArg FileNode.digest hfe
    have hc' := hc e he e' he' hd'.symm
    have : e' = e := Prod.ext hp' hc'.symm
    exact this ▸ he'
  intro e
  exact ⟨half _ _ hnodes (fun e he e' he' hh => hH _ (in1 _ (mC _ _ _ e he)) _ (in2 _ (mC _ _ _ e' he')) hh) e,
    half _ _ hnodes.symm (fun e he e' he' hh => hH _ (in2 _ (mC _ _ _ e he)) _ (in1 _ (mC _ _ _ e' he')) hh) e⟩

/-! ### Non-vacuity and recorded counterexamples -/

def zeroDigest : Digest := ⟨List.replicate 64 0, by simp⟩

/-- a toy hash for the examples: a polynomial checksum written out as 64 bytes -/
def toyH (x : Bytes) : Digest :=
  ⟨(List.range 64).map (fun i =>
      UInt8.ofNat ((x.foldl (fun acc b => (acc * 257 + b.toNat + 1) % 170141183460469231731687303715884105727) 0) / 256 ^ i % 256)),
    by simp⟩

def exNodes : List FileNode :=
  [⟨"dir  x/a  b.proto".toList, zeroDigest⟩, ⟨"LICENSE".toList, toyH [1]⟩, ⟨"日本/é x.proto".toList, zeroDigest⟩]

set_option maxRecDepth 100000 in
-- hypotheses of manifest_roundtrip are satisfiable by a manifest with double spaces and unicode
example : WF exNodes := by
  refine ⟨by decide, ?_⟩
  intro n hn
  simp only [exNodes, List.mem_cons, List.not_mem_nil, or_false] at hn
  rcases hn with rfl | rfl | rfl <;> decide

set_option maxRecDepth 100000 in
/-- The pre-fix parser (`strings.Split(s, "  ")` must give exactly 2 parts) rejects the canonical
    text of a valid manifest whose path has two consecutive spaces; the fixed parser accepts it
    (recorded finding, fixed by handoff/C08-parsefilenode.diff). -/
theorem roundtrip_old_counterexample :
    newManifest [⟨"a  b.proto".toList, zeroDigest⟩] = .ok [⟨"a  b.proto".toList, zeroDigest⟩] ∧
    parseManifestOld (manifestString [⟨"a  b.proto".toList, zeroDigest⟩]) = .error .nodeForm ∧
    parseManifest (manifestString [⟨"a  b.proto".toList, zeroDigest⟩]) = .ok [⟨"a  b.proto".toList, zeroDigest⟩] := by
  decide

set_option maxRecDepth 100000 in
/-- PRE-FIX behaviour (finding `manifest-roundtrip-newline-in-path`, fixed by
    handoff/C08-newline-fix.diff): the old `NewFileNode` (`newFileNodeOld`) accepted the path
    "x\ny.proto", and the canonical text of that manifest does not parse — the line format cannot
    represent a line feed.  The repaired `NewFileNode` rejects the path (last conjunct), which is
    why `manifest_roundtrip` needs no line-feed hypothesis any more. -/
theorem roundtrip_newline_counterexample :
    newFileNodeOld "x\ny.proto".toList zeroDigest = .ok ⟨"x\ny.proto".toList, zeroDigest⟩ ∧
    newManifest [⟨"x\ny.proto".toList, zeroDigest⟩] = .ok [⟨"x\ny.proto".toList, zeroDigest⟩] ∧
    parseManifest (manifestString [⟨"x\ny.proto".toList, zeroDigest⟩]) = .error .nodeForm ∧
    newFileNode "x\ny.proto".toList zeroDigest = .error .pathLineFeed := by
  decide

def exA : Bucket := [("a.proto".toList, [1]), ("x.txt".toList, [9]), ("README.md".toList, [])]
def exB : Bucket := [("README.md".toList, []), ("a.proto".toList, [2])]

set_option maxRecDepth 1000000 in
-- hypotheses of digest_sensitive / digest_changes are satisfiable (toy hash, two buckets that
-- differ in one byte of one module file, both computations succeed); purity hypotheses likewise
example : BucketOK exA ∧ BucketOK exB ∧
    NoCollision toyH (b5Inputs toyH exA [] ++ b5Inputs toyH exB []) ∧
    (moduleB5 toyH exA []).toBool = true ∧ (moduleB5 toyH exB []).toBool = true ∧
    (∃ e, ¬ (e ∈ filterModule exA ↔ e ∈ filterModule exB)) := by
  refine ⟨⟨by decide, by decide⟩, ⟨by decide, by decide⟩, by unfold NoCollision; decide,
    by decide, by decide, ⟨("a.proto".toList, [1]), by decide⟩⟩

set_option maxRecDepth 1000000 in
-- the module files of exA: the .proto file and the chosen documentation file, not x.txt
example : (filterModule exA).map (·.1) = ["a.proto".toList, "README.md".toList] := by decide

def exDep0 : MDigest := ⟨.b5, toyH [6]⟩
def nlTwo : Bucket := [("x.proto".toList, [1]), ("y.proto".toList, [2])]
def nlOne : Bucket :=
  [("x.proto".toList ++ '\n' :: digestString (toyH [2]) ++ "  y.proto".toList, [1])]

set_option maxRecDepth 1000000 in
set_option maxHeartbeats 4000000 in
/-- PRE-FIX behaviour (finding `digest-collision-newline-in-path`, fixed by
    handoff/C08-newline-fix.diff): with the old `NewFileNode` (`Old.moduleB5`) a (validated,
    `.proto`) path containing U+000A can spell out a second manifest line, so a ONE-file module
    and a TWO-file module got the same manifest text and the same b5 DIGEST (not a common error)
    although the hash does not collide on anything they hash.  So before the fix `digest_sensitive`
    was false without a line-feed hypothesis.  With the repaired `NewFileNode` the one-file module
    has no digest at all (last conjunct), and the two-file module's digest is unchanged. -/
theorem newline_collision_counterexample :
    BucketOK nlOne ∧ BucketOK nlTwo ∧ NoNewline nlTwo ∧
    NoCollision toyH (Old.b5Inputs toyH nlOne [] ++ Old.b5Inputs toyH nlTwo []) ∧
    (filterModule nlOne).length = 1 ∧ (filterModule nlTwo).length = 2 ∧
    Old.moduleB5 toyH nlOne [] = Old.moduleB5 toyH nlTwo [] ∧
    (Old.moduleB5 toyH nlTwo []).toBool = true ∧
    moduleB5 toyH nlTwo [] = Old.moduleB5 toyH nlTwo [] ∧
    moduleB5 toyH nlOne [] = .error .pathLineFeed := by
  refine ⟨⟨by decide, by decide⟩, ⟨by decide, by decide⟩, by unfold NoNewline; decide,
    by unfold NoCollision; decide, by decide, by decide, by decide, by decide, by decide, by decide⟩

set_option maxRecDepth 1000000 in
-- the hypotheses of `digest_rejects_line_feed` are satisfiable: a real bucket with a line feed in a
-- module file's path (and the theorem's conclusion, evaluated)
example : BucketOK nlOne ∧ (∃ e, e ∈ filterModule nlOne ∧ '\n' ∈ e.1) ∧
    moduleB5 toyH nlOne [exDep0] = .error .pathLineFeed := by
  refine ⟨⟨by decide, by decide⟩, ⟨nlOne.head!, by decide, by decide⟩, by decide⟩

set_option maxRecDepth 1000000 in
-- a line feed in a NON-module file's path is harmless: the digest is that of the module files
example : BucketOK (("notes\n.txt".toList, [5]) :: exA) ∧
    (moduleB5 toyH (("notes\n.txt".toList, [5]) :: exA) []).toBool = true ∧
    moduleB5 toyH (("notes\n.txt".toList, [5]) :: exA) [] = moduleB5 toyH exA [] := by
  refine ⟨⟨by decide, by decide⟩, by decide, by decide⟩


def exDep1 : MDigest := ⟨.b5, toyH [7]⟩
def exDep2 : MDigest := ⟨.b5, toyH [8]⟩

set_option maxRecDepth 1000000 in
-- `digest_changes` with NON-EMPTY dependency lists: same bucket, one dependency digest replaced
example : BucketOK exA ∧
    (moduleB5 toyH exA [exDep1, exDep2]).toBool = true ∧ (moduleB5 toyH exA [exDep1, exDep1]).toBool = true ∧
    NoCollision toyH (b5Inputs toyH exA [exDep1, exDep2] ++ b5Inputs toyH exA [exDep1, exDep1]) ∧
    ¬ [exDep1, exDep2].Perm [exDep1, exDep1] := by
  refine ⟨⟨by decide, by decide⟩, by decide, by decide, by unfold NoCollision; decide, ?_⟩
  intro hp
  have := hp.count_eq exDep2
  revert this; decide

def exC : Bucket := [("y.bin".toList, [7, 7]), ("README.md".toList, []), ("a.proto".toList, [1])]

set_option maxRecDepth 1000000 in
-- the hypotheses of `digest_is_function_of_module_files` hold for two DIFFERENT buckets (other
-- enumeration order, other non-module files) with the same module files
example : BucketOK exA ∧ BucketOK exC ∧ exA ≠ exC ∧ ¬ exA.Perm exC ∧
    (∀ e, e ∈ filterModule exA ↔ e ∈ filterModule exC) := by
  refine ⟨⟨by decide, by decide⟩, ⟨by decide, by decide⟩, by decide, ?_, ?_⟩
  · intro hp
    have := hp.subset (show ("x.txt".toList, [9]) ∈ exA by decide)
    revert this; decide
  · have h : ∀ e, e ∈ filterModule exA ↔ e ∈ [("a.proto".toList, ([1] : Bytes)), ("README.md".toList, [])] := by
      intro e; rw [show filterModule exA = [("a.proto".toList, [1]), ("README.md".toList, [])] by decide]
    have h2 : ∀ e, e ∈ filterModule exC ↔ e ∈ [("README.md".toList, ([] : Bytes)), ("a.proto".toList, [1])] := by
      intro e; rw [show filterModule exC = [("README.md".toList, []), ("a.proto".toList, [1])] by decide]
    intro e; rw [h, h2]; simp only [List.mem_cons, List.not_mem_nil, or_false]; exact Or.comm


def exK : Mod := { bucket := [("k.proto".toList, [1])], isLocal := true, deps := [], pinned := [] }
def exJ : Mod := { bucket := [("j.proto".toList, [2])], isLocal := true, deps := [0], pinned := [] }
def exI : Mod := { bucket := [("i.proto".toList, [3])], isLocal := true, deps := [1, 0], pinned := [] }
def exMs : List Mod := [exK, exJ, exI]
def exK2 : Bucket := [("k.proto".toList, [9])]

private theorem exMs_get (i : Nat) (m : Mod) (h : exMs[i]? = some m) :
    (i = 0 ∧ m = exK) ∨ (i = 1 ∧ m = exJ) ∨ (i = 2 ∧ m = exI) := by
  match i, h with
  | 0, h => simp [exMs] at h; exact Or.inl ⟨rfl, h.symm⟩
  | 1, h => simp [exMs] at h; exact Or.inr (Or.inl ⟨rfl, h.symm⟩)
  | 2, h => simp [exMs] at h; exact Or.inr (Or.inr ⟨rfl, h.symm⟩)
  | n + 3, h => simp [exMs] at h

set_option maxRecDepth 1000000 in
private theorem exMs_ok : SetOK exMs := by
  constructor
  · intro i m hm hl j hj
    rcases exMs_get i m hm with ⟨rfl, rfl⟩ | ⟨rfl, rfl⟩ | ⟨rfl, rfl⟩ <;> revert j <;> decide
  · intro i m hm hl j hj mj hmj hlj l hl'
    rcases exMs_get i m hm with ⟨rfl, rfl⟩ | ⟨rfl, rfl⟩ | ⟨rfl, rfl⟩ <;>
      rcases exMs_get j mj hmj with ⟨rfl, rfl⟩ | ⟨rfl, rfl⟩ | ⟨rfl, rfl⟩ <;>
      first | exact absurd hj (by decide) | (revert l; decide)
  · intro i m hm
    rcases exMs_get i m hm with ⟨rfl, rfl⟩ | ⟨rfl, rfl⟩ | ⟨rfl, rfl⟩ <;> decide
  · intro i m hm
    rcases exMs_get i m hm with ⟨rfl, rfl⟩ | ⟨rfl, rfl⟩ | ⟨rfl, rfl⟩ <;>
      exact ⟨⟨by decide, by decide⟩, by unfold NoNewline; decide⟩
  · intro i m hm
    rcases exMs_get i m hm with ⟨rfl, rfl⟩ | ⟨rfl, rfl⟩ | ⟨rfl, rfl⟩ <;> decide

set_option maxRecDepth 1000000 in
set_option maxHeartbeats 4000000 in
example : exMs[0]? = some exK ∧ exK.isLocal = true ∧ SetOK exMs ∧ BucketOK exK2 ∧
    (∃ e, ¬ (e ∈ filterModule exK.bucket ↔ e ∈ filterModule exK2)) ∧
    exMs[2]? = some exI ∧ exI.isLocal = true ∧ 0 ∈ exI.deps ∧
    NoCollision toyH ((2 :: exI.deps).flatMap (inputsAt toyH exMs) ++
      (2 :: exI.deps).flatMap (inputsAt toyH (withBucket exMs 0 exK exK2))) := by
  refine ⟨rfl, rfl, exMs_ok, ⟨by decide, by decide⟩,
    ⟨("k.proto".toList, [1]), by decide⟩, rfl, rfl, by decide, by unfold NoCollision; decide⟩

def exYaml : Option ObjectData := some ⟨"buf.yaml".toList, [1, 2]⟩

set_option maxRecDepth 1000000 in
-- the hypotheses of `b4_sensitive` are satisfiable: two different buckets with the same module
-- files and the same v1 buf.yaml have the same (successful) b4 digest, no collision among what is hashed
example : BucketOK exA ∧ BucketOK exC ∧
    NoCollision toyH (b4Inputs toyH exA exYaml none ++ b4Inputs toyH exC exYaml none) ∧
    (∃ d, moduleB4 toyH exA exYaml none = .ok d ∧ moduleB4 toyH exC exYaml none = .ok d) := by
  refine ⟨⟨by decide, by decide⟩, ⟨by decide, by decide⟩,
    by unfold NoCollision; decide, ?_⟩
  have h : moduleB4 toyH exA exYaml none = moduleB4 toyH exC exYaml none :=
    b4_is_function_of_module_files toyH exA exC exYaml none ⟨by decide, by decide⟩ ⟨by decide, by decide⟩ (by
      have h1 : ∀ e, e ∈ filterModule exA ↔ e ∈ [("a.proto".toList, ([1] : Bytes)), ("README.md".toList, [])] := by
        intro e; rw [show filterModule exA = [("a.proto".toList, [1]), ("README.md".toList, [])] by decide]
      have h2 : ∀ e, e ∈ filterModule exC ↔ e ∈ [("README.md".toList, ([] : Bytes)), ("a.proto".toList, [1])] := by
        intro e; rw [show filterModule exC = [("README.md".toList, []), ("a.proto".toList, [1])] by decide]
      intro e; rw [h1, h2]; simp only [List.mem_cons, List.not_mem_nil, or_false]; exact Or.comm)
  have hok : (moduleB4 toyH exA exYaml none).toBool = true := by decide
  cases hd : moduleB4 toyH exA exYaml none with
  | ok d => exact ⟨d, rfl, by rw [← h, hd]⟩
  | error e => rw [hd] at hok; cases hok

-- any numbering: an acyclic set numbered against the dependency direction (module 0 depends on 1,
-- 1 on 2) has the rank function `2 - i`
example : ∀ (i : Nat) (m : Mod), ([⟨[], true, [1], []⟩, ⟨[], true, [2], []⟩, ⟨[], true, [], []⟩] : List Mod)[i]? = some m →
    m.isLocal = true → ∀ j ∈ m.deps, (fun n => 2 - n) j < (fun n => 2 - n) i := by
  intro i m hm _ j hj
  match i, hm with
  | 0, hm => simp at hm; subst hm; simp at hj; subst hj; decide
  | 1, hm => simp at hm; subst hm; simp at hj; subst hj; decide
  | 2, hm => simp at hm; subst hm; simp at hj
  | n + 3, hm => simp at hm


/-! ### History independence (what Section H of the harness ties to the implementation)

"A digest is a function of (path, content) pairs and dependency digests ONLY" also excludes the
history of the process.  In the model that holds BY CONSTRUCTION: `H c`, `moduleB5 H b deps` are
plain functions, no hasher / pool / cache is threaded through them.  The theorems below state it
over histories (`BufModel.DigestHistory`): a process state `σ` of any type evolves under an
arbitrary `upd` along a list of operations — healthy digest computations and computations whose
read failed after a prefix was absorbed — and every answer equals the stateless `answer` of its
operation, whatever the prefix of the history and the initial state.

The tie to the IMPLEMENTATION is not a proof: it is Section H of `harness/cmd/c08`
(history.go), which drives `shake256.NewDigestForContent`, `bufcas.NewDigestForContent` /
`NewBlobForContent` / `NewFileSetForBucket`, `Module.Digest` (b5 remote / local / two-module
set, b4) through such histories — reads failing after k bytes around 0, 136 (sponge rate) and
32 KiB (io.Copy buffer), `(n>0, err)`, panicking readers, cancelled contexts; on one P with a
locked thread, unpinned, and concurrently — and compares every healthy answer with an
independent SHAKE256 recomputation and with a fresh process; small histories also reach the
driver as `hist` lines answered by `DigestHistory.answers`.  `Pooled` is the counter-model of
the regression that section exists for (seed C08-m6: pooled hasher, Reset on success only). -/
section History
open BufModel.DigestHistory

/-- Running a history from ANY process state under ANY state evolution gives exactly the
    stateless answers: the model's digests carry no state. -/
theorem digest_history_independent {σ : Type} (H : Bytes → Digest) (upd : σ → Op → σ) (s : σ) (ops : List Op) :
    run H upd s ops = answers H ops := by
  induction ops generalizing s with
  | nil => rfl
  | cons op rest ih => simp only [run, answers, List.map_cons, ih, answers]

/-- The answer of a step is the answer of that step alone, whatever came before it (`pre`: any
    mix of healthy and failed computations), after it, and whatever the process state was. -/
theorem healthy_step_after_any_history {σ : Type} (H : Bytes → Digest) (upd : σ → Op → σ) (s : σ)
    (pre post : List Op) (op : Op) :
    (run H upd s (pre ++ op :: post))[pre.length]? = some (answer H op) := by
  rw [digest_history_independent]
  simp [answers]

/-- Content level: after any history, the digest of content `c` is `H c`. -/
theorem content_digest_after_any_history {σ : Type} (H : Bytes → Digest) (upd : σ → Op → σ) (s : σ)
    (pre post : List Op) (c : Bytes) :
    (run H upd s (pre ++ Op.content c :: post))[pre.length]? = some (Ans.digest (H c)) :=
  healthy_step_after_any_history H upd s pre post (Op.content c)

/-- Module level: after any history (failed module digests included), `Module.Digest(b5)` of
    bucket `b` with dependency digests `deps` is `moduleB5 H b deps` — the function that
    `digest_is_function_of_module_files` / `digest_sensitive` speak about. -/
theorem moduleB5_after_any_history {σ : Type} (H : Bytes → Digest) (upd : σ → Op → σ) (s : σ)
    (pre post : List Op) (b : Bucket) (deps : List MDigest) :
    (run H upd s (pre ++ Op.b5 b deps :: post))[pre.length]? = some (Ans.mdigest (moduleB5 H b deps)) :=
  healthy_step_after_any_history H upd s pre post (Op.b5 b deps)

/-- Two processes with different pasts (different histories, states, state evolutions) answer
    the same operation identically — "the digest computed in a fresh process" of Section H is
    the instance `pre₂ = []`. -/
theorem same_answer_in_any_two_processes {σ τ : Type} (H : Bytes → Digest)
    (upd₁ : σ → Op → σ) (s₁ : σ) (upd₂ : τ → Op → τ) (s₂ : τ) (pre₁ pre₂ : List Op) (op : Op) :
    (run H upd₁ s₁ (pre₁ ++ [op]))[pre₁.length]? = (run H upd₂ s₂ (pre₂ ++ [op]))[pre₂.length]? := by
  rw [healthy_step_after_any_history, healthy_step_after_any_history]

/-- The shape HEAD has (a fresh / reset hasher at the START of every call) is history
    independent even when written as a state machine over the leftover of a reused hasher. -/
theorem pooled_reset_first_history_independent (H : Bytes → Digest) (s : Pooled.State) (ops : List Op) :
    Pooled.runResetFirst H s ops = answers H ops := by
  induction ops generalizing s with
  | nil => rfl
  | cons op rest ih =>
    cases op <;> simp only [Pooled.runResetFirst, Pooled.stepResetFirst, answers, List.map_cons, answer,
      List.nil_append, ih] <;> rfl

/-- Recorded counter-model (seed C08-m6): with a pooled hasher that is Reset on the success path
    only, a read that failed after absorbing `[1]` makes the NEXT digest `H [1, 2]` instead of
    `H [2]` — the answer depends on the history; a failure after 0 bytes leaves no trace (why the
    harness sweeps k).  Not the model of the code: the documented shape of the regression. -/
theorem pooled_history_dependent_counterexample :
    Pooled.run toyH [] [Op.contentFail [1], Op.content [2]] = [Ans.failed, Ans.digest (toyH [1, 2])] ∧
    answers toyH [Op.contentFail [1], Op.content [2]] = [Ans.failed, Ans.digest (toyH [2])] ∧
    toyH [1, 2] ≠ toyH [2] ∧
    Pooled.run toyH [] [Op.contentFail [], Op.content [2]] = [Ans.failed, Ans.digest (toyH [2])] :=
  ⟨rfl, rfl, by decide, rfl⟩

-- the hypotheses-free statements above are inhabited by a concrete mixed history
example : (run toyH (fun (n : Nat) _ => n + 1) 0
    [Op.b5Fail exA [] "a.proto".toList 1, Op.contentFail [7], Op.content [2], Op.b5 exA []])[2]? =
    some (Ans.digest (toyH [2])) :=
  healthy_step_after_any_history toyH _ 0 [Op.b5Fail exA [] "a.proto".toList 1, Op.contentFail [7]] [Op.b5 exA []] (Op.content [2])

end History

/-! ### Literalness: a path is a sequence of code points — on the wire a sequence of BYTES — and is
    stored, ordered, written into the manifest and hashed VERBATIM.

    Nothing in `BufModel.Manifest` / `BufModel.Digest` inspects a path beyond `'/'`, `'.'`, `'\n'` and
    equality with the few constant names, so no Unicode normalisation form is preferred, no case is
    folded: `U+00E9` and `e U+0301` are different paths, a module may hold both, renaming one into the
    other changes the digest, and the manifest order is the code point (= UTF-8 byte) order of the
    literal paths.  The sensitivity theorems above already quantify over arbitrary strings; the
    statements below make the literalness explicit.  (Invalid UTF-8 cannot be carried by `Str`; that
    the implementation treats such bytes just as literally is checked by the oracle of Section U of
    harness/cmd/c08 only.)  The tie to the implementation is Section U (unicode.go): independent
    SHAKE256 over the manifest built from the literal path bytes of the generator's own bookkeeping. -/
section Literal

/-- the byte string that is hashed for a concatenation is the concatenation of the byte strings -/
theorem utf8_append (a b : Str) : utf8 (a ++ b) = utf8 a ++ utf8 b := by
  unfold utf8
  rw [String.ofList_append]
  show (String.ofList a ++ String.ofList b).toByteArray.data.toList = _
  rw [String.toByteArray_append, ByteArray.data_append, Array.toList_append]
  rfl

/-- `NewFileNode` stores exactly the path (and digest) it was given: `FileNode.Path()` is literal. -/
theorem newFileNode_path_literal {p : Str} {d : Digest} {n : FileNode} (h : newFileNode p d = .ok n) :
    n.path = p ∧ n.digest = d := by
  have := (newFileNode_eq_ok h).2
  subst this
  exact ⟨rfl, rfl⟩

/-- `ParseFileNode` returns exactly the characters after the first double space: for every path
    that `NewFileNode` accepts, parsing `digest[SP][SP]path` gives back that very path. -/
theorem parseFileNode_path_literal (p : Str) (d : Digest) (h : validateNodePath p = .ok ()) :
    parseFileNode (digestString d ++ ' ' :: ' ' :: p) = .ok ⟨p, d⟩ :=
  parseFileNode_fileNodeString ⟨p, d⟩ h

/-- two file nodes with different paths have different texts (whatever the relation between the
    two spellings) -/
theorem fileNodeString_path_injective (p₁ p₂ : Str) (d : Digest)
    (h : fileNodeString ⟨p₁, d⟩ = fileNodeString ⟨p₂, d⟩) : p₁ = p₂ := by
  unfold fileNodeString at h
  have := List.append_cancel_left h
  simpa using this

/-- The path of every node appears VERBATIM in the manifest text, between the two spaces after its
    digest and the line feed — as characters and, in what is hashed, as its own UTF-8 bytes. -/
theorem manifestString_path_literal (m : Manifest) (n : FileNode) (hn : n ∈ m) :
    ∃ pre post : Str,
      manifestString m = pre ++ (digestString n.digest ++ ' ' :: ' ' :: n.path) ++ '\n' :: post ∧
      utf8 (manifestString m) =
        utf8 pre ++ (utf8 (digestString n.digest) ++ [0x20, 0x20] ++ utf8 n.path) ++ 0x0a :: utf8 post := by
  have bytes : ∀ pre post : Str,
      utf8 (pre ++ (digestString n.digest ++ ' ' :: ' ' :: n.path) ++ '\n' :: post) =
        utf8 pre ++ (utf8 (digestString n.digest) ++ [0x20, 0x20] ++ utf8 n.path) ++ 0x0a :: utf8 post := by
    intro pre post
    have e1 : (' ' :: ' ' :: n.path) = [' ', ' '] ++ n.path := rfl
    have e2 : ('\n' :: post) = ['\n'] ++ post := rfl
    have b1 : utf8 [' ', ' '] = [0x20, 0x20] := by decide
    have b2 : utf8 ['\n'] = [0x0a] := by decide
    rw [e1, e2, utf8_append, utf8_append, utf8_append, utf8_append, utf8_append, b1, b2]
    simp only [List.append_assoc, List.cons_append, List.nil_append]
  induction m with
  | nil => cases hn
  | cons k ks ih =>
    rcases List.mem_cons.mp hn with rfl | hk
    · refine ⟨[], manifestString ks, ?_, ?_⟩
      · simp [manifestString, fileNodeString]
      · have := bytes [] (manifestString ks)
        simpa [manifestString, fileNodeString] using this
    · obtain ⟨pre, post, hs, _⟩ := ih hk
      refine ⟨fileNodeString k ++ '\n' :: pre, post, ?_, ?_⟩
      · show fileNodeString k ++ '\n' :: manifestString ks = _
        rw [hs]; simp only [List.append_assoc, List.cons_append]
      · have := bytes (fileNodeString k ++ '\n' :: pre) post
        rw [← this]
        show utf8 (fileNodeString k ++ '\n' :: manifestString ks) = _
        rw [hs]; simp only [List.append_assoc, List.cons_append]

/-- The manifest order is the order of the LITERAL paths (`List Char` order = code point order =
    UTF-8 byte order): no folded / normalised key is involved. -/
theorem manifest_order_literal {nodes : List FileNode} {m : Manifest} (h : newManifest nodes = .ok m) :
    m.Pairwise (fun a b => a.path ≤ b.path) ∧ m.Perm nodes := by
  have hm := (newManifest_eq_ok h).2
  subst hm
  refine ⟨?_, sortBy_perm pathLe nodes⟩
  exact (sortBy_pairwise pathLe pathLe_total pathLe_trans nodes).imp
    (fun hab => of_decide_eq_true hab)

/-- DISTINCT SPELLINGS, DISTINCT MANIFESTS.  If some path of the first node set does not occur —
    as the same sequence of code points — among the paths of the second, the two manifest texts
    differ; canonically equivalent, compatibility equivalent or case-folded spellings are simply
    different paths. -/
theorem distinct_spellings_distinct_manifests (n₁ n₂ : List FileNode) (h1 : WF n₁) (h2 : WF n₂)
    (m₁ m₂ : Manifest) (e1 : newManifest n₁ = .ok m₁) (e2 : newManifest n₂ = .ok m₂)
    (n : FileNode) (hn : n ∈ n₁) (hp : ∀ k ∈ n₂, k.path ≠ n.path) :
    manifestString m₁ ≠ manifestString m₂ := by
  intro h
  have hperm := (manifestString_injective n₁ n₂ h1 h2 m₁ m₂ e1 e2 h).2
  exact hp n (hperm.subset hn) rfl

/-- ANOTHER SPELLING IS ANOTHER DIGEST (corollary of `digest_changes`).  `b₁` has a module file at
    path `p`; `b₂` has no file spelled `p` (it may have one spelled in any other normalisation form
    of the same text, with the same content): the two digests differ, H not colliding on the inputs
    compared. -/
theorem spelling_changes_digest (H : Bytes → Digest) (b₁ b₂ : Bucket) (d₁ d₂ : List MDigest)
    (h1 : BucketOK b₁) (h2 : BucketOK b₂)
    (hH : NoCollision H (b5Inputs H b₁ d₁ ++ b5Inputs H b₂ d₂))
    (g₁ g₂ : MDigest) (e1 : moduleB5 H b₁ d₁ = .ok g₁) (e2 : moduleB5 H b₂ d₂ = .ok g₂)
    (p : Str) (c : Bytes) (hin : (p, c) ∈ filterModule b₁) (hout : ∀ e ∈ b₂, e.1 ≠ p) :
    g₁ ≠ g₂ :=
  digest_changes H b₁ b₂ d₁ d₂ h1 h2 hH g₁ g₂ e1 e2
    (Or.inl ⟨(p, c), fun h => hout _ (List.mem_filter.mp (h.mp hin)).1 rfl⟩)

/-- U+00E9 (NFC) and e U+0301 (NFD): the same text for a reader, two paths for buf -/
def eNFC : Str := [Char.ofNat 0xe9]
def eNFD : Str := ['e', Char.ofNat 0x301]
def exNFC : Bucket := [(eNFC ++ ".proto".toList, [1]), ("b.proto".toList, [2])]
def exNFD : Bucket := [(eNFD ++ ".proto".toList, [1]), ("b.proto".toList, [2])]
def exBoth : Bucket := [(eNFC ++ ".proto".toList, [1]), (eNFD ++ ".proto".toList, [1])]

-- different code points, different bytes in what is hashed
example : eNFC ≠ eNFD ∧ utf8 eNFC = [0xc3, 0xa9] ∧ utf8 eNFD = [0x65, 0xcc, 0x81] := by decide

set_option maxRecDepth 1000000 in
-- the hypotheses of `spelling_changes_digest` hold for the module renamed from the NFC to the NFD
-- spelling (same content): the digest changes
example : BucketOK exNFC ∧ BucketOK exNFD ∧
    NoCollision toyH (b5Inputs toyH exNFC [] ++ b5Inputs toyH exNFD []) ∧
    (moduleB5 toyH exNFC []).toBool = true ∧ (moduleB5 toyH exNFD []).toBool = true ∧
    (eNFC ++ ".proto".toList, [1]) ∈ filterModule exNFC ∧ (∀ e ∈ exNFD, e.1 ≠ eNFC ++ ".proto".toList) ∧
    moduleB5 toyH exNFC [] ≠ moduleB5 toyH exNFD [] := by
  refine ⟨⟨by decide, by decide⟩, ⟨by decide, by decide⟩, by unfold NoCollision; decide,
    by decide, by decide, by decide, by decide, by decide⟩

set_option maxRecDepth 1000000 in
-- a module holding BOTH spellings is a valid module with two module files (no duplicate path), and its
-- manifest lists them in byte order: `e U+0301` (65 CC 81) before `U+00E9` (C3 A9)
example : BucketOK exBoth ∧ (moduleB5 toyH exBoth []).toBool = true ∧
    (filterModule exBoth).length = 2 ∧
    (sortBy pathLe [⟨eNFC ++ ".proto".toList, zeroDigest⟩, ⟨eNFD ++ ".proto".toList, zeroDigest⟩]).map (·.path)
      = [eNFD ++ ".proto".toList, eNFC ++ ".proto".toList] := by
  refine ⟨⟨by decide, by decide⟩, by decide, by decide, by decide⟩

set_option maxRecDepth 1000000 in
-- the order is that of the literal paths, NOT that of their NFC forms: `e U+0301 x` < `f` < `U+00E9`
-- (sorting by NFC-folded paths would give f, é, éx)
example : (sortBy pathLe [⟨[Char.ofNat 0xe9], zeroDigest⟩, ⟨['f'], zeroDigest⟩, ⟨eNFD ++ ['x'], zeroDigest⟩]).map (·.path)
    = [eNFD ++ ['x'], ['f'], [Char.ofNat 0xe9]] := by decide

end Literal

end BufProofs.C08
