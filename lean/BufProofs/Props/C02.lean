import BufModel.Parallel
import BufProofs.Lemmas.ParallelLemmas
import BufProofs.Props.C14
import BufProofs.Props.C15
import BufProofs.Props.C01
import BufProofs.Props.C08
import BufProofs.Props.C20
import BufProofs.Lemmas.OrderClauseLemmas
/-
  C02 — Outputs are deterministic and independent of scheduling and enumeration order.

  The logic part of the property is a family of permutation-invariance theorems: wherever the
  code fans work out or enumerates a map/bucket, the observable result is a function of the
  *set* of inputs, not of the order the runtime produced them in.  This file states the
  scheduler-level theorems and gathers the order-independence theorems proved with the other
  properties' models.  Real goroutine schedules are explored, not proved (DESIGN.md §8).
-/
namespace BufProofs.C02
open BufModel.Parallel

/-- parallelize_schedule_irrelevant (verdict): whether thread.Parallelize returns an error
    depends only on whether some job fails — not on completion order, not on when a
    cancellation becomes visible to the dispatch loop, with or without cancel-on-failure. -/
theorem parallelize_verdict_schedule_irrelevant (cancel : Bool) (jobs : List JobSlot) :
    verdict cancel jobs = jobs.any (·.fails) :=
  verdictGo_false cancel jobs

theorem any_fails_zip (fails : List Bool) : ∀ (sees : List Bool), sees.length = fails.length →
    (((fails.zip sees).map fun p => (⟨p.1, p.2⟩ : JobSlot)).any (·.fails)) = fails.any id := by
  induction fails with
  | nil => intro sees _; simp
  | cons f rest ih =>
    intro sees h
    cases sees with
    | nil => simp at h
    | cons s srest =>
      simp only [List.zip_cons_cons, List.map_cons, List.any_cons, id]
      rw [ih srest (by simpa using h)]

theorem parallelize_verdict_same_for_all_schedules (c₁ c₂ : Bool) (fails : List Bool) (sees₁ sees₂ : List Bool)
    (h₁ : sees₁.length = fails.length) (h₂ : sees₂.length = fails.length) :
    verdict c₁ ((fails.zip sees₁).map fun p => ⟨p.1, p.2⟩) =
      verdict c₂ ((fails.zip sees₂).map fun p => ⟨p.1, p.2⟩) := by
  rw [parallelize_verdict_schedule_irrelevant, parallelize_verdict_schedule_irrelevant]
  rw [any_fails_zip fails sees₁ h₁, any_fails_zip fails sees₂ h₂]

/-- parallelize_schedule_irrelevant (which errors, in which order): the combined error lists
    the failing jobs in JOB order; it depends on the schedule only through the SET of jobs that
    ran and the point where dispatch stopped — never on the order in which jobs completed. -/
theorem parallelize_errors_completion_order_irrelevant (fails : List Bool) (c₁ c₂ : List Nat) (stopAt : Option Nat)
    (hsame : ∀ i, i ∈ c₁ ↔ i ∈ c₂) : joinedErrors fails c₁ stopAt = joinedErrors fails c₂ stopAt := by
  unfold joinedErrors
  have : ∀ i, c₁.contains i = c₂.contains i := by
    intro i
    apply Bool.eq_iff_iff.mpr
    simp only [List.contains_iff_mem]
    exact hsame i
  simp only [this]

/-- Without cancel-on-failure every job runs, so the combined error is exactly the failing jobs
    in job order, whatever the schedule. -/
theorem parallelize_errors_without_cancel (fails : List Bool) (completed : List Nat)
    (hall : ∀ i, i < fails.length → i ∈ completed) :
    joinedErrors fails completed none =
      ((List.range fails.length).filter fun i => fails.getD i false).map .job := by
  unfold joinedErrors
  rw [← List.filterMap_eq_map, List.filterMap_filter]
  apply filterMap_congr_mem
  intro i hi
  have hlt : i < fails.length := List.mem_range.mp hi
  have hm : i ∈ completed := hall i hlt
  cases hf : fails.getD i false <;> simp [hm, hf]

/-- The recorded finding (fixed in /repo 6d16415): the old code listed the errors in
    completion order, so two schedules of the same two failing jobs gave different outputs. -/
theorem parallelize_error_order_counterexample :
    joinedErrorsOld [true, true] [0, 1] ≠ joinedErrorsOld [true, true] [1, 0] := by decide

example : joinedErrors [true, false, true] [2, 0, 1] none = [.job 0, .job 2] := by decide
example : joinedErrors [true, false, true] [0] (some 1) = [.job 0, .ctx] := by decide

/-- "collect concurrently, then sort" is canonical: any two completion orders of the same
    results give the same sorted list, provided the comparison is a total order on them
    (checkAndSortFiles sorts by path; annotation sets, module lists, directory lists and rule
    lists sort by their unique keys). -/
theorem collect_then_sort_schedule_irrelevant {α : Type} (le : α → α → Bool)
    (trans : ∀ a b c : α, le a b → le b c → le a c)
    (total : ∀ a b : α, le a b || le b a)
    (antisymm : ∀ a b : α, le a b → le b a → a = b)
    (arrived₁ arrived₂ : List α) (h : arrived₁.Perm arrived₂) :
    collectSorted le arrived₁ = collectSorted le arrived₂ :=
  sort_canonical le trans total antisymm arrived₁ arrived₂ h

/-- storage.Copy: the verdict does not depend on the order in which the copy jobs ran. -/
theorem copy_verdict_schedule_irrelevant (fx : BufModel.Faults.Facts) (s : BufModel.Faults.Sched)
    (d₁ d₂ : BufModel.Faults.Dest) (jobs₁ jobs₂ : List (BufModel.Path.Str × List BufModel.Bucket.Content))
    (hperm : jobs₁.Perm jobs₂) :
    (BufModel.Faults.copyAll fx s d₁ jobs₁).1 = (BufModel.Faults.copyAll fx s d₂ jobs₂).1 :=
  BufProofs.C15.copyAll_verdict_schedule_independent fx s d₁ d₂ jobs₁ jobs₂ hperm

/-- Buckets: two memory buckets holding the same map (whatever the insertion / enumeration
    order of the underlying storage) answer every walk with the same set of objects. -/
theorem walk_is_a_function_of_the_map (m₁ m₂ : BufModel.Bucket.Mem)
    (hv₁ : BufModel.Bucket.KeysValid m₁) (hn₁ : BufModel.Bucket.NodupKeys m₁)
    (hv₂ : BufModel.Bucket.KeysValid m₂) (hn₂ : BufModel.Bucket.NodupKeys m₂)
    (hsame : ∀ k : BufModel.Path.Key, BufModel.Path.AllProper k →
      m₁.find (BufModel.Path.renderKey k) = m₂.find (BufModel.Path.renderKey k))
    (pfx : BufModel.Path.Str) (o₁ o₂ : List (BufModel.Path.Str × BufModel.Bucket.Content))
    (h₁ : BufModel.Bucket.memWalk m₁ pfx = .ok o₁) (h₂ : BufModel.Bucket.memWalk m₂ pfx = .ok o₂) :
    ∀ (k : BufModel.Path.Key) (c : BufModel.Bucket.Content), BufModel.Path.AllProper k →
      ((BufModel.Path.renderKey k, c) ∈ o₁ ↔ (BufModel.Path.renderKey k, c) ∈ o₂) := by
  obtain ⟨kq₁, hk₁, hnv₁, _, hall₁⟩ := BufModel.Bucket.memWalk_exact m₁ hv₁ hn₁ pfx o₁ h₁
  obtain ⟨kq₂, hk₂, hnv₂, _, hall₂⟩ := BufModel.Bucket.memWalk_exact m₂ hv₂ hn₂ pfx o₂ h₂
  have hkq : kq₁ = kq₂ := by
    rw [hnv₁] at hnv₂
    exact BufModel.Path.renderKey_inj hk₁ hk₂ (by injection hnv₂)
  subst hkq
  intro k c hk
  rw [hall₁ k c hk, hall₂ k c hk, hsame k hk]

/-- Image build: the image is the same whatever order the (concurrent) compiler returned the
    compiled files in — every permutation. -/
theorem image_independent_of_compile_order (t : BufModel.Targeting.TWS) (c : BufModel.Targeting.Compiler)
    (perm : List BufModel.Path.Str → List BufModel.Path.Str) (h : ∀ l, (perm l).Perm l) :
    BufModel.Targeting.buildImage t c perm = BufModel.Targeting.buildImage t c id :=
  BufProofs.C01.sort_canonical t c perm h

/-- Module digests: any enumeration order of the storage walk gives the same digest … -/
theorem digest_independent_of_walk_order (H : BufModel.Manifest.Bytes → BufModel.Manifest.Digest)
    (b₁ b₂ : BufModel.Digest.Bucket) (deps : List BufModel.Digest.MDigest)
    (hok : BufModel.Digest.BucketOK b₁) (hperm : List.Perm b₁ b₂) :
    BufModel.Digest.moduleB5 H b₁ deps = BufModel.Digest.moduleB5 H b₂ deps :=
  BufProofs.C08.digest_walk_order H b₁ b₂ deps hok hperm

/-- … and any order in which the dependencies were listed. -/
theorem digest_independent_of_dep_order (H : BufModel.Manifest.Bytes → BufModel.Manifest.Digest)
    (b : BufModel.Digest.Bucket) (d₁ d₂ : List BufModel.Digest.MDigest) (h : d₁.Perm d₂) :
    BufModel.Digest.moduleB5 H b d₁ = BufModel.Digest.moduleB5 H b d₂ :=
  BufProofs.C08.digest_perm_deps H b d₁ d₂ h

/-- Diagnostics: the printed annotation list does not depend on the order in which rules,
    plugins or goroutines produced the annotations. -/
theorem annotations_independent_of_arrival_order (l1 l2 : List BufModel.Annot.Annot)
    (h : l1.Perm l2) (hk : BufModel.Annot.KeyDet l1) :
    BufModel.Annot.dedupSort l1 = BufModel.Annot.dedupSort l2 :=
  BufProofs.C20.dedupSort_perm l1 l2 h hk

/-- Many diagnostics, no cap (the code that exists): the printed list is a function of the SET
    of problems found — any two schedules (arrival orders) of the same problems print the same
    list … -/
theorem report_uncapped_schedule_irrelevant {α : Type} (le : α → α → Bool)
    (trans : ∀ a b c : α, le a b → le b c → le a c)
    (total : ∀ a b : α, le a b || le b a)
    (antisymm : ∀ a b : α, le a b → le b a → a = b)
    (arrived₁ arrived₂ : List α) (h : arrived₁.Perm arrived₂) :
    reportSorted le none arrived₁ = reportSorted le none arrived₂ :=
  sort_canonical le trans total antisymm arrived₁ arrived₂ h

/-- … and it is COMPLETE: every problem found is printed exactly once (the harness compares the
    number of reported diagnostics with its own bookkeeping of what it planted). -/
theorem report_uncapped_complete {α : Type} (le : α → α → Bool) (arrived : List α) :
    (reportSorted le none arrived).Perm arrived ∧ (reportSorted le none arrived).length = arrived.length :=
  ⟨List.mergeSort_perm arrived le, (List.mergeSort_perm arrived le).length_eq⟩

/-- A cap on the shared collector is invisible while the input has at most `n` problems (why no
    small workspace notices one) … -/
theorem report_capped_small_input_schedule_irrelevant {α : Type} (le : α → α → Bool)
    (trans : ∀ a b c : α, le a b → le b c → le a c)
    (total : ∀ a b : α, le a b || le b a)
    (antisymm : ∀ a b : α, le a b → le b a → a = b)
    (n : Nat) (arrived₁ arrived₂ : List α) (h : arrived₁.Perm arrived₂) (hsmall : arrived₁.length ≤ n) :
    reportSorted le (some n) arrived₁ = reportSorted le (some n) arrived₂ := by
  unfold reportSorted collectCapped
  simp only
  rw [List.take_of_length_le hsmall, List.take_of_length_le (h.length_eq ▸ hsmall)]
  exact sort_canonical le trans total antisymm arrived₁ arrived₂ h

/-- … with more than `n` problems it prints exactly `n` of them — fewer than were planted,
    whatever the schedule (the count oracle) … -/
theorem report_capped_truncates {α : Type} (le : α → α → Bool) (n : Nat) (arrived : List α)
    (hmany : n < arrived.length) :
    (reportSorted le (some n) arrived).length = n ∧ (reportSorted le (some n) arrived).length < arrived.length := by
  have hl : (reportSorted le (some n) arrived).length = n := by
    unfold reportSorted collectCapped collectSorted
    simp only
    rw [(List.mergeSort_perm _ le).length_eq, List.length_take]
    omega
  exact ⟨hl, by omega⟩

/-- … and WHICH ones depends on the schedule: two arrival orders of the same two problems. -/
theorem report_capped_counterexample :
    reportSorted (fun a b : Nat => decide (a ≤ b)) (some 1) [1, 2] ≠
      reportSorted (fun a b : Nat => decide (a ≤ b)) (some 1) [2, 1] := by
  simp [reportSorted, collectCapped, collectSorted]

/-! ### The join: the call returns only after every dispatched job has finished -/

/-- What holds in every state of the machine `prun` (any event list whatsoever). -/
structure PInv (par : Nat) (s : PSt) : Prop where
  retIdle : s.returned = true → s.running = []
  cover : ∀ i ∈ s.started, i ∈ s.running ∨ i ∈ s.finished
  bound : s.running.length ≤ par

theorem pinv_init (par : Nat) : PInv par PSt.init :=
  ⟨fun _ => rfl, fun _ h => (nomatch h), Nat.zero_le _⟩

theorem pstep_inv (par : Nat) (s : PSt) (inv : PInv par s) (e : PEv) : PInv par (pstep par s e) := by
  cases e with
  | start i =>
    simp only [pstep, pstepWith]
    split
    · exact inv
    · rename_i hc
      simp only [Bool.or_eq_true, decide_eq_true_eq, not_or, Bool.not_eq_true] at hc
      obtain ⟨⟨hret, hlen⟩, _⟩ := hc
      refine ⟨?_, ?_, ?_⟩
      · intro h; simp only at h; rw [hret] at h; cases h
      · intro j hj
        rcases List.mem_cons.mp hj with e | hj
        · left; subst e; exact List.mem_cons_self
        · rcases inv.cover j hj with h | h
          · left; exact List.mem_cons_of_mem _ h
          · right; exact h
      · simp only [List.length_cons]; omega
  | finish i =>
    simp only [pstep, pstepWith]
    split
    · rename_i hc
      refine ⟨?_, ?_, ?_⟩
      · intro h; simp only at h
        have := inv.retIdle h
        rw [this] at hc; simp at hc
      · intro j hj
        simp only at hj
        rcases inv.cover j hj with h | h
        · by_cases e : j = i
          · right; subst e; exact List.mem_cons_self
          · left; exact (List.mem_erase_of_ne e).mpr h
        · right; exact List.mem_cons_of_mem _ h
      · exact Nat.le_trans (List.erase_sublist).length_le inv.bound
    · exact inv
  | ret =>
    simp only [pstep, pstepWith]
    split
    · exact inv
    · split
      · rename_i hr
        exact ⟨fun _ => by simpa using hr, inv.cover, inv.bound⟩
      · exact inv

theorem prun_inv (par : Nat) (evs : List PEv) (s : PSt) (inv : PInv par s) : PInv par (prun par s evs) := by
  induction evs generalizing s with
  | nil => exact inv
  | cons e rest ih => exact ih _ (pstep_inv par s inv e)

/-- parallelize_waits_for_all_dispatched: whatever the schedule (ANY list of start / finish /
    return events — disabled ones are no-ops), once `thread.Parallelize` has returned no job of it is
    running, and every job that ever started has finished.  With or without cancel-on-failure, with
    or without a failing job: the code path to the return is `wg.Wait()`. -/
theorem parallelize_waits_for_all_dispatched (par : Nat) (evs : List PEv)
    (h : (prun par PSt.init evs).returned = true) :
    (prun par PSt.init evs).running = [] ∧
      ∀ i ∈ (prun par PSt.init evs).started, i ∈ (prun par PSt.init evs).finished := by
  have inv := prun_inv par evs PSt.init (pinv_init par)
  have hr := inv.retIdle h
  refine ⟨hr, fun i hi => ?_⟩
  rcases inv.cover i hi with h' | h'
  · rw [hr] at h'; cases h'
  · exact h'

/-- … and after the return nothing happens any more: no job starts, none is left to finish. -/
theorem parallelize_inert_after_return (par : Nat) (s : PSt) (hret : s.returned = true) (hrun : s.running = [])
    (e : PEv) : pstep par s e = s := by
  cases e with
  | start i => simp [pstep, pstepWith, hret]
  | finish i => simp [pstep, pstepWith, hrun]
  | ret => simp [pstep, pstepWith, hret]

theorem parallelize_nothing_after_return (par : Nat) (evs later : List PEv)
    (h : (prun par PSt.init evs).returned = true) :
    prun par PSt.init (evs ++ later) = prun par PSt.init evs := by
  have hrun := (parallelize_waits_for_all_dispatched par evs h).1
  unfold prun at *
  rw [List.foldl_append]
  generalize List.foldl (pstep par) PSt.init evs = s at h hrun
  induction later with
  | nil => rfl
  | cons e rest ih =>
    simp only [List.foldl_cons]
    rw [parallelize_inert_after_return par s h hrun e]
    exact ih

/-- "A max of Parallelism jobs will be run at once." -/
theorem parallelize_at_most_par_running (par : Nat) (evs : List PEv) :
    (prun par PSt.init evs).running.length ≤ par :=
  (prun_inv par evs PSt.init (pinv_init par)).bound

/-- The stored regression (seed C09-m8, "fail fast"): if the call may return as soon as a finished
    job has failed, it returns while job 0 is still running — and job 0's later writes happen
    after the caller (the module cache's store) has released its lock. -/
theorem parallelize_failfast_counterexample :
    let s := prunWith (some [false, true]) 2 PSt.init [.start 0, .start 1, .finish 1, .ret]
    s.returned = true ∧ s.running = [0] ∧
      (prunWith (some [false, true]) 2 s [.finish 0]).finished = [0, 1] := by decide

-- the return is reachable (the theorems above are not vacuous), and the same events under the code that exists
example : (prun 2 PSt.init [.start 0, .start 1, .finish 1, .finish 0, .ret]).returned = true := by decide
example : (prun 2 PSt.init [.start 0, .start 1, .finish 1, .ret]).returned = false := by decide
example : (prun 1 PSt.init [.start 0, .start 1]).running = [0] := by decide

/-! ## Order clauses on FILTERED images (bufimageutil `--type` / FilterImage)

  `closure.imports[file]` is a Go map: its iteration order is part of the schedule.  The harness
  family "filter" (harness/cmd/c02/filterfam.go) checks the statements below on the real code. -/
section Filtered
open BufModel.Filter BufModel.OrderClauses BufProofs.OrderClause BufProofs.FilterRewrite

/-- The rewritten dependency list of a filtered file does not depend on the order in which the
    map iteration hands over the required imports (any permutation of the closure's import edges). -/
theorem filter_dependency_list_map_order_irrelevant (st₁ st₂ : St) (f : File)
    (h : st₁.edges.Perm st₂.edges) :
    (remapDeps st₁ f).1.map (·.file) = (remapDeps st₂ f).1.map (·.file) := by
  rw [oc_remapDeps_eq, oc_remapDeps_eq,
    oc_keptDeps_perm (oc_requiredOf_perm h f) f, oc_gainedDeps_perm (oc_requiredOf_perm h f) f]

/-- … and it has the shape the harness oracle checks ("as coded"): the kept imports in their old
    relative order, followed by the imports gained through `import public` in strictly ascending
    order; the gained ones were not in the old list, and everything listed is required. -/
theorem filter_dependency_list_shape (st : St) (f : File) :
    ∃ kept gained : List Id,
      (remapDeps st f).1.map (·.file) = kept ++ gained ∧
      kept.Sublist (f.deps.map (·.file)) ∧
      gained.Pairwise (· < ·) ∧
      (∀ x ∈ gained, x ∉ f.deps.map (·.file)) ∧
      (∀ x ∈ kept ++ gained, (f.id, x) ∈ st.edges) := by
  refine ⟨keptDeps (requiredOf st f) f, gainedDeps (requiredOf st f) f, oc_remapDeps_eq st f, ?_, ?_, ?_, ?_⟩
  · exact List.filter_sublist
  · exact oc_sortNat_strict (oc_nodup_eraseDups _ _ (Nat.le_refl _))
  · intro x hx
    unfold gainedDeps at hx
    rw [mem_sortNat, List.mem_eraseDups, List.mem_filter] at hx
    simpa using hx.2
  · intro x hx
    have hreq : x ∈ requiredOf st f := by
      rcases List.mem_append.mp hx with hk | hg
      · unfold keptDeps at hk
        have := (List.mem_filter.mp hk).2
        simpa using this
      · unfold gainedDeps at hg
        rw [mem_sortNat, List.mem_eraseDups, List.mem_filter] at hg
        exact hg.1
    unfold requiredOf at hreq
    simp only [List.mem_map, List.mem_filter] at hreq
    obtain ⟨e, ⟨he, hid⟩, hx2⟩ := hreq
    have hid' : e.1 = f.id := by simpa using hid
    have : e = (f.id, x) := by cases e; simp_all
    rw [← this]; exact he

/-- The filter never reorders files: the surviving files are a SUBLIST of the source image … -/
theorem filter_keeps_file_order (cfg : Cfg) (hcfg : cfg.keepsInputWhenEmpty = false) (st : St) (noInc : Bool)
    (img : Image) (out : List OFile) (h : rewrite cfg st noInc img = .ok out) :
    (out.map (·.id)).Sublist (img.files.map (·.id)) := by
  unfold rewrite at h
  simp only [] at h
  split at h
  · cases h
  · split at h
    · rw [hcfg] at h
      simp only [Bool.false_eq_true, if_false] at h
      cases h
    · cases h
      exact (oc_filterMap_ids_sublist _ _).trans (List.filter_sublist.map _)

/-- … hence the filtered image is in dependency order whenever the closure's import edges point
    backwards in the source image (they do: the source image is topologically ordered and lists
    every transitively imported file before its importer): NO file of the result lists a LATER
    file of the result as a dependency. -/
theorem filter_order_topological (cfg : Cfg) (hcfg : cfg.keepsInputWhenEmpty = false) (st : St) (noInc : Bool)
    (img : Image) (out : List OFile) (h : rewrite cfg st noInc img = .ok out)
    (hsrc : img.files.Pairwise (fun a b => (a.id, b.id) ∉ st.edges)) :
    out.Pairwise (fun a b => b.id ∉ a.deps) := by
  unfold rewrite at h
  simp only [] at h
  split at h
  · cases h
  · split at h
    · rw [hcfg] at h
      simp only [Bool.false_eq_true, if_false] at h
      cases h
    · cases h
      refine List.Pairwise.filterMap _ ?_ (hsrc.sublist List.filter_sublist)
      intro a a' hR b hb b' hb'
      obtain ⟨hid, hdeps⟩ := remapFile_deps _ a b hb
      obtain ⟨hid', _⟩ := remapFile_deps _ a' b' hb'
      intro hm
      rw [hdeps] at hm
      obtain ⟨k, g, hkg, _, _, _, hall⟩ := filter_dependency_list_shape st a
      rw [hkg] at hm
      have := hall _ hm
      rw [hid'] at this
      exact hR this

/-- The regression of seed C02-m7 (the gained imports appended in map iteration order): two
    iteration orders of the same two import edges give different dependency lists. -/
theorem filter_dependency_arrival_order_counterexample :
    remapDepsArrival { edges := [(0, 2), (0, 1)] } ⟨0, 0, false, [⟨3, false⟩], [], [], [], [], [], [], []⟩ ≠
      remapDepsArrival { edges := [(0, 1), (0, 2)] } ⟨0, 0, false, [⟨3, false⟩], [], [], [], [], [], [], []⟩ := by
  decide

example : (remapDeps { edges := [(0, 2), (0, 1), (0, 3)] } ⟨0, 0, false, [⟨3, true⟩, ⟨4, false⟩], [], [], [], [], [], [], []⟩).1.map (·.file)
    = [3, 1, 2] := by decide
example : (remapDeps { edges := [(0, 1), (0, 3), (0, 2)] } ⟨0, 0, false, [⟨3, true⟩, ⟨4, false⟩], [], [], [], [], [], [], []⟩).1.map (·.file)
    = [3, 1, 2] :=
  (filter_dependency_list_map_order_irrelevant _ { edges := [(0, 2), (0, 1), (0, 3)] } _ (by decide)).trans (by decide)

end Filtered

/-! ## Overlapping `--path` / `--exclude-path` arguments

  `moduleReadBucket.WalkFileInfos` walks the target paths one after the other with a per-file
  seen-set (`BufModel.Targeting.moduleTargetFiles`).  The harness family "overlap"
  (harness/cmd/c02/overlap.go) checks the statements below on the real code. -/
section Overlap
open BufModel.Path BufModel.Graph BufModel.Targeting BufModel.OrderClauses BufProofs.OrderClause

/-- No file twice, however the target paths overlap and in whatever order they were listed. -/
theorem target_walk_no_file_twice (t : TWS) (m : Nat) (hnd : ((modFiles t.ws m).map (·.path)).Nodup) :
    ((moduleTargetFiles t m).1.map (·.path)).Nodup :=
  moduleTargetFiles_nodup hnd

/-- The target files of a module are a function of the SETS of `--path` and `--exclude-path`
    values: permuting either list permutes the walk at most, and the sorted target list (what
    ls-files prints and the compiler is given) is the same. -/
theorem target_walk_path_order_irrelevant (ws : WS) (cfgs₁ cfgs₂ : List TCfg) (m : Nat)
    (hnd : ((modFiles ws m).map (·.path)).Nodup)
    (hpf₁ : (cfgOf ⟨ws, cfgs₁⟩ m).protoFile = []) (hpf₂ : (cfgOf ⟨ws, cfgs₂⟩ m).protoFile = [])
    (hp : (cfgOf ⟨ws, cfgs₁⟩ m).paths.Perm (cfgOf ⟨ws, cfgs₂⟩ m).paths)
    (he : (cfgOf ⟨ws, cfgs₁⟩ m).excludes.Perm (cfgOf ⟨ws, cfgs₂⟩ m).excludes) :
    (moduleTargetFiles ⟨ws, cfgs₁⟩ m).1.Perm (moduleTargetFiles ⟨ws, cfgs₂⟩ m).1 ∧
      sortPaths ((moduleTargetFiles ⟨ws, cfgs₁⟩ m).1.map (·.path)) =
        sortPaths ((moduleTargetFiles ⟨ws, cfgs₂⟩ m).1.map (·.path)) := by
  have wf₁ : WfCfg (cfgOf ⟨ws, cfgs₁⟩ m) := fun hne => absurd hpf₁ hne
  have wf₂ : WfCfg (cfgOf ⟨ws, cfgs₂⟩ m) := fun hne => absurd hpf₂ hne
  have htgt : ∀ f, isTargetIn ⟨ws, cfgs₁⟩ m f = isTargetIn ⟨ws, cfgs₂⟩ m f := by
    intro f
    apply Bool.eq_iff_iff.mpr
    unfold isTargetIn
    rw [isTargetFile_paths_iff _ _ _ _ hpf₁, isTargetFile_paths_iff _ _ _ _ hpf₂]
    have hnil : (cfgOf ⟨ws, cfgs₁⟩ m).paths = [] ↔ (cfgOf ⟨ws, cfgs₂⟩ m).paths = [] :=
      ⟨fun h => List.Perm.eq_nil (h ▸ hp.symm), fun h => List.Perm.eq_nil (h ▸ hp)⟩
    have hex : (∃ q ∈ (cfgOf ⟨ws, cfgs₁⟩ m).paths, equalsOrContainsPath q f.path = true) ↔
        (∃ q ∈ (cfgOf ⟨ws, cfgs₂⟩ m).paths, equalsOrContainsPath q f.path = true) :=
      ⟨fun ⟨q, hq, h⟩ => ⟨q, hp.mem_iff.mp hq, h⟩, fun ⟨q, hq, h⟩ => ⟨q, hp.mem_iff.mpr hq, h⟩⟩
    have hall : (∀ q ∈ (cfgOf ⟨ws, cfgs₁⟩ m).excludes, equalsOrContainsPath q f.path = false) ↔
        (∀ q ∈ (cfgOf ⟨ws, cfgs₂⟩ m).excludes, equalsOrContainsPath q f.path = false) :=
      ⟨fun h q hq => h q (he.mem_iff.mpr hq), fun h q hq => h q (he.mem_iff.mp hq)⟩
    show (modIsTarget ⟨ws, cfgs₁⟩ m = true ∧ _ ∧ _) ↔ (modIsTarget ⟨ws, cfgs₂⟩ m = true ∧ _ ∧ _)
    rw [hnil, hex, hall]
    rfl
  have hmem : ∀ f, f ∈ (moduleTargetFiles ⟨ws, cfgs₁⟩ m).1 ↔ f ∈ (moduleTargetFiles ⟨ws, cfgs₂⟩ m).1 := by
    intro f
    rw [mem_moduleTargetFiles wf₁, mem_moduleTargetFiles wf₂, htgt f]
  have n₁ := moduleTargetFiles_nodup (t := ⟨ws, cfgs₁⟩) (m := m) hnd
  have n₂ := moduleTargetFiles_nodup (t := ⟨ws, cfgs₂⟩) (m := m) hnd
  refine ⟨(List.perm_ext_iff_of_nodup (oc_nodup_of_map _ n₁) (oc_nodup_of_map _ n₂)).mpr hmem, ?_⟩
  apply sortPaths_eq_of_mem_iff n₁ n₂
  intro p
  simp only [List.mem_map]
  exact ⟨fun ⟨f, hf, e⟩ => ⟨f, (hmem f).mp hf, e⟩, fun ⟨f, hf, e⟩ => ⟨f, (hmem f).mpr hf, e⟩⟩

/-- An overlapping list equals its covering paths alone: a `--path p` that lies inside another
    listed `--path q` adds nothing (paths and file paths normalised and validated, as the CLI
    and the buckets guarantee). -/
theorem target_walk_overlap_equals_cover (ws : WS) (cfgs₁ cfgs₂ : List TCfg) (m : Nat) (p q : Str)
    (hpf₁ : (cfgOf ⟨ws, cfgs₁⟩ m).protoFile = []) (hpf₂ : (cfgOf ⟨ws, cfgs₂⟩ m).protoFile = [])
    (hp : (cfgOf ⟨ws, cfgs₁⟩ m).paths = p :: (cfgOf ⟨ws, cfgs₂⟩ m).paths)
    (hq : q ∈ (cfgOf ⟨ws, cfgs₂⟩ m).paths) (hqp : equalsOrContainsPath q p = true)
    (he : (cfgOf ⟨ws, cfgs₁⟩ m).excludes = (cfgOf ⟨ws, cfgs₂⟩ m).excludes)
    (kp : OcKey p) (kq : OcKey q) (kf : ∀ f ∈ modFiles ws m, OcKey f.path) (f : PFile) :
    f ∈ (moduleTargetFiles ⟨ws, cfgs₁⟩ m).1 ↔ f ∈ (moduleTargetFiles ⟨ws, cfgs₂⟩ m).1 := by
  have wf₁ : WfCfg (cfgOf ⟨ws, cfgs₁⟩ m) := fun hne => absurd hpf₁ hne
  have wf₂ : WfCfg (cfgOf ⟨ws, cfgs₂⟩ m) := fun hne => absurd hpf₂ hne
  rw [mem_moduleTargetFiles wf₁, mem_moduleTargetFiles wf₂]
  show (f ∈ modFiles ws m ∧ _) ↔ (f ∈ modFiles ws m ∧ _)
  refine and_congr_right fun hf => ?_
  unfold isTargetIn
  rw [isTargetFile_paths_iff _ _ _ _ hpf₁, isTargetFile_paths_iff _ _ _ _ hpf₂, hp, he]
  have hne₂ : (cfgOf ⟨ws, cfgs₂⟩ m).paths ≠ [] := List.ne_nil_of_mem hq
  show (modIsTarget ⟨ws, cfgs₁⟩ m = true ∧ _ ∧ _) ↔ (modIsTarget ⟨ws, cfgs₂⟩ m = true ∧ _ ∧ _)
  refine and_congr Iff.rfl (and_congr ?_ Iff.rfl)
  constructor
  · rintro (h | ⟨r, hr, hrf⟩)
    · cases h
    · right
      rcases List.mem_cons.mp hr with rfl | hr
      · exact ⟨q, hq, oc_ecp_trans kq kp (kf f hf) hqp hrf⟩
      · exact ⟨r, hr, hrf⟩
  · rintro (h | ⟨r, hr, hrf⟩)
    · exact absurd h hne₂
    · exact Or.inr ⟨r, List.mem_cons_of_mem _ hr, hrf⟩

/-- The regression of seed C02-m8 ("skip a target path covered by an already walked one" without
    the per-file seen-set): with the sub-path listed FIRST the parent is walked in full and the
    files of the sub-path are reported twice; parent first is fine. -/
theorem target_walk_skip_covered_counterexample :
    let files : List PFile := [⟨"a/b/y.proto".toList, [], []⟩, ⟨"a/x.proto".toList, [], []⟩]
    (walkSkipCovered files ["a".toList, "a/b".toList] []).map (·.path) = ["a/b/y.proto".toList, "a/x.proto".toList] ∧
    (walkSkipCovered files ["a/b".toList, "a".toList] []).map (·.path) =
      ["a/b/y.proto".toList, "a/b/y.proto".toList, "a/x.proto".toList] := by
  decide

example : ((moduleTargetFiles ⟨⟨[⟨[⟨"a/b/y.proto".toList, [], []⟩, ⟨"a/x.proto".toList, [], []⟩], true, true, none, 0⟩], []⟩,
    [⟨["a/b".toList, "a".toList], [], [], false⟩]⟩ 0).1.map (·.path)) = ["a/b/y.proto".toList, "a/x.proto".toList] := by decide

end Overlap

-- non-vacuity
example : verdict true [⟨false, false⟩, ⟨true, false⟩, ⟨false, true⟩] = true := by decide
example (l₁ l₂ : List Nat) (h : l₁.Perm l₂) :
    collectSorted (fun a b => decide (a ≤ b)) l₁ = collectSorted (fun a b => decide (a ≤ b)) l₂ :=
  collect_then_sort_schedule_irrelevant _ (by intro a b c; simp; omega) (by intro a b; simp; omega)
    (by intro a b; simp; omega) l₁ l₂ h
example (l₁ l₂ : List Nat) (h : l₁.Perm l₂) :
    reportSorted (fun a b => decide (a ≤ b)) none l₁ = reportSorted (fun a b => decide (a ≤ b)) none l₂ :=
  report_uncapped_schedule_irrelevant _ (by intro a b c; simp; omega) (by intro a b; simp; omega)
    (by intro a b; simp; omega) l₁ l₂ h
example : (reportSorted (fun a b : Nat => decide (a ≤ b)) (some 2) [3, 1, 2]).length = 2 :=
  (report_capped_truncates _ 2 [3, 1, 2] (by decide)).1

end BufProofs.C02
