import BufModel.Parallel
import BufProofs.Lemmas.ParallelLemmas
import BufProofs.Props.C14
import BufProofs.Props.C15
import BufProofs.Props.C01
import BufProofs.Props.C08
import BufProofs.Props.C20
/-
  C02 — Outputs are deterministic and independent of scheduling and enumeration order.

  The logic part of the property is a family of permutation-invariance theorems: wherever the
  code fans work out or enumerates a map/bucket, the observable result is a function of the
  *set* of inputs, not of the order the runtime produced them in.  This file states the
  scheduler-level theorems and gathers the order-independence theorems proved with the other
  properties' models.  Real goroutine schedules are explored, not proved (DESIGN.md §8).
-/
namespace BufProofs.C02
open BufModel.Parallel

/-- parallelize_schedule_irrelevant (verdict): whether thread.Parallelize returns an error
    depends only on whether some job fails — not on completion order, not on when a
    cancellation becomes visible to the dispatch loop, with or without cancel-on-failure. -/
theorem parallelize_verdict_schedule_irrelevant (cancel : Bool) (jobs : List JobSlot) :
    verdict cancel jobs = jobs.any (·.fails) :=
  verdictGo_false cancel jobs

theorem any_fails_zip (fails : List Bool) : ∀ (sees : List Bool), sees.length = fails.length →
    (((fails.zip sees).map fun p => (⟨p.1, p.2⟩ : JobSlot)).any (·.fails)) = fails.any id := by
  induction fails with
  | nil => intro sees _; simp
  | cons f rest ih =>
    intro sees h
    cases sees with
    | nil => simp at h
    | cons s srest =>
      simp only [List.zip_cons_cons, List.map_cons, List.any_cons, id]
      rw [ih srest (by simpa using h)]

theorem parallelize_verdict_same_for_all_schedules (c₁ c₂ : Bool) (fails : List Bool) (sees₁ sees₂ : List Bool)
    (h₁ : sees₁.length = fails.length) (h₂ : sees₂.length = fails.length) :
    verdict c₁ ((fails.zip sees₁).map fun p => ⟨p.1, p.2⟩) =
      verdict c₂ ((fails.zip sees₂).map fun p => ⟨p.1, p.2⟩) := by
  rw [parallelize_verdict_schedule_irrelevant, parallelize_verdict_schedule_irrelevant]
  rw [any_fails_zip fails sees₁ h₁, any_fails_zip fails sees₂ h₂]

/-- parallelize_schedule_irrelevant (which errors, in which order): the combined error lists
    the failing jobs in JOB order; it depends on the schedule only through the SET of jobs that
    ran and the point where dispatch stopped — never on the order in which jobs completed. -/
theorem parallelize_errors_completion_order_irrelevant (fails : List Bool) (c₁ c₂ : List Nat) (stopAt : Option Nat)
    (hsame : ∀ i, i ∈ c₁ ↔ i ∈ c₂) : joinedErrors fails c₁ stopAt = joinedErrors fails c₂ stopAt := by
  unfold joinedErrors
  have : ∀ i, c₁.contains i = c₂.contains i := by
    intro i
    apply Bool.eq_iff_iff.mpr
    simp only [List.contains_iff_mem]
    exact hsame i
  simp only [this]

/-- Without cancel-on-failure every job runs, so the combined error is exactly the failing jobs
    in job order, whatever the schedule. -/
theorem parallelize_errors_without_cancel (fails : List Bool) (completed : List Nat)
    (hall : ∀ i, i < fails.length → i ∈ completed) :
    joinedErrors fails completed none =
      ((List.range fails.length).filter fun i => fails.getD i false).map .job := by
  unfold joinedErrors
  rw [← List.filterMap_eq_map, List.filterMap_filter]
  apply filterMap_congr_mem
  intro i hi
  have hlt : i < fails.length := List.mem_range.mp hi
  have hm : i ∈ completed := hall i hlt
  cases hf : fails.getD i false <;> simp [hm, hf]

/-- The recorded finding (fixed in /repo 6d16415): the old code listed the errors in
    completion order, so two schedules of the same two failing jobs gave different outputs. -/
theorem parallelize_error_order_counterexample :
    joinedErrorsOld [true, true] [0, 1] ≠ joinedErrorsOld [true, true] [1, 0] := by decide

example : joinedErrors [true, false, true] [2, 0, 1] none = [.job 0, .job 2] := by decide
example : joinedErrors [true, false, true] [0] (some 1) = [.job 0, .ctx] := by decide

/-- "collect concurrently, then sort" is canonical: any two completion orders of the same
    results give the same sorted list, provided the comparison is a total order on them
    (checkAndSortFiles sorts by path; annotation sets, module lists, directory lists and rule
    lists sort by their unique keys). -/
theorem collect_then_sort_schedule_irrelevant {α : Type} (le : α → α → Bool)
    (trans : ∀ a b c : α, le a b → le b c → le a c)
    (total : ∀ a b : α, le a b || le b a)
    (antisymm : ∀ a b : α, le a b → le b a → a = b)
    (arrived₁ arrived₂ : List α) (h : arrived₁.Perm arrived₂) :
    collectSorted le arrived₁ = collectSorted le arrived₂ :=
  sort_canonical le trans total antisymm arrived₁ arrived₂ h

/-- storage.Copy: the verdict does not depend on the order in which the copy jobs ran. -/
theorem copy_verdict_schedule_irrelevant (fx : BufModel.Faults.Facts) (s : BufModel.Faults.Sched)
    (d₁ d₂ : BufModel.Faults.Dest) (jobs₁ jobs₂ : List (BufModel.Path.Str × List BufModel.Bucket.Content))
    (hperm : jobs₁.Perm jobs₂) :
    (BufModel.Faults.copyAll fx s d₁ jobs₁).1 = (BufModel.Faults.copyAll fx s d₂ jobs₂).1 :=
  BufProofs.C15.copyAll_verdict_schedule_independent fx s d₁ d₂ jobs₁ jobs₂ hperm

/-- Buckets: two memory buckets holding the same map (whatever the insertion / enumeration
    order of the underlying storage) answer every walk with the same set of objects. -/
theorem walk_is_a_function_of_the_map (m₁ m₂ : BufModel.Bucket.Mem)
    (hv₁ : BufModel.Bucket.KeysValid m₁) (hn₁ : BufModel.Bucket.NodupKeys m₁)
    (hv₂ : BufModel.Bucket.KeysValid m₂) (hn₂ : BufModel.Bucket.NodupKeys m₂)
    (hsame : ∀ k : BufModel.Path.Key, BufModel.Path.AllProper k →
      m₁.find (BufModel.Path.renderKey k) = m₂.find (BufModel.Path.renderKey k))
    (pfx : BufModel.Path.Str) (o₁ o₂ : List (BufModel.Path.Str × BufModel.Bucket.Content))
    (h₁ : BufModel.Bucket.memWalk m₁ pfx = .ok o₁) (h₂ : BufModel.Bucket.memWalk m₂ pfx = .ok o₂) :
    ∀ (k : BufModel.Path.Key) (c : BufModel.Bucket.Content), BufModel.Path.AllProper k →
      ((BufModel.Path.renderKey k, c) ∈ o₁ ↔ (BufModel.Path.renderKey k, c) ∈ o₂) := by
  obtain ⟨kq₁, hk₁, hnv₁, _, hall₁⟩ := BufModel.Bucket.memWalk_exact m₁ hv₁ hn₁ pfx o₁ h₁
  obtain ⟨kq₂, hk₂, hnv₂, _, hall₂⟩ := BufModel.Bucket.memWalk_exact m₂ hv₂ hn₂ pfx o₂ h₂
  have hkq : kq₁ = kq₂ := by
    rw [hnv₁] at hnv₂
    exact BufModel.Path.renderKey_inj hk₁ hk₂ (by injection hnv₂)
  subst hkq
  intro k c hk
  rw [hall₁ k c hk, hall₂ k c hk, hsame k hk]

/-- Image build: the image is the same whatever order the (concurrent) compiler returned the
    compiled files in — every permutation. -/
theorem image_independent_of_compile_order (t : BufModel.Targeting.TWS) (c : BufModel.Targeting.Compiler)
    (perm : List BufModel.Path.Str → List BufModel.Path.Str) (h : ∀ l, (perm l).Perm l) :
    BufModel.Targeting.buildImage t c perm = BufModel.Targeting.buildImage t c id :=
  BufProofs.C01.sort_canonical t c perm h

/-- Module digests: any enumeration order of the storage walk gives the same digest … -/
theorem digest_independent_of_walk_order (H : BufModel.Manifest.Bytes → BufModel.Manifest.Digest)
    (b₁ b₂ : BufModel.Digest.Bucket) (deps : List BufModel.Digest.MDigest)
    (hok : BufModel.Digest.BucketOK b₁) (hperm : List.Perm b₁ b₂) :
    BufModel.Digest.moduleB5 H b₁ deps = BufModel.Digest.moduleB5 H b₂ deps :=
  BufProofs.C08.digest_walk_order H b₁ b₂ deps hok hperm

/-- … and any order in which the dependencies were listed. -/
theorem digest_independent_of_dep_order (H : BufModel.Manifest.Bytes → BufModel.Manifest.Digest)
    (b : BufModel.Digest.Bucket) (d₁ d₂ : List BufModel.Digest.MDigest) (h : d₁.Perm d₂) :
    BufModel.Digest.moduleB5 H b d₁ = BufModel.Digest.moduleB5 H b d₂ :=
  BufProofs.C08.digest_perm_deps H b d₁ d₂ h

/-- Diagnostics: the printed annotation list does not depend on the order in which rules,
    plugins or goroutines produced the annotations. -/
theorem annotations_independent_of_arrival_order (l1 l2 : List BufModel.Annot.Annot)
    (h : l1.Perm l2) (hk : BufModel.Annot.KeyDet l1) :
    BufModel.Annot.dedupSort l1 = BufModel.Annot.dedupSort l2 :=
  BufProofs.C20.dedupSort_perm l1 l2 h hk

/-- Many diagnostics, no cap (the code that exists): the printed list is a function of the SET
    of problems found — any two schedules (arrival orders) of the same problems print the same
    list … -/
theorem report_uncapped_schedule_irrelevant {α : Type} (le : α → α → Bool)
    (trans : ∀ a b c : α, le a b → le b c → le a c)
    (total : ∀ a b : α, le a b || le b a)
    (antisymm : ∀ a b : α, le a b → le b a → a = b)
    (arrived₁ arrived₂ : List α) (h : arrived₁.Perm arrived₂) :
    reportSorted le none arrived₁ = reportSorted le none arrived₂ :=
  sort_canonical le trans total antisymm arrived₁ arrived₂ h

/-- … and it is COMPLETE: every problem found is printed exactly once (the harness compares the
    number of reported diagnostics with its own bookkeeping of what it planted). -/
theorem report_uncapped_complete {α : Type} (le : α → α → Bool) (arrived : List α) :
    (reportSorted le none arrived).Perm arrived ∧ (reportSorted le none arrived).length = arrived.length :=
  ⟨List.mergeSort_perm arrived le, (List.mergeSort_perm arrived le).length_eq⟩

/-- A cap on the shared collector is invisible while the input has at most `n` problems (why no
    small workspace notices one) … -/
theorem report_capped_small_input_schedule_irrelevant {α : Type} (le : α → α → Bool)
    (trans : ∀ a b c : α, le a b → le b c → le a c)
    (total : ∀ a b : α, le a b || le b a)
    (antisymm : ∀ a b : α, le a b → le b a → a = b)
    (n : Nat) (arrived₁ arrived₂ : List α) (h : arrived₁.Perm arrived₂) (hsmall : arrived₁.length ≤ n) :
    reportSorted le (some n) arrived₁ = reportSorted le (some n) arrived₂ := by
  unfold reportSorted collectCapped
  simp only
  rw [List.take_of_length_le hsmall, List.take_of_length_le (h.length_eq ▸ hsmall)]
  exact sort_canonical le trans total antisymm arrived₁ arrived₂ h

/-- … with more than `n` problems it prints exactly `n` of them — fewer than were planted,
    whatever the schedule (the count oracle) … -/
theorem report_capped_truncates {α : Type} (le : α → α → Bool) (n : Nat) (arrived : List α)
    (hmany : n < arrived.length) :
    (reportSorted le (some n) arrived).length = n ∧ (reportSorted le (some n) arrived).length < arrived.length := by
  have hl : (reportSorted le (some n) arrived).length = n := by
    unfold reportSorted collectCapped collectSorted
    simp only
    rw [(List.mergeSort_perm _ le).length_eq, List.length_take]
    omega
  exact ⟨hl, by omega⟩

/-- … and WHICH ones depends on the schedule: two arrival orders of the same two problems. -/
theorem report_capped_counterexample :
    reportSorted (fun a b : Nat => decide (a ≤ b)) (some 1) [1, 2] ≠
      reportSorted (fun a b : Nat => decide (a ≤ b)) (some 1) [2, 1] := by
  simp [reportSorted, collectCapped, collectSorted]

-- non-vacuity
example : verdict true [⟨false, false⟩, ⟨true, false⟩, ⟨false, true⟩] = true := by decide
example (l₁ l₂ : List Nat) (h : l₁.Perm l₂) :
    collectSorted (fun a b => decide (a ≤ b)) l₁ = collectSorted (fun a b => decide (a ≤ b)) l₂ :=
  collect_then_sort_schedule_irrelevant _ (by intro a b c; simp; omega) (by intro a b; simp; omega)
    (by intro a b; simp; omega) l₁ l₂ h
example (l₁ l₂ : List Nat) (h : l₁.Perm l₂) :
    reportSorted (fun a b => decide (a ≤ b)) none l₁ = reportSorted (fun a b => decide (a ≤ b)) none l₂ :=
  report_uncapped_schedule_irrelevant _ (by intro a b c; simp; omega) (by intro a b; simp; omega)
    (by intro a b; simp; omega) l₁ l₂ h
example : (reportSorted (fun a b : Nat => decide (a ≤ b)) (some 2) [3, 1, 2]).length = 2 :=
  (report_capped_truncates _ 2 [3, 1, 2] (by decide)).1

end BufProofs.C02
