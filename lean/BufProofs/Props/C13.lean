import BufProofs.Lemmas.PathLemmas
import BufProofs.Lemmas.BucketLemmas
/-
  C13 — No path can escape a bucket's root.  Property theorems only; helper lemmas live in
  BufProofs/Lemmas.

  Vocabulary: a *key* is a list of proper components (non-empty, not "." or "..", no '/');
  `renderKey k` is its canonical string.  A view is a list of layers (outermost first) over a
  memory bucket `m`; `fullKey ls` is the key under which the view is rooted in `m`.  "Outside
  the root" = a key that does not have `fullKey ls` as a component-wise prefix.
-/
namespace BufProofs.C13
open BufModel.Path BufModel.Bucket

/-- After lexical reduction a relative path is k copies of ".." followed by proper names, and a
    rooted path has no ".." at all. -/
theorem reduce_shape (rooted : Bool) (s : Str) :
    ∃ (k : Nat) (names : List Comp), reduce rooted (splitSlash s) = List.replicate k dotdot ++ names ∧
      AllProper names ∧ (rooted = true → k = 0) :=
  BufModel.Path.reduce_shape rooted (splitSlash s) (splitSlash_no_slash s)

/-- Whatever string is given — any mix of ".", "..", empty components, repeated or leading
    separators — if `NormalizeAndValidate` accepts it, the result is "." or proper names joined by
    '/': it has no "..", ".", empty or separator-bearing component. -/
theorem validate_sound (s p : Str) (h : normalizeAndValidate s = .ok p) :
    ∃ ns : Key, AllProper ns ∧ p = renderKey ns :=
  BufModel.Path.validate_sound s p h

/-- A validated path joined onto a root key stays under that root
    (`getExternalPath` of the disk bucket, `MapPath` of a prefix view). -/
theorem join_under_root (root : Key) (hroot : AllProper root) (s p : Str)
    (h : normalizeAndValidate s = .ok p) :
    ∃ k : Key, AllProper k ∧ join [renderKey root, p] = renderKey (root ++ k) := by
  obtain ⟨k, hk, hp⟩ := BufModel.Path.validate_sound s p h
  exact ⟨k, hk, by rw [hp, join_keys hroot hk]⟩

/-- The path-wise containment test coincides with the component-prefix relation on keys: "ab"
    is not under "a". -/
theorem contains_iff_prefix (a b : Key) (ha : AllProper a) (hb : AllProper b) :
    equalsOrContainsPath (renderKey a) (renderKey b) = true ↔ a <+: b :=
  ecp_keys ha hb

/-- view_frame, write half (put): for ANY path string, a successful Put through any nesting of
    prefix views writes exactly one key, and that key lies under the view's root; every other
    key of the parent bucket — in particular every key outside the root — keeps its binding. -/
theorem view_frame_put (ls : List KLayer) (hls : KLayersOK ls) (m m' : Mem) (path : Str) (c : Content)
    (h : vPut (ls.map KLayer.toLayer) m path c = .ok m') :
    ∃ kq : Key, AllProper kq ∧ kq ≠ [] ∧ normalizeAndValidate path = .ok (renderKey kq) ∧
      ∀ k' : Key, AllProper k' →
        m'.find (renderKey k') = if k' = fullKey ls ++ kq then some c else m.find (renderKey k') := by
  obtain ⟨kq, hkq, hne, hnv, hm'⟩ := vPut_spec ls hls m m' path c h
  refine ⟨kq, hkq, hne, hnv, ?_⟩
  intro k' hk'
  have hfk : AllProper (fullKey ls ++ kq) := allProper_append.mpr ⟨fullKey_proper hls, hkq⟩
  by_cases he : k' = fullKey ls ++ kq
  · subst he; rw [hm', find_cons_eq]; simp
  · have hne' : renderKey (fullKey ls ++ kq) ≠ renderKey k' := fun e => he (renderKey_inj hfk hk' e).symm
    rw [hm', find_cons_ne _ _ _ _ hne', find_erase_ne _ _ _ hne', if_neg he]

theorem view_frame_put_outside (ls : List KLayer) (hls : KLayersOK ls) (m m' : Mem) (path : Str) (c : Content)
    (h : vPut (ls.map KLayer.toLayer) m path c = .ok m') (k' : Key) (hk' : AllProper k')
    (hout : ¬ fullKey ls <+: k') : m'.find (renderKey k') = m.find (renderKey k') := by
  obtain ⟨kq, _, _, _, hall⟩ := view_frame_put ls hls m m' path c h
  rw [hall k' hk', if_neg]
  intro e; exact hout ⟨kq, e.symm⟩

/-- view_frame, write half (delete). -/
theorem view_frame_delete (ls : List KLayer) (hls : KLayersOK ls) (m m' : Mem) (path : Str)
    (h : vDelete (ls.map KLayer.toLayer) m path = .ok m') :
    ∃ kq : Key, AllProper kq ∧ kq ≠ [] ∧ normalizeAndValidate path = .ok (renderKey kq) ∧
      ∀ k' : Key, AllProper k' →
        m'.find (renderKey k') = if k' = fullKey ls ++ kq then none else m.find (renderKey k') := by
  obtain ⟨kq, hkq, hne, hnv, _, hm'⟩ := vDelete_spec ls hls m m' path h
  refine ⟨kq, hkq, hne, hnv, ?_⟩
  intro k' hk'
  have hfk : AllProper (fullKey ls ++ kq) := allProper_append.mpr ⟨fullKey_proper hls, hkq⟩
  by_cases he : k' = fullKey ls ++ kq
  · subst he; rw [hm', find_erase_eq]; simp
  · have hne' : renderKey (fullKey ls ++ kq) ≠ renderKey k' := fun e => he (renderKey_inj hfk hk' e).symm
    rw [hm', find_erase_ne _ _ _ hne', if_neg he]

/-- view_frame, write half (delete-all): exactly the keys under `root ++ prefix` disappear. -/
theorem view_frame_deleteAll (ls : List KLayer) (hls : KLayersOK ls) (m m' : Mem) (pfx : Str)
    (h : vDeleteAll (ls.map KLayer.toLayer) m pfx = .ok m') :
    ∃ kq : Key, AllProper kq ∧ normalizeAndValidate pfx = .ok (renderKey kq) ∧
      ∀ k' : Key, AllProper k' →
        m'.find (renderKey k') = if fullKey ls ++ kq <+: k' then none else m.find (renderKey k') := by
  obtain ⟨kq, hkq, hnv, hm'⟩ := vDeleteAll_spec ls hls m m' pfx h
  refine ⟨kq, hkq, hnv, ?_⟩
  intro k' hk'
  have hfk : AllProper (fullKey ls ++ kq) := allProper_append.mpr ⟨fullKey_proper hls, hkq⟩
  rw [hm', find_filter m (fun s => !equalsOrContainsPath (renderKey (fullKey ls ++ kq)) s)]
  by_cases hp : fullKey ls ++ kq <+: k'
  · have := (ecp_keys hfk hk').mpr hp
    simp [this, hp]
  · have : equalsOrContainsPath (renderKey (fullKey ls ++ kq)) (renderKey k') = false := by
      cases hh : equalsOrContainsPath (renderKey (fullKey ls ++ kq)) (renderKey k') with
      | false => rfl
      | true => exact absurd ((ecp_keys hfk hk').mp hh) hp
    simp [this, hp]

theorem view_frame_deleteAll_outside (ls : List KLayer) (hls : KLayersOK ls) (m m' : Mem) (pfx : Str)
    (h : vDeleteAll (ls.map KLayer.toLayer) m pfx = .ok m') (k' : Key) (hk' : AllProper k')
    (hout : ¬ fullKey ls <+: k') : m'.find (renderKey k') = m.find (renderKey k') := by
  obtain ⟨kq, _, _, hall⟩ := view_frame_deleteAll ls hls m m' pfx h
  rw [hall k' hk', if_neg]
  intro hp; exact hout (List.IsPrefix.trans (List.prefix_append _ _) hp)

/-- view_frame, read half (get / stat): whatever is returned through a view (prefix and filter
    layers in any nesting) is the content stored at a key under the view's root. -/
theorem view_frame_get (ls : List KLayer) (hls : KLayersOK ls) (m : Mem) (path : Str) (c : Content)
    (h : vGet (ls.map KLayer.toLayer) m path = .ok c) :
    ∃ kq : Key, AllProper kq ∧ kq ≠ [] ∧ normalizeAndValidate path = .ok (renderKey kq) ∧
      m.find (renderKey (fullKey ls ++ kq)) = some c :=
  vGet_spec ls hls m path c h

/-- view_frame, read half (walk): every object reported by a walk through a view is stored
    under the view's root and under the requested prefix. -/
theorem view_frame_walk (ls : List KLayer) (hls : KLayersOK ls) (m : Mem) (hm : KeysValid m)
    (pfx : Str) (objs : List (Str × Content))
    (h : vWalk (ls.map KLayer.toLayer) m pfx = .ok objs) :
    ∃ kq : Key, AllProper kq ∧ normalizeAndValidate pfx = .ok (renderKey kq) ∧
      ∀ qc ∈ objs, ∃ kk : Key, AllProper kk ∧ qc.1 = renderKey kk ∧ kq <+: kk ∧
        (renderKey (fullKey ls ++ kk), qc.2) ∈ m :=
  vWalk_sound ls hls m hm pfx objs h

/-- Escaping names are rejected: no operation through any view succeeds on a path that
    validation refuses (paths cleaning to "..", "../…" or "/…"). -/
theorem escape_rejected (ls : List KLayer) (hls : KLayersOK ls) (m : Mem) (path : Str) (e : PErr)
    (hrej : normalizeAndValidate path = .error e) (c : Content) :
    (∀ m', vPut (ls.map KLayer.toLayer) m path c ≠ .ok m') ∧
    (∀ m', vDelete (ls.map KLayer.toLayer) m path ≠ .ok m') ∧
    (∀ m', vDeleteAll (ls.map KLayer.toLayer) m path ≠ .ok m') ∧
    (∀ c', vGet (ls.map KLayer.toLayer) m path ≠ .ok c') := by
  refine ⟨?_, ?_, ?_, ?_⟩
  · intro m' h; obtain ⟨_, _, _, hnv, _⟩ := vPut_spec ls hls m m' path c h; rw [hrej] at hnv; cases hnv
  · intro m' h; obtain ⟨_, _, _, hnv, _⟩ := vDelete_spec ls hls m m' path h; rw [hrej] at hnv; cases hnv
  · intro m' h; obtain ⟨_, _, hnv, _⟩ := vDeleteAll_spec ls hls m m' path h; rw [hrej] at hnv; cases hnv
  · intro c' h; obtain ⟨_, _, _, hnv, _⟩ := vGet_spec ls hls m path c' h; rw [hrej] at hnv; cases hnv

/-- Exactly which cleaned forms are rejected. -/
theorem rejected_iff (s : Str) :
    (∃ e, normalizeAndValidate s = .error e) ↔
      (isAbs (clean s) = true ∨ clean s = dotdot ∨ jumpPrefix.isPrefixOf (clean s) = true) := by
  unfold normalizeAndValidate
  simp only
  by_cases h1 : isAbs (clean s) = true
  · simp [h1]
  · by_cases h2 : (clean s = dotdot || jumpPrefix.isPrefixOf (clean s)) = true
    · simp only [h1, h2, if_true, Bool.false_eq_true, if_false]
      simp at h2; simp [h2]
    · simp only [h1, h2, Bool.false_eq_true, if_false]
      simp at h2; simp [h2]

/-- Archive entries (tar / zip): an entry is written only to a non-empty key of proper names,
    a suffix of its validated name. -/
theorem archive_entry_contained (name : Str) (n : Nat) (f : Str → Bool) (p : Str)
    (h : unmapArchivePath name n f = .ok (some p)) :
    ∃ kf k : Key, AllProper kf ∧ normalizeAndValidate name = .ok (renderKey kf) ∧
      AllProper k ∧ k ≠ [] ∧ p = renderKey k ∧ k = kf.drop n :=
  unmapArchivePath_sound name n f p h

/-- The memory bucket's invariant (every key is a rendered non-empty key, no key twice) is
    preserved by every successful write through any view. -/
theorem invariant_preserved_put (ls : List KLayer) (hls : KLayersOK ls) (m m' : Mem) (path : Str) (c : Content)
    (hv : KeysValid m) (hn : NodupKeys m)
    (h : vPut (ls.map KLayer.toLayer) m path c = .ok m') : KeysValid m' ∧ NodupKeys m' := by
  obtain ⟨kq, hkq, hne, _, hm'⟩ := vPut_spec ls hls m m' path c h
  have hfk : AllProper (fullKey ls ++ kq) := allProper_append.mpr ⟨fullKey_proper hls, hkq⟩
  rw [hm']
  exact ⟨keysValid_cons (keysValid_erase hv _) hfk (by simp [hne]) c, nodupKeys_put hn _ c⟩

-- non-vacuity: hostile spellings that are accepted / rejected; a concrete view history
example : normalizeAndValidate "a//./b/../c/".toList = .ok "a/c".toList := by decide
example : normalizeAndValidate "a/../..".toList = .error .outsideContext := by decide
example : normalizeAndValidate "..".toList = .error .outsideContext := by decide
example : normalizeAndValidate "/etc".toList = .error .notRelative := by decide
example : KLayersOK [.pre ["a".toList], .pre ["x".toList, "y".toList]] := by
  refine ⟨?_, ?_, trivial⟩ <;> intro n hn <;> simp at hn <;> (try rcases hn with rfl | rfl) <;> (try subst hn) <;> decide
example : vPut ([KLayer.pre ["a".toList]].map KLayer.toLayer) [] "q/../f".toList "C" =
    .ok [("a/f".toList, "C")] := by decide
example : unmapArchivePath "top/../../evil".toList 0 (fun _ => true) = .error .outsideContext := by decide
/-- The pre-fix validator accepted "..": the recorded finding (fixed in /repo 8b9cf6b). -/
theorem validate_old_counterexample : normalizeAndValidateOld "a/../..".toList = .ok "..".toList := by decide

end BufProofs.C13
