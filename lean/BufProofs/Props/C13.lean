import BufProofs.Lemmas.PathLemmas
/-
  C13 — No path can escape a bucket's root.  Property theorems only; helper lemmas live in
  BufProofs/Lemmas.
-/
namespace BufProofs.C13
open BufModel.Path

/-- After lexical reduction a relative path is k copies of ".." followed by proper names, and a
    rooted path has no ".." at all. -/
theorem reduce_shape (rooted : Bool) (s : Str) :
    ∃ (k : Nat) (names : List Comp), reduce rooted (splitSlash s) = List.replicate k dotdot ++ names ∧
      AllProper names ∧ (rooted = true → k = 0) :=
  BufModel.Path.reduce_shape rooted (splitSlash s) (splitSlash_no_slash s)

/-- Whatever string is given — any mix of ".", "..", empty components, repeated or leading
    separators — if `NormalizeAndValidate` accepts it, the result is "." or proper names joined by
    '/': it has no "..", ".", empty or separator-bearing component. -/
theorem validate_sound (s p : Str) (h : normalizeAndValidate s = .ok p) :
    ∃ ns : Key, AllProper ns ∧ p = renderKey ns :=
  BufModel.Path.validate_sound s p h

-- non-vacuity: a hostile spelling that is accepted, and ones that are rejected
example : normalizeAndValidate "a//./b/../c/".toList = .ok "a/c".toList := by decide
example : normalizeAndValidate "a/../..".toList = .error .outsideContext := by decide
example : normalizeAndValidate "..".toList = .error .outsideContext := by decide
example : normalizeAndValidate "/etc".toList = .error .notRelative := by decide
/-- The pre-fix validator accepted "..": the recorded finding (fixed in /repo 8b9cf6b). -/
theorem validate_old_counterexample : normalizeAndValidateOld "a/../..".toList = .ok "..".toList := by decide

end BufProofs.C13
