import BufProofs.Lemmas.PathLemmas
import BufProofs.Lemmas.BucketLemmas
import BufProofs.Lemmas.DiskRootLemmas
import BufProofs.Lemmas.ArchiveKindsLemmas
import BufProofs.Lemmas.FileNodeGateLemmas
/-
  C13 — No path can escape a bucket's root.  Property theorems only; helper lemmas live in
  BufProofs/Lemmas.

  Vocabulary: a *key* is a list of proper components (non-empty, not "." or "..", no '/');
  `renderKey k` is its canonical string.  A view is a list of layers (outermost first) over a
  memory bucket `m`; `fullKey ls` is the key under which the view is rooted in `m`.  "Outside
  the root" = a key that does not have `fullKey ls` as a component-wise prefix.
-/
namespace BufProofs.C13
open BufModel.Path BufModel.Bucket BufModel.Disk BufModel.Archive BufModel.ArchiveKinds

/-- After lexical reduction a relative path is k copies of ".." followed by proper names, and a
    rooted path has no ".." at all. -/
theorem reduce_shape (rooted : Bool) (s : Str) :
    ∃ (k : Nat) (names : List Comp), reduce rooted (splitSlash s) = List.replicate k dotdot ++ names ∧
      AllProper names ∧ (rooted = true → k = 0) :=
  BufModel.Path.reduce_shape rooted (splitSlash s) (splitSlash_no_slash s)

/-- Whatever string is given — any mix of ".", "..", empty components, repeated or leading
    separators — if `NormalizeAndValidate` accepts it, the result is "." or proper names joined by
    '/': it has no "..", ".", empty or separator-bearing component. -/
theorem validate_sound (s p : Str) (h : normalizeAndValidate s = .ok p) :
    ∃ ns : Key, AllProper ns ∧ p = renderKey ns :=
  BufModel.Path.validate_sound s p h

/-- A validated path joined onto a root key stays under that root
    (`getExternalPath` of the disk bucket, `MapPath` of a prefix view). -/
theorem join_under_root (root : Key) (hroot : AllProper root) (s p : Str)
    (h : normalizeAndValidate s = .ok p) :
    ∃ k : Key, AllProper k ∧ join [renderKey root, p] = renderKey (root ++ k) := by
  obtain ⟨k, hk, hp⟩ := BufModel.Path.validate_sound s p h
  exact ⟨k, hk, by rw [hp, join_keys hroot hk]⟩

/-- an absolute root: "/" followed by a rendered non-empty key -/
def absRoot (rk : Key) : Str := '/' :: renderKey rk

/-- The disk bucket's `getExternalPath` with a real (absolute) root: a validated path joined
    onto the root directory is the root followed by the path's components — a path below the
    root directory, component-wise. -/
theorem join_under_abs_root {rk k : Key} (hr : AllProper rk) (hrne : rk ≠ []) (hk : AllProper k) :
    join [absRoot rk, renderKey k] = absRoot (rk ++ k) := by
  unfold join absRoot
  have hnb := renderKey_ne_nil hk
  have hna : ('/' :: renderKey rk) ≠ [] := by simp
  simp only [List.filter, hna, hnb, ne_eq, not_false_eq_true, decide_true]
  show clean (('/' :: renderKey rk) ++ '/' :: renderKey k) = _
  unfold clean
  have habs : isAbs (('/' :: renderKey rk) ++ '/' :: renderKey k) = true := by simp [isAbs]
  rw [habs]
  have hsplit : splitSlash (('/' :: renderKey rk) ++ '/' :: renderKey k) =
      [] :: (splitSlash (renderKey rk) ++ splitSlash (renderKey k)) := by
    rw [List.cons_append, splitSlash_cons_slash, splitSlash_append]
  rw [hsplit]
  rw [reduce_plain true _ (by
    intro c hc
    rcases List.mem_cons.mp hc with e | hc
    · exact Or.inr (Or.inr e)
    · rcases List.mem_append.mp hc with hc | hc
      · exact splitSlash_renderKey_plain hr c hc
      · exact splitSlash_renderKey_plain hk c hc)]
  have hnp : ¬ Proper ([] : Comp) := fun h => h.1 rfl
  rw [List.filter_cons_of_neg (by simpa using hnp), List.filter_append,
    filter_splitSlash_renderKey hr, filter_splitSlash_renderKey hk]
  have hne : rk ++ k ≠ [] := by simp [hrne]
  unfold render renderKey render
  simp [hne]

/-- The path-wise containment test coincides with the component-prefix relation on keys: "ab"
    is not under "a". -/
theorem contains_iff_prefix (a b : Key) (ha : AllProper a) (hb : AllProper b) :
    equalsOrContainsPath (renderKey a) (renderKey b) = true ↔ a <+: b :=
  ecp_keys ha hb

/-- view_frame, write half (put): for ANY path string, a successful Put through any nesting of
    prefix views writes exactly one key, and that key lies under the view's root; every other
    key of the parent bucket — in particular every key outside the root — keeps its binding. -/
theorem view_frame_put (ls : List KLayer) (hls : KLayersOK ls) (m m' : Mem) (path : Str) (c : Content)
    (h : vPut (ls.map KLayer.toLayer) m path c = .ok m') :
    ∃ kq : Key, AllProper kq ∧ kq ≠ [] ∧ normalizeAndValidate path = .ok (renderKey kq) ∧
      ∀ k' : Key, AllProper k' →
        m'.find (renderKey k') = if k' = fullKey ls ++ kq then some c else m.find (renderKey k') := by
  obtain ⟨kq, hkq, hne, hnv, hm'⟩ := vPut_spec ls hls m m' path c h
  refine ⟨kq, hkq, hne, hnv, ?_⟩
  intro k' hk'
  have hfk : AllProper (fullKey ls ++ kq) := allProper_append.mpr ⟨fullKey_proper hls, hkq⟩
  by_cases he : k' = fullKey ls ++ kq
  · subst he; rw [hm', find_cons_eq]; simp
  · have hne' : renderKey (fullKey ls ++ kq) ≠ renderKey k' := fun e => he (renderKey_inj hfk hk' e).symm
    rw [hm', find_cons_ne _ _ _ _ hne', find_erase_ne _ _ _ hne', if_neg he]

theorem view_frame_put_outside (ls : List KLayer) (hls : KLayersOK ls) (m m' : Mem) (path : Str) (c : Content)
    (h : vPut (ls.map KLayer.toLayer) m path c = .ok m') (k' : Key) (hk' : AllProper k')
    (hout : ¬ fullKey ls <+: k') : m'.find (renderKey k') = m.find (renderKey k') := by
  obtain ⟨kq, _, _, _, hall⟩ := view_frame_put ls hls m m' path c h
  rw [hall k' hk', if_neg]
  intro e; exact hout ⟨kq, e.symm⟩

/-- view_frame, write half (delete). -/
theorem view_frame_delete (ls : List KLayer) (hls : KLayersOK ls) (m m' : Mem) (path : Str)
    (h : vDelete (ls.map KLayer.toLayer) m path = .ok m') :
    ∃ kq : Key, AllProper kq ∧ kq ≠ [] ∧ normalizeAndValidate path = .ok (renderKey kq) ∧
      ∀ k' : Key, AllProper k' →
        m'.find (renderKey k') = if k' = fullKey ls ++ kq then none else m.find (renderKey k') := by
  obtain ⟨kq, hkq, hne, hnv, _, hm'⟩ := vDelete_spec ls hls m m' path h
  refine ⟨kq, hkq, hne, hnv, ?_⟩
  intro k' hk'
  have hfk : AllProper (fullKey ls ++ kq) := allProper_append.mpr ⟨fullKey_proper hls, hkq⟩
  by_cases he : k' = fullKey ls ++ kq
  · subst he; rw [hm', find_erase_eq]; simp
  · have hne' : renderKey (fullKey ls ++ kq) ≠ renderKey k' := fun e => he (renderKey_inj hfk hk' e).symm
    rw [hm', find_erase_ne _ _ _ hne', if_neg he]

/-- view_frame, write half (delete-all): exactly the keys under `root ++ prefix` disappear. -/
theorem view_frame_deleteAll (ls : List KLayer) (hls : KLayersOK ls) (m m' : Mem) (pfx : Str)
    (h : vDeleteAll (ls.map KLayer.toLayer) m pfx = .ok m') :
    ∃ kq : Key, AllProper kq ∧ normalizeAndValidate pfx = .ok (renderKey kq) ∧
      ∀ k' : Key, AllProper k' →
        m'.find (renderKey k') = if fullKey ls ++ kq <+: k' then none else m.find (renderKey k') := by
  obtain ⟨kq, hkq, hnv, hm'⟩ := vDeleteAll_spec ls hls m m' pfx h
  refine ⟨kq, hkq, hnv, ?_⟩
  intro k' hk'
  have hfk : AllProper (fullKey ls ++ kq) := allProper_append.mpr ⟨fullKey_proper hls, hkq⟩
  rw [hm', find_filter m (fun s => !equalsOrContainsPath (renderKey (fullKey ls ++ kq)) s)]
  by_cases hp : fullKey ls ++ kq <+: k'
  · have := (ecp_keys hfk hk').mpr hp
    simp [this, hp]
  · have : equalsOrContainsPath (renderKey (fullKey ls ++ kq)) (renderKey k') = false := by
      cases hh : equalsOrContainsPath (renderKey (fullKey ls ++ kq)) (renderKey k') with
      | false => rfl
      | true => exact absurd ((ecp_keys hfk hk').mp hh) hp
    simp [this, hp]

theorem view_frame_deleteAll_outside (ls : List KLayer) (hls : KLayersOK ls) (m m' : Mem) (pfx : Str)
    (h : vDeleteAll (ls.map KLayer.toLayer) m pfx = .ok m') (k' : Key) (hk' : AllProper k')
    (hout : ¬ fullKey ls <+: k') : m'.find (renderKey k') = m.find (renderKey k') := by
  obtain ⟨kq, _, _, hall⟩ := view_frame_deleteAll ls hls m m' pfx h
  rw [hall k' hk', if_neg]
  intro hp; exact hout (List.IsPrefix.trans (List.prefix_append _ _) hp)

/-- view_frame, read half (get / stat): whatever is returned through a view (prefix and filter
    layers in any nesting) is the content stored at a key under the view's root. -/
theorem view_frame_get (ls : List KLayer) (hls : KLayersOK ls) (m : Mem) (path : Str) (c : Content)
    (h : vGet (ls.map KLayer.toLayer) m path = .ok c) :
    ∃ kq : Key, AllProper kq ∧ kq ≠ [] ∧ normalizeAndValidate path = .ok (renderKey kq) ∧
      m.find (renderKey (fullKey ls ++ kq)) = some c :=
  vGet_spec ls hls m path c h

/-- view_frame, read half (walk): every object reported by a walk through a view is stored
    under the view's root and under the requested prefix. -/
theorem view_frame_walk (ls : List KLayer) (hls : KLayersOK ls) (m : Mem) (hm : KeysValid m)
    (pfx : Str) (objs : List (Str × Content))
    (h : vWalk (ls.map KLayer.toLayer) m pfx = .ok objs) :
    ∃ kq : Key, AllProper kq ∧ normalizeAndValidate pfx = .ok (renderKey kq) ∧
      ∀ qc ∈ objs, ∃ kk : Key, AllProper kk ∧ qc.1 = renderKey kk ∧ kq <+: kk ∧
        (renderKey (fullKey ls ++ kk), qc.2) ∈ m :=
  vWalk_sound ls hls m hm pfx objs h

/-- Escaping names are rejected by EVERY operation: validation is not bypassed by any layer —
    no Put/Delete/DeleteAll/Get through any nesting of views succeeds on a path that validation
    refuses (which paths those are: `accepted_iff_shape`).  (This is a statement about the
    plumbing of the views — each operation validates before mapping — not about validation.) -/
theorem escape_rejected (ls : List KLayer) (hls : KLayersOK ls) (m : Mem) (path : Str) (e : PErr)
    (hrej : normalizeAndValidate path = .error e) (c : Content) :
    (∀ m', vPut (ls.map KLayer.toLayer) m path c ≠ .ok m') ∧
    (∀ m', vDelete (ls.map KLayer.toLayer) m path ≠ .ok m') ∧
    (∀ m', vDeleteAll (ls.map KLayer.toLayer) m path ≠ .ok m') ∧
    (∀ c', vGet (ls.map KLayer.toLayer) m path ≠ .ok c') := by
  refine ⟨?_, ?_, ?_, ?_⟩
  · intro m' h; obtain ⟨_, _, _, hnv, _⟩ := vPut_spec ls hls m m' path c h; rw [hrej] at hnv; cases hnv
  · intro m' h; obtain ⟨_, _, _, hnv, _⟩ := vDelete_spec ls hls m m' path h; rw [hrej] at hnv; cases hnv
  · intro m' h; obtain ⟨_, _, hnv, _⟩ := vDeleteAll_spec ls hls m m' path h; rw [hrej] at hnv; cases hnv
  · intro c' h; obtain ⟨_, _, _, hnv, _⟩ := vGet_spec ls hls m path c' h; rw [hrej] at hnv; cases hnv

/-- Exactly which cleaned forms are rejected. -/
theorem rejected_iff (s : Str) :
    (∃ e, normalizeAndValidate s = .error e) ↔
      (isAbs (clean s) = true ∨ clean s = dotdot ∨ jumpPrefix.isPrefixOf (clean s) = true) := by
  unfold normalizeAndValidate
  simp only
  by_cases h1 : isAbs (clean s) = true
  · simp [h1]
  · by_cases h2 : (clean s = dotdot || jumpPrefix.isPrefixOf (clean s)) = true
    · simp only [h1, h2, if_true, Bool.false_eq_true, if_false]
      simp at h2; simp [h2]
    · simp only [h1, h2, Bool.false_eq_true, if_false]
      simp at h2; simp [h2]

/-! ### Hostile view prefixes

`storage.MapOnPrefix` documents that its prefix is "expected to be normalized and validated" but
does not check it.  The `view_frame_*` theorems above assume well-formed prefixes (`KLayersOK`):
they speak about the VIEW's root.  The three theorems below make NO assumption on the layers —
any prefix string, any nesting — and speak about the PARENT bucket's root: whatever the
prefixes and the path are, a write that succeeds touches exactly one non-empty key of proper
names of the parent (never "..", never absolute), a delete removes exactly such a key, and a
DeleteAll removes exactly the keys under such a key.  (Reads never change the parent.) -/

/-- hostile prefixes, Put -/
theorem hostile_view_put_stays_in_base (ls : List Layer) (m m' : Mem) (path : Str) (c : Content)
    (h : vPut ls m path c = .ok m') :
    ∃ k : Key, AllProper k ∧ k ≠ [] ∧ m' = (renderKey k, c) :: m.erase (renderKey k) := by
  induction ls generalizing path with
  | nil =>
    simp only [vPut, memPut] at h
    cases hv : validatePath path with
    | error e => rw [hv] at h; cases h
    | ok p =>
      rw [hv] at h
      obtain ⟨k, hk, hne, hp, _⟩ := validatePath_sound path p hv
      injection h with h
      exact ⟨k, hk, hne, by rw [← h, hp]⟩
  | cons l ls ih =>
    cases l with
    | pre p =>
      simp only [vPut] at h
      cases hf : mapFullPath p path with
      | error e => rw [hf] at h; cases h
      | ok full => rw [hf] at h; exact ih full h
    | filt f => simp [vPut] at h

theorem hostile_view_delete_stays_in_base (ls : List Layer) (m m' : Mem) (path : Str)
    (h : vDelete ls m path = .ok m') :
    ∃ k : Key, AllProper k ∧ k ≠ [] ∧ m' = m.erase (renderKey k) := by
  induction ls generalizing path with
  | nil =>
    simp only [vDelete, memDelete] at h
    cases hv : validatePath path with
    | error e => rw [hv] at h; cases h
    | ok p =>
      rw [hv] at h
      obtain ⟨k, hk, hne, hp, _⟩ := validatePath_sound path p hv
      simp only at h
      cases hfind : m.find p with
      | none => rw [hfind] at h; cases h
      | some _ =>
        rw [hfind] at h
        injection h with h
        exact ⟨k, hk, hne, by rw [← h, hp]⟩
  | cons l ls ih =>
    cases l with
    | pre p =>
      simp only [vDelete] at h
      cases hf : mapFullPath p path with
      | error e => rw [hf] at h; cases h
      | ok full => rw [hf] at h; exact ih full h
    | filt f => simp [vDelete] at h

theorem hostile_view_deleteAll_stays_in_base (ls : List Layer) (m m' : Mem) (pfx : Str)
    (h : vDeleteAll ls m pfx = .ok m') :
    ∃ k : Key, AllProper k ∧ m' = m.filter (fun kv => !equalsOrContainsPath (renderKey k) kv.1) := by
  induction ls generalizing pfx with
  | nil =>
    simp only [vDeleteAll, memDeleteAll, validatePrefix] at h
    cases hv : normalizeAndValidate pfx with
    | error e => rw [hv] at h; cases h
    | ok p =>
      rw [hv] at h
      obtain ⟨k, hk, hp⟩ := validate_sound pfx p hv
      injection h with h
      exact ⟨k, hk, by rw [← h, hp]⟩
  | cons l ls ih =>
    cases l with
    | pre p =>
      simp only [vDeleteAll] at h
      cases hf : normalizeAndValidate pfx with
      | error e => rw [hf] at h; cases h
      | ok q => rw [hf] at h; exact ih _ h
    | filt f => simp [vDeleteAll] at h

/-- The exact shape of what validation accepts, in terms of the lexical reduction of
    `reduce_shape`: a path is accepted iff it is relative and no ".." survives the reduction
    (k = 0); everything else — absolute, or k > 0 leading ".." — is rejected. -/
theorem accepted_iff_shape (s : Str) :
    (∃ p, normalizeAndValidate s = .ok p) ↔
      (isAbs s = false ∧ AllProper (reduce false (splitSlash s))) := by
  constructor
  · rintro ⟨p, h⟩
    unfold normalizeAndValidate at h
    simp only at h
    split at h
    · cases h
    · rename_i hab
      split at h
      · cases h
      · rename_i hjump
        obtain ⟨k, names, heq, hp, hr⟩ := BufModel.Path.reduce_shape (isAbs s) (splitSlash s) (splitSlash_no_slash s)
        cases hs : isAbs s with
        | true =>
          exfalso; apply hab
          unfold clean render; rw [hs]; simp [isAbs]
        | false =>
          rw [hs] at heq
          refine ⟨rfl, ?_⟩
          have hc : clean s = render false (List.replicate k dotdot ++ names) := by
            unfold clean; rw [hs, heq]
          cases k with
          | zero => rw [heq]; simpa using hp
          | succ k =>
            exfalso; apply hjump
            rw [hc]
            simp only [List.replicate_succ, List.cons_append, render]
            cases hrest : List.replicate k dotdot ++ names with
            | nil => simp [joinSlash, dotdot]
            | cons r rs =>
              simp [joinSlash_cons_cons, dotdot, jumpPrefix, List.isPrefixOf]
  · rintro ⟨hs, hp⟩
    have hc : clean s = renderKey (reduce false (splitSlash s)) := by
      unfold clean renderKey; rw [hs]
    refine ⟨renderKey (reduce false (splitSlash s)), ?_⟩
    unfold normalizeAndValidate
    simp only [hc, isAbs_renderKey hp]
    obtain ⟨h1, h2⟩ := renderKey_not_jump hp
    simp [h1, h2]

/-- Disk bucket, operation level: a successful Put (atomic or not) — for ANY path string —
    creates or replaces exactly one regular file, at a non-empty key of proper names below the
    bucket root, and the only directories it creates are the proper ancestors of that key. -/
theorem disk_put_stays_in_root (d d' : Disk) (path : Str) (c : Content)
    (h : diskPut d path c = .ok d') :
    ∃ k : Key, AllProper k ∧ k ≠ [] ∧
      d'.files = (renderKey k, c) :: d.files.erase (renderKey k) ∧
      ∀ x ∈ d'.dirs, x ∈ d.dirs ∨ (∃ n, 0 < n ∧ n < k.length ∧ x = k.take n) := by
  unfold diskPut at h
  cases hv : validatePath path with
  | error e => rw [hv] at h; cases h
  | ok p =>
    rw [hv] at h
    obtain ⟨k, hk, hne, hp, _⟩ := validatePath_sound path p hv
    simp only at h
    split at h
    · cases h
    · split at h
      · cases h
      · injection h with h
        subst h
        have hkey : keyOfPath p = k := by unfold keyOfPath; rw [hp, cleanComps_renderKey hk]
        refine ⟨k, hk, hne, by simp [hp], ?_⟩
        intro x hx
        simp only at hx
        rcases (mem_addDirs_iff _ _ _).mp hx with h1 | h2
        · exact Or.inl h1
        · rw [hkey] at h2; exact Or.inr (mem_ancestors_take k x h2)

/-- Archive entries (tar / zip): an entry is written only to a non-empty key of proper names,
    a suffix of its validated name. -/
theorem archive_entry_contained (name : Str) (n : Nat) (f : Str → Bool) (p : Str)
    (h : unmapArchivePath name n f = .ok (some p)) :
    ∃ kf k : Key, AllProper kf ∧ normalizeAndValidate name = .ok (renderKey kf) ∧
      AllProper k ∧ k ≠ [] ∧ p = renderKey k ∧ k = kf.drop n :=
  unmapArchivePath_sound name n f p h

/-- The memory bucket's invariant (every key is a rendered non-empty key, no key twice) is
    preserved by every successful write through any view. -/
theorem invariant_preserved_put (ls : List KLayer) (hls : KLayersOK ls) (m m' : Mem) (path : Str) (c : Content)
    (hv : KeysValid m) (hn : NodupKeys m)
    (h : vPut (ls.map KLayer.toLayer) m path c = .ok m') : KeysValid m' ∧ NodupKeys m' := by
  obtain ⟨kq, hkq, hne, _, hm'⟩ := vPut_spec ls hls m m' path c h
  have hfk : AllProper (fullKey ls ++ kq) := allProper_append.mpr ⟨fullKey_proper hls, hkq⟩
  rw [hm']
  exact ⟨keysValid_cons (keysValid_erase hv _) hfk (by simp [hne]) c, nodupKeys_put hn _ c⟩

-- non-vacuity: hostile spellings that are accepted / rejected; a concrete view history
example : normalizeAndValidate "a//./b/../c/".toList = .ok "a/c".toList := by decide
example : normalizeAndValidate "a/../..".toList = .error .outsideContext := by decide
example : normalizeAndValidate "..".toList = .error .outsideContext := by decide
example : normalizeAndValidate "/etc".toList = .error .notRelative := by decide
example : KLayersOK [.pre ["a".toList], .pre ["x".toList, "y".toList]] := by
  refine ⟨?_, ?_, trivial⟩ <;> intro n hn <;> simp at hn <;> (try rcases hn with rfl | rfl) <;> (try subst hn) <;> decide
example : vPut ([KLayer.pre ["a".toList]].map KLayer.toLayer) [] "q/../f".toList "C" =
    .ok [("a/f".toList, "C")] := by decide
example : unmapArchivePath "top/../../evil".toList 0 (fun _ => true) = .error .outsideContext := by decide
/-- The pre-fix validator accepted "..": the recorded finding (fixed in /repo 8b9cf6b). -/
theorem validate_old_counterexample : normalizeAndValidateOld "a/../..".toList = .ok "..".toList := by decide

-- non-vacuity: histories through views over a parent holding sentinels outside the root
/-- example exParent bucket: "ab" is a string-wise but not a path-wise neighbour of the view root "a" -/
def exParent : Mem := [("a/x".toList, "1"), ("ab".toList, "2"), ("b".toList, "3"), ("a/sub/y".toList, "4")]
-- a sentinel outside the view root survives every write through the view; string-wise neighbours ("ab") too
example : vDeleteAll [.pre "a".toList] exParent ".".toList = .ok [("ab".toList, "2"), ("b".toList, "3")] := by decide
example : vDelete [.pre "a".toList] exParent "../b".toList = .error .outsideContext := by decide
example : vPut [.pre "sub".toList, .pre "a".toList] exParent "z/../y".toList "N" =
    .ok [("a/sub/y".toList, "N"), ("a/x".toList, "1"), ("ab".toList, "2"), ("b".toList, "3")] := by decide
example : vGet [.pre "a".toList] exParent "/x".toList = .error .notRelative := by decide
example : vWalk [.filt (.ext ".proto".toList), .pre "a".toList] exParent "".toList = .ok [] := by decide
example : vWalk [.pre "a".toList] exParent "sub/..".toList = .ok [("x".toList, "1"), ("sub/y".toList, "4")] := by decide
-- hostile prefixes: nothing succeeds outside the parent's root
example : vPut [.pre "../x".toList] exParent "a".toList "C" = .error .outsideContext := by decide
example : vPut [.pre "/abs".toList] exParent "a".toList "C" = .error .notRelative := by decide
example : vDeleteAll [.pre "a/../..".toList] exParent ".".toList = .error .outsideContext := by decide
example : vPut [.pre "a//b/".toList] [] "c".toList "C" = .ok [("a/b/c".toList, "C")] := by decide

/-! ### Archive extraction over ENTRY KINDS (Untar / Unzip loops, `BufModel.ArchiveKinds`)

An entry is what the archive reader yields: kind (tar typeflag + mode-field type bits, or zip
attribute class), name, link name, content.  `extractRaw .tar` / `.zip` are the Untar / Unzip
loops as coded, started on ANY bucket content `m`.  "Refused name" = `nameRejected` = empty, or
refused by `NormalizeAndValidate` — by shape: `nameRejected_iff`. -/

/-- the refused entry names by shape: empty, or — after cleaning — absolute, "..", or "../…" -/
theorem nameRejected_iff (name : Str) :
    nameRejected name = true ↔
      (name = [] ∨ isAbs (clean name) = true ∨ clean name = dotdot ∨ jumpPrefix.isPrefixOf (clean name) = true) := by
  rw [← rejected_iff]
  unfold nameRejected
  by_cases h0 : name = []
  · simp [h0]
  · simp only [h0, decide_false, Bool.false_or, false_or]
    cases normalizeAndValidate name with
    | error e => simp
    | ok p => simp

/-- Untar: an entry of ANY kind — regular, directory, symlink, hard link, fifo, device, PAX global
    header, unknown typeflag, whatever the mode bits — whose name escapes (or is empty) makes the
    extraction fail, wherever it stands in the archive, whatever strip count, matcher, size limit
    and destination content.  No exception (since fix 36b7500 the AppleDouble "._" skip comes
    after the name check, as in Unzip; the behaviour before it is
    `untar_apple_before_name_check_counterexample`). -/
theorem untar_escaping_entry_rejected (es : List RawEntry) (strip : Nat) (f : Str → Bool) (mx : Nat) (m : Mem)
    (e : RawEntry) (he : e ∈ es) (hesc : nameRejected e.name = true) :
    ∃ er, (extractRaw .tar strip f mx es m).1 = some er :=
  extractInto_error_of_mem .tar strip f mx _ e.toEntry (List.mem_map.mpr ⟨e, he, rfl⟩)
    (fun m' => extractEntry_rejects .tar strip f mx m' e.toEntry hesc) m

/-- Unzip: an entry of ANY kind whose name escapes (or is empty) makes the extraction fail — no
    exception: directory names ending in '/', symlink-mode entries and "._" names included. -/
theorem unzip_escaping_entry_rejected (es : List RawEntry) (strip : Nat) (f : Str → Bool) (mx : Nat) (m : Mem)
    (e : RawEntry) (he : e ∈ es) (hesc : nameRejected e.name = true) :
    ∃ er, (extractRaw .zip strip f mx es m).1 = some er :=
  extractInto_error_of_mem .zip strip f mx _ e.toEntry (List.mem_map.mpr ⟨e, he, rfl⟩)
    (fun m' => extractEntry_rejects .zip strip f mx m' e.toEntry hesc) m

/-- Untar without a size limit fails EXACTLY when some entry has a refused name:
    entry kinds, AppleDouble names, link names, contents, order, strip count and matcher play no role. -/
theorem untar_error_iff (es : List RawEntry) (strip : Nat) (f : Str → Bool) (m : Mem) :
    (∃ er, (extractRaw .tar strip f 0 es m).1 = some er) ↔ ∃ e ∈ es, nameRejected e.name = true := by
  unfold extractRaw
  rw [extractInto_error_iff]
  constructor
  · rintro ⟨x, hx, h2⟩
    obtain ⟨e, he, rfl⟩ := List.mem_map.mp hx
    exact ⟨e, he, h2⟩
  · rintro ⟨e, he, h2⟩
    exact ⟨e.toEntry, List.mem_map.mpr ⟨e, he, rfl⟩, h2⟩

/-- Unzip fails EXACTLY when some entry has a refused name. -/
theorem unzip_error_iff (es : List RawEntry) (strip : Nat) (f : Str → Bool) (m : Mem) :
    (∃ er, (extractRaw .zip strip f 0 es m).1 = some er) ↔ ∃ e ∈ es, nameRejected e.name = true := by
  unfold extractRaw
  rw [extractInto_error_iff]
  constructor
  · rintro ⟨x, hx, h2⟩
    obtain ⟨e, he, rfl⟩ := List.mem_map.mp hx
    exact ⟨e, he, h2⟩
  · rintro ⟨e, he, h2⟩
    exact ⟨e.toEntry, List.mem_map.mpr ⟨e, he, rfl⟩, h2⟩

/-- Whatever the archive holds and however the extraction ends (finished or aborted), every
    object of the destination afterwards was there before, or is the content of an entry that the
    reader classifies REGULAR, is not AppleDouble, and it sits under the path `unmapArchivePath`
    computed from that entry's own name (`archive_entry_contained`: a non-empty key of proper
    names).  Link names are never a source of a path or of a content. -/
theorem extract_written_sound (fmt : Fmt) (strip : Nat) (f : Str → Bool) (mx : Nat) (es : List RawEntry) (m : Mem) :
    ∀ kv ∈ (extractRaw fmt strip f mx es m).2, kv ∈ m ∨
      ∃ e ∈ es, e.ekind = .reg ∧ e.apple fmt = false ∧
        unmapArchivePath e.name strip f = .ok (some kv.1) ∧ kv.2 = e.content := by
  intro kv h
  rcases extractInto_writes fmt strip f mx _ m kv h with hin | ⟨x, hx, hr, ha, hu, hc⟩
  · exact Or.inl hin
  · obtain ⟨e, he, rfl⟩ := List.mem_map.mp hx
    refine Or.inr ⟨e, he, ?_, ha, hu, hc⟩
    exact of_decide_eq_true hr

/-- Untar that succeeds: every written path is a non-empty key of proper names (no "..", ".",
    empty or separator-bearing component, not absolute), every object comes from a regular entry
    as in `extract_written_sound`, AND no entry of any kind had a refused name. -/
theorem untar_ok_paths_proper (es : List RawEntry) (strip : Nat) (f : Str → Bool) (mx : Nat) (m : Mem)
    (h : untar es strip f mx = (none, m)) :
    KeysValid m ∧
    (∀ kv ∈ m, ∃ e ∈ es, e.ekind = .reg ∧ e.apple .tar = false ∧
        unmapArchivePath e.name strip f = .ok (some kv.1) ∧ kv.2 = e.content) ∧
    (∀ e ∈ es, nameRejected e.name = false) := by
  have hw := extract_written_sound .tar strip f mx es []
  unfold untar at h
  rw [h] at hw
  have h2 : ∀ kv ∈ m, ∃ e ∈ es, e.ekind = .reg ∧ e.apple .tar = false ∧
      unmapArchivePath e.name strip f = .ok (some kv.1) ∧ kv.2 = e.content := by
    intro kv hkv
    rcases hw kv hkv with hin | hex
    · cases hin
    · exact hex
  refine ⟨?_, h2, ?_⟩
  · intro kv hkv
    obtain ⟨e, _, _, _, hu, _⟩ := h2 kv hkv
    obtain ⟨_, k, _, _, hk, hne, hp, _⟩ := unmapArchivePath_sound e.name strip f kv.1 hu
    exact ⟨k, hk, hne, hp⟩
  · intro e he
    cases hr : nameRejected e.name with
    | false => rfl
    | true =>
      obtain ⟨er, herr⟩ := untar_escaping_entry_rejected es strip f mx [] e he hr
      rw [h] at herr; cases herr

/-- Unzip that succeeds: as `untar_ok_paths_proper`, and NO entry at all had a refused name. -/
theorem unzip_ok_paths_proper (es : List RawEntry) (strip : Nat) (f : Str → Bool) (m : Mem)
    (h : unzip es strip f = (none, m)) :
    KeysValid m ∧
    (∀ kv ∈ m, ∃ e ∈ es, e.ekind = .reg ∧ e.apple .zip = false ∧
        unmapArchivePath e.name strip f = .ok (some kv.1) ∧ kv.2 = e.content) ∧
    (∀ e ∈ es, nameRejected e.name = false) := by
  have hw := extract_written_sound .zip strip f 0 es []
  unfold unzip at h
  rw [h] at hw
  have h2 : ∀ kv ∈ m, ∃ e ∈ es, e.ekind = .reg ∧ e.apple .zip = false ∧
      unmapArchivePath e.name strip f = .ok (some kv.1) ∧ kv.2 = e.content := by
    intro kv hkv
    rcases hw kv hkv with hin | hex
    · cases hin
    · exact hex
  refine ⟨?_, h2, ?_⟩
  · intro kv hkv
    obtain ⟨e, _, _, _, hu, _⟩ := h2 kv hkv
    obtain ⟨_, k, _, _, hk, hne, hp, _⟩ := unmapArchivePath_sound e.name strip f kv.1 hu
    exact ⟨k, hk, hne, hp⟩
  · intro e he
    cases hr : nameRejected e.name with
    | false => rfl
    | true =>
      obtain ⟨er, herr⟩ := unzip_escaping_entry_rejected es strip f 0 [] e he hr
      rw [h] at herr; cases herr

/-- Links and special files are never materialised: an entry the reader does not classify regular
    (tar: symlink, char/block device, directory, fifo typeflags, or dir/fifo/symlink/device/socket
    bits in the mode field; zip: directory / symlink / fifo / socket / device attributes or a name
    ending in '/') leaves the destination exactly as it was — or aborts the extraction.  (The
    destination model holds path ↦ bytes objects only: there is no object kind a link could have.) -/
theorem extract_never_materialises_links (fmt : Fmt) (strip : Nat) (f : Str → Bool) (mx : Nat) (m m' : Mem)
    (e : RawEntry) (hk : e.ekind ≠ .reg) (h : extractEntry fmt strip f mx m e.toEntry = .ok m') : m' = m := by
  rcases extractEntry_writes fmt strip f mx m m' e.toEntry h with rfl | ⟨hr, _⟩
  · rfl
  · exact absurd (of_decide_eq_true hr) hk

/-- which reader-level kinds are NOT regular, whatever the other header field says -/
theorem nonregular_kinds (mb : ModeBits) (t : TarType) (name : Str) :
    tarEKind .symlink mb ≠ .reg ∧ tarEKind .dir mb ≠ .reg ∧ tarEKind .fifo mb ≠ .reg ∧
    tarEKind .char mb ≠ .reg ∧ tarEKind .block mb ≠ .reg ∧
    tarEKind t .lnk ≠ .reg ∧ tarEKind t .dir ≠ .reg ∧ tarEKind t .fifo ≠ .reg ∧
    zipEKind .symlink name ≠ .reg ∧ zipEKind .unixDir name ≠ .reg ∧ zipEKind .dosDir name ≠ .reg ∧
    zipEKind .fifo name ≠ .reg ∧ zipEKind .blockDev name ≠ .reg ∧ zipEKind .charDev name ≠ .reg ∧
    zipEKind .socket name ≠ .reg := by
  refine ⟨?_, ?_, ?_, ?_, ?_, ?_, ?_, ?_, ?_, ?_, ?_, ?_, ?_, ?_, ?_⟩ <;>
    first
      | (cases mb <;> decide)
      | (cases t <;> decide)
      | (unfold zipEKind; cases endsWithSlash name <;> decide)

/-- a zip entry whose name ends in '/' is a directory whatever its attributes say -/
theorem zip_trailing_slash_not_regular (z : ZipMode) (name : Str) (h : endsWithSlash name = true) :
    zipEKind z name = .dir := by
  unfold zipEKind; simp [h]

/-- Nothing reads the link name: rewriting every link name of the archive in any way changes
    neither the outcome nor the destination.  (As coded a HARD LINK entry — typeflag '1', which
    the reader classifies regular — produces an EMPTY object under the entry's OWN validated
    name; its link name, however hostile, is not consulted.) -/
theorem extract_ignores_linkname (fmt : Fmt) (strip : Nat) (f : Str → Bool) (mx : Nat) (es : List RawEntry)
    (m : Mem) (l : RawEntry → Str) :
    extractRaw fmt strip f mx (es.map fun e => { e with linkname := l e }) m = extractRaw fmt strip f mx es m := by
  unfold extractRaw
  rw [List.map_map]
  rfl

/-- Benign regular entries ARE written: when the extraction succeeds, every regular,
    non-AppleDouble entry that `unmapArchivePath` maps to a path has an object under that path. -/
theorem extract_regular_written (fmt : Fmt) (strip : Nat) (f : Str → Bool) (mx : Nat) (es : List RawEntry) (m : Mem)
    (hok : (extractRaw fmt strip f mx es m).1 = none)
    (e : RawEntry) (he : e ∈ es) (hr : e.ekind = .reg) (ha : e.apple fmt = false)
    (p : Str) (hu : unmapArchivePath e.name strip f = .ok (some p)) :
    p ∈ (extractRaw fmt strip f mx es m).2.keys :=
  extractInto_regular_written fmt strip f mx _ m hok e.toEntry (List.mem_map.mpr ⟨e, he, rfl⟩)
    (by simp [Entry.isRegular, RawEntry.toEntry, hr]) ha p hu

-- non-vacuity and the as-coded quirks, on concrete archives
def exDirEsc : RawEntry := { kind := .tar .dir .none, name := "../evil/".toList, linkname := [], content := "" }
def exSymEsc : RawEntry := { kind := .tar .symlink .none, name := "a/../../l".toList, linkname := "/etc/passwd".toList, content := "" }
def exSymOk : RawEntry := { kind := .tar .symlink .none, name := "top/l".toList, linkname := "../../etc/passwd".toList, content := "" }
def exHard : RawEntry := { kind := .tar .link .none, name := "top/h".toList, linkname := "../outside.txt".toList, content := "" }
def exReg : RawEntry := { kind := .tar .reg .none, name := "top/./a//x".toList, linkname := [], content := "A" }
def exZipDirEsc : RawEntry := { kind := .zip .plain, name := "/abs/d/".toList, linkname := [], content := "" }
def exZipApple : RawEntry := { kind := .zip .plain, name := "../._evil.proto".toList, linkname := [], content := "E" }
def exTarApple : RawEntry := { kind := .tar .reg .none, name := "../._evil.proto".toList, linkname := [], content := "E" }
def allP : Str → Bool := fun _ => true

example : untar [exReg, exSymOk, exHard] 1 allP 0 = (none, [("h".toList, ""), ("a/x".toList, "A")]) := by decide
example : untar [exReg, exDirEsc] 0 allP 0 = (some .outsideContext, [("top/a/x".toList, "A")]) := by decide
example : untar [exSymEsc, exReg] 2 allP 0 = (some .outsideContext, []) := by decide
example : unzip [exZipDirEsc] 3 allP = (some .notRelative, []) := by decide
example : unzip [exZipApple] 0 allP = (some .outsideContext, []) := by decide
example : nameRejected exDirEsc.name = true ∧ exDirEsc.apple .tar = false := by decide

/-- Seed C13-m8 (kind / AppleDouble filter hoisted in front of the name check), tar: an escaping
    DIRECTORY or SYMLINK entry is skipped silently and the extraction succeeds, where the code as
    it stands fails. -/
theorem hoisted_untar_counterexample :
    extractHoisted .tar 0 allP 0 [exDirEsc, exSymEsc, exReg] [] = (none, [("top/a/x".toList, "A")]) ∧
    (untar [exDirEsc, exSymEsc, exReg] 0 allP 0).1 = some .outsideContext := by decide

/-- Seed C13-m8, zip: an absolute directory name and an escaping "._" name are skipped silently. -/
theorem hoisted_unzip_counterexample :
    extractHoisted .zip 0 allP 0 [exZipDirEsc, exZipApple] [] = (none, []) ∧
    (unzip [exZipDirEsc, exZipApple] 0 allP).1 = some .notRelative ∧
    (unzip [exZipApple] 0 allP).1 = some .outsideContext := by decide

/-- Before the fix, Untar (not Unzip) dropped an AppleDouble-named entry BEFORE looking at its name:
    an escaping "../._x" tar entry was skipped silently instead of being rejected (nothing was
    written).  `extractHoisted` has that order for the AppleDouble test; the code as it stands
    rejects the archive. -/
theorem untar_apple_before_name_check_counterexample :
    extractHoisted .tar 0 allP 0 [exTarApple] [] = (none, []) ∧
    untar [exTarApple] 0 allP 0 = (some .outsideContext, []) ∧ nameRejected exTarApple.name = true := by decide

-- an AppleDouble-named entry with a PROPER name is still skipped, not written and not an error
example : untar [{ kind := .tar .reg .none, name := "a/._x".toList, linkname := [], content := "E" }, exReg] 0 allP 0 =
    (none, [("top/a/x".toList, "A")]) := by decide

/-! ### The bufcas gate (module file paths): `validateFileNodeParameters`

`bufcas.NewFileNode`, `ParseFileNode` and through it `ParseManifest` / `BlobToManifest` /
`NewFileSetForBucket` all pass every path through one gate (`BufModel.FileNodeGate.fileNodeGate`:
non-empty ∧ `NormalizeAndValidate p = p` ∧ no line feed).  The theorems below put the gate under
the exact-shape theorems above: what it accepts is exactly the canonical rendering of a key of
proper names (as coded this includes "." — the empty key — which names the root itself and does
not leave it), so nothing that is absolute, is "..", starts with "../", or is not in normal form
can be the path of a file node or occur on any line of a manifest. -/

section BufcasGate
open BufModel.FileNodeGate BufModel.Manifest

/-- The gate accepts exactly the canonical renderings of keys of proper names without a line
    feed: relative, every component proper, and the string IS its own rendering. -/
theorem fileNode_gate_accepts_iff_shape (p : Str) :
    fileNodeGate p = true ↔ ∃ k : Key, AllProper k ∧ p = renderKey k ∧ '\n' ∉ p := by
  constructor
  · intro h
    simp only [fileNodeGate, Bool.and_eq_true, decide_eq_true_eq, Bool.not_eq_true',
      decide_eq_false_iff_not] at h
    obtain ⟨⟨_, hv⟩, hl⟩ := h
    obtain ⟨k, hk, hp⟩ := validate_sound p p hv
    exact ⟨k, hk, hp, hl⟩
  · rintro ⟨k, hk, rfl, hl⟩
    simp only [fileNodeGate, Bool.and_eq_true, decide_eq_true_eq, Bool.not_eq_true',
      decide_eq_false_iff_not]
    exact ⟨⟨renderKey_ne_nil hk, validate_renderKey hk⟩, hl⟩

/-- The same in the vocabulary of `accepted_iff_shape`: accepted ⇔ non-empty, relative, nothing
    but proper names survives the lexical reduction, the path is already in cleaned form, no LF. -/
theorem fileNode_gate_accepts_iff_reduce (p : Str) :
    fileNodeGate p = true ↔
      (p ≠ [] ∧ isAbs p = false ∧ AllProper (reduce false (splitSlash p)) ∧ clean p = p ∧ '\n' ∉ p) := by
  constructor
  · intro h
    simp only [fileNodeGate, Bool.and_eq_true, decide_eq_true_eq, Bool.not_eq_true',
      decide_eq_false_iff_not] at h
    obtain ⟨⟨hne, hv⟩, hl⟩ := h
    obtain ⟨ha, hp⟩ := (accepted_iff_shape p).mp ⟨p, hv⟩
    refine ⟨hne, ha, hp, ?_, hl⟩
    unfold normalizeAndValidate at hv
    simp only at hv
    split at hv
    · cases hv
    · split at hv
      · cases hv
      · exact Except.ok.inj hv
  · rintro ⟨hne, ha, hp, hc, hl⟩
    obtain ⟨q, hq⟩ := (accepted_iff_shape p).mpr ⟨ha, hp⟩
    have hqp : q = p := by
      unfold normalizeAndValidate at hq
      simp only at hq
      split at hq
      · cases hq
      · split at hq
        · cases hq
        · rw [← Except.ok.inj hq, hc]
    subst hqp
    simp only [fileNodeGate, Bool.and_eq_true, decide_eq_true_eq, Bool.not_eq_true',
      decide_eq_false_iff_not]
    exact ⟨⟨hne, hq⟩, hl⟩

/-- Every name that would leave the root — its cleaned form is absolute, is "..", or starts with
    "../" — is refused by the gate, whatever its spelling. -/
theorem fileNode_gate_rejects_escaping (p : Str)
    (h : isAbs (clean p) = true ∨ clean p = dotdot ∨ jumpPrefix.isPrefixOf (clean p) = true) :
    fileNodeGate p = false := by
  obtain ⟨e, he⟩ := (rejected_iff p).mpr h
  simp [fileNodeGate, he]

/-- A spelling that is not its own normal form ("a//b", "./a", "a/../b", "a/") is refused. -/
theorem fileNode_gate_rejects_unnormalized (p : Str) (h : clean p ≠ p) : fileNodeGate p = false := by
  cases hg : fileNodeGate p with
  | false => rfl
  | true => exact absurd ((fileNode_gate_accepts_iff_reduce p).mp hg).2.2.2.1 h

/-- The gate predicate is the verdict of the as-coded check sequence, and of C08's model of the
    same function (so `newFileNode` / `parseFileNode` / `parseManifest` of `BufModel.Manifest`
    are behind this gate). -/
theorem fileNode_gate_is_validateFileNodeParameters (p : Str) :
    (fileNodeGate p = true ↔ fileNodeGateE p = .ok ()) ∧
    (fileNodeGate p = true ↔ validateNodePath p = .ok ()) :=
  ⟨fileNodeGate_iff_gateE p, fileNodeGate_iff_validateNodePath p⟩

/-- `NewFileNode` and `ParseFileNode` (of a well-formed `digest[SP][SP]path` text) succeed
    exactly when the gate accepts the path, and then carry the path unchanged. -/
theorem newFileNode_parseFileNode_gate (p : Str) (d : Digest) :
    (fileNodeGate p = true → newFileNode p d = .ok ⟨p, d⟩ ∧ parseFileNode (nodeLine (d, p)) = .ok ⟨p, d⟩) ∧
    (fileNodeGate p = false → (∃ e, newFileNode p d = .error e) ∧ (∃ e, parseFileNode (nodeLine (d, p)) = .error e)) := by
  constructor
  · intro h
    have h1 := newFileNode_ok d ((fileNodeGate_iff_validateNodePath p).mp h)
    exact ⟨h1, by rw [parseFileNode_nodeLine]; exact h1⟩
  · intro h
    have h2 := parseFileNode_nodeLine_error (x := (d, p)) h
    refine ⟨?_, h2⟩
    rw [parseFileNode_nodeLine] at h2
    exact h2

/-- A manifest text with ONE line whose path the gate refuses — at any position among any other
    lines, whatever those say — is refused by `ParseManifest`. -/
theorem manifest_gate_rejects_escaping_at_any_position (pre post : List (Digest × Str)) (d : Digest) (p : Str)
    (hnl : ∀ x ∈ pre ++ (d, p) :: post, '\n' ∉ x.2) (h : fileNodeGate p = false) :
    ∃ e, parseManifest (linesText (pre ++ (d, p) :: post)) = .error e := by
  rw [parseManifest_linesText _ (by simp) hnl]
  obtain ⟨e, he⟩ := parseLines_nodeLines_error (pre ++ (d, p) :: post) ⟨(d, p), by simp, h⟩
  exact ⟨e, by rw [he]⟩

/-- `ParseManifest` of well-formed lines succeeds exactly when every path passes the gate and no
    path occurs twice; in particular a parsed manifest never holds an escaping path. -/
theorem manifest_gate_accepts_iff (ls : List (Digest × Str)) (hne : ls ≠ [])
    (hnl : ∀ x ∈ ls, '\n' ∉ x.2) :
    (∃ m, parseManifest (linesText ls) = .ok m) ↔ manifestPathsGate (ls.map (·.2)) = true := by
  rw [parseManifest_linesText ls hne hnl]
  simp only [manifestPathsGate, Bool.and_eq_true, List.all_eq_true, decide_eq_true_eq, List.mem_map,
    forall_exists_index, and_imp, forall_apply_eq_imp_iff₂]
  by_cases hall : ∀ x ∈ ls, fileNodeGate x.2 = true
  · rw [parseLines_nodeLines_ok ls hall]
    simp only
    constructor
    · rintro ⟨m, hm⟩
      have := (newManifest_eq_ok hm).1
      rw [map_path_lineNode] at this
      exact ⟨hall, this⟩
    · rintro ⟨_, hnd⟩
      exact ⟨_, newManifest_of_nodup _ (by rw [map_path_lineNode]; exact hnd)⟩
  · have hex : ∃ x ∈ ls, fileNodeGate x.2 = false := by
      apply Classical.byContradiction
      intro hno
      apply hall
      intro x hx
      cases hg : fileNodeGate x.2 with
      | true => rfl
      | false => exact absurd ⟨x, hx, hg⟩ hno
    obtain ⟨e, he⟩ := parseLines_nodeLines_error ls hex
    rw [he]
    constructor
    · rintro ⟨m, hm⟩; cases hm
    · rintro ⟨h, _⟩; exact absurd h hall

/-- Every path of a successfully parsed manifest is the rendering of a key of proper names. -/
theorem parsed_manifest_paths_proper (ls : List (Digest × Str)) (hne : ls ≠ [])
    (hnl : ∀ x ∈ ls, '\n' ∉ x.2) (m : Manifest) (h : parseManifest (linesText ls) = .ok m) :
    ∀ x ∈ ls, ∃ k : Key, AllProper k ∧ x.2 = renderKey k := by
  have hg := (manifest_gate_accepts_iff ls hne hnl).mp ⟨m, h⟩
  simp only [manifestPathsGate, Bool.and_eq_true, List.all_eq_true, List.mem_map,
    forall_exists_index, and_imp, forall_apply_eq_imp_iff₂] at hg
  intro x hx
  obtain ⟨k, hk, hp, _⟩ := (fileNode_gate_accepts_iff_shape x.2).mp (hg.1 x hx)
  exact ⟨k, hk, hp⟩

-- non-vacuity and the as-coded corner cases
example : fileNodeGate "a/b.proto".toList = true := by decide
example : fileNodeGate "..a/b..".toList = true := by decide
example : fileNodeGate "a\\..\\b".toList = true := by decide      -- '\\' is a name character on unix
example : fileNodeGate ".".toList = true := by decide               -- as coded: the root itself passes the gate
example : fileNodeGate "".toList = false := by decide
example : fileNodeGate "a//b".toList = false ∧ fileNodeGate "./a".toList = false ∧ fileNodeGate "a/".toList = false := by decide
example : fileNodeGate "a/../../x".toList = false ∧ fileNodeGate "a\nb".toList = false := by decide
example : fileNodeGateE "/etc/passwd".toList = .error (.invalid .notRelative) := by decide
example : fileNodeGateE "../x.proto".toList = .error (.invalid .outsideContext) := by decide
example : fileNodeGateE "a/./b".toList = .error .notNormal := by decide

/-- Seed C13-m10: the gate "simplified" to `Normalize` + equality accepts every name that is
    already in cleaned form and STILL leaves the root; the gate as coded refuses them. -/
theorem normalize_only_gate_counterexample :
    (normalizeOnlyGate "..".toList = true ∧ fileNodeGate "..".toList = false) ∧
    (normalizeOnlyGate "../x.proto".toList = true ∧ fileNodeGate "../x.proto".toList = false) ∧
    (normalizeOnlyGate "../../etc/passwd".toList = true ∧ fileNodeGate "../../etc/passwd".toList = false) ∧
    (normalizeOnlyGate "/etc/passwd".toList = true ∧ fileNodeGate "/etc/passwd".toList = false) ∧
    -- ... while every unnormalised spelling is still refused by both, which is why it went unnoticed
    (normalizeOnlyGate "a/../../x".toList = false ∧ normalizeOnlyGate "./../x".toList = false) := by decide

/-- A sibling mutation: a gate that keeps the ".." tests and forgets only the absolute-path test. -/
theorem no_abs_test_gate_counterexample :
    noAbsTestGate "/etc/passwd".toList = true ∧ noAbsTestGate "/".toList = true ∧
    noAbsTestGate "../x".toList = false ∧ fileNodeGate "/etc/passwd".toList = false ∧ fileNodeGate "/".toList = false := by decide

end BufcasGate

end BufProofs.C13
