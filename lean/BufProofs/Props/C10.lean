import BufProofs.Lemmas.DepsLemmas
import BufProofs.Lemmas.LockLemmas
import BufProofs.Lemmas.BuildImageLemmas
/-
  C10 — Workspace dependency resolution is exact and ambiguity is an error.
  Property theorems over BufModel.Graph.  Proved here: the selection clauses (target over
  non-target, local over remote), the ambiguity clauses (an import nobody provides that is not a
  well-known type, or one provided twice, makes ModuleDeps fail), the exactness of
  `moduleDeps` = getModuleDeps/getModuleDepsRec as coded — `deps_sound` (a successful call lists
  exactly reach⁺ r, sorted, direct = first hop, and r is on no cycle; no hypothesis), `deps_exact`
  (it succeeds whenever everything reachable resolves and r is on no cycle), `cycle_iff` (the
  cycle error ⇔ r ∈ reach⁺ r; a module that merely reaches a cycle does not report it),
  `deps_error_sound` (no spurious error), `fuel_suffices` — the same for ModuleSetToDAG
  (`dag_error_iff`, `dag_reports_reachable_cycle`, `dag_fuel_suffices`), and the recorded pre-fix
  commit-tie counterexample.
  The invariant behind the exactness theorems is `DPost` / `deps_post` in Lemmas/DepsLemmas.lean.

  Second pass (answers handoff/AUDIT.md §C10):
  * `lsfiles_eq_build` now relates `Graph.lsFiles` (what Driver/C10 runs) and
    `Targeting.buildImage` (what Driver/C01 runs) — paths and import flags — under the hypothesis
    that the compiler's import lists agree as sets with the scanned ones; `lsfiles_closure_exact`
    is about `lsFiles` itself (sorted, duplicate-free, exactly the closure of the target files,
    flags); `lsfiles_fuel_suffices`; the generic DFS fact is kept as `dfs_closure_exact`;
  * `nontarget_files_are_imports` (files of non-target modules enter images only as imports);
  * `local_over_remote` with the weak hypothesis; the selection clauses restated for
    `uniqueAdded` (what the driver runs): `unique_added_exact`, `unique_added_sorted`,
    `unique_added_target_over_nontarget`, `unique_added_local_over_remote`;
  * duplicate paths nobody imports: `lsfiles_dup_path_error`, `deps_dup_among_error`.
-/
namespace BufProofs.C10
open BufModel.Path BufModel.Graph BufModel.Targeting

/-! ### selection among the modules added for one OpaqueID -/

theorem selectIgnoreTargeting_local (as : List Added) (a : Added)
    (h : selectIgnoreTargeting as = some a) (hl : ∃ x ∈ as, x.isLocal = true) : a.isLocal = true := by
  unfold selectIgnoreTargeting at h
  split at h
  · rename_i hnil
    obtain ⟨x, hx, hxl⟩ := hl
    have : x ∈ as.filter (·.isLocal) := List.mem_filter.mpr ⟨hx, hxl⟩
    rw [hnil] at this; simp at this
  · rename_i l rest heq
    injection h with h; subst h
    have : l ∈ as.filter (·.isLocal) := by rw [heq]; exact List.mem_cons_self
    exact (List.mem_filter.mp this).2

theorem selectIgnoreTargeting_mem (ts : List Added) : ∀ b, selectIgnoreTargeting ts = some b → b ∈ ts := by
  intro b hb
  unfold selectIgnoreTargeting at hb
  split at hb
  · unfold selectRemote at hb
    split at hb
    · exact absurd hb (by simp)
    · injection hb with hb; subst hb; exact List.mem_cons_self
    · split at hb
      · exact absurd hb (by simp)
      · rename_i u us hsort
        injection hb with hb
        have hnew : ∀ (best : Added) (l : List Added), newest best l = best ∨ newest best l ∈ l := by
          intro best l
          induction l generalizing best with
          | nil => exact Or.inl rfl
          | cons y ys ih =>
            simp only [newest]
            split
            · rcases ih y with h | h
              · exact Or.inr (by rw [h]; exact List.mem_cons_self)
              · exact Or.inr (List.mem_cons_of_mem _ h)
            · rcases ih best with h | h
              · exact Or.inl h
              · exact Or.inr (List.mem_cons_of_mem _ h)
        have hfp : ∀ (l : List Added) seen, ∀ z ∈ firstPerCommit l seen, z ∈ l := by
          intro l
          induction l with
          | nil => intro seen z hz; simp [firstPerCommit] at hz
          | cons y ys ih =>
            intro seen z hz
            simp only [firstPerCommit] at hz
            split at hz
            · exact List.mem_cons_of_mem _ (ih _ z hz)
            · rcases List.mem_cons.mp hz with h | h
              · subst h; exact List.mem_cons_self
              · exact List.mem_cons_of_mem _ (ih _ z h)
        have hsortmem : ∀ (l : List Added) z, z ∈ sortBy commitLe l → z ∈ l := by
          intro l
          induction l with
          | nil => intro z hz; simp [sortBy] at hz
          | cons y ys ih =>
            intro z hz
            simp only [sortBy] at hz
            have hins : ∀ (l' : List Added) w, w ∈ insertBy commitLe y l' → w = y ∨ w ∈ l' := by
              intro l'
              induction l' with
              | nil => intro w hw; simp [insertBy] at hw; exact Or.inl hw
              | cons v vs ihv =>
                intro w hw
                simp only [insertBy] at hw
                split at hw
                · rcases List.mem_cons.mp hw with h | h
                  · exact Or.inr (by rw [h]; exact List.mem_cons_self)
                  · rcases ihv w h with h | h
                    · exact Or.inl h
                    · exact Or.inr (List.mem_cons_of_mem _ h)
                · rcases List.mem_cons.mp hw with h | h
                  · exact Or.inl h
                  · exact Or.inr h
            rcases hins _ z hz with h | h
            · subst h; exact List.mem_cons_self
            · exact List.mem_cons_of_mem _ (ih z h)
        have hin : b ∈ sortBy commitLe (firstPerCommit ts []) := by
          rw [hsort, ← hb]
          rcases hnew u us with h | h
          · rw [h]; exact List.mem_cons_self
          · exact List.mem_cons_of_mem _ h
        exact hfp ts [] b (hsortmem _ b hin)
  · rename_i l rest heq
    injection hb with hb; subst hb
    have : l ∈ ts.filter (·.isLocal) := by rw [heq]; exact List.mem_cons_self
    exact (List.mem_filter.mp this).1

/-- a targeted added module wins over non-targeted ones of the same OpaqueID. -/
theorem target_over_nontarget (as : List Added) (a : Added)
    (h : selectAdded as = some a) (ht : ∃ x ∈ as, x.isTarget = true) : a.isTarget = true := by
  unfold selectAdded at h
  split at h
  next hnil =>
    obtain ⟨x, hx, hxt⟩ := ht
    have : x ∈ as.filter (·.isTarget) := List.mem_filter.mpr ⟨hx, hxt⟩
    rw [hnil] at this; simp at this
  next t heq =>
    injection h with h; subst h
    have : t ∈ as.filter (·.isTarget) := by rw [heq]; exact List.mem_cons_self
    exact (List.mem_filter.mp this).2
  next =>
    have hmem := selectIgnoreTargeting_mem _ a h
    exact (List.mem_filter.mp hmem).2

/-- a module present locally takes precedence over a same-named pinned (remote) one — whenever
    targeting does not already decide against it: no added module of the OpaqueID is targeted, or
    a local one is among the targeted ones (this includes the commonest case: ONE targeted local
    module shadowing an untargeted pin).  What is excluded, as coded ("target > local"): the only
    targeted added modules are remote while a local one is untargeted — see
    `target_remote_beats_local_counterexample`. -/
theorem local_over_remote (as : List Added) (a : Added) (h : selectAdded as = some a)
    (hl : ((∀ x ∈ as, x.isTarget = false) ∧ ∃ x ∈ as, x.isLocal = true) ∨
          (∃ x ∈ as, x.isTarget = true ∧ x.isLocal = true)) :
    a.isLocal = true := by
  unfold selectAdded at h
  split at h
  next hnil =>
    rcases hl with ⟨_, hloc⟩ | ⟨x, hx, hxt, _⟩
    · exact selectIgnoreTargeting_local as a h hloc
    · have : x ∈ as.filter (·.isTarget) := List.mem_filter.mpr ⟨hx, hxt⟩
      rw [hnil] at this; simp at this
  next t heq =>
    injection h with h; subst h
    have ht : t ∈ as.filter (·.isTarget) := by rw [heq]; exact List.mem_cons_self
    rcases hl with ⟨hnt, _⟩ | ⟨x, hx, hxt, hxl⟩
    · have h1 := (List.mem_filter.mp ht)
      have h2 := hnt t h1.1
      rw [h2] at h1; simp at h1
    · -- the single targeted module is `x`
      have hxm : x ∈ as.filter (·.isTarget) := List.mem_filter.mpr ⟨hx, hxt⟩
      rw [heq] at hxm
      simp only [List.mem_singleton] at hxm
      rw [← hxm]; exact hxl
  next hne _ =>
    rcases hl with ⟨hnt, _⟩ | ⟨x, hx, hxt, hxl⟩
    · exfalso
      apply hne
      apply List.filter_eq_nil_iff.mpr
      intro y hy
      rw [hnt y hy]; simp
    · apply selectIgnoreTargeting_local _ a h
      exact ⟨x, List.mem_filter.mpr ⟨hx, hxt⟩, hxl⟩

/-- "target > local", as coded: when the only targeted added module of an OpaqueID is remote, it is
    selected although a local module of that OpaqueID was added (untargeted). -/
theorem target_remote_beats_local_counterexample :
    selectAdded [{ oid := 0, isLocal := true, isTarget := false, commit := 0, ctime := 0, files := [] },
                 { oid := 0, isLocal := false, isTarget := true, commit := 1, ctime := 1, files := [] }] =
      some { oid := 0, isLocal := false, isTarget := true, commit := 1, ctime := 1, files := [] } := by decide

/-! ### ambiguity is an error -/

/-- If the import scan of a module succeeds, none of its imports is provided by two modules and
    every import nobody provides is a well-known type. -/
theorem scan_ok_imports (ws : WS) (self : Nat) (isDirect : Bool) :
    ∀ (imps : List Str) (d : DepMap) (nw : List Nat) (r : DepMap × List Nat),
      scanImports ws self isDirect imps d nw = .ok r →
      ∀ p ∈ imps, owner ws p ≠ .dup ∧ (owner ws p = .none → isWkt ws p = true) := by
  intro imps
  induction imps with
  | nil => intro d nw r _ p hp; simp at hp
  | cons q qs ih =>
    intro d nw r h p hp
    simp only [scanImports] at h
    split at h
    · rename_i hown
      split at h
      · rename_i hw
        rcases List.mem_cons.mp hp with rfl | hp'
        · exact ⟨by rw [hown]; simp, fun _ => hw⟩
        · exact ih _ _ _ h p hp'
      · exact absurd h (by simp)
    · exact absurd h (by simp)
    · rename_i m hown
      have hq : owner ws q ≠ .dup ∧ (owner ws q = .none → isWkt ws q = true) :=
        ⟨by rw [hown]; simp, fun hh => by rw [hown] at hh; simp at hh⟩
      split at h
      · rcases List.mem_cons.mp hp with rfl | hp'
        · exact hq
        · exact ih _ _ _ h p hp'
      · split at h
        · rcases List.mem_cons.mp hp with rfl | hp'
          · exact hq
          · exact ih _ _ _ h p hp'
        · rcases List.mem_cons.mp hp with rfl | hp'
          · exact hq
          · exact ih _ _ _ h p hp'

/-- inversion of a successful `ModuleDeps()` call: the module's own import scan succeeded. -/
theorem moduleDeps_ok_scan (ws : WS) (r : Nat) (ds : DepMap) (h : moduleDeps ws r = .ok ds) :
    ∃ res, scanImports ws r true (allImports ws r) [] [] = .ok res ∧ (modFiles ws r).isEmpty = false := by
  unfold moduleDeps at h
  split at h
  · exact absurd h (by simp)
  · rename_i vis d hrec
    simp only [depsRec, List.not_mem_nil, ↓reduceIte] at hrec
    split at hrec
    · exact absurd hrec (by simp)
    · rename_i d' nw hscan
      split at hrec
      · exact absurd hrec (by simp)
      · rename_i hne
        exact ⟨(d', nw), hscan, by simpa using hne⟩

/-- a path provided by two modules, imported by the module, is reported as an error. -/
theorem dup_path_error (ws : WS) (r : Nat) (p : Str) (hp : p ∈ allImports ws r) (hd : owner ws p = .dup) :
    ∃ e, moduleDeps ws r = .error e := by
  cases hm : moduleDeps ws r with
  | error e => exact ⟨e, rfl⟩
  | ok ds =>
    obtain ⟨res, hscan, _⟩ := moduleDeps_ok_scan ws r ds hm
    exact absurd hd (scan_ok_imports ws r true _ _ _ _ hscan p hp).1

/-- an import no module provides is reported as an error — unless it is a well-known type. -/
theorem import_not_exist_error (ws : WS) (r : Nat) (p : Str) (hp : p ∈ allImports ws r)
    (hn : owner ws p = .none) (hw : isWkt ws p = false) : ∃ e, moduleDeps ws r = .error e := by
  cases hm : moduleDeps ws r with
  | error e => exact ⟨e, rfl⟩
  | ok ds =>
    obtain ⟨res, hscan, _⟩ := moduleDeps_ok_scan ws r ds hm
    have := (scan_ok_imports ws r true _ _ _ _ hscan p hp).2 hn
    rw [hw] at this; exact absurd this (by simp)

/-- a module without .proto files is an error, not an empty dependency list. -/
theorem no_proto_files_error (ws : WS) (r : Nat) (he : (modFiles ws r).isEmpty = true) :
    ∃ e, moduleDeps ws r = .error e := by
  cases hm : moduleDeps ws r with
  | error e => exact ⟨e, rfl⟩
  | ok ds =>
    obtain ⟨_, _, hne⟩ := moduleDeps_ok_scan ws r ds hm
    rw [he] at hne; exact absurd hne (by simp)

/-! ### exactness of `ModuleDeps()` (getModuleDeps / getModuleDepsRec as coded)

  The module graph is `msucc ws m` = the owners, other than `m`, of the imports of the files of
  `m`; `Reach` / `ReachPlus` are zero-or-more / one-or-more hops along it. `Good ws r` says that
  everything reachable from `r` resolves: every import has exactly one provider (or none and is a
  well-known type), every reachable module has a .proto file, no two reachable modules share a
  file path. -/

/-- Soundness of a successful `ModuleDeps()` call, for EVERY module set (no hypothesis):
    if `moduleDeps ws r = ok ds` then `r` lies on no cycle, the ids of `ds` are exactly the
    modules reachable from `r` in one or more import hops, listed in strictly increasing order,
    and an entry is flagged direct iff its module is a first-hop successor of `r`. -/
theorem deps_sound (ws : WS) (r : Nat) (ds : DepMap) (h : moduleDeps ws r = .ok ds) :
    ¬ ReachPlus (msuccO ws) r r ∧
    (∀ x, x ∈ DepMap.keys ds ↔ ReachPlus (msuccO ws) r x) ∧
    (DepMap.keys ds).Pairwise (· < ·) ∧
    (∀ x b, (x, b) ∈ ds → (b = true ↔ x ∈ msucc ws r)) := by
  obtain ⟨h1, h2, h3, h4, _⟩ := moduleDeps_ok h
  exact ⟨h1, h2, h3, fun x b hxb => h4 (x, b) hxb⟩

/-- Exactness: if everything reachable from `r` resolves (`Good`) and `r` itself lies on no cycle
    (cycles elsewhere — even reachable ones — are allowed: that is what the code does), then
    `ModuleDeps()` succeeds, its ids are the strictly increasing list of reach⁺(r) \ {r}, and a
    dep is flagged direct iff it is a first-hop successor of `r`. -/
theorem deps_exact (ws : WS) (r : Nat) (hg : Good ws r) (hn : ¬ ReachPlus (msuccO ws) r r) :
    ∃ ds, moduleDeps ws r = .ok ds ∧
      (DepMap.keys ds).Pairwise (· < ·) ∧
      (∀ x, x ∈ DepMap.keys ds ↔ (ReachPlus (msuccO ws) r x ∧ x ≠ r)) ∧
      (∀ x b, (x, b) ∈ ds → (b = true ↔ x ∈ msucc ws r)) := by
  cases hm : moduleDeps ws r with
  | error e => exact absurd (moduleDeps_error_good hg hm).2 hn
  | ok ds =>
    obtain ⟨_, h2, h3, h4⟩ := deps_sound ws r ds hm
    refine ⟨ds, rfl, h3, fun x => ?_, h4⟩
    rw [h2]
    exact ⟨fun hx => ⟨hx, fun hh => hn (hh ▸ hx)⟩, fun hx => hx.1⟩

/-- "the ids are exactly THE sorted set": any strictly increasing list with the members
    reach⁺(r) \ {r} is the id list `ModuleDeps()` returns. -/
theorem deps_exact_unique (ws : WS) (r : Nat) (hg : Good ws r) (hn : ¬ ReachPlus (msuccO ws) r r)
    (spec : List Nat) (hs : spec.Pairwise (· < ·))
    (hm : ∀ x, x ∈ spec ↔ (ReachPlus (msuccO ws) r x ∧ x ≠ r)) :
    ∃ ds, moduleDeps ws r = .ok ds ∧ DepMap.keys ds = spec := by
  obtain ⟨ds, h1, h2, h3, _⟩ := deps_exact ws r hg hn
  exact ⟨ds, h1, sorted_set_unique h2 hs (fun x => by rw [h3, hm])⟩

/-- The fuel the model passes to `depsRec` (number of modules + 1) is never exhausted, for every
    module set and every module (the parent stack is duplicate-free and holds real modules). -/
theorem fuel_suffices (ws : WS) (r : Nat) : moduleDeps ws r ≠ .error .fuel :=
  moduleDeps_ne_fuel ws r

/-- Errors are never spurious, for EVERY module set: a `cycle` error means `r` itself lies on a
    cycle; any other error is either a local error of some module reachable from `r` (an import
    provided twice / provided by nobody and not a well-known type / no .proto file), or the final
    duplicate-path check naming two distinct reachable modules with a common path. -/
theorem deps_error_sound (ws : WS) (r : Nat) (e : DErr) (h : moduleDeps ws r = .error e) :
    (e = .cycle ∧ ReachPlus (msuccO ws) r r) ∨
    (∃ x, Reach (msuccO ws) r x ∧ LocalErr ws x e) ∨
    (e = .dupPath ∧ ∃ x y, Reach (msuccO ws) r x ∧ Reach (msuccO ws) r y ∧ x ≠ y ∧
      ∃ f ∈ modFiles ws x, hasPath ws y f.path = true) :=
  moduleDeps_error h

/-- a reported module cycle is real and goes through the module asked (no hypothesis). -/
theorem cycle_only_if (ws : WS) (r : Nat) (h : moduleDeps ws r = .error .cycle) :
    ReachPlus (msuccO ws) r r := by
  rcases moduleDeps_error h with ⟨_, h⟩ | ⟨x, _, h⟩ | ⟨h, _⟩
  · exact h
  · exact absurd rfl h.ne_cycle
  · cases h

/-- The cycle error, as coded: when everything reachable from `r` resolves, `ModuleDeps()` of `r`
    reports a module cycle iff `r` itself lies on a cycle (`r ∈ reach⁺ r`).  A module that merely
    REACHES a cycle does not report it (see the example below: A → B → D → B, A → C → D);
    `ModuleSetToDAG` does (`dag_reports_reachable_cycle`). -/
theorem cycle_iff (ws : WS) (r : Nat) (hg : Good ws r) :
    moduleDeps ws r = .error .cycle ↔ ReachPlus (msuccO ws) r r := by
  constructor
  · exact cycle_only_if ws r
  · intro hc
    cases hm : moduleDeps ws r with
    | error e => rw [(moduleDeps_error_good hg hm).1]
    | ok ds => exact absurd hc (moduleDeps_ok hm).1

/-- without any hypothesis: a module on a cycle never gets a dependency list. -/
theorem cycle_never_ok (ws : WS) (r : Nat) (hc : ReachPlus (msuccO ws) r r) :
    ∃ e, moduleDeps ws r = .error e := by
  cases hm : moduleDeps ws r with
  | error e => exact ⟨e, rfl⟩
  | ok ds => exact absurd hc (moduleDeps_ok hm).1

/-! ### ModuleSetToDAG (moduleSetToDAGRec as coded: no visited set) -/

/-- The depth bound the model passes to `dagRec` (number of modules + 1) is never exhausted:
    a module occurring twice on a chain of direct deps lies on a cycle, and then its own
    `ModuleDeps()` already fails. -/
theorem dag_fuel_suffices (ws : WS) : toDAG ws ≠ .error .fuel := by
  intro h
  obtain ⟨_, _, x, _, hx⟩ := toDAG_error h
  exact fuel_suffices ws x hx

/-- For EVERY module set: `ModuleSetToDAG` fails iff `ModuleDeps()` fails for some module
    reachable from a target module, and the error it returns is the error of such a module. -/
theorem dag_error_iff (ws : WS) :
    ((∃ e, toDAG ws = .error e) ↔
      ∃ t ∈ targetMods ws, ∃ x, Reach (msuccO ws) t x ∧ ∃ e, moduleDeps ws x = .error e) ∧
    (∀ e, toDAG ws = .error e →
      ∃ t ∈ targetMods ws, ∃ x, Reach (msuccO ws) t x ∧ moduleDeps ws x = .error e) := by
  refine ⟨⟨?_, ?_⟩, fun e h => toDAG_error h⟩
  · rintro ⟨e, h⟩
    obtain ⟨t, ht, x, hx, hxe⟩ := toDAG_error h
    exact ⟨t, ht, x, hx, e, hxe⟩
  · rintro ⟨t, ht, x, hx, e, hxe⟩
    cases hd : toDAG ws with
    | error e' => exact ⟨e', rfl⟩
    | ok g =>
      obtain ⟨ds, hds⟩ := toDAG_ok hd t ht x hx
      rw [hds] at hxe; cases hxe

/-- When everything reachable from the target modules resolves, `ModuleSetToDAG` reports a module
    cycle iff some module reachable from a target module lies on a cycle — and that is the only
    error it can return. -/
theorem dag_reports_reachable_cycle (ws : WS) (hg : ∀ t ∈ targetMods ws, Good ws t) :
    (toDAG ws = .error .cycle ↔
      ∃ t ∈ targetMods ws, ∃ x, Reach (msuccO ws) t x ∧ ReachPlus (msuccO ws) x x) ∧
    (∀ e, toDAG ws = .error e → e = .cycle) := by
  have honly : ∀ e, toDAG ws = .error e → e = .cycle ∧
      ∃ t ∈ targetMods ws, ∃ x, Reach (msuccO ws) t x ∧ ReachPlus (msuccO ws) x x := by
    intro e h
    obtain ⟨t, ht, x, hx, hxe⟩ := toDAG_error h
    obtain ⟨he, hc⟩ := moduleDeps_error_good ((hg t ht).of_reach hx) hxe
    exact ⟨he, t, ht, x, hx, hc⟩
  refine ⟨⟨fun h => (honly _ h).2, ?_⟩, fun e h => (honly e h).1⟩
  rintro ⟨t, ht, x, hx, hc⟩
  cases hd : toDAG ws with
  | error e => rw [(honly e hd).1]
  | ok g =>
    obtain ⟨ds, hds⟩ := toDAG_ok hd t ht x hx
    exact absurd hc (moduleDeps_ok hds).1

/-! ### the ls-files closure -/

/-- GENERIC fact about the shared DFS (`dfsRoots_post` restated; any successor function): the
    visited set contains the roots, is closed, holds only nodes reachable from a root, and equals
    the output as a set.  `lsfiles_closure_exact` below is the statement about `lsFiles`. -/
theorem dfs_closure_exact {α : Type} [DecidableEq α] (succ : α → Option (List α)) (fuel : Nat)
    (roots vis out : List α) (h : dfsRoots succ fuel roots = .ok (vis, out)) :
    (∀ r ∈ roots, r ∈ vis) ∧
    (∀ x ∈ vis, ∃ cs, succ x = some cs ∧ ∀ c ∈ cs, c ∈ vis) ∧
    (∀ x ∈ vis, ∃ r ∈ roots, Reach succ r x) ∧
    (∀ x, x ∈ vis ↔ x ∈ out) := by
  obtain ⟨⟨new, e, m, _, _, rch, cl, _⟩, rts⟩ := dfsRoots_post _ _ _ _ _ h
  simp only [List.nil_append] at e
  subst e
  have hm : ∀ x, x ∈ vis ↔ x ∈ out := fun x => by rw [m]; simp
  exact ⟨rts, fun x hx => cl x ((hm x).mp hx), fun x hx => rch x ((hm x).mp hx), hm⟩

/-- What `buf ls-files --include-imports` (`Graph.lsFiles`, as run by Driver/C10) lists, for any
    target decision `tf`: the paths are sorted and pairwise distinct; a path is listed iff it is
    reachable — through the scanned imports of workspace files and the stored imports of built-in
    well-known types (`lsLookup`) — from a target file; every listed path exists and all its
    imports are listed; and an entry is flagged non-import iff it is a target file. -/
theorem lsfiles_closure_exact (ws : WS) (tf : Nat → PFile → Bool) (l : List (Str × Bool))
    (h : lsFiles ws tf = .ok l) :
    (l.map (·.1)).Pairwise (fun a b => strLe a b = true) ∧ (l.map (·.1)).Nodup ∧
    (∀ p, p ∈ l.map (·.1) ↔
      ∃ m f, f ∈ modFiles ws m ∧ tf m f = true ∧ Reach (lsLookup (allFiles ws) ws.wkt) f.path p) ∧
    (∀ p ∈ l.map (·.1), ∃ cs, lsLookup (allFiles ws) ws.wkt p = some cs ∧ ∀ d ∈ cs, d ∈ l.map (·.1)) ∧
    (∀ x ∈ l, x.2 = false ↔ ∃ m f, f ∈ modFiles ws m ∧ tf m f = true ∧ f.path = x.1) := by
  obtain ⟨vis, out, _, _, _, hdfs, hle⟩ := lsFiles_ok h
  obtain ⟨_, _, hcl, hre⟩ := dfsRoots_exact hdfs
  have hnd := dfsRoots_vis_nodup hdfs
  have hpaths : l.map (·.1) = sortPaths vis := by
    rw [hle, List.map_map]
    have : ((fun x : Str × Bool => x.1) ∘ fun p =>
        (p, !((allFiles ws).any (fun x => x.2.path == p && tf x.1 x.2)))) = id := rfl
    rw [this, List.map_id]
  rw [hpaths]
  refine ⟨sortPaths_sorted vis, sortPaths_nodup hnd, ?_, ?_, ?_⟩
  · intro p
    rw [mem_sortPaths, hre p]
    constructor
    · rintro ⟨r, hr, hreach⟩
      obtain ⟨x, hx, ht, rfl⟩ := mem_lsRoots.mp hr
      exact ⟨x.1, x.2, mem_allFiles.mp hx, ht, hreach⟩
    · rintro ⟨m, f, hf, ht, hreach⟩
      exact ⟨f.path, mem_lsRoots.mpr ⟨(m, f), mem_allFiles.mpr hf, ht, rfl⟩, hreach⟩
  · intro p hp
    obtain ⟨cs, hs, hc⟩ := hcl p (mem_sortPaths.mp hp)
    exact ⟨cs, hs, fun d hd => mem_sortPaths.mpr (hc d hd)⟩
  · intro x hx
    rw [hle] at hx
    obtain ⟨p, _, rfl⟩ := List.mem_map.mp hx
    simp only [Bool.not_eq_false', List.any_eq_true, Bool.and_eq_true, beq_iff_eq]
    constructor
    · rintro ⟨y, hy, hyp, ht⟩; exact ⟨y.1, y.2, mem_allFiles.mp hy, ht, hyp⟩
    · rintro ⟨m, f, hf, ht, hp⟩; exact ⟨(m, f), mem_allFiles.mpr hf, hp, ht⟩

/-- the successor function of that closure, spelled out for a workspace file: its scanned imports,
    sorted and unique (`FileInfo.Imports()`); `lsLookup` falls back to the built-in WKT table only
    for paths no workspace file has. -/
theorem lsfiles_lookup_file (ws : WS) (tf : Nat → PFile → Bool) (l : List (Str × Bool))
    (h : lsFiles ws tf = .ok l) (m : Nat) (f : PFile) (hf : f ∈ modFiles ws m) :
    lsLookup (allFiles ws) ws.wkt f.path = some (infoImports f) := by
  obtain ⟨_, _, _, hnd, _⟩ := lsFiles_ok h
  exact lsLookup_file hnd hf

/-- the fuel `lsFiles` gives its closure is never exhausted. -/
theorem lsfiles_fuel_suffices (ws : WS) (tf : Nat → PFile → Bool) : lsFiles ws tf ≠ .error .fuel :=
  lsFiles_ne_fuel ws tf

/-- **ls-files lists exactly the files build would put in the image.**  `Graph.lsFiles` with the
    target decision `isTargetIn t` (what Driver/C10 runs) versus `Targeting.buildImage t c perm`
    (what Driver/C01 runs): when both succeed and the compiler's import lists agree AS SETS with
    the scanned imports of the workspace files / the stored imports of the unshadowed built-in
    WKTs (`ImportsAgree`; fastscan reports sorted unique imports, the compiler source order), the
    ls-files paths are exactly the sorted image paths, and entry by entry the import flags agree.
    The two pipelines differ in everything but the shared DFS: root lists (`walkAll` + filter vs
    `walkTargets`/`targetList`), successor functions (`lsLookup` vs `csucc`), fuel, and order.
    Hypothesis `WfCfgs`: no proto-file reference together with `--path` (rejected by the builder).
    NOT covered: that one side succeeds iff the other does (ls-files reports an unreachable
    duplicate path or an empty non-target module that build never looks at, and build reports
    import cycles that ls-files does not) — compared by the harness (`ls=` field vs image). -/
theorem lsfiles_eq_build (t : TWS) (c : Compiler) (perm : List Str → List Str)
    (hwf : WfCfgs t) (ha : ImportsAgree t.ws c) (l : List (Str × Bool)) (img : List ImgFile)
    (hl : lsFiles t.ws (isTargetIn t) = .ok l) (hb : buildImage t c perm = .ok img) :
    l.map (·.1) = sortPaths (img.map (·.path)) ∧
    (∀ f ∈ img, (f.path, f.isImport) ∈ l) ∧
    (∀ x ∈ l, ∃ f ∈ img, f.path = x.1 ∧ f.isImport = x.2) :=
  lsFiles_eq_buildImage t c perm hwf ha l img hl hb

/-- Files of non-target modules enter images only as imports (via C01): in a built image every
    file is marked non-import iff it is a target file, every file is reachable from a target
    file, and a file whose path a NON-targeted module provides is marked import. -/
theorem nontarget_files_are_imports (t : TWS) (c : Compiler) (perm : List Str → List Str)
    (img : List ImgFile) (hwf : WfCfgs t) (h : buildImage t c perm = .ok img) :
    ∀ f ∈ img,
      (f.isImport = false ↔ ∃ m g, g ∈ modFiles t.ws m ∧ isTargetIn t m g = true ∧ g.path = f.path) ∧
      (∃ m g, g ∈ modFiles t.ws m ∧ isTargetIn t m g = true ∧ Reach (csucc t.ws c) g.path f.path) ∧
      (∀ m, modIsTarget t m = false → (∃ g ∈ modFiles t.ws m, g.path = f.path) → f.isImport = true) :=
  nontarget_files_core t c perm img hwf h

/-- … and the same for ls-files: an entry whose path only non-targeted modules provide is flagged
    import (a non-targeted module has no target files). -/
theorem lsfiles_nontarget_is_import (t : TWS) (l : List (Str × Bool))
    (h : lsFiles t.ws (isTargetIn t) = .ok l) (x : Str × Bool) (hx : x ∈ l)
    (hnt : ∀ m f, f ∈ modFiles t.ws m → f.path = x.1 → modIsTarget t m = false) : x.2 = true := by
  cases hb : x.2 with
  | true => rfl
  | false =>
    obtain ⟨m, f, hf, ht, hp⟩ := ((lsfiles_closure_exact t.ws (isTargetIn t) l h).2.2.2.2 x hx).mp hb
    rw [isTargetIn_false_of_nontarget t m f (hnt m f hf hp)] at ht
    cases ht

/-! ### duplicate paths nobody imports -/

/-- A path two modules of the set provide makes `ls-files` fail — whether or not anybody imports
    it (`GetFileInfos` walks every module; the union bucket rejects the second occurrence). -/
theorem lsfiles_dup_path_error (ws : WS) (tf : Nat → PFile → Bool) (m m' : Nat) (f f' : PFile)
    (hne : m ≠ m') (hf : f ∈ modFiles ws m) (hf' : f' ∈ modFiles ws m') (hp : f.path = f'.path) :
    ∃ e, lsFiles ws tf = .error e := by
  cases h : lsFiles ws tf with
  | error e => exact ⟨e, rfl⟩
  | ok l =>
    obtain ⟨_, _, _, hnd, _⟩ := lsFiles_ok h
    have := inj_of_nodup_map (fun x : Nat × PFile => x.2.path) hnd
      ((mem_allFiles (x := (m, f))).mpr hf) ((mem_allFiles (x := (m', f'))).mpr hf') hp
    exact absurd (congrArg Prod.fst this) hne

/-- Two distinct modules reachable from `r` (r itself included) that share a file path make
    `ModuleDeps()` of `r` fail although no import names that path: the final
    `protoFileTracker.validate()` (`dupAmong`) ranges over ALL visited = all reachable modules. -/
theorem deps_dup_among_error (ws : WS) (r x y : Nat) (hx : Reach (msuccO ws) r x)
    (hy : Reach (msuccO ws) r y) (hne : x ≠ y) (f : PFile) (hf : f ∈ modFiles ws x)
    (hp : hasPath ws y f.path = true) : ∃ e, moduleDeps ws r = .error e :=
  moduleDeps_dupAmong_error hx hy hne hf hp

/-! ### recorded finding: the pre-fix commit tie -/

def tieA : Added := { oid := 0, isLocal := false, isTarget := false, commit := 1, ctime := 7, files := [] }
def tieB : Added := { oid := 0, isLocal := false, isTarget := false, commit := 2, ctime := 7, files := [] }

/-- Before the fix the candidates were taken in Go map order: with equal create times two
    iteration orders select different commits (DESIGN §7 row 10; replayed by harness/cmd/c10). -/
theorem commit_tie_old_counterexample :
    selectRemoteOld id [tieA, tieB] ≠ selectRemoteOld List.reverse [tieA, tieB] := by decide

/-- after the fix the order in which the two were added no longer matters. -/
example : selectRemote [tieA, tieB] = selectRemote [tieB, tieA] := by decide

/-! non-vacuity -/
def exWs : WS :=
  { mods := [ { files := [{ path := "a/a.proto".toList, imports := ["b/b.proto".toList, "google/protobuf/any.proto".toList] }], isTarget := true, isLocal := true },
              { files := [{ path := "b/b.proto".toList, imports := ["c/c.proto".toList] }], isTarget := false, isLocal := true },
              { files := [{ path := "c/c.proto".toList, imports := ["b/b.proto".toList] }], isTarget := false, isLocal := false } ],
    wkt := [{ path := "google/protobuf/any.proto".toList, imports := [] }] }

-- A → B ⇄ C: A (outside the cycle) gets exact deps with direct flags, B and C report the cycle
example : moduleDeps exWs 0 = .ok [(1, true), (2, false)] := by decide
example : moduleDeps exWs 1 = .error .cycle := by decide
example : moduleDeps exWs 2 = .error .cycle := by decide
example : toDAG exWs = .error .cycle := by decide
example : selectAdded [tieA, { tieB with isLocal := true }] = some { tieB with isLocal := true } := by decide

/-! non-vacuity of the exactness theorems: A → B → D → B, A → C → D (0 = A, 1 = B, 2 = C, 3 = D) -/
def exWs2 : WS :=
  { mods := [ { files := [{ path := "a/a.proto".toList, imports := ["b/b.proto".toList, "c/c.proto".toList, "google/protobuf/any.proto".toList] }], isTarget := true, isLocal := true },
              { files := [{ path := "b/b.proto".toList, imports := ["d/d.proto".toList] }], isTarget := false, isLocal := true },
              { files := [{ path := "c/c.proto".toList, imports := ["d/d.proto".toList] }], isTarget := false, isLocal := true },
              { files := [{ path := "d/d.proto".toList, imports := ["b/b.proto".toList] }], isTarget := false, isLocal := false } ],
    wkt := [{ path := "google/protobuf/any.proto".toList, imports := [] }] }

theorem exWs2_good (r : Nat) (hr : r < 4) : Good exWs2 r := good_of_goodWs (by decide) hr

theorem exWs2_A_not_on_cycle : ¬ ReachPlus (msuccO exWs2) 0 0 := by
  intro h
  obtain ⟨m, hm, hc⟩ := reachPlus_pred h
  have hall : ∀ m, m < exWs2.mods.length → 0 ∉ msucc exWs2 m := by decide
  exact hall m hm hc

theorem exWs2_B_on_cycle : ReachPlus (msuccO exWs2) 1 1 :=
  ⟨3, msucc exWs2 3, Reach.step (Reach.refl 1) (rfl : msuccO exWs2 1 = some (msucc exWs2 1)) (by decide), rfl, by decide⟩

-- the hypotheses of `deps_exact` hold for A and C although both reach the cycle B ⇄ D …
example : Good exWs2 0 ∧ ¬ ReachPlus (msuccO exWs2) 0 0 := ⟨exWs2_good 0 (by decide), exWs2_A_not_on_cycle⟩
-- … and the result is what the theorem says (and what the real code returns)
example : moduleDeps exWs2 0 = .ok [(1, true), (2, true), (3, false)] := by decide
example : moduleDeps exWs2 2 = .ok [(1, false), (3, true)] := by decide
-- the hypotheses of `cycle_iff` hold for B, which is on the cycle
example : Good exWs2 1 ∧ ReachPlus (msuccO exWs2) 1 1 := ⟨exWs2_good 1 (by decide), exWs2_B_on_cycle⟩
example : moduleDeps exWs2 1 = .error .cycle := by decide
example : moduleDeps exWs2 3 = .error .cycle := by decide
-- `fuel_suffices` has no hypothesis; the bound is tight enough to be interesting: depth 3 of 4+1
example : moduleDeps exWs2 0 ≠ .error .fuel := fuel_suffices exWs2 0
-- the hypotheses of `dag_reports_reachable_cycle` hold; A (the target) reaches the cycle
example : (∀ t ∈ targetMods exWs2, Good exWs2 t) ∧
    ∃ t ∈ targetMods exWs2, ∃ x, Reach (msuccO exWs2) t x ∧ ReachPlus (msuccO exWs2) x x :=
  ⟨fun t ht => exWs2_good t (targetMods_lt ht),
   0, by decide, 1, Reach.step (Reach.refl 0) (rfl : msuccO exWs2 0 = some (msucc exWs2 0)) (by decide), exWs2_B_on_cycle⟩
example : toDAG exWs2 = .error .cycle := by decide
-- an acyclic diamond: ModuleSetToDAG succeeds
def exWs3 : WS :=
  { exWs2 with mods := exWs2.mods.set 3 { files := [{ path := "d/d.proto".toList, imports := [] }], isTarget := false, isLocal := false } }
example : toDAG exWs3 = .ok ([0, 1, 3, 2], [(0, 1), (1, 3), (0, 2), (2, 3)]) := by decide

/-- Why `cycle_iff` (right to left) and `deps_exact` need the resolution hypothesis: errors are
    reported in visiting order, so on A ⇄ B where A also imports a file nobody provides, A lies on
    a cycle but `ModuleDeps()` of A reports the missing import, not the cycle. -/
def exWs4 : WS :=
  { mods := [ { files := [{ path := "a/a.proto".toList, imports := ["x/missing.proto".toList, "b/b.proto".toList] }], isTarget := true, isLocal := true },
              { files := [{ path := "b/b.proto".toList, imports := ["a/a.proto".toList] }], isTarget := false, isLocal := true } ],
    wkt := [] }

theorem cycle_iff_unresolved_counterexample :
    ReachPlus (msuccO exWs4) 0 0 ∧ moduleDeps exWs4 0 = .error .importNotExist :=
  ⟨⟨1, msucc exWs4 1, Reach.step (Reach.refl 0) (rfl : msuccO exWs4 0 = some (msucc exWs4 0)) (by decide), rfl, by decide⟩,
   by decide⟩

/-! ### workspaces on disk: every buf.lock of the workspace is honoured

  `v1Adds` / `v2Adds` (BufModel.Graph §3b) are the AddRemoteModule / AddLocalModule sequences of
  bufworkspace.  What the property needs from them: a remote module pinned in the buf.lock of ANY
  module directory of a v1 workspace — targeted by the input or not — is a member of the module
  set (as that pin, as a newer pinned commit, or as the local module of that identity), so that a
  dependency reachable only through a non-targeted sibling resolves. -/

/-- `selectAdded` returns one of the modules it was given. -/
theorem selectAdded_mem (as : List Added) (a : Added) (h : selectAdded as = some a) : a ∈ as := by
  unfold selectAdded at h
  split at h
  next => exact selectIgnoreTargeting_mem as a h
  next t heq =>
    injection h with h; subst h
    have : t ∈ as.filter (·.isTarget) := by rw [heq]; exact List.mem_cons_self
    exact (List.mem_filter.mp this).1
  next => exact (List.mem_filter.mp (selectIgnoreTargeting_mem _ a h)).1

/-- … and it always returns one when at least one module was added for the OpaqueID. -/
theorem selectAdded_isSome (as : List Added) (h : as ≠ []) : ∃ a, selectAdded as = some a := by
  unfold selectAdded
  split
  next => exact selectIgnoreTargeting_isSome h
  next => exact ⟨_, rfl⟩
  next hne _ => exact selectIgnoreTargeting_isSome hne

/-- `getUniqueSortedAddedModulesByOpaqueID` drops no OpaqueID: every added module is represented
    in the module set by a module of its OpaqueID that was itself added. -/
theorem uniqueAdded_covers (as : List Added) (x : Added) (hx : x ∈ as) :
    ∃ a ∈ uniqueAdded as, a.oid = x.oid ∧ a ∈ as := by
  have hne : as.filter (fun a => a.oid == x.oid) ≠ [] := by
    intro h
    have : x ∈ as.filter (fun a => a.oid == x.oid) := List.mem_filter.mpr ⟨hx, by simp⟩
    rw [h] at this; simp at this
  obtain ⟨a, ha⟩ := selectAdded_isSome _ hne
  have hmem := List.mem_filter.mp (selectAdded_mem _ a ha)
  refine ⟨a, ?_, by simpa using hmem.2, hmem.1⟩
  unfold uniqueAdded
  refine List.mem_filterMap.mpr ⟨x.oid, ?_, ha⟩
  exact (mem_sortBy natLe).mpr (mem_dedup.mpr (List.mem_map.mpr ⟨x, hx, rfl⟩))

/-! ### the selection clauses for `uniqueAdded` = getUniqueSortedAddedModulesByOpaqueID (what
    `Driver.C10.buildFrom` runs), not only for the per-OpaqueID helper `selectAdded` -/

/-- `a` is in the module set iff it is THE module `selectAdded` picks among the added modules of
    its own OpaqueID (and that OpaqueID was added). -/
theorem unique_added_exact (as : List Added) (a : Added) :
    a ∈ uniqueAdded as ↔
      (∃ x ∈ as, x.oid = a.oid) ∧ selectAdded (as.filter (fun x => x.oid == a.oid)) = some a := by
  unfold uniqueAdded
  rw [List.mem_filterMap]
  constructor
  · rintro ⟨o, ho, hsel⟩
    have hmem := List.mem_filter.mp (selectAdded_mem _ a hsel)
    have hoid : a.oid = o := by simpa using hmem.2
    subst hoid
    obtain ⟨x, hx, hxo⟩ := List.mem_map.mp (mem_dedup.mp ((mem_sortBy natLe).mp ho))
    exact ⟨⟨x, hx, hxo⟩, hsel⟩
  · rintro ⟨⟨x, hx, hxo⟩, hsel⟩
    exact ⟨a.oid, (mem_sortBy natLe).mpr (mem_dedup.mpr (List.mem_map.mpr ⟨x, hx, hxo⟩)), hsel⟩

/-- one module per OpaqueID, sorted by OpaqueID (`ModuleSet.Modules()` order; the model's module
    index is the rank of the OpaqueID). -/
theorem unique_added_sorted (as : List Added) : ((uniqueAdded as).map (·.oid)).Pairwise (· < ·) := by
  have hmap : ∀ (l : List Nat), (∀ o ∈ l, ∃ x ∈ as, x.oid = o) →
      (l.filterMap (fun o => selectAdded (as.filter (fun a => a.oid == o)))).map (·.oid) = l := by
    intro l
    induction l with
    | nil => intro _; rfl
    | cons o os ih =>
      intro hall
      obtain ⟨x, hx, hxo⟩ := hall o List.mem_cons_self
      have hne : as.filter (fun a => a.oid == o) ≠ [] := by
        intro h
        have : x ∈ as.filter (fun a => a.oid == o) := List.mem_filter.mpr ⟨hx, by simp [hxo]⟩
        rw [h] at this; simp at this
      obtain ⟨a, ha⟩ := selectAdded_isSome _ hne
      have hao : a.oid = o := by simpa using (List.mem_filter.mp (selectAdded_mem _ a ha)).2
      rw [List.filterMap_cons, ha]
      simp only [List.map_cons, hao]
      rw [ih (fun o' ho' => hall o' (List.mem_cons_of_mem _ ho'))]
  unfold uniqueAdded
  rw [hmap _ (fun o ho => by
    obtain ⟨x, hx, hxo⟩ := List.mem_map.mp (mem_dedup.mp ((mem_sortBy natLe).mp ho))
    exact ⟨x, hx, hxo⟩)]
  have hsorted := sortBy_pairwise natLe natLe_total natLe_trans (dedup (as.map (·.oid)))
  have hnd : (sortBy natLe (dedup (as.map (·.oid)))).Nodup :=
    (sortBy_perm natLe _).nodup_iff.mpr (dedup_nodup _)
  exact (hsorted.and (List.nodup_iff_pairwise_ne.mp hnd)).imp
    (fun hab => Nat.lt_of_le_of_ne (by simpa [natLe] using hab.1) hab.2)

/-- target over non-target, for the module set: if ANY added module of the OpaqueID of a member of
    the module set was targeted, that member is targeted. -/
theorem unique_added_target_over_nontarget (as : List Added) (a : Added) (ha : a ∈ uniqueAdded as)
    (ht : ∃ x ∈ as, x.oid = a.oid ∧ x.isTarget = true) : a.isTarget = true := by
  obtain ⟨_, hsel⟩ := (unique_added_exact as a).mp ha
  obtain ⟨x, hx, hxo, hxt⟩ := ht
  exact target_over_nontarget _ a hsel ⟨x, List.mem_filter.mpr ⟨hx, by simp [hxo]⟩, hxt⟩

/-- local over remote, for the module set: a member of the module set is local whenever some
    added module of its OpaqueID is local and either none of that OpaqueID is targeted or a local
    one is targeted. -/
theorem unique_added_local_over_remote (as : List Added) (a : Added) (ha : a ∈ uniqueAdded as)
    (hl : ((∀ x ∈ as, x.oid = a.oid → x.isTarget = false) ∧ ∃ x ∈ as, x.oid = a.oid ∧ x.isLocal = true) ∨
          (∃ x ∈ as, x.oid = a.oid ∧ x.isTarget = true ∧ x.isLocal = true)) :
    a.isLocal = true := by
  obtain ⟨_, hsel⟩ := (unique_added_exact as a).mp ha
  apply local_over_remote _ a hsel
  rcases hl with ⟨hnt, x, hx, hxo, hxl⟩ | ⟨x, hx, hxo, hxt, hxl⟩
  · left
    refine ⟨?_, x, List.mem_filter.mpr ⟨hx, by simp [hxo]⟩, hxl⟩
    intro y hy
    have := List.mem_filter.mp hy
    exact hnt y this.1 (by simpa using this.2)
  · right
    exact ⟨x, List.mem_filter.mpr ⟨hx, by simp [hxo]⟩, hxt, hxl⟩

/-- v1 (buf.work.yaml): the pins of the buf.lock of EVERY module directory are added, as
    non-target remote modules — whatever `m.loc.isTarget` is, i.e. whether or not the input
    targets that directory. -/
theorem v1_every_lock_honoured (ms : List LockedMod) (m : LockedMod) (hm : m ∈ ms) (p : Added)
    (hp : p ∈ m.pins) : p.asPin ∈ v1Adds ms := by
  unfold v1Adds
  exact List.mem_flatMap.mpr ⟨m, hm, List.mem_append_left _ (List.mem_map.mpr ⟨p, hp, rfl⟩)⟩

/-- v1: every module directory of the workspace is added, targeted or not. -/
theorem v1_every_module_added (ms : List LockedMod) (m : LockedMod) (hm : m ∈ ms) :
    m.loc ∈ v1Adds ms := by
  unfold v1Adds
  exact List.mem_flatMap.mpr ⟨m, hm, List.mem_append_right _ List.mem_cons_self⟩

/-- v1: nothing else is added (no pin is invented, none becomes a target or local). -/
theorem v1_adds_sound (ms : List LockedMod) (a : Added) (ha : a ∈ v1Adds ms) :
    ∃ m ∈ ms, a = m.loc ∨ ∃ p ∈ m.pins, a = p.asPin := by
  unfold v1Adds at ha
  obtain ⟨m, hm, h⟩ := List.mem_flatMap.mp ha
  refine ⟨m, hm, ?_⟩
  rcases List.mem_append.mp h with h | h
  · obtain ⟨p, hp, rfl⟩ := List.mem_map.mp h
    exact Or.inr ⟨p, hp, rfl⟩
  · exact Or.inl (by simpa using h)

/-- v1: a module pinned in the buf.lock of any module directory is in the module set under its
    OpaqueID — also when only a sibling directory is the input. -/
theorem v1_pinned_in_module_set (ms : List LockedMod) (m : LockedMod) (hm : m ∈ ms) (p : Added)
    (hp : p ∈ m.pins) : ∃ a ∈ uniqueAdded (v1Adds ms), a.oid = p.oid := by
  obtain ⟨a, ha, hoid, _⟩ := uniqueAdded_covers _ _ (v1_every_lock_honoured ms m hm p hp)
  exact ⟨a, ha, hoid⟩

/-- v1: when nothing competes for the OpaqueID (no local module of that identity, no other
    commit pinned in another buf.lock) the module set contains exactly that pin: remote and not a
    target. -/
theorem v1_sole_pin_selected (ms : List LockedMod) (m : LockedMod) (hm : m ∈ ms) (p : Added)
    (hp : p ∈ m.pins) (hu : ∀ x ∈ v1Adds ms, x.oid = p.oid → x = p.asPin) :
    p.asPin ∈ uniqueAdded (v1Adds ms) := by
  obtain ⟨a, ha, hoid, hmem⟩ := uniqueAdded_covers _ _ (v1_every_lock_honoured ms m hm p hp)
  have : a = p.asPin := hu a hmem hoid
  rw [← this]; exact ha

/-- v2: the pins of the top-level buf.lock and all modules of buf.yaml are added. -/
theorem v2_lock_honoured (lock locs : List Added) (p : Added) (hp : p ∈ lock) :
    p.asPin ∈ v2Adds lock locs ∧ ∃ a ∈ uniqueAdded (v2Adds lock locs), a.oid = p.oid := by
  have h : p.asPin ∈ v2Adds lock locs := by
    unfold v2Adds
    exact List.mem_append_left _ (List.mem_map.mpr ⟨p, hp, rfl⟩)
  obtain ⟨a, ha, hoid, _⟩ := uniqueAdded_covers _ _ h
  exact ⟨h, a, ha, hoid⟩

/-- the same pin in a targeted and in a non-targeted module's lock, a conflicting older commit in
    a third lock and a local module that shadows another pin: T = directory 0 is the only target;
    r (oid 3) is pinned by the non-targeted sibling only, at commits 1 (ctime 10) and 2 (ctime 20);
    oid 1 is pinned by T but is also the sibling's own identity. -/
def exLockT : LockedMod :=
  { pins := [{ oid := 1, isLocal := false, isTarget := false, commit := 7, ctime := 5, files := [] }],
    loc := { oid := 0, isLocal := true, isTarget := true, commit := 0, ctime := 0, files := [] } }
def exLockS : LockedMod :=
  { pins := [{ oid := 3, isLocal := false, isTarget := false, commit := 1, ctime := 10, files := [] }],
    loc := { oid := 1, isLocal := true, isTarget := false, commit := 0, ctime := 0, files := [] } }
def exLockU : LockedMod :=
  { pins := [{ oid := 3, isLocal := false, isTarget := false, commit := 2, ctime := 20, files := [] }],
    loc := { oid := 2, isLocal := true, isTarget := false, commit := 0, ctime := 0, files := [] } }

example : (uniqueAdded (v1Adds [exLockT, exLockS, exLockU])).map (fun a => (a.oid, a.commit, a.isLocal, a.isTarget)) =
    [(0, 0, true, true), (1, 0, true, false), (2, 0, true, false), (3, 2, false, false)] := by decide

/-- honouring only the buf.lock files of TARGETED modules (a plausible "optimisation") loses the
    remote module the target reaches through its sibling: the model of that variant differs. -/
theorem only_target_locks_counterexample :
    ¬ ∃ a ∈ uniqueAdded (v1Adds ([exLockT, exLockS, exLockU].map
        (fun m => if m.loc.isTarget then m else { m with pins := [] }))), a.oid = 3 := by decide

/-! ### non-vacuity of the second-pass theorems -/

/-- the acyclic diamond `exWs3` (A → B → D, A → C → D, A imports a built-in WKT), A targeted, with
    a compiler whose dependency lists are the scanned imports in REVERSE order (so they agree with
    them as sets only). -/
def exT3 : TWS := { ws := exWs3, cfgs := [{}, {}, {}, {}] }

def exC3 : Compiler :=
  { imports := fun p => match lsLookup (allFiles exWs3) exWs3.wkt p with
      | some cs => cs.reverse
      | none => []
    unused := fun _ => []
    syntaxUnspecified := fun _ => false }

theorem exT3_wf : WfCfgs exT3 := wfCfgs_of_all (by decide)
theorem exT3_agree : ImportsAgree exT3.ws exC3 := importsAgree_of_check (by decide)

theorem exT3_ls : lsFiles exT3.ws (isTargetIn exT3) =
    .ok [("a/a.proto".toList, false), ("b/b.proto".toList, true), ("c/c.proto".toList, true),
         ("d/d.proto".toList, true), ("google/protobuf/any.proto".toList, true)] := by decide

theorem exT3_img : (buildImage exT3 exC3 id).map (fun l => l.map (fun f => (f.path, f.isImport))) =
    .ok [("google/protobuf/any.proto".toList, true), ("d/d.proto".toList, true), ("c/c.proto".toList, true),
         ("b/b.proto".toList, true), ("a/a.proto".toList, false)] := by decide

-- all hypotheses of `lsfiles_eq_build` hold for `exT3`/`exC3` (the image order differs from the
-- ls-files order, the compiler's import lists differ from the scanned ones as lists)
example : ∀ l img, lsFiles exT3.ws (isTargetIn exT3) = .ok l → buildImage exT3 exC3 id = .ok img →
    l.map (·.1) = sortPaths (img.map (·.path)) :=
  fun l img hl hb => (lsfiles_eq_build exT3 exC3 id exT3_wf exT3_agree l img hl hb).1

example : ∃ l img, lsFiles exT3.ws (isTargetIn exT3) = .ok l ∧ buildImage exT3 exC3 id = .ok img := by
  cases h : buildImage exT3 exC3 id with
  | error e => have := exT3_img; rw [h] at this; cases this
  | ok img => exact ⟨_, img, exT3_ls, rfl⟩

-- `nontarget_files_are_imports`: B (module 1) is not targeted and provides b/b.proto
example : ∀ img, buildImage exT3 exC3 id = .ok img → ∀ f ∈ img, f.path = "b/b.proto".toList → f.isImport = true := by
  intro img h f hf hp
  exact (nontarget_files_are_imports exT3 exC3 id img exT3_wf h f hf).2.2 1 (by decide)
    ⟨{ path := "b/b.proto".toList, imports := ["d/d.proto".toList] }, by decide, hp.symm⟩

/-- two modules provide x/dup.proto and nobody imports it; A imports B. -/
def exWsDup : WS :=
  { mods := [ { files := [{ path := "a/a.proto".toList, imports := ["b/b.proto".toList] }, { path := "x/dup.proto".toList, imports := [] }],
                isTarget := true, isLocal := true },
              { files := [{ path := "b/b.proto".toList, imports := [] }, { path := "x/dup.proto".toList, imports := [] }],
                isTarget := false, isLocal := true } ],
    wkt := [] }

-- hypotheses of `lsfiles_dup_path_error` / `deps_dup_among_error` hold; the model reports `dup`
example : ∃ e, lsFiles exWsDup (fun _ _ => true) = .error e :=
  lsfiles_dup_path_error exWsDup _ 0 1 { path := "x/dup.proto".toList, imports := [] }
    { path := "x/dup.proto".toList, imports := [] } (by decide) (by decide) (by decide) rfl
example : lsFiles exWsDup (fun _ _ => true) = .error .dupPath := by decide
example : ∃ e, moduleDeps exWsDup 0 = .error e :=
  deps_dup_among_error exWsDup 0 0 1 (Reach.refl 0)
    (Reach.step (Reach.refl 0) (rfl : msuccO exWsDup 0 = some (msucc exWsDup 0)) (by decide))
    (by decide) { path := "x/dup.proto".toList, imports := [] } (by decide) (by decide)
example : moduleDeps exWsDup 0 = .error .dupPath := by decide

/-- the commonest shadowing case: ONE targeted local module and an untargeted pin of the same
    OpaqueID (the weak second disjunct of `local_over_remote`). -/
def exShadow : List Added :=
  [ { oid := 0, isLocal := false, isTarget := false, commit := 7, ctime := 5, files := [] },
    { oid := 0, isLocal := true, isTarget := true, commit := 0, ctime := 0, files := [] },
    { oid := 1, isLocal := false, isTarget := false, commit := 3, ctime := 1, files := [] } ]

example : ∃ x ∈ exShadow.filter (fun a => a.oid == 0), x.isTarget = true ∧ x.isLocal = true := by decide
example : (uniqueAdded exShadow).map (fun a => (a.oid, a.isLocal, a.isTarget)) = [(0, true, true), (1, false, false)] := by decide
example : ∀ a ∈ uniqueAdded exShadow, a.oid = 0 → a.isLocal = true := by
  intro a ha h0
  exact unique_added_local_over_remote exShadow a ha
    (Or.inr ⟨{ oid := 0, isLocal := true, isTarget := true, commit := 0, ctime := 0, files := [] },
      by decide, by rw [h0], rfl, rfl⟩)

-- `unique_added_target_over_nontarget` on `exShadow`: an added module of OpaqueID 0 is targeted
example : ∀ a ∈ uniqueAdded exShadow, a.oid = 0 → a.isTarget = true := by
  intro a ha h0
  exact unique_added_target_over_nontarget exShadow a ha
    ⟨{ oid := 0, isLocal := true, isTarget := true, commit := 0, ctime := 0, files := [] }, by decide, by rw [h0], rfl⟩
example : ((uniqueAdded exShadow).map (·.oid)).Pairwise (· < ·) := unique_added_sorted exShadow

-- `lsfiles_nontarget_is_import` on `exT3`: only the non-targeted module B provides b/b.proto
example : (("b/b.proto".toList, true) : Str × Bool).2 = true :=
  lsfiles_nontarget_is_import exT3 _ exT3_ls ("b/b.proto".toList, true) (by decide) (by
    intro m f hf hp
    have hall : ∀ m, m < 4 → ∀ f ∈ modFiles exT3.ws m, f.path = "b/b.proto".toList → modIsTarget exT3 m = false := by decide
    exact hall m (modFiles_lt hf) f hf hp)

-- `lsfiles_closure_exact` / `lsfiles_lookup_file` on `exT3`
example : lsLookup (allFiles exT3.ws) exT3.ws.wkt "a/a.proto".toList =
    some ["b/b.proto".toList, "c/c.proto".toList, "google/protobuf/any.proto".toList] :=
  lsfiles_lookup_file exT3.ws _ _ exT3_ls 0
    { path := "a/a.proto".toList, imports := ["b/b.proto".toList, "c/c.proto".toList, "google/protobuf/any.proto".toList] } (by decide)

end BufProofs.C10
