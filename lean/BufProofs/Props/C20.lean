import BufProofs.Lemmas.AnnotLemmas
/-
  C20 — Exit status and every diagnostic format tell the same verdict.
  Property theorems only; helper lemmas live in BufProofs/Lemmas/AnnotLemmas.lean, the model in
  BufModel/Annot.lean (it describes the code after the two `fix:` changes; the pre-fix key and
  printers are kept for the `…_counterexample` theorems).
-/
namespace BufProofs.C20
open BufModel.Annot

/-! ## exit status -/

/-- `build`, `lint`, `breaking`, `format` (in every output mode: `Cmd.format` carries the mode
    `-d` / `-w` / `-o` / `--exit-code` as a parameter) exit 0 exactly when there is nothing to
    report: no annotation was printed, no "Failure: …" line, no format difference. -/
theorem exit_zero_iff_nothing (c : Cmd) :
    c.run.exit = 0 ↔ c.run.printed = [] ∧ c.run.failureLine = false ∧ c.run.diff = false := by
  have h := run_consistent c
  unfold Consistent at h
  unfold Outcome.exit Outcome.failureLine
  cases hf : c.run.final <;> rw [hf] at h <;> simp_all [Final.exit, exitCodeFileAnnotation]
  intro hp
  rcases h with h | h
  · exact absurd hp h
  · exact h

/-- Status 100 exactly when the problem lies in the user's sources: annotations were printed,
    an import could not be found, or `format --exit-code` found a difference — for every output
    mode of `buf format` (see `format_diff_reported_iff` for when `diff` is set). -/
theorem exit_100_iff_user_sources (c : Cmd) :
    c.run.exit = 100 ↔ c.run.printed ≠ [] ∨ c.run.final = .importNotExist ∨ c.run.diff = true := by
  have h := run_consistent c
  unfold Consistent at h
  unfold Outcome.exit
  cases hf : c.run.final <;> rw [hf] at h <;> simp_all [Final.exit, exitCodeFileAnnotation]

/-- Every other failure (operational error) exits with 1 — different from both 0 and 100 — and
    says "Failure: …"; there is no fourth status. -/
theorem exit_other_iff_operational (c : Cmd) :
    (c.run.exit ≠ 0 ∧ c.run.exit ≠ 100 ↔ c.run.final = .other) ∧
    (c.run.final = .other → c.run.exit = 1 ∧ c.run.failureLine = true ∧ c.run.printed = []) ∧
    (c.run.exit = 0 ∨ c.run.exit = 100 ∨ c.run.exit = 1) := by
  have h := run_consistent c
  unfold Consistent at h
  unfold Outcome.exit Outcome.failureLine
  cases hf : c.run.final <;> rw [hf] at h <;> simp_all [Final.exit, exitCodeFileAnnotation]

private def ex1 : Annot :=
  { file := some "a.proto".toList, sl := 1, sc := 23, el := 1, ec := 29,
    type := "FIELD_LOWER_SNAKE_CASE".toList, msg := "m".toList, plugin := [] }
private def ex2 : Annot := { ex1 with sl := 12, sc := 3, el := 12, ec := 9 }

-- non-vacuity: each status is reached, by each kind of cause
example : (Cmd.lint [none] [none, none]).run.exit = 0 := by decide
example : (Cmd.lint [none] [none, some (.annots ex1 [ex2])]).run.exit = 100 := by decide
example : (Cmd.lint [none] [none, some (.annots ex1 [ex2])]).run.printed.length = 2 := by decide
example : (Cmd.build [some (.annots ex1 [])]).run.exit = 100 := by decide
example : (Cmd.breaking [none, some .importNotExist] []).run.exit = 100 := by decide
example : (Cmd.lint [none] [some (.annots ex1 []), some .other]).run = { final := .other, printed := [], diff := false } := by decide
private def mDiffExit : FmtMode := { diff := true, write := false, out := .stdout, exitCode := true }
example : (Cmd.format mDiffExit true [none] none true .ok).run.exit = 100 := by decide
example : (Cmd.format mDiffExit true [none] none false .ok).run.exit = 0 := by decide
example : (Cmd.format { mDiffExit with exitCode := false } true [none] none true .ok).run.exit = 0 := by decide
example : (Cmd.format mDiffExit true [none] (some .other) true .ok).run.exit = 1 := by decide

/-! ## `buf format`: the verdict is the same in every output mode -/

/-- `--exit-code` in EVERY mode — plain, `-d`, `-w`, `-d -w`, `-o X`, `-d -o X`: when nothing
    operational goes wrong the exit status is 100 exactly when the flag is given and a file is
    not formatted, 0 otherwise; no annotation and no "Failure:" line is printed. -/
theorem format_exit_code_every_mode (m : FmtMode) (sw : Bool) (ctl : List Step) (f : Step) (d : Bool)
    (io : FmtIO) (h : FmtClean m sw ctl f d io) :
    (Cmd.format m sw ctl f d io).run.exit = (if m.exitCode && d then 100 else 0) ∧
    (Cmd.format m sw ctl f d io).run.printed = [] ∧
    (Cmd.format m sw ctl f d io).run.failureLine = false := by
  simp only [Cmd.run, format, formatFull_clean h, fmtDeferred]
  split <;> simp [Outcome.exit, Outcome.failureLine, Final.exit, exitCodeFileAnnotation]

/-- The "difference found" verdict, completely, for every mode: it is reported exactly when
    `--exit-code` is given, a difference exists, the flag combination is valid, and no step of
    the run — controller, formatter, or an I/O step THE MODE PERFORMS — failed.  Together with
    `exit_100_iff_user_sources` (which quantifies over all modes through `Cmd.format`): no mode
    loses the 100 and no mode invents one. -/
theorem format_diff_reported_iff (m : FmtMode) (sw : Bool) (ctl : List Step) (f : Step) (d : Bool)
    (io : FmtIO) :
    (Cmd.format m sw ctl f d io).run.diff = true ↔
      m.exitCode = true ∧ d = true ∧ FmtClean m sw ctl f d io := by
  constructor
  · intro h
    simp only [Cmd.run, format, formatFull] at h
    by_cases hv : m.valid sw = true
    · rw [hv] at h
      simp only [Bool.not_true, Bool.false_eq_true, if_false] at h
      cases hr : runSteps (ctl ++ [f]) with
      | some o =>
        rw [hr] at h
        exact absurd h (by rw [runSteps_diff _ o hr]; decide)
      | none =>
        rw [hr] at h
        have hall := (runSteps_eq_none_iff _).mp hr
        by_cases hio : ∀ s ∈ m.ioSteps d io, s = none
        · rw [fmtTail_clean m d io hio] at h
          simp only [fmtDeferred] at h
          split at h
          · rename_i he
            simp only [Bool.and_eq_true] at he
            exact ⟨he.1, he.2, hv, fun s hs => hall s (List.mem_append_left _ hs),
              hall f (List.mem_append_right _ (List.mem_singleton.mpr rfl)), hio⟩
          · exact absurd h (by decide)
        · obtain ⟨e, he⟩ := fmtTail_dirty m d io hio
          rw [he, failStep_diff] at h
          exact absurd h (by decide)
    · have hv' : m.valid sw = false := by simpa using hv
      rw [hv'] at h
      simp only [Bool.not_false, if_true] at h
      exact absurd h (by decide)
  · rintro ⟨he, hd, hc⟩
    subst hd
    have := formatFull_clean hc
    simp only [Cmd.run, format, this, fmtDeferred, he]
    rfl

/-- Two valid modes with the same `--exit-code` setting give the same exit status on the same
    sources: the verdict does not depend on WHERE the result goes. -/
theorem format_verdict_mode_independent (m1 m2 : FmtMode) (sw : Bool) (ctl : List Step) (f : Step)
    (d : Bool) (io1 io2 : FmtIO) (he : m1.exitCode = m2.exitCode)
    (h1 : FmtClean m1 sw ctl f d io1) (h2 : FmtClean m2 sw ctl f d io2) :
    (Cmd.format m1 sw ctl f d io1).run.exit = (Cmd.format m2 sw ctl f d io2).run.exit := by
  rw [(format_exit_code_every_mode m1 sw ctl f d io1 h1).1,
    (format_exit_code_every_mode m2 sw ctl f d io2 h2).1, he]

/-- Already formatted input exits 0 in every mode, with or without `--exit-code` — in particular
    the second run after `-w` (which rewrote every changed file: `rewrote = d`; that re-formatting
    the formatted file changes nothing is C07's idempotence). -/
theorem format_formatted_input_exits_zero (m : FmtMode) (sw : Bool) (ctl : List Step) (f : Step)
    (io : FmtIO) (h : FmtClean m sw ctl f false io) :
    (Cmd.format m sw ctl f false io).run.exit = 0 := by
  rw [(format_exit_code_every_mode m sw ctl f false io h).1]
  simp

/-- What each mode does besides exiting (clean run): the diff goes to stdout exactly with `-d`
    when one exists; the formatted source goes to stdout only in the plain mode; files are
    rewritten exactly with `-w` when a difference exists; the `-o` location is written exactly
    without `-w` when `-o` names a path. -/
theorem format_effects_by_mode (m : FmtMode) (sw : Bool) (ctl : List Step) (f : Step) (d : Bool)
    (io : FmtIO) (h : FmtClean m sw ctl f d io) :
    (formatFull m sw ctl f d io).2 =
      { stdoutDiff := m.diff && d,
        stdoutSource := !m.diff && !m.write && m.out == .stdout,
        rewrote := m.write && d,
        wroteOut := !m.write && m.out == .path } := by
  rw [formatFull_clean h]

/-- An invalid flag combination (`-w` with `-o`, `-w` on a source that cannot be rewritten) is an
    operational error in every mode: status 1 with a "Failure:" line, nothing done. -/
theorem format_invalid_mode_is_operational (m : FmtMode) (sw : Bool) (ctl : List Step) (f : Step)
    (d : Bool) (io : FmtIO) (h : m.valid sw = false) :
    (Cmd.format m sw ctl f d io).run.exit = 1 ∧ (Cmd.format m sw ctl f d io).run.failureLine = true ∧
    (formatFull m sw ctl f d io).2 = FmtEffects.none := by
  simp only [Cmd.run, format, formatFull, h, Bool.not_false, if_true]
  refine ⟨?_, ?_, ?_⟩ <;> first | rfl | trivial

-- non-vacuity: all 16 flag combinations exist, the 12 valid ones are clean on an all-ok run and
-- give 100 exactly for the six with --exit-code when a difference exists
example : FmtMode.all.length = 16 := by decide
example : (FmtMode.all.filter (·.valid true)).length = 12 := by decide
example : ((FmtMode.all.filter (·.valid true)).map fun m => (Cmd.format m true [none] none true .ok).run.exit)
    = [0, 100, 0, 100, 0, 100, 0, 100, 0, 100, 0, 100] := by decide
example : ∀ m ∈ FmtMode.all, (Cmd.format m true [none] none false .ok).run.exit = if m.valid true then 0 else 1 := by decide
example : FmtClean mDiffExit true [none] none true .ok := by
  refine ⟨by decide, by simp, rfl, by decide⟩
-- a failing output step in `-d -o X --exit-code`: the diff was printed, the error wins
example : formatFull { diff := true, write := false, out := .path, exitCode := true } true [none] none true
    { FmtIO.ok with output := some .other } =
    ({ final := .other, printed := [], diff := false }, { FmtEffects.none with stdoutDiff := true }) := by decide

/-! ## de-duplication and order -/

/-- Two annotations that differ on one of the seven key fields (path, start line, start column,
    end line, end column, type, message) are both represented in the result, by different
    entries: de-duplication merges only annotations equal on all seven. -/
theorem dedup_only_equal (l : List Annot) (a b : Annot) (ha : a ∈ l) (hb : b ∈ l)
    (hne : keyFields a ≠ keyFields b) :
    ∃ a' b', a' ∈ dedupSort l ∧ b' ∈ dedupSort l ∧ keyFields a' = keyFields a ∧
      keyFields b' = keyFields b ∧ a' ≠ b' := by
  obtain ⟨a', ha', hka⟩ := dedupWith_covers (key := keyNew) l [] a ha (by simp)
  obtain ⟨b', hb', hkb⟩ := dedupWith_covers (key := keyNew) l [] b hb (by simp)
  refine ⟨a', b', mem_dedupSort.mpr ha', mem_dedupSort.mpr hb', keyNew_inj hka, keyNew_inj hkb, ?_⟩
  intro e
  apply hne
  rw [← keyNew_inj hka, ← keyNew_inj hkb, e]

/-- Nothing at all is dropped from a list whose members differ pairwise on a key field, and the
    result never contains two entries equal on all seven, and contains nothing new. -/
theorem dedup_drops_only_duplicates (l : List Annot) :
    (l.Pairwise (fun a b => keyFields a ≠ keyFields b) → (dedupSort l).Perm l) ∧
    (dedupSort l).Pairwise (fun a b => keyFields a ≠ keyFields b) ∧
    (∀ a ∈ dedupSort l, a ∈ l) := by
  refine ⟨?_, ?_, fun a h => dedupSort_subset h⟩
  · intro h
    have : dedupWith keyNew l [] = l :=
      dedupWith_id l [] (h.imp (fun hk e => hk (keyNew_inj e))) (by simp)
    unfold dedupSort dedupSortWith
    rw [this]; exact sortS_perm l
  · have h1 : (dedupWith keyNew l []).Pairwise (fun a b => keyFields a ≠ keyFields b ∧ keyFields b ≠ keyFields a) :=
      (dedupWith_keys_distinct (key := keyNew) l []).imp
        (fun hk => ⟨fun e => hk ((keyNew_eq_iff _ _).mpr e), fun e => hk ((keyNew_eq_iff _ _).mpr e.symm)⟩)
    have h2 := List.Pairwise.perm h1 (sortS_perm _).symm (fun h => ⟨h.2, h.1⟩)
    exact h2.imp (fun h => h.1)

/-- The recorded defect: with the key as coded before the fix (fields concatenated without
    separators) (line 1, col 23 – 1:29) and (line 12, col 3 – 12:9) collide and a distinct
    annotation is dropped; the fixed key keeps both. -/
theorem dedup_collision_counterexample :
    keyFields ex1 ≠ keyFields ex2 ∧ keyOld ex1 = keyOld ex2 ∧
    (dedupSortOld [ex1, ex2]).length = 1 ∧ (dedupSort [ex1, ex2]).length = 2 := by decide

/-- The result does not depend on the order in which the annotations arrive (C02 uses this),
    provided annotations equal on the seven key fields are equal altogether — i.e. the rule ID
    determines the plugin name.  (Without the proviso the FIRST of two key-equal annotations
    wins, so the plugin name shown could depend on the order.) -/
theorem dedupSort_perm (l1 l2 : List Annot) (p : l1.Perm l2) (kd : KeyDet l1) :
    dedupSort l1 = dedupSort l2 :=
  dedupSort_perm_eq p kd

/-- fileAnnotationCompareTo is a total order on annotations that differ on a compared field:
    it answers "equal" only for annotations equal on all seven fields, is antisymmetric and
    transitive; hence the output of dedupSort is STRICTLY increasing — the order is fully
    determined, no tie is ever broken by the input order. -/
theorem sort_total_on_distinct :
    (∀ a b, compareTo a b = .eq ↔ cmpFields a = cmpFields b) ∧
    (∀ a b, compareTo b a = (compareTo a b).swap) ∧
    (∀ a b c, compareTo a b = .lt → compareTo b c = .lt → compareTo a c = .lt) ∧
    (∀ l, (dedupSort l).Pairwise fun a b => compareTo a b = .lt) :=
  ⟨compareTo_eq_iff, compareTo_law.swap, compareTo_law.trans_lt, fun l => sortS_strict (dedup_noTies l)⟩

-- non-vacuity
example : dedupSort [ex2, ex1, ex2] = [ex1, ex2] := by decide
example : dedupSort [ex1, ex2] = dedupSort [ex2, ex1] := by decide
example : KeyDet [ex1, ex2] := by
  intro a ha b hb; revert a b; decide
example : compareTo ex1 ex2 = .lt := by decide

/-! ## the formats -/

/-- For every --error-format, what a consumer of the printed document reads — the lines of
    text / msvs / github-actions, the JSON objects, the JUnit testcases — is, record by record
    and in the same order, the rendering of `dedupSort as`: every format shows the same
    annotations in the same order.  Two side conditions, both about the human `text` format and
    a file-name corner: text lines are only line-separable when no shown text has a line feed
    (text is not escaped — see `text_in_order` for the unconditional statement), and JUnit
    groups by displayed path, which is order-preserving unless a file is literally called
    "<input>" while a path-less annotation is present too. -/
theorem formats_agree (f : Format) (as : List Annot)
    (htext : f = .text → ∀ a ∈ as, ∀ c ∈ textLine a, c ≠ '\n')
    (hjunit : f = .junit → DispInj as) :
    (printSet f as).items = (dedupSort as).map (render f) := by
  cases f with
  | text =>
    simp only [printSet, printDoc, Doc.items]
    rw [linesOf_printLines textLine _ (fun a ha => htext rfl a (dedupSort_subset ha)), List.map_map]
    rfl
  | msvs =>
    simp only [printSet, printDoc, Doc.items]
    rw [linesOf_printLines msvsLine _ (fun a _ c hc => (oneLine_msvsLine a c hc).1), List.map_map]
    rfl
  | gha =>
    simp only [printSet, printDoc, Doc.items]
    rw [linesOf_printLines ghaLine _ (fun a _ c hc => (oneLine_ghaLine a c hc).1), List.map_map]
    rfl
  | json =>
    simp only [printSet, printDoc, Doc.items, List.map_map]
    rfl
  | junit =>
    simp only [printSet, printDoc, Doc.items, junitSuites]
    rw [junit_items_eq _ (groupByPath_ok _)]
    have hs : (dedupSort as).Pairwise LE := sortS_sorted _
    rw [groupByPath_flat (sorted_contig hs ?_)]
    intro a ha b hb h
    exact hjunit rfl a (dedupSort_subset ha) b (dedupSort_subset hb) h

/-- text, unconditionally: the bytes written are the text renderings of `dedupSort as`, one
    after the other, each followed by a line feed. -/
theorem text_in_order (as : List Annot) :
    printSet .text as = .lines ((dedupSort as).flatMap fun a => textLine a ++ ['\n']) := rfl

/-- The machine-readable line formats stay well formed for ANY message, path, type and plugin
    name: a github-actions command / an msvs diagnostic never contains a line feed or carriage
    return, so the output has exactly one line per annotation and splitting it at line feeds
    gives back the per-annotation lines. (json and junit are produced by encoding/json and
    encoding/xml — trusted base — and decoded again by the harness on every case.) -/
theorem line_formats_wellformed (as : List Annot) :
    (∀ a, ∀ c ∈ ghaLine a, c ≠ '\n' ∧ c ≠ '\r') ∧
    (∀ a, ∀ c ∈ msvsLine a, c ≠ '\n' ∧ c ≠ '\r') ∧
    linesOf (printLines ghaLine (dedupSort as)) = (dedupSort as).map ghaLine ∧
    linesOf (printLines msvsLine (dedupSort as)) = (dedupSort as).map msvsLine ∧
    (linesOf (printLines ghaLine (dedupSort as))).length = (dedupSort as).length ∧
    (linesOf (printLines msvsLine (dedupSort as))).length = (dedupSort as).length := by
  have hg := linesOf_printLines ghaLine (dedupSort as) (fun a _ c hc => (oneLine_ghaLine a c hc).1)
  have hm := linesOf_printLines msvsLine (dedupSort as) (fun a _ c hc => (oneLine_msvsLine a c hc).1)
  refine ⟨oneLine_ghaLine, oneLine_msvsLine, hg, hm, ?_, ?_⟩
  · rw [hg, List.length_map]
  · rw [hm, List.length_map]

/-- Agreement on every field a format carries: the text line, the msvs line and the JUnit
    testcase are functions of the JSON record of the same annotation (file, line, column, rule
    ID, message, plugin — with msvs flattening line breaks), so no format can show a different
    file, position, rule ID or message than json does.  (Side condition: a non-nil FileInfo has a
    non-empty path; a JSON record without `path` means "no file".) -/
theorem formats_carry_same_fields (a : Annot) (h : a.file ≠ some []) :
    textLine a = textOfRec (jsonRec a) ∧
    msvsLine a = msvsOfRec (jsonRec a) ∧
    render .junit a = .junit (trimProto (recPath (jsonRec a)))
      { name := junitCaseName a, message := textOfRec (jsonRec a), type := (jsonRec a).type } := by
  have hp := recPath_jsonRec h
  refine ⟨?_, ?_, ?_⟩
  · unfold textLine textOfRec; rw [hp]; rfl
  · unfold msvsLine msvsLineWith msvsOfRec; rw [hp]; rfl
  · have : textLine a = textOfRec (jsonRec a) := by unfold textLine textOfRec; rw [hp]; rfl
    simp only [render, junitCase, hp, this]; rfl

/-- github-actions carries file, position and message: the escaped file value contains no ','
    or ':' (so it ends exactly where `,line=` or `::` begins), the GitHub runner's unescaping
    gives back the displayed path and the message + plugin suffix exactly, and the position
    properties are the raw numbers (`line=`/`col=`/`endLine=`/`endColumn=`, each omitted when
    unknown = 0, which json shows as 1). -/
theorem gha_fields_roundtrip (a : Annot) :
    ghaLine a = "::error file=".toList ++ escProp (dispPath a) ++ ghaPos a ++ "::".toList
      ++ escData a.msg ++ pluginSuffix escData a.plugin ∧
    unescProp (escProp (dispPath a)) = dispPath a ∧
    unescData (escData a.msg) = a.msg ∧
    unescData (escData a.plugin) = a.plugin ∧
    (∀ c ∈ escProp (dispPath a), c ≠ ',' ∧ c ≠ ':') :=
  ⟨rfl, unescProp_escProp _, unescData_escData _, unescData_escData _, escProp_no_sep _⟩

private def exNl : Annot :=
  { file := some "a.proto".toList, sl := 3, sc := 1, el := 3, ec := 4, type := "X".toList,
    msg := "first\nsecond".toList, plugin := [] }

/-- The recorded defect: before the fix a message with a line feed broke the github-actions
    command (and the msvs diagnostic) into two lines; after the fix it is one line. -/
theorem gha_newline_counterexample :
    (linesOf (printLines ghaLineOld [exNl])).length = 2 ∧
    (linesOf (printLines msvsLineOld [exNl])).length = 2 ∧
    linesOf (printLines ghaLine [exNl]) =
      ["::error file=a.proto,line=3,col=1,endLine=3,endColumn=4::first%0Asecond".toList] ∧
    linesOf (printLines msvsLine [exNl]) = ["a.proto(3,1) : error X : first second".toList] := by decide

-- non-vacuity of formats_agree: two annotations, all five formats
example : (printSet .json [ex2, ex1]).items = [.json (jsonRec ex1), .json (jsonRec ex2)] := by decide
example : (printSet .junit [ex2, ex1]).items =
    [.junit "a".toList (junitCase ex1), .junit "a".toList (junitCase ex2)] := by decide
example : (printSet .text [ex2, ex1]).items =
    [.line "a.proto:1:23:m".toList, .line "a.proto:12:3:m".toList] := by decide
example : ex1.file ≠ some [] := by decide
example : escProp "c:d,e%.proto".toList = "c%3Ad%2Ce%25.proto".toList := by decide
example : DispInj [ex1, ex2, exNl] := by
  intro a ha b hb; revert a b; decide

end BufProofs.C20
