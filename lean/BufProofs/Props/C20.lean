import BufProofs.Lemmas.AnnotLemmas
/-
  C20 — Exit status and every diagnostic format tell the same verdict.
  Property theorems only; helper lemmas live in BufProofs/Lemmas/AnnotLemmas.lean, the model in
  BufModel/Annot.lean (it describes the code after the `fix:` changes; the pre-fix key and
  printers are kept for the `…_counterexample` theorems).

  Sections: exit status over Go error values (trichotomy under `StepsOK`, the error → status
  mapping, three necessity counterexamples) · `buf format` modes · `-w` and the output sinks
  (stdout, `-o file`, `-o dir`) at the level of file contents · de-duplication and order ·
  the formats (record structure, `formats_decode` = parse ∘ print, cross-format agreement
  `formats_carry_same_fields` on the fields two formats share).
-/
namespace BufProofs.C20
open BufModel.Annot

/-! ## exit status

The commands are modelled over Go error VALUES (`GoErr`: FileAnnotationSet | ImportNotExistError |
plain | fmt.Errorf-wrapped | *appError(code) | *syserror.Error | *connect.Error | errors.Join) and
the code that classifies them as coded: `handleFAS` (controller.handleFileAnnotationSetRetError),
the check loops of lint / breaking, `wrapError` (buf.go), `getExitCode` (app.GetExitCode),
`textOf` (app.printError).  Hypothesis of the three trichotomy theorems, `StepsOK c`: an error a
step returns has a message and carries no exit code of its own (in /repo the only creators of an
*appError on these paths are bufctl.ErrFileAnnotation and wrapError itself — the harness scans the
tree for others), and the `wasmRuntime.Close` error of lint / breaking is no system / connect
error.  Each hypothesis is necessary: see the three `…_counterexample` theorems. -/

/-- `build`, `lint`, `breaking`, `format` (in every output mode: `Cmd.format` carries the mode
    `-d` / `-w` / `-o` / `--exit-code` as a parameter) exit 0 exactly when there is nothing to
    report: no annotation was printed, no "Failure: …" line, no format difference. -/
theorem exit_zero_iff_nothing (c : Cmd) (h : StepsOK c) :
    c.run.exit = 0 ↔ c.run.printed = [] ∧ c.run.failureLine = false ∧ c.run.diff = false := by
  rcases shape_observables (run_shape c h) with ⟨h1, h2, h3, h4, _, _⟩ | ⟨h1, h2, _⟩ | ⟨e, _, _, h1, h2, h3, h4, _⟩
  · simp [h1, h2, h3, h4]
  · simp only [h1]
    constructor
    · intro h; cases h
    · rintro ⟨hp, _, hd⟩
      rcases h2 with h2 | h2
      · exact absurd hp h2
      · rw [hd] at h2; cases h2
  · rw [h1, h3]
    constructor
    · intro h; split at h <;> cases h
    · rintro ⟨_, hf, _⟩; cases hf

/-- Status 100 exactly when the problem lies in the user's sources: annotations were printed,
    an import could not be found (`importNotFound`: wrapError took its `errors.As(err,
    &importNotExistError)` branch — characterised by `import_not_found_exits_100`), or `format
    --exit-code` found a difference — for every output mode of `buf format` (see
    `format_diff_reported_iff` for when `diff` is set). -/
theorem exit_100_iff_user_sources (c : Cmd) (h : StepsOK c) :
    c.run.exit = 100 ↔ c.run.printed ≠ [] ∨ c.run.importNotFound = true ∨ c.run.diff = true := by
  rcases shape_observables (run_shape c h) with ⟨h1, h2, _, h4, h5, _⟩ | ⟨h1, h2, _⟩ | ⟨e, _, _, h1, h2, _, h4, h5⟩
  · simp [h1, h2, h4, h5]
  · simp only [h1, true_iff]
    rcases h2 with h2 | h2
    · exact Or.inl h2
    · exact Or.inr (Or.inr h2)
  · rw [h1, h2, h4, h5]
    cases importBranch e <;> simp

/-- Every other failure (operational error: the command returned an error that is neither the
    annotation sentinel nor reaches the import-not-found branch) exits with 1 — different from
    both 0 and 100 — and says "Failure: …" with nothing printed; there is no fourth status. -/
theorem exit_other_iff_operational (c : Cmd) (h : StepsOK c) :
    (c.run.exit ≠ 0 ∧ c.run.exit ≠ 100 ↔
      ∃ e, c.run.ret = some e ∧ e.noApp = true ∧ importBranch e = false) ∧
    ((∃ e, c.run.ret = some e ∧ e.noApp = true ∧ importBranch e = false) →
      c.run.exit = 1 ∧ c.run.failureLine = true ∧ c.run.printed = [] ∧ c.run.diff = false) ∧
    (c.run.exit = 0 ∨ c.run.exit = 100 ∨ c.run.exit = 1) := by
  rcases shape_observables (run_shape c h) with ⟨h1, _, _, _, _, h6⟩ | ⟨h1, _, e', he', hn'⟩ | ⟨e, he, hn, h1, h2, h3, h4, _⟩
  · refine ⟨?_, ?_, Or.inl h1⟩
    · simp [h1, h6]
    · rintro ⟨e, he, _⟩; rw [h6] at he; cases he
  · refine ⟨?_, ?_, Or.inr (Or.inl h1)⟩
    · simp only [h1, ne_eq, not_true_eq_false, and_false, false_iff]
      rintro ⟨e, he, hn, _⟩
      rw [he'] at he; cases he; rw [hn'] at hn; cases hn
    · rintro ⟨e, he, hn, _⟩
      rw [he'] at he; cases he; rw [hn'] at hn; cases hn
  · cases hb : importBranch e with
    | true =>
      rw [hb] at h1
      replace h1 : c.run.exit = 100 := h1
      refine ⟨?_, ?_, Or.inr (Or.inl h1)⟩
      · simp only [h1, ne_eq, not_true_eq_false, and_false, false_iff]
        rintro ⟨e2, he2, _, hb2⟩
        rw [he] at he2; cases he2; rw [hb] at hb2; cases hb2
      · rintro ⟨e2, he2, _, hb2⟩
        rw [he] at he2; cases he2; rw [hb] at hb2; cases hb2
    | false =>
      rw [hb] at h1
      replace h1 : c.run.exit = 1 := h1
      refine ⟨?_, fun _ => ⟨h1, h3, h2, h4⟩, Or.inr (Or.inr h1)⟩
      simp only [h1]
      exact ⟨fun _ => ⟨e, he, hn, hb⟩, fun _ => ⟨by decide, by decide⟩⟩

/-- The error → exit status mapping itself (wrapError + GetExitCode + printError, as coded), for
    EVERY error value without an exit code of its own: 100 exactly when wrapError's
    import-not-found branch is taken, 1 otherwise; a "Failure:" line exactly when the error has a
    message. -/
theorem error_exit_status (e : GoErr) (h : e.noApp = true) :
    getExitCode (wrapError (some e)) = (if importBranch e then 100 else 1) ∧
    textOf (wrapError (some e)) = e.text :=
  ⟨wrapError_exit e h, wrapError_failureLine e⟩

/-- "an import could not be found ⇒ 100": an error tree that holds an ImportNotExistError below
    ANY stack of wrappers (fmt.Errorf %w, errors.Join, even a foreign *appError), and no connect /
    system error, exits 100 with a "Failure:" line.  (With a *syserror.Error or one of the special
    connect codes in the tree wrapError drops the chain first and the status is 1 — as coded.) -/
theorem import_not_found_exits_100 (e : GoErr) (hc : e.findConnect = none) (hs : e.findSys = none)
    (hi : e.hasImport = true) :
    importBranch e = true ∧ getExitCode (wrapError (some e)) = 100 ∧ textOf (wrapError (some e)) = true := by
  have ht := text_of_hasImport hi
  refine ⟨by simp [importBranch, hc, ht, sysStrip, hs, hi], ?_, by rw [wrapError_failureLine, ht]⟩
  simp only [wrapError, hc, ht, if_true, wrapTail, sysStrip, hs, hi, newAppError_100, getExitCode, GoErr.findApp]
  rfl

/-- A FileAnnotationSet ANYWHERE in the error tree of a controller method is printed
    (de-duplicated, sorted) and turns into status 100 without a "Failure:" line. -/
theorem annotation_set_exits_100 (e : GoErr) (hd : Annot) (tl : List Annot) (h : e.findAnnots = some (hd, tl)) :
    (failStep e []).printed = dedupSort (hd :: tl) ∧ (failStep e []).printed ≠ [] ∧
    (failStep e []).exit = 100 ∧ (failStep e []).failureLine = false := by
  have h1 : handleFAS e = (errFileAnnotation, dedupSort (hd :: tl)) := by simp [handleFAS, h]
  refine ⟨by simp [failStep, h1], by simpa [failStep, h1] using dedupSort_ne_nil (List.cons_ne_nil hd tl), ?_, ?_⟩
  · simp only [Outcome.exit, Outcome.err, failStep, h1, errFileAnnotation_facts.1, errFileAnnotation_facts.2.1]
  · simp only [Outcome.failureLine, Outcome.err, failStep, h1, errFileAnnotation_facts.1, textOf,
      errFileAnnotation_facts.2.2.1]

private def ex1 : Annot :=
  { file := some "a.proto".toList, sl := 1, sc := 23, el := 1, ec := 29,
    type := "FIELD_LOWER_SNAKE_CASE".toList, msg := "m".toList, plugin := [] }
private def ex2 : Annot := { ex1 with sl := 12, sc := 3, el := 12, ec := 9 }

/-- Necessity of `CloseBenign`: `buf lint` printed annotations, then `wasmRuntime.Close` fails with
    a system error — wrapError keeps only what the *syserror.Error wraps, the ErrFileAnnotation it
    was joined with is lost, and the status is 1 although annotations were printed (as coded; not
    reachable in the harness). -/
theorem close_syserror_counterexample :
    (Cmd.lint [] [] [some (.annotSet ex1 [])] (some (.sys (.plain true)))).run.printed ≠ [] ∧
    (Cmd.lint [] [] [some (.annotSet ex1 [])] (some (.sys (.plain true)))).run.exit = 1 := by decide

/-- Necessity of "a step error has a message": errors.New("") from a step gives status 1 and no
    output at all. -/
theorem silent_error_counterexample :
    (Cmd.build [(false, some (.plain false))]).run.exit = 1 ∧
    (Cmd.build [(false, some (.plain false))]).run.failureLine = false ∧
    (Cmd.build [(false, some (.plain false))]).run.printed = [] := by decide

/-- Necessity of "no exit code of its own": a step returning app.NewError(100, "x") exits 100
    with nothing printed and no import involved. -/
theorem foreign_exit_code_counterexample :
    (Cmd.build [(true, some (.app 100 (.plain true)))]).run.exit = 100 ∧
    (Cmd.build [(true, some (.app 100 (.plain true)))]).run.printed = [] ∧
    (Cmd.build [(true, some (.app 100 (.plain true)))]).run.importNotFound = false := by decide

/-- WHERE a problem in the sources is met decides how it is reported (as coded).  The header scan
    of a `.proto` file (`file.proto#include_package_files=true` scans every file of the module
    before anything is compiled) returns an annotation set; inside a controller method
    (`buf ls-files`, `build`, `lint`, `breaking`: first line) it is printed and the status is 100
    with no "Failure:" line.  The same value returned by a step that runs directly in the
    command (`buf ls-files --include-imports`, `buf dep graph`: second line) is NOT printed: status
    1 and a "Failure:" line.  And if the scan error were no annotation set at all (third line: a
    plain error, what a missing conversion in bufmodule would give) the controller method has
    nothing to print either: status 1 - which is why the conversion is part of the property. -/
theorem header_scan_error_where_it_is_met :
    ((Cmd.lsFiles [(false, none), (true, some (.annotSet ex1 []))]).run.exit = 100 ∧
     (Cmd.lsFiles [(false, none), (true, some (.annotSet ex1 []))]).run.printed = [ex1] ∧
     (Cmd.lsFiles [(false, none), (true, some (.annotSet ex1 []))]).run.failureLine = false) ∧
    ((Cmd.lsFiles [(false, none), (true, none), (false, some (.annotSet ex1 []))]).run.exit = 1 ∧
     (Cmd.lsFiles [(false, none), (true, none), (false, some (.annotSet ex1 []))]).run.printed = [] ∧
     (Cmd.lsFiles [(false, none), (true, none), (false, some (.annotSet ex1 []))]).run.failureLine = true) ∧
    ((Cmd.build [(true, some (.plain true))]).run.exit = 1 ∧
     (Cmd.build [(true, some (.plain true))]).run.printed = [] ∧
     (Cmd.build [(true, some (.plain true))]).run.failureLine = true) := by decide

-- non-vacuity: each status is reached, by each kind of cause
private def ok1 : CStep := (true, none)
private def annStep (l : List Annot) : Step := match l with | [] => none | a :: t => some (.annotSet a t)
example : (Cmd.lint [none] [ok1] [none, none] none).run.exit = 0 := by decide
example : (Cmd.lint [none] [ok1] [none, some (.annotSet ex1 [ex2])] none).run.exit = 100 := by decide
example : (Cmd.lint [none] [ok1] [none, some (.wrapf (.annotSet ex1 [ex2]))] none).run.printed.length = 2 := by decide
example : (Cmd.build [(true, some (.annotSet ex1 []))]).run.exit = 100 := by decide
example : (Cmd.depGraph [ok1, (false, some (.wrapf .importNotExist))]).run.exit = 100 := by decide
example : (Cmd.depGraph [ok1, (false, some (.wrapf .importNotExist))]).run.failureLine = true := by decide
example : (Cmd.breaking [] [ok1, (true, some .importNotExist)] [] none).run.importNotFound = true := by decide
-- annotations collected, then a check fails otherwise: nothing printed, status 1
example : (Cmd.lint [] [ok1] [some (.annotSet ex1 []), some (.plain true)] none).run =
    { ret := some (.plain true), printed := [], diff := false } := by decide
example : (Cmd.lint [] [ok1] [some (.annotSet ex1 []), some (.plain true)] none).run.exit = 1 := by decide
-- annotations printed and a (benign) close error: still 100, now with a Failure line
example : (Cmd.lint [] [ok1] [some (.annotSet ex1 [])] (some (.plain true))).run.exit = 100 ∧
    (Cmd.lint [] [ok1] [some (.annotSet ex1 [])] (some (.plain true))).run.failureLine = true := by decide
-- an image that lacks a dependency: a system error, status 1
example : (Cmd.lint [] [(true, some (.sys (.plain true)))] [] none).run.exit = 1 := by decide
example : StepsOK (Cmd.lint [none] [ok1] [none, some (.annotSet ex1 [ex2])] (some (.plain true))) := by
  refine ⟨?_, ?_⟩
  · intro e he
    simp only [Cmd.stepErrs, ok1, List.map_cons, List.map_nil, List.cons_append, List.nil_append, List.filterMap_cons,
      List.filterMap_nil, id, List.mem_cons, List.not_mem_nil, or_false] at he
    rcases he with rfl | rfl <;> exact ⟨rfl, rfl⟩
  · intro e he; cases he; exact ⟨rfl, rfl⟩
example : importBranch (.join (.wrapf (.wrapf .importNotExist)) (.plain true)) = true := by decide
example : importBranch (.sys (.wrapf .importNotExist)) = true := by decide
example : importBranch (.join (.sys (.plain true)) .importNotExist) = false := by decide
private def mDiffExit : FmtMode := { diff := true, write := false, out := .stdout, exitCode := true }
example : (Cmd.format mDiffExit true [ok1] none true .ok).run.exit = 100 := by decide
example : (Cmd.format mDiffExit true [ok1] none false .ok).run.exit = 0 := by decide
example : (Cmd.format { mDiffExit with exitCode := false } true [ok1] none true .ok).run.exit = 0 := by decide
example : (Cmd.format mDiffExit true [ok1] (some (.plain true)) true .ok).run.exit = 1 := by decide

/-! ## `buf format`: the verdict is the same in every output mode -/

/-- `--exit-code` in EVERY mode — plain, `-d`, `-w`, `-d -w`, `-o X`, `-d -o X`: when nothing
    operational goes wrong the exit status is 100 exactly when the flag is given and a file is
    not formatted, 0 otherwise; no annotation and no "Failure:" line is printed. -/
theorem format_exit_code_every_mode (m : FmtMode) (sw : Bool) (ctl : List CStep) (f : Step) (d : Bool)
    (io : FmtIO) (h : FmtClean m sw ctl f d io) :
    (Cmd.format m sw ctl f d io).run.exit = (if m.exitCode && d then 100 else 0) ∧
    (Cmd.format m sw ctl f d io).run.printed = [] ∧
    (Cmd.format m sw ctl f d io).run.failureLine = false := by
  simp only [Cmd.run, format, formatFull_clean h, fmtDeferred]
  split
  · simp only [Outcome.exit, Outcome.failureLine, Outcome.err, errFileAnnotation_facts.1,
      errFileAnnotation_facts.2.1, textOf, errFileAnnotation_facts.2.2.1, and_self]
  · simp [Outcome.exit, Outcome.failureLine, Outcome.err, Outcome.ok, wrapError, getExitCode, textOf]

/-- The "difference found" verdict, completely, for every mode: it is reported exactly when
    `--exit-code` is given, a difference exists, the flag combination is valid, and no step of
    the run — controller, formatter, or an I/O step THE MODE PERFORMS — failed.  Together with
    `exit_100_iff_user_sources` (which quantifies over all modes through `Cmd.format`): no mode
    loses the 100 and no mode invents one. -/
theorem format_diff_reported_iff (m : FmtMode) (sw : Bool) (ctl : List CStep) (f : Step) (d : Bool)
    (io : FmtIO) :
    (Cmd.format m sw ctl f d io).run.diff = true ↔
      m.exitCode = true ∧ d = true ∧ FmtClean m sw ctl f d io := by
  constructor
  · intro h
    simp only [Cmd.run, format, formatFull] at h
    by_cases hv : m.valid sw = true
    · rw [hv] at h
      simp only [Bool.not_true, Bool.false_eq_true, if_false] at h
      cases hr : runSteps (ctl ++ [(false, f)]) with
      | some o =>
        rw [hr] at h
        exact absurd h (by rw [runSteps_diff _ o hr]; decide)
      | none =>
        rw [hr] at h
        have hall := (runSteps_eq_none_iff _).mp hr
        by_cases hio : ∀ s ∈ m.ioSteps d io, s = none
        · rw [fmtTail_clean m d io hio] at h
          simp only [fmtDeferred] at h
          split at h
          · rename_i he
            simp only [Bool.and_eq_true] at he
            exact ⟨he.1, he.2, hv, fun s hs => hall s (List.mem_append_left _ hs),
              hall (false, f) (List.mem_append_right _ (List.mem_singleton.mpr rfl)), hio⟩
          · exact absurd h (by decide)
        · obtain ⟨e, he⟩ := fmtTail_dirty m d io hio
          rw [he.2, failDirect_diff] at h
          exact absurd h (by decide)
    · have hv' : m.valid sw = false := by simpa using hv
      rw [hv'] at h
      simp only [Bool.not_false, if_true, failDirect_diff] at h
      exact absurd h (by decide)
  · rintro ⟨he, hd, hc⟩
    subst hd
    have := formatFull_clean hc
    simp only [Cmd.run, format, this, fmtDeferred, he]
    rfl

/-- Two valid modes with the same `--exit-code` setting give the same exit status on the same
    sources: the verdict does not depend on WHERE the result goes. -/
theorem format_verdict_mode_independent (m1 m2 : FmtMode) (sw : Bool) (ctl : List CStep) (f : Step)
    (d : Bool) (io1 io2 : FmtIO) (he : m1.exitCode = m2.exitCode)
    (h1 : FmtClean m1 sw ctl f d io1) (h2 : FmtClean m2 sw ctl f d io2) :
    (Cmd.format m1 sw ctl f d io1).run.exit = (Cmd.format m2 sw ctl f d io2).run.exit := by
  rw [(format_exit_code_every_mode m1 sw ctl f d io1 h1).1,
    (format_exit_code_every_mode m2 sw ctl f d io2 h2).1, he]

/-- Already formatted input exits 0 in every mode, with or without `--exit-code` — in particular
    the second run after `-w` (which rewrote every changed file: `rewrote = d`; that re-formatting
    the formatted file changes nothing is C07's idempotence). -/
theorem format_formatted_input_exits_zero (m : FmtMode) (sw : Bool) (ctl : List CStep) (f : Step)
    (io : FmtIO) (h : FmtClean m sw ctl f false io) :
    (Cmd.format m sw ctl f false io).run.exit = 0 := by
  rw [(format_exit_code_every_mode m sw ctl f false io h).1]
  simp

/-- What each mode does besides exiting (clean run): the diff goes to stdout exactly with `-d`
    when one exists; the formatted source goes to stdout only in the plain mode; files are
    rewritten exactly with `-w` when a difference exists; the `-o` location is written exactly
    without `-w` when `-o` names a path. -/
theorem format_effects_by_mode (m : FmtMode) (sw : Bool) (ctl : List CStep) (f : Step) (d : Bool)
    (io : FmtIO) (h : FmtClean m sw ctl f d io) :
    (formatFull m sw ctl f d io).2 =
      { stdoutDiff := m.diff && d,
        stdoutSource := !m.diff && !m.write && m.out == .stdout,
        rewrote := m.write && d,
        wroteOut := !m.write && m.out == .path } := by
  rw [formatFull_clean h]

/-- An invalid flag combination (`-w` with `-o`, `-w` on a source that cannot be rewritten) is an
    operational error in every mode: status 1 with a "Failure:" line, nothing done. -/
theorem format_invalid_mode_is_operational (m : FmtMode) (sw : Bool) (ctl : List CStep) (f : Step)
    (d : Bool) (io : FmtIO) (h : m.valid sw = false) :
    (Cmd.format m sw ctl f d io).run.exit = 1 ∧ (Cmd.format m sw ctl f d io).run.failureLine = true ∧
    (formatFull m sw ctl f d io).2 = FmtEffects.none := by
  simp only [Cmd.run, format, formatFull, h, Bool.not_false, if_true]
  refine ⟨?_, ?_, ?_⟩ <;> first | rfl | decide

/-! ## `buf format -w`: what is on disk afterwards

`buf format` owns the output modes; the verdict of `--exit-code` ("a difference exists") and of
the run after `-w` ("nothing to report") are only right when `-w` leaves in every targeted file
exactly the formatter's output.  The walk is modelled as coded (`rewriteWalk`: path order, open
with O_TRUNC, first failing open ends it); the formatter is a parameter (C07). -/

/-- A `-w` run in which every targeted file parses and every changed file can be opened: it does
    not fail, EVERY file holds what it is to hold — the formatter's output if targeted, its old
    content otherwise (byte for byte, whatever the lengths) — and the difference it reports is
    "some targeted file differed from the formatter's output". -/
theorem write_leaves_formatter_output (fs : List WFile) (hp : fmtStepOk fs = true)
    (ho : ∀ f ∈ fs, f.changed = true → f.openable = true) :
    formatWrite fs = (fs.map (fun f => (f.path, f.want)), false, fs.any (·.changed)) := by
  unfold formatWrite
  rw [hp, if_pos rfl, rewriteWalk_clean writeTrunc fs ho]
  simp only [WFile.written_eq_want]

/-- The run after `-w` is clean: with a formatter that reproduces its own output (C07's
    idempotence, needed only on the outputs written) no file is among the changed paths any more
    — `--exit-code` gives 0, `-d` prints nothing (`format_formatted_input_exits_zero`) — and the
    second run leaves every file as the first one left it. -/
theorem write_second_run_clean (F : Str → Option Str) (fs : List WFile) (hp : fmtStepOk fs = true)
    (hF : ∀ f ∈ fs, f.target = true → ∀ t, f.fmt = some t → F t = some t) :
    (nextRun F fs).any (·.changed) = false ∧
    formatWrite (nextRun F fs) = (fs.map (fun f => (f.path, f.want)), false, false) := by
  have hfmt : ∀ f ∈ fs, f.target = true → ∃ t, f.fmt = some t ∧ f.want = t ∧ F f.want = some t := by
    intro f hf ht
    have h := (List.all_eq_true.mp hp) f hf
    simp only [ht, Bool.not_true, Bool.false_or] at h
    obtain ⟨t, hft⟩ := Option.isSome_iff_exists.mp h
    refine ⟨t, hft, ?_, ?_⟩
    · simp [WFile.want, ht, hft]
    · have : f.want = t := by simp [WFile.want, ht, hft]
      rw [this]; exact hF f hf ht t hft
  have hch : ∀ g ∈ nextRun F fs, g.changed = false := by
    intro g hg
    obtain ⟨f, hf, rfl⟩ := List.mem_map.mp hg
    cases ht : f.target
    · simp [WFile.changed, ht]
    · obtain ⟨t, _, hw, hFw⟩ := hfmt f hf ht
      rw [hw] at hFw
      simp [WFile.changed, ht, hw, hFw]
  have hany : (nextRun F fs).any (·.changed) = false := by
    rw [List.any_eq_false]
    intro g hg; rw [hch g hg]; exact Bool.false_ne_true
  have hp2 : fmtStepOk (nextRun F fs) = true := by
    unfold fmtStepOk
    rw [List.all_eq_true]
    intro g hg
    obtain ⟨f, hf, rfl⟩ := List.mem_map.mp hg
    cases ht : f.target
    · simp [ht]
    · obtain ⟨t, _, _, hFw⟩ := hfmt f hf ht
      simp [ht, hFw]
  refine ⟨hany, ?_⟩
  rw [write_leaves_formatter_output _ hp2 (fun g hg hc => by rw [hch g hg] at hc; exact nomatch hc), hany]
  congr 1
  unfold nextRun
  rw [List.map_map]
  apply List.map_congr_left
  intro f hf
  cases ht : f.target
  · simp [WFile.want, ht]
  · obtain ⟨t, _, hw, hFw⟩ := hfmt f hf ht
    rw [hw] at hFw
    simp [WFile.want, ht] at hw ⊢
    simp [hw, hFw]

/-- A changed file that cannot be opened (a read-only file for a non-root user): the run fails
    (status 1 through `format_exit_code_every_mode`'s rewrite step), the files before it in path
    order are rewritten, that file and every later one are as they were. -/
theorem write_failure_stops_walk (pre : List WFile) (f : WFile) (post : List WFile)
    (hp : fmtStepOk (pre ++ f :: post) = true)
    (hpre : ∀ g ∈ pre, g.changed = true → g.openable = true)
    (hc : f.changed = true) (ho : f.openable = false) :
    formatWrite (pre ++ f :: post) =
      (pre.map (fun g => (g.path, g.want)) ++ (f.path, f.orig) :: untouched post, true, true) := by
  unfold formatWrite
  rw [hp, if_pos rfl, rewriteWalk_stops writeTrunc pre f post hpre hc ho]
  simp only [WFile.written_eq_want]
  congr 2
  simp [hc]

/-- Whatever happens (a failing open included): no file appears or disappears, and a file that is
    not targeted, or already formatted, keeps its content. -/
theorem write_touches_only_changed (fs : List WFile) :
    (formatWrite fs).1.map Prod.fst = fs.map (·.path) ∧
    ∀ f ∈ fs, f.changed = false → (f.path, f.orig) ∈ (formatWrite fs).1 := by
  unfold formatWrite
  cases fmtStepOk fs
  · refine ⟨by simp [untouched, List.map_map, Function.comp_def], ?_⟩
    intro f hf _
    exact List.mem_map.mpr ⟨f, hf, rfl⟩
  · exact rewriteWalk_frame writeTrunc fs

/-- Why the open must truncate: written over the old content WITHOUT truncation a formatted text
    that is shorter leaves the tail of the old content behind it — the file is not the formatter's
    output (here it no longer parses) — while equal or longer texts come out right, which is why
    only inputs that SHRINK when formatted show it (`writeOver_eq_iff`). -/
theorem write_without_truncate_counterexample :
    let f : WFile := { path := "a.proto".toList, orig := "message   A   {   }\n".toList,
                       fmt := some "message A {}\n".toList, target := true, openable := true }
    (rewriteWalk writeOver [f]).1 = [("a.proto".toList, "message A {}\n {   }\n".toList)] ∧
    (rewriteWalk writeTrunc [f]).1 = [("a.proto".toList, "message A {}\n".toList)] ∧
    (∀ old new : Str, writeOver old new = new ↔ old.length ≤ new.length) := by
  refine ⟨by decide, by decide, writeOver_eq_iff⟩

-- non-vacuity: a directory with a file that shrinks, one that grows, an untargeted and a formatted one
def wEx : List WFile :=
  [ { path := "a.proto".toList, orig := "message   A   {   }\n".toList, fmt := some "message A {}\n".toList, target := true, openable := true },
    { path := "b.proto".toList, orig := "message B{}".toList, fmt := some "message B {}\n".toList, target := true, openable := true },
    { path := "c.proto".toList, orig := "message  C{}".toList, fmt := some "message C {}\n".toList, target := false, openable := true },
    { path := "d.proto".toList, orig := "message D {}\n".toList, fmt := some "message D {}\n".toList, target := true, openable := false } ]
example : fmtStepOk wEx = true ∧ (∀ f ∈ wEx, f.changed = true → f.openable = true) := by decide
example : formatWrite wEx =
    ([("a.proto".toList, "message A {}\n".toList), ("b.proto".toList, "message B {}\n".toList),
      ("c.proto".toList, "message  C{}".toList), ("d.proto".toList, "message D {}\n".toList)], false, true) := by decide
example : (formatWrite (nextRun (fun t => some t) wEx)).2 = (false, false) := by decide

/-! ## `buf format` to stdout, `-o file.proto`, `-o dir`: what the sink holds afterwards

The verdict of `--exit-code` says "the formatter's output differs from the input"; what the user
gets in the modes without `-w` is the sink.  As coded (`writeToProtoFile`: `PutProtoFile`
truncating, one walk in path order, a complete read and a complete write per file;
`writeToDir`: `storage.Copy`) the sink holds every targeted file's formatter output completely,
whatever its length; the formatter is a parameter (C07). -/

/-- stdout / `-o file.proto` when every targeted file parses: the run does not fail and the sink
    holds exactly the concatenation, in path order, of the formatter's outputs of the targeted
    files, whatever the location held before (truncate on open) — every targeted file's COMPLETE
    output `t` is in it, after the outputs of the targeted files before it and followed by those
    of the files after it; the length is the sum of the lengths. -/
theorem sink_holds_every_output_in_path_order (old : Str) (fs : List WFile) (hp : fmtStepOk fs = true) :
    formatToFile old fs = (sinkOut fs, false) ∧ formatToStdout fs = (sinkOut fs, false) ∧
    (∀ pre f post t, fs = pre ++ f :: post → f.target = true → f.fmt = some t →
      sinkOut fs = sinkOut pre ++ t ++ sinkOut post) ∧
    (sinkOut fs).length = ((fs.filter (·.target)).map fun f => (f.fmt.getD []).length).sum := by
  refine ⟨?_, ?_, ?_, sinkOut_length fs⟩
  · unfold formatToFile writeTrunc; rw [hp, if_pos rfl]
  · unfold formatToStdout formatToFile writeTrunc; rw [hp, if_pos rfl]
  · intro pre f post t hfs ht hf
    rw [hfs, sinkOut_append, sinkOut_cons, ht, if_pos rfl, hf, List.append_assoc]
    rfl

/-- `-o dir` when every targeted file parses: exactly the targeted files are written, each holding
    its complete formatter output (`f.fmt = some t` ⇒ `(f.path, t)` is written). -/
theorem dir_holds_every_output (fs : List WFile) (hp : fmtStepOk fs = true) :
    (formatToDir fs).2 = false ∧
    (∀ f ∈ fs, f.target = true → ∀ t, f.fmt = some t → (f.path, t) ∈ (formatToDir fs).1) ∧
    (∀ pc ∈ (formatToDir fs).1, ∃ f ∈ fs, f.target = true ∧ pc = (f.path, f.fmt.getD [])) := by
  unfold formatToDir
  rw [hp, if_pos rfl]
  refine ⟨rfl, ?_, ?_⟩
  · intro f hf ht t hft
    refine List.mem_map.mpr ⟨f, List.mem_filter.mpr ⟨hf, by simpa using ht⟩, ?_⟩
    rw [hft]; rfl
  · intro pc hpc
    obtain ⟨f, hf, rfl⟩ := List.mem_map.mp hpc
    have := List.mem_filter.mp hf
    exact ⟨f, this.1, by simpa using this.2, rfl⟩

/-- A targeted file that does not parse: the run fails BEFORE the sink is opened — the `-o` file
    keeps what it held, nothing is written below `-o dir`, nothing reaches stdout. -/
theorem sink_untouched_on_parse_error (old : Str) (fs : List WFile) (hp : fmtStepOk fs = false) :
    formatToFile old fs = (old, true) ∧ formatToStdout fs = ([], true) ∧ formatToDir fs = ([], true) := by
  unfold formatToStdout formatToFile formatToDir
  rw [hp]
  exact ⟨rfl, rfl, rfl⟩

/-- The protocol of the correspondence harness carries summaries (length, polynomial hash) of
    texts of up to a megabyte instead of the texts.  The summary is a monoid homomorphism
    (`summ_append`), hence the sink model evaluated on the summaries of the files gives the
    summary of what the sink model on the contents gives — for stdout / `-o file`, `-o dir` and
    (every changed file can be opened) `-w`. -/
theorem sink_summary_is_summary_of_sink (old : Str) (fs : List WFile) :
    (∀ a b : List Nat, summ (a ++ b) = (summ a).append (summ b)) ∧
    formatToFileS (summS old) (fs.map WFile.toS) = (summS (formatToFile old fs).1, (formatToFile old fs).2) ∧
    formatToDirS (fs.map WFile.toS) = ((formatToDir fs).1.map fun pc => (pc.1, summS pc.2), (formatToDir fs).2) ∧
    ((∀ f ∈ fs, f.changed = true → f.openable = true) →
      formatWriteS (fs.map WFile.toS) = ((formatWrite fs).1.map fun pc => (pc.1, summS pc.2), (formatWrite fs).2.1)) := by
  refine ⟨summ_append, ?_, ?_, ?_⟩
  · unfold formatToFileS formatToFile writeTrunc
    rw [sfmtStepOk_toS, sinkSumm_eq]
    cases fmtStepOk fs <;> rfl
  · unfold formatToDirS formatToDir
    rw [sfmtStepOk_toS]
    cases fmtStepOk fs
    · rfl
    · simp only [if_true, List.map_map, Prod.mk.injEq, and_true]
      induction fs with
      | nil => rfl
      | cons f fs ih =>
        simp only [List.map_cons, List.filter_cons]
        have ht : f.toS.target = f.target := rfl
        rw [ht]
        cases f.target
        · simpa using ih
        · simp only [if_true, List.map_cons, Function.comp, toS_fmt]
          rw [ih]; rfl
  · intro ho
    unfold formatWriteS
    rw [sfmtStepOk_toS]
    cases hp : fmtStepOk fs
    · unfold formatWrite untouched
      rw [hp]
      simp only [Bool.false_eq_true, if_false, List.map_map, Prod.mk.injEq, and_true]
      rfl
    · rw [write_leaves_formatter_output fs hp ho]
      simp only [if_true, List.map_map, Prod.mk.injEq, and_true]
      apply List.map_congr_left
      intro f _
      simp only [Function.comp, WFile.want, WFile.toS]
      rcases f with ⟨p, o, fm, t, op⟩
      cases t <;> cases fm <;> rfl

/-- Why every file must be read to its end: sent through ONE `Read` into a buffer of `n` units per
    file (the recorded regression: n = 32768) the sink is the formatter's output exactly when no
    targeted output is longer than the buffer — every test with small files passes, a longer file
    is cut silently (here n = 8: `message A {}\n` arrives as `message `), and the file after it
    follows the cut directly. -/
theorem sink_single_read_counterexample :
    (∀ n fs, sinkCut n fs = sinkOut fs ↔ ∀ f ∈ fs, f.target = true → (f.fmt.getD []).length ≤ n) ∧
    (let a : WFile := { path := "a.proto".toList, orig := "message A{}".toList, fmt := some "message A {}\n".toList, target := true, openable := true }
     let b : WFile := { path := "b.proto".toList, orig := "enum E{}".toList, fmt := some "enum E {}\n".toList, target := true, openable := true }
     sinkCut 8 [a, b] = "message enum E {".toList ∧ sinkOut [a, b] = "message A {}\nenum E {}\n".toList ∧
     sinkCut 13 [a, b] = sinkOut [a, b]) := by
  refine ⟨sinkCut_eq_iff, by decide⟩

/-- Why the `-o` file must be opened truncating: opened for appending, the result is the
    formatter's output exactly when the location was empty. -/
theorem sink_without_truncate_counterexample :
    (∀ old new : Str, writeAppend old new = new ↔ old = []) ∧
    (∀ old new : Str, writeTrunc old new = new) ∧
    writeAppend "// stale\n".toList "message A {}\n".toList = "// stale\nmessage A {}\n".toList := by
  refine ⟨?_, fun _ _ => rfl, by decide⟩
  intro old new
  unfold writeAppend
  exact List.append_left_eq_self

-- non-vacuity: the directory of `wEx` (c.proto is not targeted) sent to stdout / a file that held something
example : fmtStepOk wEx = true := by decide
example : formatToFile "// stale\n".toList wEx = ("message A {}\nmessage B {}\nmessage D {}\n".toList, false) := by decide
example : (formatToDir wEx).1.map (·.1) = ["a.proto".toList, "b.proto".toList, "d.proto".toList] := by decide
example : (summ [1, 2]).append (summ [3]) = summ [1, 2, 3] ∧ summ [1, 2, 3] = ⟨3, 66566⟩ := by decide
example : formatToFileS Summ.empty (wEx.map WFile.toS) = (summS "message A {}\nmessage B {}\nmessage D {}\n".toList, false) := by
  rw [show Summ.empty = summS [] from rfl, (sink_summary_is_summary_of_sink [] wEx).2.1]
  decide


-- non-vacuity: all 16 flag combinations exist, the 12 valid ones are clean on an all-ok run and
-- give 100 exactly for the six with --exit-code when a difference exists
example : FmtMode.all.length = 16 := by decide
example : (FmtMode.all.filter (·.valid true)).length = 12 := by decide
example : ((FmtMode.all.filter (·.valid true)).map fun m => (Cmd.format m true [(true, none)] none true .ok).run.exit)
    = [0, 100, 0, 100, 0, 100, 0, 100, 0, 100, 0, 100] := by decide
example : ∀ m ∈ FmtMode.all, (Cmd.format m true [(true, none)] none false .ok).run.exit = if m.valid true then 0 else 1 := by decide
example : FmtClean mDiffExit true [(true, none)] none true .ok := by
  refine ⟨by decide, by simp, rfl, by decide⟩
-- a failing output step in `-d -o X --exit-code`: the diff was printed, the error wins
example : formatFull { diff := true, write := false, out := .path, exitCode := true } true [(true, none)] none true
    { FmtIO.ok with output := some (.plain true) } =
    ({ ret := some (.plain true), printed := [], diff := false }, { FmtEffects.none with stdoutDiff := true }) := by decide

/-! ## de-duplication and order -/

/-- Two annotations that differ on one of the seven key fields (path, start line, start column,
    end line, end column, type, message) are both represented in the result, by different
    entries: de-duplication merges only annotations equal on all seven. -/
theorem dedup_only_equal (l : List Annot) (a b : Annot) (ha : a ∈ l) (hb : b ∈ l)
    (hne : keyFields a ≠ keyFields b) :
    ∃ a' b', a' ∈ dedupSort l ∧ b' ∈ dedupSort l ∧ keyFields a' = keyFields a ∧
      keyFields b' = keyFields b ∧ a' ≠ b' := by
  obtain ⟨a', ha', hka⟩ := dedupWith_covers (key := keyNew) l [] a ha (by simp)
  obtain ⟨b', hb', hkb⟩ := dedupWith_covers (key := keyNew) l [] b hb (by simp)
  refine ⟨a', b', mem_dedupSort.mpr ha', mem_dedupSort.mpr hb', keyNew_inj hka, keyNew_inj hkb, ?_⟩
  intro e
  apply hne
  rw [← keyNew_inj hka, ← keyNew_inj hkb, e]

/-- Nothing at all is dropped from a list whose members differ pairwise on a key field, and the
    result never contains two entries equal on all seven, and contains nothing new. -/
theorem dedup_drops_only_duplicates (l : List Annot) :
    (l.Pairwise (fun a b => keyFields a ≠ keyFields b) → (dedupSort l).Perm l) ∧
    (dedupSort l).Pairwise (fun a b => keyFields a ≠ keyFields b) ∧
    (∀ a ∈ dedupSort l, a ∈ l) := by
  refine ⟨?_, ?_, fun a h => dedupSort_subset h⟩
  · intro h
    have : dedupWith keyNew l [] = l :=
      dedupWith_id l [] (h.imp (fun hk e => hk (keyNew_inj e))) (by simp)
    unfold dedupSort dedupSortWith
    rw [this]; exact sortS_perm l
  · have h1 : (dedupWith keyNew l []).Pairwise (fun a b => keyFields a ≠ keyFields b ∧ keyFields b ≠ keyFields a) :=
      (dedupWith_keys_distinct (key := keyNew) l []).imp
        (fun hk => ⟨fun e => hk ((keyNew_eq_iff _ _).mpr e), fun e => hk ((keyNew_eq_iff _ _).mpr e.symm)⟩)
    have h2 := List.Pairwise.perm h1 (sortS_perm _).symm (fun h => ⟨h.2, h.1⟩)
    exact h2.imp (fun h => h.1)

/-- The recorded defect: with the key as coded before the fix (fields concatenated without
    separators) (line 1, col 23 – 1:29) and (line 12, col 3 – 12:9) collide and a distinct
    annotation is dropped; the fixed key keeps both. -/
theorem dedup_collision_counterexample :
    keyFields ex1 ≠ keyFields ex2 ∧ keyOld ex1 = keyOld ex2 ∧
    (dedupSortOld [ex1, ex2]).length = 1 ∧ (dedupSort [ex1, ex2]).length = 2 := by decide

/-- The result does not depend on the order in which the annotations arrive (C02 uses this),
    provided annotations equal on the seven key fields are equal altogether — i.e. the rule ID
    determines the plugin name.  (Without the proviso the FIRST of two key-equal annotations
    wins, so the plugin name shown could depend on the order.) -/
theorem dedupSort_perm (l1 l2 : List Annot) (p : l1.Perm l2) (kd : KeyDet l1) :
    dedupSort l1 = dedupSort l2 :=
  dedupSort_perm_eq p kd

/-- fileAnnotationCompareTo is a total order on annotations that differ on a compared field:
    it answers "equal" only for annotations equal on all seven fields, is antisymmetric and
    transitive; hence the output of dedupSort is STRICTLY increasing — the order is fully
    determined, no tie is ever broken by the input order. -/
theorem sort_total_on_distinct :
    (∀ a b, compareTo a b = .eq ↔ cmpFields a = cmpFields b) ∧
    (∀ a b, compareTo b a = (compareTo a b).swap) ∧
    (∀ a b c, compareTo a b = .lt → compareTo b c = .lt → compareTo a c = .lt) ∧
    (∀ l, (dedupSort l).Pairwise fun a b => compareTo a b = .lt) :=
  ⟨compareTo_eq_iff, compareTo_law.swap, compareTo_law.trans_lt, fun l => sortS_strict (dedup_noTies l)⟩

-- non-vacuity
example : dedupSort [ex2, ex1, ex2] = [ex1, ex2] := by decide
example : dedupSort [ex1, ex2] = dedupSort [ex2, ex1] := by decide
example : KeyDet [ex1, ex2] := by
  intro a ha b hb; revert a b; decide
example : compareTo ex1 ex2 = .lt := by decide

/-! ## the formats -/

/-- For every --error-format, what a consumer of the printed document reads — the lines of
    text / msvs / github-actions, the JSON objects, the JUnit testcases — is, record by record
    and in the same order, the rendering of `dedupSort as`: every format shows the same
    annotations in the same order.  Two side conditions, both about the human `text` format and
    a file-name corner: text lines are only line-separable when no shown text has a line feed
    (text is not escaped — see `text_in_order` for the unconditional statement), and JUnit
    groups by displayed path, which is order-preserving unless a file is literally called
    "<input>" while a path-less annotation is present too. -/
theorem formats_agree (f : Format) (as : List Annot)
    (htext : f = .text → ∀ a ∈ as, ∀ c ∈ textLine a, c ≠ '\n')
    (hjunit : f = .junit → DispInj as) :
    (printSet f as).items = (dedupSort as).map (render f) := by
  cases f with
  | text =>
    simp only [printSet, printDoc, Doc.items]
    rw [linesOf_printLines textLine _ (fun a ha => htext rfl a (dedupSort_subset ha)), List.map_map]
    rfl
  | msvs =>
    simp only [printSet, printDoc, Doc.items]
    rw [linesOf_printLines msvsLine _ (fun a _ c hc => (oneLine_msvsLine a c hc).1), List.map_map]
    rfl
  | gha =>
    simp only [printSet, printDoc, Doc.items]
    rw [linesOf_printLines ghaLine _ (fun a _ c hc => (oneLine_ghaLine a c hc).1), List.map_map]
    rfl
  | json =>
    simp only [printSet, printDoc, Doc.items, List.map_map]
    rfl
  | junit =>
    simp only [printSet, printDoc, Doc.items, junitSuites]
    rw [junit_items_eq _ (groupByPath_ok _)]
    have hs : (dedupSort as).Pairwise LE := sortS_sorted _
    rw [groupByPath_flat (sorted_contig hs ?_)]
    intro a ha b hb h
    exact hjunit rfl a (dedupSort_subset ha) b (dedupSort_subset hb) h

/-- text, unconditionally: the bytes written are the text renderings of `dedupSort as`, one
    after the other, each followed by a line feed. -/
theorem text_in_order (as : List Annot) :
    printSet .text as = .lines ((dedupSort as).flatMap fun a => textLine a ++ ['\n']) := rfl

/-- The machine-readable line formats stay well formed for ANY message, path, type and plugin
    name: a github-actions command / an msvs diagnostic never contains a line feed or carriage
    return, so the output has exactly one line per annotation and splitting it at line feeds
    gives back the per-annotation lines. (json and junit are produced by encoding/json and
    encoding/xml — trusted base — and decoded again by the harness on every case.) -/
theorem line_formats_wellformed (as : List Annot) :
    (∀ a, ∀ c ∈ ghaLine a, c ≠ '\n' ∧ c ≠ '\r') ∧
    (∀ a, ∀ c ∈ msvsLine a, c ≠ '\n' ∧ c ≠ '\r') ∧
    linesOf (printLines ghaLine (dedupSort as)) = (dedupSort as).map ghaLine ∧
    linesOf (printLines msvsLine (dedupSort as)) = (dedupSort as).map msvsLine ∧
    (linesOf (printLines ghaLine (dedupSort as))).length = (dedupSort as).length ∧
    (linesOf (printLines msvsLine (dedupSort as))).length = (dedupSort as).length := by
  have hg := linesOf_printLines ghaLine (dedupSort as) (fun a _ c hc => (oneLine_ghaLine a c hc).1)
  have hm := linesOf_printLines msvsLine (dedupSort as) (fun a _ c hc => (oneLine_msvsLine a c hc).1)
  refine ⟨oneLine_ghaLine, oneLine_msvsLine, hg, hm, ?_, ?_⟩
  · rw [hg, List.length_map]
  · rw [hm, List.length_map]

/-! ### the decoder statements: "agreeing on every field the format carries" -/

/-- `parse_f (print_f as) = as.map proj_f` for every --error-format: decoding the printed
    document (`parseDoc`: split into records, then split each record at the format's separators /
    undo GitHub's escaping) gives back, record by record and in order, the fields format `f`
    carries (`proj f`) of the de-duplicated, sorted annotations.  Side condition `Side f as`:
    none for github-actions (escaped) and json (field level); text: no ':' in a displayed path,
    no line feed in a line; msvs: no '(' in a displayed path, no ':' in a type; junit: the text
    line carried as message decodes and grouping by path keeps the order. -/
theorem formats_decode (f : Format) (as : List Annot) (h : Side f as) :
    parseDoc f (printSet f as) = some ((dedupSort as).map (proj f)) := by
  have hitems : (printSet f as).items = (dedupSort as).map (render f) :=
    formats_agree f as
      (fun hf a ha => by subst hf; exact (h a ha).2)
      (fun hf => by subst hf; exact h.1)
  unfold parseDoc
  rw [hitems]
  exact mapM_map_some _ (fun a ha => parseItem_render f as h a (dedupSort_subset ha))

/-- The side condition of the text decoder is exactly right: the decoder (path = everything before
    the first ':') returns the fields of an annotation iff its displayed path has no ':'. -/
theorem text_decode_iff (a : Annot) :
    parseTextLine (textLine a) = some (textF a) ↔ ∀ c ∈ dispPath a, c ≠ ':' :=
  ⟨fun h => parseTextLine_path h, parseTextLine_textLine a⟩

/-- … and so is the msvs one: the path ends at the first '(', the type at the first ':'. -/
theorem msvs_decode_iff (a : Annot) :
    parseMsvsLine (msvsLine a) = some (msvsF a) ↔
      (∀ c ∈ dispPath a, c ≠ '(') ∧ (∀ c ∈ shownType a, c ≠ ':') := by
  constructor
  · intro h
    have := parseMsvsLine_fields h
    simp only [msvsF] at this
    refine ⟨fun c hc e => ?_, fun c hc e => ?_⟩
    · subst e
      exact this.1 '(' (by
        simp only [oneLine, List.mem_map]
        exact ⟨'(', hc, by decide⟩) rfl
    · subst e
      exact this.2 ':' (by
        simp only [oneLine, List.mem_map]
        exact ⟨':', hc, by decide⟩) rfl
  · rintro ⟨h1, h2⟩; exact parseMsvsLine_msvsLine a h1 h2

/-- No decoder at all can do without a condition on text paths: these two different annotations
    print the same text line (`a:1:1:2:2:x`). -/
theorem text_colon_path_counterexample :
    textLine { file := some "a:1:1".toList, sl := 2, sc := 2, el := 0, ec := 0, type := [], msg := "x".toList, plugin := [] }
    = textLine { file := some "a".toList, sl := 1, sc := 1, el := 0, ec := 0, type := [], msg := "2:2:x".toList, plugin := [] } := by
  decide

/-- … nor on msvs paths. -/
theorem msvs_paren_path_counterexample :
    msvsLine { file := some "a(1,1) : error X : m".toList, sl := 2, sc := 2, el := 0, ec := 0, type := "Y".toList, msg := "n".toList, plugin := [] }
    = msvsLine { file := some "a".toList, sl := 1, sc := 1, el := 0, ec := 0, type := "X".toList, msg := "m(2,2) : error Y : n".toList, plugin := [] } := by
  decide

/-- github-actions, unconditionally and per line: the decoder — `file=` value up to the first ','
    or ':', the optional `line` / `col` / `endLine` / `endColumn` properties, the data after `::`,
    both passed through the runner's unescape (`unescProp` / `unescData`, the very functions the
    decoder runs) — returns path, raw position and message + plugin exactly, for ANY strings. -/
theorem gha_fields_roundtrip (a : Annot) :
    parseGhaLine (ghaLine a) = some (ghaF a) ∧
    unescProp (escProp (dispPath a)) = dispPath a ∧
    unescData (escData (withPlugin a.msg a.plugin)) = withPlugin a.msg a.plugin ∧
    (∀ c ∈ escProp (dispPath a), c ≠ ',' ∧ c ≠ ':') :=
  ⟨parseGhaLine_ghaLine a, unescProp_escProp _, unescData_escData _, escProp_no_sep _⟩

/-- Agreement on every field a format carries, for ANY two formats f and g (github-actions and
    junit included): decode what each printed; then, record by record and in the same order, the
    projections of the two decoded records onto the fields BOTH carry (`Shared.restrict`: file at
    the precision both show it, start / end position, rule ID, message) are equal.  So no format
    shows a different file, position, rule ID or message than another one. -/
theorem formats_carry_same_fields (f g : Format) (as : List Annot) (hf : Side f as) (hg : Side g as) :
    ∃ df dg, parseDoc f (printSet f as) = some df ∧ parseDoc g (printSet g as) = some dg ∧
      InOrder (fun x y => (view x).restrict (view y) = (view y).restrict (view x)) df dg := by
  refine ⟨_, _, formats_decode f as hf, formats_decode g as hg, ?_⟩
  generalize dedupSort as = l
  induction l with
  | nil => exact InOrder.nil
  | cons a t ih =>
    exact InOrder.cons (restrict_comm (view_sub f a) (view_sub g a)) ih

/-- Which property-level fields each format carries (so that the agreement above is not
    vacuous): text — file, line, column, message; msvs — file (flattened), line, column, type,
    message (flattened); json — everything (file unless the path key is absent); junit — file,
    suite, line, column, rule ID, message; github-actions — file, message and each position number
    that is known (0 = the key is absent). -/
theorem formats_fields_present (a : Annot) :
    ((view (proj .text a)).file.isSome ∧ (view (proj .text a)).line.isSome ∧
      (view (proj .text a)).col.isSome ∧ (view (proj .text a)).text.isSome) ∧
    ((view (proj .msvs a)).fileFlat.isSome ∧ (view (proj .msvs a)).line.isSome ∧
      (view (proj .msvs a)).col.isSome ∧ (view (proj .msvs a)).ruleFlat.isSome ∧
      (view (proj .msvs a)).textFlat.isSome) ∧
    ((view (proj .json a)).line.isSome ∧ (view (proj .json a)).col.isSome ∧
      (view (proj .json a)).endLine.isSome ∧ (view (proj .json a)).endCol.isSome ∧
      (view (proj .json a)).rule.isSome ∧ (view (proj .json a)).text.isSome ∧
      (view (proj .json a)).message.isSome ∧
      ((view (proj .json a)).file.isSome ↔ pathOf a ≠ [])) ∧
    ((view (proj .junit a)).file.isSome ∧ (view (proj .junit a)).suite.isSome ∧
      (view (proj .junit a)).line.isSome ∧ (view (proj .junit a)).col.isSome ∧
      (view (proj .junit a)).rule.isSome ∧ (view (proj .junit a)).text.isSome) ∧
    ((view (proj .gha a)).file.isSome ∧ (view (proj .gha a)).message.isSome ∧
      ((view (proj .gha a)).line.isSome ↔ a.sl ≠ 0) ∧
      ((view (proj .gha a)).col.isSome ↔ a.sl ≠ 0 ∧ a.sc ≠ 0) ∧
      ((view (proj .gha a)).endLine.isSome ↔ a.sl ≠ 0 ∧ a.el ≠ 0) ∧
      ((view (proj .gha a)).endCol.isSome ↔ a.sl ≠ 0 ∧ a.el ≠ 0 ∧ a.ec ≠ 0)) := by
  refine ⟨⟨rfl, rfl, rfl, rfl⟩, ⟨rfl, rfl, rfl, rfl, rfl⟩, ⟨rfl, rfl, rfl, rfl, rfl, rfl, rfl, ?_⟩,
    ⟨rfl, rfl, rfl, rfl, rfl, rfl⟩, ⟨rfl, rfl, ?_, ?_, ?_, ?_⟩⟩
  · simp only [view, proj, jsonRec]
    by_cases h : pathOf a = [] <;> simp [h]
  · simp only [view, proj, ghaF, known]
    by_cases h : a.sl = 0 <;> simp [h]
  · simp only [view, proj, ghaF, known]
    by_cases h : a.sl = 0 <;> by_cases h2 : a.sc = 0 <;> simp [h, h2]
  · simp only [view, proj, ghaF, known]
    by_cases h : a.sl = 0 <;> by_cases h2 : a.el = 0 <;> simp [h, h2]
  · simp only [view, proj, ghaF, known]
    by_cases h : a.sl = 0 <;> by_cases h2 : a.el = 0 <;> by_cases h3 : a.ec = 0 <;> simp [h, h2, h3]

/-- github-actions shows the message itself, text / msvs / junit fall back to the rule ID (then
    "FAILURE") when it is empty: for an annotation with a message the github-actions data IS the
    text the others show; for an empty message it is not (as coded: "should never happen"). -/
theorem gha_text_message_agree (a : Annot) (h : a.msg ≠ []) :
    (view (proj .gha a)).message = (view (proj .text a)).text ∧
    (view (proj .gha a)).message = (view (proj .junit a)).text ∧
    (view (proj .gha a)).message = (view (proj .json a)).text := by
  simp [view, proj, ghaF, textF, junitF, viewText, jsonRec, shownMsg, shownMsgOf, h]

/-- JUnit testcase names: `junitCaseName` is a function of the rule ID and the RAW start line /
    column only (`junitName`), and the position can be read back from the name after the rule ID
    (0 = unknown — json shows 1 there). -/
theorem junit_name_factored (a : Annot) :
    junitCaseName a = junitName a.type a.sl a.sc ∧
    (dropPrefix a.type (junitCaseName a)).bind parsePosSuffix = some (a.sl, a.sc) := by
  refine ⟨rfl, ?_⟩
  simp only [junitCaseName, junitName, dropPrefix_append, Option.bind_some, parsePosSuffix_junitPosSuffix]

private def exNl : Annot :=
  { file := some "a.proto".toList, sl := 3, sc := 1, el := 3, ec := 4, type := "X".toList,
    msg := "first\nsecond".toList, plugin := [] }

/-- The recorded defect: before the fix a message with a line feed broke the github-actions
    command (and the msvs diagnostic) into two lines; after the fix it is one line. -/
theorem gha_newline_counterexample :
    (linesOf (printLines ghaLineOld [exNl])).length = 2 ∧
    (linesOf (printLines msvsLineOld [exNl])).length = 2 ∧
    linesOf (printLines ghaLine [exNl]) =
      ["::error file=a.proto,line=3,col=1,endLine=3,endColumn=4::first%0Asecond".toList] ∧
    linesOf (printLines msvsLine [exNl]) = ["a.proto(3,1) : error X : first second".toList] := by decide

-- non-vacuity of formats_agree: two annotations, all five formats
example : (printSet .json [ex2, ex1]).items = [.json (jsonRec ex1), .json (jsonRec ex2)] := by decide
example : (printSet .junit [ex2, ex1]).items =
    [.junit "a".toList (junitCase ex1), .junit "a".toList (junitCase ex2)] := by decide
example : (printSet .text [ex2, ex1]).items =
    [.line "a.proto:1:23:m".toList, .line "a.proto:12:3:m".toList] := by decide
-- non-vacuity of the decoder statements: the side conditions hold for ordinary annotations, the
-- decoders run, and two formats share fields
example : ∀ f ∈ Format.all, Side f [ex2, ex1, exNl] ∨ f = .text := by
  intro f hf
  simp only [Format.all, List.mem_cons, List.mem_nil_iff, or_false] at hf
  rcases hf with rfl | rfl | rfl | rfl | rfl
  · exact Or.inr rfl
  · exact Or.inl trivial
  · exact Or.inl (by intro a ha; revert a; decide)
  · exact Or.inl ⟨by intro a ha b hb; revert a b; decide, by intro a ha; revert a; decide⟩
  · exact Or.inl trivial
example : Side .text [ex2, ex1] := by intro a ha; revert a; decide
example : parseDoc .text (printSet .text [ex2, ex1]) =
    some [.text { path := "a.proto".toList, line := 1, col := 23, text := "m".toList },
          .text { path := "a.proto".toList, line := 12, col := 3, text := "m".toList }] := by decide
example : parseDoc .gha (printSet .gha [exNl]) =
    some [.gha { path := "a.proto".toList, line := 3, col := 1, endLine := 3, endCol := 4,
                 msg := "first\nsecond".toList }] := by decide
example : parseDoc .msvs (printSet .msvs [exNl]) =
    some [.msvs { path := "a.proto".toList, line := 3, col := 1, type := "X".toList,
                  text := "first second".toList }] := by decide
example : ((view (proj .gha exNl)).restrict (view (proj .msvs exNl))) =
    { file := none, fileFlat := some "a.proto".toList, suite := none, line := some 3, col := some 1,
      endLine := none, endCol := none, rule := none, ruleFlat := none, text := none, textFlat := none,
      message := none } := by decide
example : parseJunitCase "a".toList (junitCase ex1) = some (junitF ex1) := by decide
example : escProp "c:d,e%.proto".toList = "c%3Ad%2Ce%25.proto".toList := by decide
example : DispInj [ex1, ex2, exNl] := by
  intro a ha b hb; revert a b; decide

/-! ## import statements that cannot be resolved

`importFate files wkt p` is what the compiler's accessor answers for an import path AS WRITTEN
(a file of the module set named by its normalised path · a Well-Known Type · fs.ErrNotExist · a
normalpath error: absolute / leaves the root · an existing file not named by its normalised path);
`buildImageErr` what bufimage.BuildImage returns for it (as coded: every positioned error `Compile`
returns becomes a FileAnnotationSet, whatever its cause), `moduleDepsErr` what `ModuleDeps()`
returns (`buf dep graph`).  The harness runs generated paths and module sets through the real
functions and compares (`imp` lines). -/

/-- **The property's clause for an import that cannot be resolved — whatever the reason.**  For
    every module set, every list of Well-Known Types and every import path as written: unless the
    path names a file of the module set by its normalised path or a Well-Known Type, `build`,
    `lint` and `breaking` (the image is built in a controller method after steps that succeeded;
    for `breaking` that is either side) end with status 100, exactly the annotation at the import
    statement printed and no `Failure:` line.  The cause - not found, absolute, leaving the root,
    not normalised - does not enter. -/
theorem unresolvable_import_is_annotated (files wkt : List Str) (p : Str) (a : Annot)
    (h : (importFate files wkt p).resolves = false)
    (oks rest : List CStep) (hoks : ∀ s ∈ oks, s.2 = none)
    (pre checks : List Step) (hpre : ∀ s ∈ pre, s = none) :
    ∀ c ∈ [Cmd.build (oks ++ (true, buildImageErr a (importFate files wkt p)) :: rest),
           Cmd.lint pre (oks ++ (true, buildImageErr a (importFate files wkt p)) :: rest) checks none,
           Cmd.breaking pre (oks ++ (true, buildImageErr a (importFate files wkt p)) :: rest) checks none],
      c.run.exit = 100 ∧ c.run.printed = [a] ∧ c.run.failureLine = false := by
  have hb : buildImageErr a (importFate files wkt p) = some (.annotSet a []) := by
    simp [buildImageErr, h]
  have hpre' : runSteps (pre.map fun s => (false, s)) = none := by
    rw [runSteps_eq_none_iff]
    intro s hs
    obtain ⟨x, hx, rfl⟩ := List.mem_map.mp hs
    exact hpre x hx
  have hrun := runSteps_oks_then oks hoks true (.annotSet a []) rest
  have hl : lintLike pre (oks ++ (true, some (.annotSet a [])) :: rest) checks none
      = failStep (.annotSet a []) [] := by
    simp only [lintLike, hpre', hrun, if_true]
    rfl
  intro c hc
  simp only [List.mem_cons, List.mem_nil_iff, or_false] at hc
  rcases hc with rfl | rfl | rfl
  · simp only [Cmd.run, build, hb, hrun, if_true]; exact failStep_annotation a
  · simp only [Cmd.run, hb, hl]; exact failStep_annotation a
  · simp only [Cmd.run, hb, hl]; exact failStep_annotation a

/-- What decides the fate: a path the bucket rejects is `invalid` with normalpath's error and
    never looked up; a path that resolves is its own normal form and names a file of the module set
    or a Well-Known Type; a path that IS its normal form (relative, inside the root) can only be
    found or not found - `invalid` and `notNormal` are the fates of paths written in another way. -/
theorem import_fate_of_path (files wkt : List Str) (p : Str) :
    (∀ e, importFate files wkt p = .invalid e ↔ BufModel.Path.normalizeAndValidate p = .error e) ∧
    ((importFate files wkt p).resolves = true →
      BufModel.Path.normalizeAndValidate p = .ok p ∧ (files.contains p = true ∨ wkt.contains p = true)) ∧
    (BufModel.Path.normalizeAndValidate p = .ok p →
      importFate files wkt p ≠ .notNormal ∧ ∀ e, importFate files wkt p ≠ .invalid e) := by
  cases hv : BufModel.Path.normalizeAndValidate p with
  | error e0 =>
    have hi : importFate files wkt p = .invalid e0 := by simp only [importFate, hv]
    rw [hi]
    refine ⟨fun e => ?_, fun h => ?_, fun h => ?_⟩
    · constructor
      · intro h; cases h; rfl
      · intro h; cases h; rfl
    · cases h
    · cases h
  | ok q =>
    rw [importFate_ok files wkt p q hv]
    by_cases hf : files.contains q = true <;> by_cases hw : wkt.contains q = true <;>
      by_cases hq : q = p <;> simp [hf, hw, hq, ImportFate.resolves] <;> (try subst hq) <;> simp_all

/-- **The recorded regression** (the conversion in `getBuildResult` additionally demands
    `errors.Is(err, fs.ErrNotExist)`): it agrees with the code exactly on the paths that resolve
    or are simply not found; for every other fate - an absolute path, a path that leaves the root,
    an existing file not named by its normalised path - the run ends with status 1, a `Failure:`
    line and nothing printed, whatever `--error-format` asks for.  Three such paths. -/
theorem unresolvable_import_guard_counterexample (files wkt : List Str) (p : Str) (a : Annot) :
    (buildImageErrGuarded a (importFate files wkt p) = buildImageErr a (importFate files wkt p) ↔
      ((importFate files wkt p).resolves = true ∨ importFate files wkt p = .notExist)) ∧
    ((importFate files wkt p).resolves = false → importFate files wkt p ≠ .notExist →
      (Cmd.build [(true, buildImageErrGuarded a (importFate files wkt p))]).run.exit = 1 ∧
      (Cmd.build [(true, buildImageErrGuarded a (importFate files wkt p))]).run.printed = [] ∧
      (Cmd.build [(true, buildImageErrGuarded a (importFate files wkt p))]).run.failureLine = true) ∧
    importFate [] [] "../sibling/b.proto".toList = .invalid .outsideContext ∧
    importFate [] [] "/usr/include/b.proto".toList = .invalid .notRelative ∧
    importFate ["a.proto".toList] [] "./a.proto".toList = .notNormal := by
  refine ⟨?_, ?_, by decide, by decide, by decide⟩
  · cases hf : importFate files wkt p <;> simp [buildImageErrGuarded, buildImageErr, ImportFate.resolves]
  · intro hr hn
    have hg : buildImageErrGuarded a (importFate files wkt p) = some (.wrapf (.plain true)) := by
      simp [buildImageErrGuarded, hr, hn]
    rw [hg]
    decide

/-- `buf dep graph` on the same statement, AS CODED: `ModuleDeps()` finds a file by its normalised
    path (so `./a.proto` is no problem there); what no module and no Well-Known Type has is the
    ImportNotExistError - status 100 and a `Failure:` line; a path the bucket rejects comes back as
    the plain normalpath error - status 1 (the message does not name the importing file).  Outside
    the four commands of the property; recorded as an observation. -/
theorem dep_graph_import_as_coded (files wkt : List Str) (p : Str)
    (oks : List CStep) (hoks : ∀ s ∈ oks, s.2 = none) :
    match BufModel.Path.normalizeAndValidate p with
    | .error _ =>
      (Cmd.depGraph (oks ++ [(false, moduleDepsErr files wkt p)])).run.exit = 1 ∧
      (Cmd.depGraph (oks ++ [(false, moduleDepsErr files wkt p)])).run.printed = [] ∧
      (Cmd.depGraph (oks ++ [(false, moduleDepsErr files wkt p)])).run.failureLine = true
    | .ok q =>
      if files.contains q || wkt.contains q then
        (Cmd.depGraph (oks ++ [(false, moduleDepsErr files wkt p)])).run.exit = 0
      else
        (Cmd.depGraph (oks ++ [(false, moduleDepsErr files wkt p)])).run.exit = 100 ∧
        (Cmd.depGraph (oks ++ [(false, moduleDepsErr files wkt p)])).run.failureLine = true ∧
        (Cmd.depGraph (oks ++ [(false, moduleDepsErr files wkt p)])).run.importNotFound = true := by
  cases hv : BufModel.Path.normalizeAndValidate p with
  | error e =>
    have hm : moduleDepsErr files wkt p = some (.plain true) := by simp only [moduleDepsErr, hv]
    simp only [hm, Cmd.run, build, runSteps_oks_then oks hoks false (.plain true) []]
    decide
  | ok q =>
    simp only
    by_cases hq : (files.contains q || wkt.contains q) = true
    · have hm : moduleDepsErr files wkt p = none := by simp only [moduleDepsErr, hv, hq, if_true]
      simp only [hq, if_true, hm]
      have : runSteps (oks ++ [((false, none) : CStep)]) = none := by
        rw [runSteps_eq_none_iff]
        intro s hs
        rcases List.mem_append.mp hs with h | h
        · exact hoks s h
        · simp only [List.mem_cons, List.mem_nil_iff, or_false] at h; subst h; rfl
      simp only [Cmd.run, build, this]
      rfl
    · have hm : moduleDepsErr files wkt p = some .importNotExist := by
        simp only [moduleDepsErr, hv, hq]; rfl
      simp only [hq, hm, Cmd.run, build, runSteps_oks_then oks hoks false .importNotExist []]
      decide

-- non-vacuity: each fate is reached; the clause on a concrete workspace
private def wktEx : List Str := ["google/protobuf/empty.proto".toList]
private def filesEx : List Str := ["a.proto".toList, "zz/x.proto".toList]
example : importFate filesEx wktEx "zz/x.proto".toList = .file := by decide
example : importFate filesEx wktEx "google/protobuf/empty.proto".toList = .wkt := by decide
example : importFate filesEx wktEx "./google/protobuf/empty.proto".toList = .notNormal := by decide
example : importFate filesEx wktEx "google/protobuf/nope.proto".toList = .notExist := by decide
example : importFate filesEx wktEx "zz".toList = .notExist := by decide
example : importFate filesEx wktEx "zz/".toList = .notExist := by decide
example : importFate filesEx wktEx [] = .notExist := by decide
example : importFate filesEx wktEx "zz//x.proto".toList = .notNormal := by decide
example : importFate filesEx wktEx "zz/x.proto/".toList = .notNormal := by decide
example : importFate filesEx wktEx "zz/../a.proto".toList = .notNormal := by decide
example : importFate filesEx wktEx "zz/../../a.proto".toList = .invalid .outsideContext := by decide
example : importFate filesEx wktEx "..".toList = .invalid .outsideContext := by decide
example : (Cmd.build [(true, none), (true, buildImageErr ex1 (importFate filesEx wktEx "../x.proto".toList))]).run.exit = 100 := by decide
example : (Cmd.build [(true, none), (true, buildImageErrGuarded ex1 (importFate filesEx wktEx "../x.proto".toList))]).run.exit = 1 := by decide
example : moduleDepsErr filesEx wktEx "./a.proto".toList = none := by decide
example : moduleDepsErr filesEx wktEx "/a.proto".toList = some (.plain true) := by decide
example : moduleDepsErr filesEx wktEx "nope.proto".toList = some .importNotExist := by decide

end BufProofs.C20
