import BufProofs.Lemmas.MigrateRulesTables
import BufProofs.Props.C16MigrateTables
/-
  C16, "migrating a v1 or v1beta1 workspace to v2 preserves … the lint and breaking results":
  the RULE SELECTION part, for the model of `equivalentCheckConfigInV2`
  (BufModel.MigrateRules.migrateCheck, tied to private/buf/bufmigrate/migrator.go by the `migchk`
  protocol lines) on the REGENERATED rule tables of the tree under test.

  Quantification: ALL check configurations — arbitrary `use` / `except` lists and `ignore_only`
  maps over rule ids, categories, deprecated ids, ids v2 does not have, blanks, duplicates, in any
  order.  The finite rule tables enter through decidable facts checked by kernel evaluation
  (`tablesOK_all`); the lists are handled by reasoning on membership.
-/
namespace BufProofs.C16
open BufModel.Path BufModel.Rules BufModel.MigrateRules BufGen.RuleTables

/-- **Rule selection through migration.**  For every v1beta1 / v1 check configuration `c` (lint
    or breaking) that the migrator accepts, with `S` the rules `c` selects in its own version and
    `S'` the rules the migrated configuration `c'` selects in v2:

      * if `exceptCoversSelected = false`: `S'` is exactly `S` minus the rules without a v2
        counterpart (`rules_without_v2_counterpart`: only FIELD_NO_DESCRIPTOR of v1beta1 lint);
      * if `exceptCoversSelected = true`: the selection is NOT preserved — a rule of `S` that
        exists in v2 is missing from `S'` (the side condition is exact).

    `S'` is quantified through `selectedIds … c' = .ok S'`: that v2 accepts the migrated
    configuration is exercised by the `migchk` lines (oracle class
    migrate-*-failed/rule-selection), not proved here. -/
theorem migrate_preserves_selected_rules (v : Version) (hv : v ≠ .v2) (lint : Bool) (c c' : CheckConfig)
    (hm : migrateCheck (rulesOf v) (rulesOf .v2) lint c = .ok c') :
    ∃ S, selectedIds (rulesOf v) lint c = .ok S ∧
      ∀ S', selectedIds (rulesOf .v2) lint c' = .ok S' →
        (exceptCoversSelected v lint c = false →
          ∀ x, x ∈ S' ↔ (x ∈ S ∧ hasV2Counterpart lint x = true)) ∧
        (exceptCoversSelected v lint c = true →
          ∃ x ∈ S, hasV2Counterpart lint x = true ∧ x ∉ S') := by
  rcases selectedIds_of_migrateCheck _ _ lint c c' hm with ⟨S, hS⟩
  refine ⟨S, hS, ?_⟩
  intro S' hS'
  cases hdb : c.disableBuiltin with
  | true =>
    -- no builtin rules: nothing is selected before or after
    have h1 := selectedIds_disabled (rulesOf v) lint c hdb
    have h2 := selectedIds_disabled (rulesOf .v2) lint c' (migrateCheck_disableBuiltin _ _ lint c c' hdb hm)
    rw [h1] at hS; rw [h2] at hS'
    cases hS; cases hS'
    constructor
    · intro _ x; simp
    · intro h; unfold exceptCoversSelected at h; rw [h1] at h; simp at h
  | false =>
    have hold := tables_nonempty v lint
    have hnew := tables_nonempty .v2 lint
    have M := migrateCheck_selected (rulesOf v) (rulesOf .v2) lint c c' hdb hold hnew (tablesOK_all v hv lint) hm
    have mS := selectedIds_ok (rulesOf v) lint c S hdb hold hS
    have mS' := selectedIds_ok (rulesOf .v2) lint c' S' M.1 hnew hS'
    have hcov : exceptCoversSelected v lint c = true ↔
        ∃ x ∈ S, hasV2Counterpart lint x = true ∧ ExceptCovers (oldRules v lint) (v2Rules lint) c.except x := by
      unfold exceptCoversSelected
      rw [hS]
      simp [List.any_eq_true, coveredB_iff]
    constructor
    · intro hno x
      have hno' : ∀ y, Selected (oldRules v lint) c.use c.except y → isRuleId (v2Rules lint) y = true →
          ¬ ExceptCovers (oldRules v lint) (v2Rules lint) c.except y := by
        intro y hy hr hc
        have : exceptCoversSelected v lint c = true := hcov.2 ⟨y, (mS y).2 hy, hr, hc⟩
        rw [hno] at this; cases this
      rw [mS' x, M.2.2 hno' x, mS x]
      rfl
    · intro hyes
      rcases hcov.1 hyes with ⟨x, hxS, hr, hc⟩
      exact ⟨x, hxS, hr, fun hx' => M.2.1 x ((mS x).1 hxS) hr hc ((mS' x).1 hx')⟩

/-- For a v1 configuration (and for v1beta1 breaking) every selected rule has a v2 counterpart,
    so outside the `except` exception the selected SET is unchanged by the migration. -/
theorem migrate_preserves_selected_rules_exactly (v : Version) (hv : v ≠ .v2) (lint : Bool)
    (hvl : ¬ (v = .v1beta1 ∧ lint = true)) (c c' : CheckConfig)
    (hm : migrateCheck (rulesOf v) (rulesOf .v2) lint c = .ok c')
    (hno : exceptCoversSelected v lint c = false) :
    ∃ S, selectedIds (rulesOf v) lint c = .ok S ∧
      ∀ S', selectedIds (rulesOf .v2) lint c' = .ok S' → ∀ x, x ∈ S' ↔ x ∈ S := by
  rcases migrate_preserves_selected_rules v hv lint c c' hm with ⟨S, hS, h⟩
  refine ⟨S, hS, fun S' hS' x => ?_⟩
  rw [(h S' hS').1 hno x]
  constructor
  · exact fun h => h.1
  · intro hx
    refine ⟨hx, ?_⟩
    cases hdb : c.disableBuiltin with
    | true =>
      rw [selectedIds_disabled (rulesOf v) lint c hdb] at hS; cases hS; cases hx
    | false =>
      have hsel := (selectedIds_ok (rulesOf v) lint c S hdb (tables_nonempty v lint) hS x).1 hx
      have ok := tablesOK_all v hv lint
      have hr : isRuleId (oldRules v lint) x = true := by
        rcases hsel.1 with ⟨u, _, hxu⟩; exact denote_isRule _ ok.oldWF u x hxu
      rcases (isRuleId_iff _ _).1 hr with ⟨r, hr', rfl⟩
      have hnd : r.deprecated = false := by
        have h1 := selected_nondeprecated _ ok.oldWF _ _ _ hsel
        cases hd : r.deprecated with
        | false => rfl
        | true =>
          -- a deprecated row with this id would make `replacementsOf` answer `some`
          exfalso
          have := isDeprecatedIn_of_replacementsOf_none _ r.id h1
          unfold isDeprecatedIn at this
          cases hf : (oldRules v lint).find? (fun q => q.id = r.id) with
          | none =>
            have := List.find?_eq_none.1 hf r hr'
            simp at this
          | some d =>
            -- ids are unique in the tables, so `d = r`
            have hdm := List.mem_of_find?_eq_some hf
            have hdid : d.id = r.id := by simpa using List.find?_some hf
            have huniq := tables_ids_unique v hv lint
            have : d = r := huniq d hdm r hr' hdid
            subst this
            simp [hf, hd] at *
      cases hc : hasV2Counterpart lint r.id with
      | true => rfl
      | false => exact absurd (rules_without_v2_counterpart v hv lint r hr' hnd hc) (fun h => hvl ⟨h.1, h.2.1⟩)

/-! ## ignore_only through migration -/

/-- **ignore_only through migration.**  For every v1beta1 / v1 check configuration the migrator
    accepts (builtin rules on), with `rc` / `rc'` what `newRulesConfig` resolves the original /
    the migrated configuration to: if
      * no `ignore_only` key is one of the `driftingCategories`, and
      * no two `ignore_only` keys translate to a common v2 id (`CollisionFree`),
    then for every rule of both versions the ignore_only paths that apply to it are the same
    before and after.  Both exceptions are necessary (`migrate_ignore_only_category_counterexample`,
    `migrate_ignore_only_collision_counterexample`). -/
theorem migrate_preserves_ignore_only (v : Version) (hv : v ≠ .v2) (lint : Bool) (c c' : CheckConfig)
    (rc rc' : RulesConfig)
    (hm : migrateCheck (rulesOf v) (rulesOf .v2) lint c = .ok c')
    (h1 : newRulesConfig (rulesOf v) lint c = .ok rc) (h2 : newRulesConfig (rulesOf .v2) lint c' = .ok rc')
    (hdrift : ∀ e ∈ c.ignoreOnly, e.1 ∉ driftingCategories v lint)
    (hcol : CollisionFree (translateId (oldRules v lint) (v2Rules lint)) c.ignoreOnly) :
    ∀ r p, sharedRule v lint r = true → ((r, p) ∈ rc'.ignoreOnly ↔ (r, p) ∈ rc.ignoreOnly) := by
  intro r p hshared
  have hold := tables_nonempty v lint
  have hnew := tables_nonempty .v2 lint
  have U := unfaithful_keys_are_drifting_categories v hv lint
  -- every key is known to the old version (or empty), hence faithful
  have hfaith : ∀ e ∈ c.ignoreOnly, keyFaithful v lint e.1 = true := by
    intro e he
    by_cases h0 : e.1 = ""
    · rw [h0]; exact U.1
    · cases hx : expandOne (oldRules v lint) e.1 with
      | none =>
        rcases newRulesConfig_unknown (rulesOf v) lint c hold (Or.inr (Or.inr ⟨e, he, hx⟩)) with ⟨err, herr⟩
        rw [herr] at h1; cases h1
      | some ex =>
        have hu := mem_idUniverse_of_expandOne _ e.1 ex h0 hx
        cases hf : keyFaithful v lint e.1 with
        | true => rfl
        | false => exact absurd ((U.2 e.1 hu).1 hf) (hdrift e he)
  -- unpack `sharedRule`
  have hsh : isRuleId (v2Rules lint) r = true := by
    unfold sharedRule at hshared; simp only [Bool.and_eq_true] at hshared; exact hshared.1.2
  rcases (isRuleId_iff _ _).1 hsh with ⟨row, hrow, hrid⟩
  have faithful : ∀ e ∈ c.ignoreOnly,
      ((∃ k' ∈ translateId (oldRules v lint) (v2Rules lint) e.1, r ∈ denote (v2Rules lint) k') ↔
        r ∈ denote (oldRules v lint) e.1) := by
    intro e he
    have hf := hfaith e he
    unfold keyFaithful at hf
    have := List.all_eq_true.1 hf row hrow
    rw [hrid, hshared] at this
    simp only [Bool.not_true, Bool.false_or, beq_iff_eq] at this
    constructor
    · rintro ⟨k', hk', hr⟩
      have h : (translateId (oldRules v lint) (v2Rules lint) e.1).any (fun k' => (denote (v2Rules lint) k').contains r) = true :=
        List.any_eq_true.2 ⟨k', hk', by simpa using hr⟩
      rw [this] at h; simpa using h
    · intro hr
      have h : (denote (oldRules v lint) e.1).contains r = true := by simpa using hr
      rw [← this] at h
      rcases List.any_eq_true.1 h with ⟨k', hk', hc⟩
      exact ⟨k', hk', by simpa using hc⟩
  have P1 := (newRulesConfig_supp (rulesOf v) lint c rc hold h1).2 r p
  have P2 := (newRulesConfig_supp (rulesOf .v2) lint c' rc' hnew h2).2 r p
  rw [P1, P2]
  have T := migrateCheck_ignoreOnly (rulesOf v) (rulesOf .v2) lint c c' hm
  have TI := translateIgnoreOnly_IoHas (oldRules v lint) (v2Rules lint) c.ignoreOnly hcol
  constructor
  · rintro ⟨k', q, hq, _, hd, hn⟩
    rcases (T k' q).1 hq with ⟨q0, hq0, hn0⟩
    rcases (TI k' q0).1 hq0 with ⟨k, hk, hkt⟩
    rcases hk with ⟨ps, hps, hqps⟩
    have hnn := nav_idem hn0
    rw [hnn.1] at hn; cases hn
    refine ⟨k, q0, ⟨ps, hps, hqps⟩, ?_, (faithful (k, ps) hps).1 ⟨k', hkt, hd⟩, hn0⟩
    intro h; subst h
    -- the empty path is rejected by NewEnabledCheckConfig of the translated map
    rcases migrateCheck_shape (rulesOf v) (rulesOf .v2) lint c c' hm with ⟨simple, hS, _⟩
    unfold simpleConfig simpleConfigW at hS
    exact (newEnabledCheckConfig_spec _ _ hS).2.2.2.2.2.1 k' [] hq0 rfl
  · rintro ⟨k, q, ⟨ps, hps, hqps⟩, _, hd, hn⟩
    rcases (faithful (k, ps) hps).2 hd with ⟨k', hkt, hd'⟩
    have hq0 : IoHas (translateIgnoreOnly (oldRules v lint) (v2Rules lint) c.ignoreOnly) k' q :=
      (TI k' q).2 ⟨k, ⟨ps, hps, hqps⟩, hkt⟩
    have hnn := nav_idem hn
    exact ⟨k', p, (T k' p).2 ⟨q, hq0, hn⟩, hnn.2, hd', hnn.1⟩

/-- `undeprecateMap` ranges over a Go map: for a collision-free `ignore_only` map the result does
    not depend on the iteration order (any two orders — lists with the same entries — give maps
    with the same entries).  With a collision it does, see
    `migrate_ignore_only_collision_counterexample`. -/
theorem migrate_ignore_only_order_independent (old new : List RuleRow) (m1 m2 : List (Id × List Str))
    (hperm : ∀ e, e ∈ m1 ↔ e ∈ m2) (hc : CollisionFree (translateId old new) m1) (k' : Id) (v : List Str) :
    (k', v) ∈ translateIgnoreOnly old new m1 ↔ (k', v) ∈ translateIgnoreOnly old new m2 := by
  have hc2 : CollisionFree (translateId old new) m2 := fun e1 h1 e2 h2 ht =>
    hc e1 ((hperm e1).2 h1) e2 ((hperm e2).2 h2) ht
  rw [translateIgnoreOnly_mem old new m1 hc, translateIgnoreOnly_mem old new m2 hc2]
  constructor
  · rintro ⟨e, he, h⟩; exact ⟨e, (hperm e).1 he, h⟩
  · rintro ⟨e, he, h⟩; exact ⟨e, (hperm e).2 he, h⟩

/-! ## the variants the driver evaluates; the proposed repair -/

/-- The `migchk` driver evaluates `migrateCheckV fixSel fixIo` with the flags the harness probed
    on the tree under test; with both flags off (the tree as it is) that IS `migrateCheck`, the
    function the theorems above are about. -/
theorem migrate_variant_as_coded (oldAll newAll : List RuleRow) (lint : Bool) (c : CheckConfig) :
    migrateCheckV false false oldAll newAll lint c = migrateCheck oldAll newAll lint c := rfl

/-- **The repaired rule selection** (handoff/prove6-C16-fix-migrate-rule-selection.diff, variant
    `fixSel`): the configuration built as before is checked against the expected rules and, when
    it does not select them, they are named explicitly.  Then for EVERY v1beta1 / v1 configuration
    the migrator accepts the selection after is exactly the selection before minus the rules
    without a v2 counterpart — no exception for `except`. -/
theorem migrate_fixed_preserves_selected_rules (fixIo : Bool) (v : Version) (hv : v ≠ .v2) (lint : Bool)
    (c c' : CheckConfig)
    (hm : migrateCheckFixed fixIo (rulesOf v) (rulesOf .v2) lint c = .ok c') :
    ∃ S, selectedIds (rulesOf v) lint c = .ok S ∧
      ∀ S', selectedIds (rulesOf .v2) lint c' = .ok S' →
        ∀ x, x ∈ S' ↔ (x ∈ S ∧ hasV2Counterpart lint x = true) := by
  rcases selectedIds_of_migrateCheckFixed fixIo _ _ lint c c' hm with ⟨S, hS⟩
  refine ⟨S, hS, ?_⟩
  intro S' hS' x
  cases hdb : c.disableBuiltin with
  | true =>
    have h1 := selectedIds_disabled (rulesOf v) lint c hdb
    have h2 := selectedIds_disabled (rulesOf .v2) lint c' (migrateCheckFixed_disableBuiltin fixIo _ _ lint c c' hdb hm)
    rw [h1] at hS; rw [h2] at hS'
    cases hS; cases hS'; simp
  | false =>
    have hold := tables_nonempty v lint
    have hnew := tables_nonempty .v2 lint
    have M := migrateCheckFixed_selected fixIo (rulesOf v) (rulesOf .v2) lint c c' hdb hold hnew (tablesOK_all v hv lint) hm
    rw [selectedIds_ok (rulesOf .v2) lint c' S' M.1 hnew hS' x, M.2 x, selectedIds_ok (rulesOf v) lint c S hdb hold hS x]
    rfl


end BufProofs.C16
