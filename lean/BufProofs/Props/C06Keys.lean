import BufProofs.Lemmas.RulesKeysLemmas
/-
  C06 — the configuration-KEY family: which ids `use`, `except` and `ignore_only` accept.

  `newRulesConfig` validates every entry against the table of the REQUESTED rule type only
  (`rulesForType`): `acceptedKeys rs` = rule ids of the type (deprecated ones included) ++ the
  categories carried by a rule of the type.  The theorems below state, for ALL lists and
  tables, that the validation steps accept exactly these keys (blank entries are skipped as
  coded), and — over the REGENERATED tables of v1beta1 / v1 / v2 — that the lint keys and the
  breaking keys are disjoint, so that every id of the OTHER rule type (rule id, deprecated rule
  id or category) is rejected wherever it is written; ids are case-sensitive.
-/
namespace BufProofs.C06
open BufModel.Path BufModel.Rules BufGen.RuleTables

/-! ## the validation steps accept exactly `acceptedKeys` -/

/-- An id is unknown (for a table) iff it is non-empty and not an accepted key. -/
theorem unknown_iff_not_accepted_key (rs : List RuleRow) (id : Id) :
    Unknown rs id ↔ id ≠ "" ∧ id ∉ acceptedKeys rs := by
  rw [mem_acceptedKeys_iff]
  unfold Unknown
  constructor
  · rintro ⟨h0, h1, h2⟩
    refine ⟨h0, ?_⟩
    rintro (h | h)
    · rw [h1] at h; cases h
    · exact h h2
  · rintro ⟨h0, h⟩
    refine ⟨h0, ?_, ?_⟩
    · cases hr : isRuleId rs id with
      | false => rfl
      | true => exact absurd (Or.inl hr) h
    · cases hc : rulesInCategory rs id with
      | nil => rfl
      | cons a l => exact absurd (Or.inr (by rw [hc]; exact List.cons_ne_nil a l)) h

/-- One entry passes the lookup of `transformRuleOrCategoryIDsToRuleIDs` /
    `transformRuleOrCategoryIDToIgnoreRootPathsToRuleIDs` iff it is empty (skipped) or an
    accepted key of the table. -/
theorem key_lookup_succeeds_iff (rs : List RuleRow) (id : Id) :
    (expandOne rs id).isSome = true ↔ id = "" ∨ id ∈ acceptedKeys rs := by
  cases h : expandOne rs id with
  | none =>
    have hu := (unknown_iff_not_accepted_key rs id).1 ((expandOne_none_iff rs id).1 h)
    simp only [Option.isSome_none, Bool.false_eq_true, false_iff, not_or]
    exact hu
  | some l =>
    simp only [Option.isSome_some, true_iff]
    by_cases h0 : id = ""
    · exact Or.inl h0
    · refine Or.inr ?_
      have hnu : ¬ Unknown rs id := by
        intro hu; rw [(expandOne_none_iff rs id).2 hu] at h; cases h
      by_cases hm : id ∈ acceptedKeys rs
      · exact hm
      · exact absurd ((unknown_iff_not_accepted_key rs id).2 ⟨h0, hm⟩) hnu

/-- `use` / `except` (any list): the expansion step succeeds iff EVERY entry is empty or an
    accepted key — one foreign entry anywhere in the list fails the whole configuration. -/
theorem use_except_validation_accepts_iff (rs : List RuleRow) (ids : List Id) :
    (∃ l, transformIds rs ids = .ok l) ↔ ∀ id ∈ ids, id = "" ∨ id ∈ acceptedKeys rs := by
  constructor
  · rintro ⟨l, hl⟩ id hid
    rw [← key_lookup_succeeds_iff]
    cases h : expandOne rs id with
    | some e => rfl
    | none => rw [transformIds_error rs ids ⟨id, hid, h⟩] at hl; cases hl
  · intro hall
    have : ∀ ids : List Id, (∀ id ∈ ids, id = "" ∨ id ∈ acceptedKeys rs) → ∃ l, expandAll rs ids = .ok l := by
      intro ids
      induction ids with
      | nil => intro _; exact ⟨[], rfl⟩
      | cons a rest ih =>
        intro h
        rcases ih (fun id hid => h id (List.mem_cons_of_mem a hid)) with ⟨r, hr⟩
        have ha := (key_lookup_succeeds_iff rs a).2 (h a (List.mem_cons_self))
        cases he : expandOne rs a with
        | none => rw [he] at ha; cases ha
        | some l => exact ⟨l ++ r, by simp only [expandAll, he, hr]⟩
    rcases this ids hall with ⟨l, hl⟩
    exact ⟨usIds l, by unfold transformIds; rw [hl]⟩

/-- `ignore_only` (any map): the expansion step succeeds iff EVERY key is empty or an accepted
    key of the table of the requested type. -/
theorem ignore_only_validation_accepts_iff (rs : List RuleRow) (io : List (Id × List Str)) :
    (∃ m, expandIgnoreOnly rs io = .ok m) ↔ ∀ e ∈ io, e.1 = "" ∨ e.1 ∈ acceptedKeys rs := by
  induction io with
  | nil => simp [expandIgnoreOnly]
  | cons a rest ih =>
    obtain ⟨k, ps⟩ := a
    constructor
    · rintro ⟨m, hm⟩ e he
      unfold expandIgnoreOnly at hm
      cases hk : expandOne rs k with
      | none => rw [hk] at hm; cases hm
      | some l =>
        cases hr : expandIgnoreOnly rs rest with
        | error x => rw [hk, hr] at hm; cases hm
        | ok r =>
          rcases List.mem_cons.1 he with rfl | he'
          · exact (key_lookup_succeeds_iff rs k).1 (by rw [hk]; rfl)
          · exact (ih.1 ⟨r, hr⟩) e he'
    · intro h
      rcases ih.2 (fun e he => h e (List.mem_cons_of_mem _ he)) with ⟨r, hr⟩
      have hk := (key_lookup_succeeds_iff rs k).2 (h (k, ps) List.mem_cons_self)
      cases he : expandOne rs k with
      | none => rw [he] at hk; cases hk
      | some l =>
        refine ⟨(l.flatMap fun id => ps.map fun p => (id, p)) ++ r, ?_⟩
        simp only [expandIgnoreOnly, he, hr]

/-! ## the two rule types share no key (regenerated tables) -/

/-- In every config version the ids the lint sections accept (lint rule ids, deprecated ones
    included, and the categories carried by lint rules) and the ids the breaking sections accept
    are DISJOINT, none of them is empty, and both types have rules. -/
theorem lint_breaking_keys_disjoint (v : Version) :
    (∀ id ∈ acceptedKeys (rulesForType (rulesOf v) true), id ∉ acceptedKeys (rulesForType (rulesOf v) false)) ∧
    "" ∉ acceptedKeys (rulesForType (rulesOf v) true) ∧ "" ∉ acceptedKeys (rulesForType (rulesOf v) false) ∧
    rulesForType (rulesOf v) true ≠ [] ∧ rulesForType (rulesOf v) false ≠ [] := by
  have h := compact_keys_factsB v
  simp only [Bool.and_eq_true, Bool.not_eq_true'] at h
  obtain ⟨⟨⟨h1, h2⟩, h3⟩, h4⟩ := h
  have hl : ∀ id ∈ acceptedKeys (rulesForType (rulesOf v) true),
      id ≠ "" ∧ ∀ x ∈ compactKeys v false, x ≠ id := by
    intro id hid
    have := List.all_eq_true.1 h1 id (mem_compactKeys_of_accepted v true id hid)
    simp only [Bool.and_eq_true, bne_iff_ne, ne_eq, List.all_eq_true] at this
    exact this
  refine ⟨?_, ?_, ?_, ?_, ?_⟩
  · intro id hid hb
    exact (hl id hid).2 id (mem_compactKeys_of_accepted v false id hb) rfl
  · intro h0; exact (hl "" h0).1 rfl
  · intro h0
    have := List.all_eq_true.1 h2 "" (mem_compactKeys_of_accepted v false "" h0)
    simp at this
  · intro he; rw [he] at h3; cases h3
  · intro he; rw [he] at h4; cases h4

/-- A rule id / deprecated rule id / category of the OTHER rule type is an unknown id. -/
theorem other_type_key_unknown (v : Version) (lint : Bool) (id : Id)
    (h : id ∈ acceptedKeys (rulesForType (rulesOf v) (!lint))) :
    Unknown (rulesForType (rulesOf v) lint) id := by
  rw [unknown_iff_not_accepted_key]
  have hd := lint_breaking_keys_disjoint v
  cases lint with
  | true =>
    refine ⟨fun h0 => hd.2.2.1 (h0 ▸ h), fun hl => hd.1 id hl h⟩
  | false =>
    refine ⟨fun h0 => hd.2.1 (h0 ▸ h), fun hb => hd.1 id h hb⟩

theorem tables_have_both_types (v : Version) (lint : Bool) : rulesForType (rulesOf v) lint ≠ [] := by
  have hd := lint_breaking_keys_disjoint v
  cases lint with
  | true => exact hd.2.2.2.1
  | false => exact hd.2.2.2.2

/-- Seed C06-m8 as a statement: a key of `ignore_only` that belongs to the OTHER rule type (a
    breaking rule id or category under `lint.ignore_only`, a lint one under
    `breaking.ignore_only`) makes `newRulesConfig` fail — whatever else the configuration
    says. -/
theorem ignore_only_key_of_other_type_rejected (v : Version) (lint : Bool) (c : CheckConfig) (k : Id)
    (hk : k ∈ acceptedKeys (rulesForType (rulesOf v) (!lint))) (hin : k ∈ c.ignoreOnly.map (·.1)) :
    ∃ e, newRulesConfig (rulesOf v) lint c = .error e :=
  unknown_key_rejected (rulesOf v) lint c (tables_have_both_types v lint) k (other_type_key_unknown v lint k hk)
    (Or.inr (Or.inr hin))

/-- The same for an `except` entry (`hb`: the entry is not made of blanks only — blank entries of
    `use` / `except` are dropped before anything else, as coded). -/
theorem except_key_of_other_type_rejected (v : Version) (lint : Bool) (c : CheckConfig) (k : Id)
    (hk : k ∈ acceptedKeys (rulesForType (rulesOf v) (!lint))) (hin : k ∈ c.except) (hb : blankId k = false) :
    ∃ e, newRulesConfig (rulesOf v) lint c = .error e :=
  unknown_key_rejected (rulesOf v) lint c (tables_have_both_types v lint) k (other_type_key_unknown v lint k hk)
    (Or.inr (Or.inl ⟨hin, hb⟩))

/-- The same for a `use` entry (`use` then has a non-blank entry, so it is not replaced by the
    defaults). -/
theorem use_key_of_other_type_rejected (v : Version) (lint : Bool) (c : CheckConfig) (k : Id)
    (hk : k ∈ acceptedKeys (rulesForType (rulesOf v) (!lint))) (hin : k ∈ c.use) (hb : blankId k = false) :
    ∃ e, newRulesConfig (rulesOf v) lint c = .error e :=
  unknown_key_rejected (rulesOf v) lint c (tables_have_both_types v lint) k (other_type_key_unknown v lint k hk)
    (Or.inl ⟨hin, hb⟩)

/-- … and at the level the driver runs (`ykeys` lines): `Client.ConfiguredRules` on a
    configuration read from a buf.yaml fails when a key of `ignore_only` that survived the
    reader belongs to the other rule type (builtin rules enabled). -/
theorem configuredEff_rejects_other_type_ignore_only_key (v : Version) (lint : Bool) (eff : EffConfig) (k : Id)
    (hdb : eff.check.disableBuiltin = false)
    (hk : k ∈ acceptedKeys (rulesForType (rulesOf v) (!lint))) (hin : k ∈ eff.check.ignoreOnly.map (·.1)) :
    ∃ e, configuredEff (rulesOf v) lint eff = .error e := by
  rcases ignore_only_key_of_other_type_rejected v lint eff.check k hk hin with ⟨e, he⟩
  exact ⟨e, by unfold configuredEff; simp only [hdb, Bool.false_eq_true, if_false, he]⟩

/-! ## ids are compared byte for byte -/

/-- Nothing but the literal keys is accepted: an id that is not, byte for byte, a rule id of the
    type or a category carried by such a rule is unknown — in particular every spelling that
    differs by case only (`enum_pascal_case`, `Enum_Pascal_Case`, `basic`; see the examples
    below), padded ids and prefixes. -/
theorem ids_are_compared_exactly (rs : List RuleRow) (id : Id) (h0 : id ≠ "")
    (h : ∀ k ∈ acceptedKeys rs, k ≠ id) : Unknown rs id :=
  (unknown_iff_not_accepted_key rs id).2 ⟨h0, fun hm => h id hm rfl⟩

/-! ## the reader drops `ignore_only` keys that have no path (as coded) -/

/-- `ignore_only: {K: []}` (or, for a workspace-level v2 section, a key all of whose paths lie
    outside the module): the reader drops the key before anything looks at it — such a key is
    never validated. -/
theorem yaml_ignore_only_key_without_paths_dropped (dir : Str) (req : Bool) (k : Id) (rest : List (Id × List Str))
    (r : List (Id × List Str)) (h : relIgnoreOnlyFor dir req rest = .ok r) :
    relIgnoreOnlyFor dir req ((k, []) :: rest) = .ok r := by
  simp [relIgnoreOnlyFor, relPathsFor, h]

/-- …so an unknown id without paths is accepted (documented here as coded; the harness counts
    these cases, the oracle does not demand a rejection). -/
theorem unknown_key_without_paths_accepted_counterexample :
    ∃ eff top, readYaml true true dot { ignoreOnly := [("NOPE", [])] } {} = .ok (eff, top) ∧
      eff.check.ignoreOnly = [] ∧ Unknown (rulesForType (rulesOf .v2) true) "NOPE" := by
  refine ⟨_, _, rfl, ?_, by decide⟩
  decide

/-! ## non-vacuity -/

example : "FIELD_NO_DELETE" ∈ acceptedKeys (rulesForType (rulesOf .v1beta1) false) ∧ "FILE" ∈ acceptedKeys (rulesForType (rulesOf .v2) false) ∧
    "ENUM_PASCAL_CASE" ∈ acceptedKeys (rulesForType (rulesOf .v1) true) ∧ "BASIC" ∈ acceptedKeys (rulesForType (rulesOf .v2) true) ∧
    "FIELD_SAME_LABEL" ∈ acceptedKeys (rulesForType (rulesOf .v1) false) := by decide

example : ∃ e, newRulesConfig (rulesOf .v1beta1) true
    { use := [], except := [], ignore := [], ignoreOnly := [("FIELD_NO_DELETE", ["a".toList])], disableBuiltin := false } = .error e :=
  ignore_only_key_of_other_type_rejected .v1beta1 true _ "FIELD_NO_DELETE" (by decide) (by decide)

example : Unknown (rulesForType (rulesOf .v2) true) "enum_pascal_case" ∧ Unknown (rulesForType (rulesOf .v1) false) "Wire_Json" ∧
    Unknown (rulesForType (rulesOf .v2) true) "ENUM_PASCAL_CASE " := by decide

end BufProofs.C06
