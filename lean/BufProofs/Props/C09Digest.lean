import BufProofs.Lemmas.CacheDigestLemmas
import BufProofs.Props.C08
import BufProofs.Props.C09
/-
  C09 — digest link (audit item S1): the abstract gate of `BufModel.Cache.load`
  ("module-file sets equal ∧ marker token canonical") is tied to the REAL b5 digest computation
  of the C08 model (`BufModel.Digest.moduleB5`) through `BufModel.CacheDigest.loadD`, which
  follows getModuleDataForModuleKey + moduleData.checkDigest as coded.

  `H : Bytes → Digest` (SHAKE256) is a parameter; soundness carries C08's explicit
  `NoCollision` hypothesis on the byte strings the compared computations actually hash.
-/
namespace BufProofs.C09
open BufModel.Path BufModel.Bucket BufModel.Manifest BufModel.Cache BufModel.CacheDigest
open BufModel.Digest (MDigest moduleB5 filterModule docPath BucketOK NoNewline b5Inputs)
open BufProofs.C08 (NoCollision)

/-- digest_gate_sound (the link to C08): in ANY entry state, if the reader that really
    recomputes the b5 digest returns content, then — provided SHAKE256 does not collide on the
    byte strings the two digest computations hash (`NoCollision`, exactly C08's hypothesis) —
    the module files served are exactly the module files of the honest content the key's digest
    was computed from, and the dependency digests declared by the marker are a permutation of
    the honest ones.  Direct use of C08 `digest_sensitive`.

    Hypotheses: `BucketOK` = paths distinct and validated (what a real bucket guarantees).
    There is NO line-feed hypothesis any more: since the fix that makes `bufcas.NewFileNode`
    reject a path containing U+000A (C08, handoff/C08-newline-fix.diff) a successful digest
    computation implies that no module-file path contains a line feed, and both computations
    compared here succeeded (`hload` is a hit, `hpin`).  Before the fix the gate was NOT sound for
    such entries (`C08.newline_collision_counterexample`: a `.proto` path containing a line feed
    could spell a second manifest line).  That the dependency digests are b5 is not a
    hypothesis either: it follows from the digest computations having succeeded. -/
theorem digest_gate_sound (H : Bytes → Digest) (pinned : MDigest)
    (depsOf : Content → Option (List MDigest)) (sides : List Str) (entry : Mem)
    (got : List (Str × Content)) (honest : BufModel.Digest.Bucket) (hdeps : List MDigest)
    (hload : loadD H pinned depsOf sides entry = .hit got)
    (hpin : moduleB5 H honest hdeps = .ok pinned)
    (ok1 : BucketOK (toBucket (entryFiles entry))) (ok2 : BucketOK honest)
    (hH : ∀ tok deps, entry.find markerPath = some tok → depsOf tok = some deps →
      NoCollision H (b5Inputs H (toBucket (entryFiles entry)) deps ++ b5Inputs H honest hdeps)) :
    got = servedFiles (entryFiles entry) ∧
    (∀ e, e ∈ toBucket got ↔ e ∈ filterModule honest) ∧
    (∀ e, e ∈ filterModule (toBucket (entryFiles entry)) ↔ e ∈ filterModule honest) ∧
    ∃ tok deps, entry.find markerPath = some tok ∧ depsOf tok = some deps ∧ deps.Perm hdeps := by
  obtain ⟨tok, deps, hm, hd, _, hdig, hgot⟩ := loadD_hit_inv H pinned depsOf sides entry got hload
  have hs := C08.digest_sensitive H _ honest deps hdeps ok1 ok2 (hH tok deps hm hd) pinned hdig hpin
  refine ⟨hgot, ?_, hs.1, tok, deps, hm, hd, hs.2⟩
  intro e
  rw [hgot, toBucket_servedFiles]
  exact hs.1 e

/-- The same for the tar layout. -/
theorem digest_gate_sound_tar (H : Bytes → Digest) (pinned : MDigest)
    (depsOf : Content → Option (List MDigest)) (sides : List Str) (t : Option (Option Mem))
    (got : List (Str × Content)) (honest : BufModel.Digest.Bucket) (hdeps : List MDigest)
    (hload : (loadTarD H pinned depsOf sides t).1 = .hit got)
    (hpin : moduleB5 H honest hdeps = .ok pinned) (ok2 : BucketOK honest)
    (hent : ∀ e, t = some (some e) →
      BucketOK (toBucket (entryFiles e)) ∧
      ∀ tok deps, e.find markerPath = some tok → depsOf tok = some deps →
        NoCollision H (b5Inputs H (toBucket (entryFiles e)) deps ++ b5Inputs H honest hdeps)) :
    ∀ e, e ∈ toBucket got ↔ e ∈ filterModule honest := by
  unfold loadTarD at hload
  cases t with
  | none => cases hload
  | some o =>
    cases o with
    | none => cases hload
    | some e =>
      obtain ⟨ok1, hH⟩ := hent e rfl
      exact (digest_gate_sound H pinned depsOf sides e got honest hdeps hload hpin ok1 ok2 hH).2.1

/-- `.mismatch` of `loadD` also covers "the digest computation itself failed" (`LoadResult` has
    no constructor for it).  On a well-formed entry whose marker declares b5 digests and whose
    module files have no line feed in their paths (`nl1`: since the C08 line-feed fix such a path
    makes the digest computation itself fail — `C08.digest_rejects_line_feed`) that case does not
    arise: `.mismatch` means a digest WAS computed and differs from the pinned one — the
    `DigestMismatchError` of `checkDigest`. -/
theorem loadD_mismatch_is_digest_mismatch (H : Bytes → Digest) (pinned : MDigest)
    (depsOf : Content → Option (List MDigest)) (sides : List Str) (entry : Mem)
    (h : loadD H pinned depsOf sides entry = .mismatch)
    (ok1 : BucketOK (toBucket (entryFiles entry)))
    (nl1 : NoNewline (filterModule (toBucket (entryFiles entry))))
    (hb5 : ∀ tok deps, entry.find markerPath = some tok → depsOf tok = some deps →
      deps.all (fun d => d.type = .b5) = true) :
    ∃ tok deps actual, entry.find markerPath = some tok ∧ depsOf tok = some deps ∧
      moduleB5 H (toBucket (entryFiles entry)) deps = .ok actual ∧ actual ≠ pinned := by
  unfold loadD at h
  cases hm : entry.find markerPath with
  | none => rw [hm] at h; cases h
  | some tok =>
    rw [hm] at h
    simp only at h
    cases hd : depsOf tok with
    | none => rw [hd] at h; cases h
    | some deps =>
      rw [hd] at h
      simp only at h
      split at h
      · cases h
      · split at h
        · cases h
        · rename_i hne
          refine ⟨tok, deps, _, rfl, hd, BufModel.Digest.moduleB5_eq H _ deps ok1 nl1 (hb5 tok deps hm hd), ?_⟩
          intro e
          apply hne
          rw [BufModel.Digest.moduleB5_eq H _ deps ok1 nl1 (hb5 tok deps hm hd), e]

/-- complete_entry_hits: an entry that holds exactly the honest payload under files/ (every
    honest file with its content, nothing else under files/ — keys outside files/ are
    unrestricted), whose side files are present and whose marker declares the honest dependency
    digests (in any order) loads as a HIT under the real digest recomputation, for EVERY hash
    function `H`, and serves exactly the honest module files.  Uses C08
    `digest_is_function_of_module_files` and `digest_perm_deps`. -/
theorem complete_entry_hits (H : Bytes → Digest) (pinned : MDigest)
    (depsOf : Content → Option (List MDigest)) (sides : List Str) (exp : Expected)
    (hdeps deps : List MDigest) (entry : Mem) (tok : Content)
    (hpin : moduleB5 H (toBucket exp.files) hdeps = .ok pinned)
    (okH : BucketOK (toBucket exp.files))
    (hm : entry.find markerPath = some tok) (hd : depsOf tok = some deps) (hperm : deps.Perm hdeps)
    (hfiles : ∀ f ∈ exp.files, entry.find (filesPrefix ++ f.1) = some f.2)
    (hsides : ∀ s ∈ sides, (entry.find s).isSome = true)
    (honly : ∀ kv ∈ entry, ∀ rel, stripFiles kv.1 = some rel → rel ∈ exp.files.map (·.1))
    (hn : NodupKeys entry) :
    loadD H pinned depsOf sides entry = .hit (servedFiles (entryFiles entry)) ∧
      ∀ e, e ∈ toBucket (servedFiles (entryFiles entry)) ↔ e ∈ filterModule (toBucket exp.files) := by
  -- the objects under files/ are exactly the honest files
  have hsame : ∀ x, x ∈ entryFiles entry ↔ x ∈ exp.files := by
    intro x
    constructor
    · intro hx
      have hx' := mem_entryFiles.mp hx
      obtain ⟨f, hf, hfe⟩ := List.mem_map.mp (honly _ hx' x.1 (stripFiles_prefix x.1))
      have h1 := hfiles f hf
      rw [hfe] at h1
      have h2 := (mem_iff_find hn _ _).mp hx'
      rw [h1] at h2
      have : f = x := Prod.ext hfe (Option.some.inj h2)
      exact this ▸ hf
    · intro hx
      exact mem_entryFiles.mpr (find_some_mem (hfiles x hx))
  have hsameB := (toBucket_mem_iff _ _).mp hsame
  have okE : BucketOK (toBucket (entryFiles entry)) := by
    refine ⟨?_, fun e he => okH.2 e ((hsameB e).mp he)⟩
    rw [toBucket_paths]
    exact entryFiles_nodup hn
  have hdig : moduleB5 H (toBucket (entryFiles entry)) deps = .ok pinned := by
    rw [C08.digest_perm_deps H _ deps hdeps hperm,
      C08.digest_is_function_of_module_files H _ (toBucket exp.files) hdeps okE okH
        (filterModule_congr_mem hsameB)]
    exact hpin
  constructor
  · unfold loadD
    rw [hm]
    simp only
    rw [hd]
    simp only
    have hs : (sides.all fun s => (entry.find s).isSome) = true := List.all_eq_true.mpr hsides
    rw [hs, if_pos hdig]
    rfl
  · intro e
    rw [toBucket_servedFiles]
    exact filterModule_congr_mem hsameB e

/-- The same in the vocabulary of the writer invariant (`Complete`, `OnlyPayloadKeys`,
    `NodupKeys`, `SidesOutsideFiles` of CacheLemmas): every entry the store protocol marks
    complete (`marker_implies_complete`) is a hit of the REAL digest gate. -/
theorem complete_payload_entry_hits (H : Bytes → Digest) (pinned : MDigest)
    (depsOf : Content → Option (List MDigest)) (exp : Expected)
    (hdeps : List MDigest) (entry : Mem)
    (hpin : moduleB5 H (toBucket exp.files) hdeps = .ok pinned)
    (okH : BucketOK (toBucket exp.files))
    (hcan : depsOf markerCanonical = some hdeps)
    (hside : SidesOutsideFiles exp)
    (hc : Complete exp entry) (hm : entry.find markerPath = some markerCanonical)
    (hk : OnlyPayloadKeys exp entry) (hn : NodupKeys entry) :
    loadD H pinned depsOf (exp.sides.map (·.1)) entry = .hit (servedFiles (entryFiles entry)) ∧
      ∀ e, e ∈ toBucket (servedFiles (entryFiles entry)) ↔ e ∈ filterModule (toBucket exp.files) := by
  apply complete_entry_hits H pinned depsOf _ exp hdeps hdeps entry markerCanonical hpin okH hm hcan
    (List.Perm.refl _)
  · intro f hf
    exact hc (filesPrefix ++ f.1, f.2) (List.mem_append.mpr (Or.inl (List.mem_map.mpr ⟨f, hf, rfl⟩)))
  · intro s hs
    obtain ⟨sc, hsc, rfl⟩ := List.mem_map.mp hs
    rw [hc sc (List.mem_append.mpr (Or.inr hsc))]; rfl
  · intro kv hkv rel hst
    rcases hk kv hkv with hmk | hpay
    · exfalso
      have hnone : stripFiles markerPath = none := by decide
      rw [hmk, hnone] at hst; cases hst
    · obtain ⟨pc, hpc, hpe⟩ := List.mem_map.mp hpay
      rcases List.mem_append.mp hpc with hf | hs
      · obtain ⟨f0, hf0, hfe⟩ := List.mem_map.mp hf
        have hp : kv.1 = filesPrefix ++ f0.1 := by rw [← hpe, ← hfe]
        rw [hp, stripFiles_prefix] at hst
        rw [← Option.some.inj hst]
        exact List.mem_map.mpr ⟨f0, hf0, rfl⟩
      · exfalso
        have := hside pc hs
        rw [hpe, hst] at this; cases this
  · exact hn

/-- load_abstracts_loadD (audit S1, the missing link): the abstract reader `Cache.load` — whose
    gate is "module-file sets equal ∧ marker token canonical" — returns THE SAME RESULT
    (miss / mismatch / hit, and on hit the same list of files) as the reader that really
    recomputes the b5 digest, `loadD`, for every entry state whatsoever, when
      * `exp.files` is the honest content and `pinned` its b5 digest with the honest deps `hdeps`;
      * the three-token marker abstraction is interpreted as intended: `markerCanonical`
        declares `hdeps`, `markerOtherDeps` declares some `odeps` that is not a permutation of
        `hdeps`, every other byte string is not a valid marker;
      * SHAKE256 does not collide on the strings hashed (`NoCollision`, C08's hypothesis), paths
        are distinct and validated (`BucketOK`); no line-feed hypothesis (see `digest_gate_sound`:
        an entry with a line feed in a module-file path has no digest, which both readers report
        as `.mismatch`);
      * `docOnlyBufMd`: `Cache.isModuleFile` knows only `buf.md` as documentation file while
        the real storage matcher takes the first PRESENT path of `buf.md, README.md,
        README.markdown`; the two agree exactly when that choice is `buf.md` or nothing, i.e.
        README.md / README.markdown occur in files/ (resp. in the honest content) only next to a
        `buf.md`.  This is a decidable predicate of the entry; the C09 harness generator only
        produces such entries (its only documentation file is `buf.md`), and
        `docOnlyBufMd_of_noOtherDocPath` gives the simpler path-wise sufficient condition.
        Without it the theorem is false (`load_abstraction_readme_counterexample`).
    Hence every theorem proved about `Cache.load` (the gate theorem, the writer-protocol
    invariant, `store_success_then_hit`) is a theorem about the digest-recomputing reader.
    `odeps` need not be b5: a non-b5 dependency digest makes the real computation fail, which
    both sides report as `.mismatch`. -/
theorem load_abstracts_loadD (H : Bytes → Digest) (pinned : MDigest)
    (depsOf : Content → Option (List MDigest)) (exp : Expected) (hdeps odeps : List MDigest)
    (entry : Mem)
    (hpin : moduleB5 H (toBucket exp.files) hdeps = .ok pinned)
    (hcan : depsOf markerCanonical = some hdeps) (hoth : depsOf markerOtherDeps = some odeps)
    (hinv : ∀ tok, markerValid tok = false → depsOf tok = none)
    (hnp : ¬ odeps.Perm hdeps)
    (okE : BucketOK (toBucket (entryFiles entry))) (okH : BucketOK (toBucket exp.files))
    (docE : docOnlyBufMd (entryFiles entry) = true) (docH : docOnlyBufMd exp.files = true)
    (hH : ∀ deps, deps = hdeps ∨ deps = odeps →
      NoCollision H (b5Inputs H (toBucket (entryFiles entry)) deps ++ b5Inputs H (toBucket exp.files) hdeps)) :
    loadD H pinned depsOf (exp.sides.map (·.1)) entry = load exp entry := by
  have neE : ∀ x ∈ entryFiles entry, x.1 ≠ [] := fun x hx =>
    bucketOK_ne_nil okE (x.1, contentBytes x.2) (mem_toBucket.mpr ⟨x, hx, rfl⟩)
  have neH : ∀ x ∈ exp.files, x.1 ≠ [] := fun x hx =>
    bucketOK_ne_nil okH (x.1, contentBytes x.2) (mem_toBucket.mpr ⟨x, hx, rfl⟩)
  have hgot : moduleFilesOf entry = servedFiles (entryFiles entry) := by
    rw [moduleFilesOf_eq, servedFiles_eq _ docE neE]
  -- the abstract comparison is the comparison of the two storage-matcher selections
  have hset : sameSet (moduleFilesOf entry) (exp.files.filter fun f => BufModel.Cache.isModuleFile f.1) = true ↔
      ∀ e, e ∈ filterModule (toBucket (entryFiles entry)) ↔ e ∈ filterModule (toBucket exp.files) := by
    rw [sameSet_iff, toBucket_mem_iff, hgot, toBucket_servedFiles, ← servedFiles_eq _ docH neH,
      toBucket_servedFiles]
  -- digest equality ⇒ file sets and deps equal (C08 sensitivity)
  have hsens : ∀ deps, deps = hdeps ∨ deps = odeps →
      moduleB5 H (toBucket (entryFiles entry)) deps = .ok pinned →
      (∀ e, e ∈ filterModule (toBucket (entryFiles entry)) ↔ e ∈ filterModule (toBucket exp.files)) ∧
        deps.Perm hdeps := by
    intro deps hdd hdig
    exact C08.digest_sensitive H _ _ deps hdeps okE okH (hH deps hdd) pinned hdig hpin
  cases hm : entry.find markerPath with
  | none =>
    unfold loadD load
    rw [hm]
  | some tok =>
    by_cases hv : markerValid tok = true
    · have hsideq : ((exp.sides.map (·.1)).all fun s => (entry.find s).isSome) =
          (exp.sides.all fun s => (entry.find s.1).isSome) := by
        rw [List.all_map]; rfl
      cases hs : (exp.sides.all fun s => (entry.find s.1).isSome) with
      | false =>
        have hdd : ∃ deps, depsOf tok = some deps := by
          unfold markerValid at hv
          simp only [Bool.or_eq_true, decide_eq_true_eq] at hv
          rcases hv with rfl | rfl
          · exact ⟨_, hcan⟩
          · exact ⟨_, hoth⟩
        obtain ⟨deps, hd⟩ := hdd
        unfold loadD load
        rw [hm]
        simp only
        rw [hd]
        simp only [hsideq, hs, hv, Bool.not_true, Bool.not_false, Bool.false_eq_true, if_false, if_true]
      | true =>
        rw [load_eq_gate exp entry tok hm hv hs]
        unfold markerValid at hv
        simp only [Bool.or_eq_true, decide_eq_true_eq] at hv
        rcases hv with rfl | rfl
        · rw [loadD_eq_gate H pinned depsOf _ entry _ hdeps hm hcan (hsideq.trans hs), ← hgot]
          by_cases hdig : moduleB5 H (toBucket (entryFiles entry)) hdeps = .ok pinned
          · have := hset.mpr (hsens hdeps (Or.inl rfl) hdig).1
            rw [if_pos hdig, this]
            simp
          · have hns : sameSet (moduleFilesOf entry) (exp.files.filter fun f => BufModel.Cache.isModuleFile f.1) = false := by
              cases hss : sameSet (moduleFilesOf entry) (exp.files.filter fun f => BufModel.Cache.isModuleFile f.1) with
              | false => rfl
              | true =>
                exfalso
                apply hdig
                rw [C08.digest_is_function_of_module_files H _ (toBucket exp.files) hdeps okE okH
                  (hset.mp hss)]
                exact hpin
            rw [if_neg hdig, hns]
            simp
        · rw [loadD_eq_gate H pinned depsOf _ entry _ odeps hm hoth (hsideq.trans hs)]
          have hdig : ¬ moduleB5 H (toBucket (entryFiles entry)) odeps = .ok pinned :=
            fun hdig => hnp (hsens odeps (Or.inr rfl) hdig).2
          have hne : markerOtherDeps ≠ markerCanonical := by decide
          rw [if_neg hdig]
          simp [hne]
    · have hv' : markerValid tok = false := by simpa using hv
      unfold loadD load
      rw [hm]
      simp only
      rw [hinv tok hv']
      simp [hv']

/-! ### Non-vacuity (toy hash of Props/C08) and the recorded limit of the abstraction -/

def exDeps : List MDigest := [⟨.b5, C08.zeroDigest⟩]

/-- the intended reading of the three-token marker abstraction -/
def exDepsOf (tok : Content) : Option (List MDigest) :=
  if tok = markerCanonical then some exDeps else if tok = markerOtherDeps then some [] else none

def exExpD : Expected :=
  { files := [("a.proto".toList, "A"), ("buf.md".toList, "D"), ("x.txt".toList, "X")],
    sides := [("v1_buf_yaml/buf.yaml".toList, "Y")] }

def exPinned : MDigest :=
  match moduleB5 C08.toyH (toBucket exExpD.files) exDeps with
  | .ok d => d
  | .error _ => ⟨.b5, C08.zeroDigest⟩

/-- a complete entry, plus a stray object outside files/ -/
def exGood : Mem :=
  [(markerPath, markerCanonical), ("files/a.proto".toList, "A"), ("files/buf.md".toList, "D"),
   ("files/x.txt".toList, "X"), ("v1_buf_yaml/buf.yaml".toList, "Y"), ("stray".toList, "S")]

/-- one byte of one module file flipped -/
def exTampered : Mem :=
  [(markerPath, markerCanonical), ("files/a.proto".toList, "B"), ("files/buf.md".toList, "D"),
   ("files/x.txt".toList, "X"), ("v1_buf_yaml/buf.yaml".toList, "Y")]

theorem exDepsOf_rejects_invalid : ∀ tok, markerValid tok = false → exDepsOf tok = none := by
  intro tok h
  unfold markerValid at h
  simp only [Bool.or_eq_false_iff, decide_eq_false_iff_not] at h
  unfold exDepsOf
  rw [if_neg h.1, if_neg h.2]

set_option maxRecDepth 1000000 in
theorem exPinned_is_digest : moduleB5 C08.toyH (toBucket exExpD.files) exDeps = .ok exPinned := by
  unfold exPinned
  rw [BufModel.Digest.moduleB5_eq C08.toyH _ exDeps ⟨by decide, by decide⟩ (by unfold NoNewline; decide) (by decide)]

set_option maxRecDepth 1000000 in
set_option maxHeartbeats 4000000 in
/-- Non-vacuity: every hypothesis of `load_abstracts_loadD` / `digest_gate_sound` is satisfiable
    (toy hash; an entry on which a hit occurs, see the next example). -/
theorem load_abstracts_loadD_nonvacuous :
    BucketOK (toBucket (entryFiles exGood)) ∧ BucketOK (toBucket exExpD.files) ∧
    docOnlyBufMd (entryFiles exGood) = true ∧ docOnlyBufMd exExpD.files = true ∧
    ¬ ([] : List MDigest).Perm exDeps ∧
    ∀ deps, deps = exDeps ∨ deps = [] →
      NoCollision C08.toyH (b5Inputs C08.toyH (toBucket (entryFiles exGood)) deps ++
        b5Inputs C08.toyH (toBucket exExpD.files) exDeps) := by
  refine ⟨⟨by decide, by decide⟩, ⟨by decide, by decide⟩, by decide, by decide, by simp [exDeps], ?_⟩
  rintro deps (rfl | rfl) <;> (unfold NoCollision; decide)

-- the theorem applies to it
example : loadD C08.toyH exPinned exDepsOf (exExpD.sides.map (·.1)) exGood = load exExpD exGood :=
  load_abstracts_loadD C08.toyH exPinned exDepsOf exExpD exDeps [] exGood exPinned_is_digest
    (by decide) (by decide) exDepsOf_rejects_invalid
    load_abstracts_loadD_nonvacuous.2.2.2.2.1
    load_abstracts_loadD_nonvacuous.1 load_abstracts_loadD_nonvacuous.2.1
    load_abstracts_loadD_nonvacuous.2.2.1 load_abstracts_loadD_nonvacuous.2.2.2.1
    load_abstracts_loadD_nonvacuous.2.2.2.2.2

-- an entry without marker is a miss
example : kindOf (loadD C08.toyH exPinned exDepsOf (exExpD.sides.map (·.1)) exGood.tail) = 0 := by
  decide

-- the abstract reader on the same entries (hit with the same files / mismatch when one byte of
-- a module file is flipped / miss without marker)
example : kindOf (load exExpD exGood) = 1 ∧
    servedOf (load exExpD exGood) = [("a.proto".toList, "A"), ("buf.md".toList, "D")] ∧
    kindOf (load exExpD exTampered) = 2 ∧ kindOf (load exExpD exGood.tail) = 0 := by
  refine ⟨by decide, by decide, by decide, by decide⟩

/-- Non-vacuity: the hypotheses of `complete_entry_hits` are satisfiable (with an extra key
    "stray" outside files/). -/
theorem complete_entry_hits_nonvacuous :
    (∀ f ∈ exExpD.files, exGood.find (filesPrefix ++ f.1) = some f.2) ∧
    (∀ s ∈ exExpD.sides.map (·.1), (exGood.find s).isSome = true) ∧
    (∀ kv ∈ exGood, ∀ rel, stripFiles kv.1 = some rel → rel ∈ exExpD.files.map (·.1)) ∧
    NodupKeys exGood := by
  refine ⟨by decide, by decide, ?_, by unfold NodupKeys; decide⟩
  intro kv hkv rel
  simp only [exGood, List.mem_cons, List.not_mem_nil, or_false] at hkv
  rcases hkv with rfl | rfl | rfl | rfl | rfl | rfl <;> (intro h; revert h; revert rel; decide)

-- …and a HIT actually occurs under the real digest recomputation, serving the module files
-- only (not x.txt, not the stray object)
example : loadD C08.toyH exPinned exDepsOf (exExpD.sides.map (·.1)) exGood =
    .hit [("a.proto".toList, "A"), ("buf.md".toList, "D")] := by
  have h := (complete_entry_hits C08.toyH exPinned exDepsOf (exExpD.sides.map (·.1)) exExpD exDeps
    exDeps exGood markerCanonical exPinned_is_digest load_abstracts_loadD_nonvacuous.2.1
    (by decide) (by decide) (List.Perm.refl _) complete_entry_hits_nonvacuous.1
    complete_entry_hits_nonvacuous.2.1 complete_entry_hits_nonvacuous.2.2.1
    complete_entry_hits_nonvacuous.2.2.2).1
  rw [h]
  congr 1

def cexExp : Expected := { files := [("a.proto".toList, "A")], sides := [] }
def cexPinned : MDigest :=
  match moduleB5 C08.toyH (toBucket cexExp.files) [] with
  | .ok d => d
  | .error _ => ⟨.b5, C08.zeroDigest⟩
def cexEntry : Mem :=
  [(markerPath, markerCanonical), ("files/a.proto".toList, "A"), ("files/README.md".toList, "R")]

set_option maxRecDepth 1000000 in
set_option maxHeartbeats 4000000 in
/-- The `docOnlyBufMd` hypothesis of `load_abstracts_loadD` cannot be dropped: with a
    `files/README.md` and no `files/buf.md` the real storage matcher counts README.md as a module
    file (digest mismatch), while `Cache.isModuleFile` ignores it (abstract hit).  This is a
    limit of the ABSTRACT model `Cache.load`, not of the code: `loadD` is right.  (Audit C09,
    "isModuleFile knows only buf.md"; the harness generator never produces such an entry.) -/
theorem load_abstraction_readme_counterexample :
    moduleB5 C08.toyH (toBucket cexExp.files) [] = .ok cexPinned ∧
    docOnlyBufMd (entryFiles cexEntry) = false ∧
    kindOf (load cexExp cexEntry) = 1 ∧
    kindOf (loadD C08.toyH cexPinned (fun tok => if tok = markerCanonical then some [] else none)
      (cexExp.sides.map (·.1)) cexEntry) = 2 := by
  refine ⟨?_, by decide, by decide, by decide⟩
  unfold cexPinned
  rw [BufModel.Digest.moduleB5_eq C08.toyH _ [] ⟨by decide, by decide⟩ (by unfold NoNewline; decide) (by decide)]

/-- The writer machine composed with the REAL digest gate: in every reachable state of any number
    of concurrent / crashed / failed stores, started from any entry without a valid marker, a
    valid marker implies that the digest-recomputing load `loadD` hits and serves exactly the
    honest module files. -/
theorem store_success_then_real_hit (H : Bytes → Digest) (pinned : MDigest)
    (depsOf : Content → Option (List MDigest)) (hdeps : List MDigest)
    (exp : Expected) (wf : WF exp) (hside : SidesOutsideFiles exp)
    (hpin : moduleB5 H (toBucket exp.files) hdeps = .ok pinned)
    (okH : BucketOK (toBucket exp.files)) (hcan : depsOf markerCanonical = some hdeps)
    (e0 : Mem) (hk : OnlyPayloadKeys exp e0) (hn : NodupKeys e0) (hm0 : markerOK e0 = false)
    (n : Nat) (acts : List Act)
    (h : markerOK (runActs exp (initFrom e0 n) acts).entry = true) :
    loadD H pinned depsOf (exp.sides.map (·.1)) (runActs exp (initFrom e0 n) acts).entry =
        .hit (servedFiles (entryFiles (runActs exp (initFrom e0 n) acts).entry)) ∧
      ∀ e, e ∈ toBucket (servedFiles (entryFiles (runActs exp (initFrom e0 n) acts).entry)) ↔
        e ∈ filterModule (toBucket exp.files) := by
  have inv := runActs_inv wf acts (initFrom e0 n) (initFrom_inv exp e0 n hk hn hm0)
  obtain ⟨hc, hm⟩ := inv.markerComplete h
  exact complete_payload_entry_hits H pinned depsOf exp hdeps _ hpin okH hcan hside hc hm inv.keys
    inv.nodupKeys

end BufProofs.C09
