import BufProofs.Lemmas.ImagePathsLemmas
/-
  C01's "closed" and "each path once" clauses for DERIVED images: whatever non-import files
  `ImageWithOnlyPaths` / `ImageByDir` select from an image, the image assembled around them by
  `getImageWithImports` / `addFileWithImports` (util.go; model: BufModel.ImagePaths, the walk
  `visit` follows EVERY entry of a file's dependency list) is closed again.

  A file record of that model is (path, isImport, deps); whether the compiler flagged a dependency
  as unused is deliberately NOT part of what the walk looks at.  The variant that does look at it
  (seed C17-m10: skip the dependencies listed in UnusedDependencyIndexes) is `visitSkip` below;
  `skip_unused_counterexample` shows it hands out an image that is not closed.

  The harness sends every path filter it applies to a built image through the model (`iwop`
  protocol line) and checks closedness / order / linking on the implementation's result
  (oracle classes derived-image-*).
-/
namespace BufProofs.C01
open BufModel.Path BufModel.ImagePaths BufProofs.ImagePathsLemmas

/-- every `dependency` entry of every file is a file of the image. -/
def ClosedImage (img : Image) : Prop := ∀ f ∈ img, ∀ d ∈ f.deps, d ∈ paths img

/-- **Derived images are closed.**  Let `img` list each path once and be closed, and let `ni` be
    any files of `img` (what a `--path` filter, `ImageByDir`, … selected).  If
    `getImageWithImports img ni` yields an image, that image lists each path once, is closed, and
    contains exactly the files reachable from `ni` through dependency lists — every dependency,
    used or not. -/
theorem derived_image_closed (img : Image) (ni : List File) (out : Image)
    (hn : (paths img).Nodup) (hc : ClosedImage img) (hni : ∀ f ∈ ni, f ∈ img)
    (h : getImageWithImports img ni = .ok out) :
    (paths out).Nodup ∧ ClosedImage out ∧
      (∀ q, q ∈ paths out ↔ ∃ f ∈ ni, Conn (getFile img) f.path q) := by
  have hl := look_ok_getFile img
  have hdom : ∀ p f, getFile img p = some f → p ∈ paths img :=
    fun p f hf => getFile_isSome_iff.mp (by simp [hf])
  have hsrc : ∀ f ∈ ni, Src (getFile img) f := fun f hf => getFile_of_mem_nodup hn (hni f hf)
  have hspec := dfs_spec (t := paths ni) hl (paths img) hdom (img.length + 1)
    (by simp [paths]) ni hsrc
  unfold getImageWithImports newImage at h
  split at h
  · cases h
  · split at h
    · cases h
    · cases h
      obtain ⟨hnd, hmark, hreach⟩ := hspec
      refine ⟨hnd, ?_, hreach⟩
      -- closed: a dependency of a reached file is a file of `img` (closed), hence reached too
      intro f hf d hd
      obtain ⟨g, hg, hfg⟩ := hmark f hf
      have hgimg : g ∈ img := (getFile_some hg).1
      have hdeps : f.deps = g.deps := by rw [hfg]; rfl
      have hdin : d ∈ paths img := hc g hgimg d (hdeps ▸ hd)
      obtain ⟨g', hg'⟩ := Option.isSome_iff_exists.mp (getFile_isSome_iff.mpr hdin)
      have hfpath : f.path ∈ paths (visitAll (getFile img) (paths ni) (img.length + 1) ni ([], [])).2 :=
        List.mem_map.mpr ⟨f, hf, rfl⟩
      obtain ⟨r, hr, hconn⟩ := (hreach f.path).mp hfpath
      refine (hreach d).mpr ⟨r, hr, ?_⟩
      -- r ⇝ f.path, f.path → d
      have hfp : f.path = g.path := by rw [hfg]; rfl
      rw [hfp] at hconn
      exact conn_snoc hconn hg (hdeps ▸ hd) hg'

/-! ### the seeded shape: skip the dependencies the compiler flagged as unused -/

/-- `visit` with the short cut of seed C17-m10: `unused f` are the indexes of `f.deps` the compiler
    flagged; those dependencies are not walked (the file's dependency list is untouched). -/
def visitSkip (look : Str → Option File) (unused : Str → List Nat) (targets : List Str) :
    Nat → File → DState → DState
  | 0, _, st => st
  | fuel + 1, f, st =>
    if f.path ∈ st.1 then st
    else
      let st1 := (f.deps.zipIdx.filter (fun x => !(unused f.path).contains x.2)).foldl
        (fun st x => match look x.1 with
          | some g => visitSkip look unused targets fuel g st
          | none => st)
        (f.path :: st.1, st.2)
      (st1.1, st1.2 ++ [mark targets f])

private def s (x : String) : Str := x.toList

/-- a/a.proto imports common/used.proto and — unused — common/unused.proto. -/
def exUnusedImg : Image :=
  [{ path := s "common/unused.proto", isImport := true, deps := [] },
   { path := s "common/used.proto", isImport := true, deps := [] },
   { path := s "a/a.proto", isImport := false, deps := [s "common/used.proto", s "common/unused.proto"] }]

def exUnusedTarget : File :=
  { path := s "a/a.proto", isImport := false, deps := [s "common/used.proto", s "common/unused.proto"] }

/-- The hypotheses of `derived_image_closed` are satisfiable, and its conclusion holds on the
    example: the derived image of a/ carries both imports. -/
theorem exUnused_derived :
    getImageWithImports exUnusedImg [exUnusedTarget] =
      .ok [{ path := s "common/used.proto", isImport := true, deps := [] },
           { path := s "common/unused.proto", isImport := true, deps := [] },
           exUnusedTarget] := by decide

/-- Skipping the flagged dependency hands out an image in which a/a.proto lists a dependency that
    is not a file of the image: not closed. -/
theorem skip_unused_counterexample :
    let out := (visitSkip (getFile exUnusedImg) (fun p => if p = s "a/a.proto" then [1] else []) [s "a/a.proto"]
      4 exUnusedTarget ([], [])).2
    paths out = [s "common/used.proto", s "a/a.proto"] ∧ ¬ ClosedImage out := by
  refine ⟨by decide, ?_⟩
  intro hc
  have := hc exUnusedTarget (by decide) (s "common/unused.proto") (by decide)
  revert this
  decide

end BufProofs.C01
