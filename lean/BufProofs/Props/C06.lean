import BufProofs.Lemmas.RulesLemmas
import BufProofs.Lemmas.RulesResolveLemmas
import BufProofs.Lemmas.RulesScopeLemmas
/-
  C06 — Rule selection and suppression compose set-theoretically.  Property theorems only;
  vocabulary (`denote`, `Unknown`, `Suppressed` and its clauses, `Kept`, `MoreSuppression`,
  `MoreComments(Img)`, `NewlySuppressed`) and helper lemmas live in
  BufProofs/Lemmas/RulesLemmas.lean; the user-level vocabulary (`tableOf`, `UserMoreSuppression`,
  `addIgnore` / `addIgnoreOnly` / `addExcept`, `UserScope`, `PathCovers`, `SameElement`,
  `MoreCommentsSrc`, `faElem`) and the lemmas about `resolve` / `runCheck` — the functions the
  driver runs — live in BufProofs/Lemmas/RulesResolveLemmas.lean; the model is
  BufModel/Rules.lean over the REGENERATED tables BufGen/RuleTables.lean.
-/
namespace BufProofs.C06
open BufModel.Path BufModel.Rules BufGen.RuleTables

/-- The lint / breaking rules of a config version, from the regenerated tables. -/
abbrev lintRules (v : Version) : List RuleRow := rulesForType (rulesOf v) true
abbrev breakingRules (v : Version) : List RuleRow := rulesForType (rulesOf v) false

/-! ## selection -/

/-- For ALL `use` / `except` lists (any mix of rule ids, category ids, deprecated ids, blanks,
    duplicates, any order) and any rule table: whenever `newRulesConfig` accepts the
    configuration, the selected rule ids are exactly
    `(⋃ denote use) \ (⋃ denote except)`, where `use` is replaced by the default rules when it
    has no non-blank entry (`effectiveUse`, see `effective_use_spec`) and `denote` expands a
    category to its rules and a deprecated rule to its replacements. -/
theorem selection_is_set_algebra (all : List RuleRow) (lint : Bool) (c : CheckConfig) (rc : RulesConfig)
    (hrs : rulesForType all lint ≠ []) (h : newRulesConfig all lint c = .ok rc) (x : Id) :
    x ∈ rc.ruleIDs ↔
      (∃ u ∈ effectiveUse (rulesForType all lint) c.use, x ∈ denote (rulesForType all lint) u) ∧
      ¬ (∃ e ∈ c.except, blankId e = false ∧ x ∈ denote (rulesForType all lint) e) := by
  rcases newRulesConfig_ok all lint c rc hrs h with ⟨useIds, excIds, h1, h2, h3⟩
  rw [h3, List.mem_filter, mem_undeprecate_transform _ _ _ h1]
  have hex : (∃ e ∈ c.except, blankId e = false ∧ x ∈ denote (rulesForType all lint) e) ↔
      x ∈ undeprecate (rulesForType all lint) excIds := by
    rw [mem_undeprecate_transform _ _ _ h2]
    constructor
    · rintro ⟨e, he, hb, hx⟩; exact ⟨e, (mem_uniqueSortedNoBlank e _).2 ⟨he, hb⟩, hx⟩
    · rintro ⟨e, he, hx⟩
      have := (mem_uniqueSortedNoBlank e _).1 he
      exact ⟨e, this.1, this.2, hx⟩
  rw [hex]
  simp

/-- What `use` means: its non-blank entries, or — when there is none — the default rules. -/
theorem effective_use_spec (rs : List RuleRow) (use : List Id) (x : Id) :
    x ∈ effectiveUse rs use ↔
      if (∀ u ∈ use, blankId u = true) then x ∈ defaultIds rs else (x ∈ use ∧ blankId x = false) := by
  unfold effectiveUse
  by_cases h : uniqueSortedNoBlank use = []
  · simp only [h, if_true]
    have hall : ∀ u ∈ use, blankId u = true := by
      intro u hu
      cases hb : blankId u with
      | true => rfl
      | false =>
        have : u ∈ uniqueSortedNoBlank use := (mem_uniqueSortedNoBlank u use).2 ⟨hu, hb⟩
        rw [h] at this; cases this
    rw [if_pos hall]
  · simp only [h, if_false]
    have hnot : ¬ ∀ u ∈ use, blankId u = true := by
      intro hall
      apply h
      cases hl : uniqueSortedNoBlank use with
      | nil => rfl
      | cons y ys =>
        have : y ∈ uniqueSortedNoBlank use := by rw [hl]; simp
        have := (mem_uniqueSortedNoBlank y use).1 this
        rw [hall y this.1] at this; cases this.2
    rw [if_neg hnot]
    exact mem_uniqueSortedNoBlank x use

/-- The rules `Client.ConfiguredRules` lists are exactly the selected ids (in table order). -/
theorem configured_rules_are_selected (all : List RuleRow) (ruleIDs : List Id) (x : Id) :
    x ∈ configuredRuleIds all ruleIDs ↔ x ∈ ruleIDs ∧ ∃ r ∈ all, r.id = x := by
  unfold configuredRuleIds
  simp only [List.mem_map, List.mem_filter, List.contains_iff_mem]
  constructor
  · rintro ⟨r, ⟨hr, hc⟩, rfl⟩; exact ⟨hc, r, hr, rfl⟩
  · rintro ⟨hx, r, hr, rfl⟩; exact ⟨r, ⟨hr, hx⟩, rfl⟩

/-- An id that is neither a rule id of the requested type nor a category carried by such a
    rule — in `use` (after defaulting), among the non-blank `except` entries, or as an
    `ignore_only` key — makes `newRulesConfig` fail.  (`hrs`: the table has a rule of the type.
    When the builtin rules are disabled `resolve` hands `newRulesConfig` the EMPTY table; then
    nothing is known or unknown and every configuration resolves to the empty selection — as
    coded, see `resolved_config_spec` and its `disableBuiltin` example.) -/
theorem unknown_id_rejected (all : List RuleRow) (lint : Bool) (c : CheckConfig)
    (hrs : rulesForType all lint ≠ []) (id : Id) (hu : Unknown (rulesForType all lint) id)
    (hin : id ∈ effectiveUse (rulesForType all lint) c.use ∨ (id ∈ c.except ∧ blankId id = false) ∨
           id ∈ c.ignoreOnly.map (·.1)) :
    ∃ e, newRulesConfig all lint c = .error e := by
  have hn := (expandOne_none_iff _ id).2 hu
  apply newRulesConfig_unknown all lint c hrs
  rcases hin with h | h | h
  · exact Or.inl ⟨id, h, hn⟩
  · exact Or.inr (Or.inl ⟨id, (mem_uniqueSortedNoBlank id _).2 h, hn⟩)
  · rcases List.mem_map.1 h with ⟨e, he, rfl⟩
    exact Or.inr (Or.inr ⟨e, he, hn⟩)

/-- Unknown ids denote nothing (so they could not silently select or except anything). -/
theorem unknown_denotes_nothing (rs : List RuleRow) (id : Id) (hu : Unknown rs id) : denote rs id = [] := by
  unfold denote; rw [(expandOne_none_iff rs id).2 hu]; rfl

/-- A deprecated rule id stands for exactly its replacements (which, in any table bufplugin
    validates, are themselves non-deprecated rule ids — `tables_replacements_wellformed`). -/
theorem deprecated_as_replacements (rs : List RuleRow) (d : Id) (repl : List Id)
    (hd : d ≠ "") (hr : isRuleId rs d = true) (hrep : replacementsOf rs d = some repl)
    (hwf : ∀ r ∈ repl, r ≠ "" ∧ isRuleId rs r = true ∧ replacementsOf rs r = none) (x : Id) :
    x ∈ denote rs d ↔ ∃ r ∈ repl, x ∈ denote rs r := by
  have hdn : ∀ y, y ∈ denote rs d ↔ y ∈ repl := by
    intro y
    simp [denote, expandOne, hd, hr, undeprecateOne, hrep]
  have hrn : ∀ r ∈ repl, ∀ y, y ∈ denote rs r ↔ y = r := by
    intro r hr' y
    rcases hwf r hr' with ⟨h1, h2, h3⟩
    simp [denote, expandOne, h1, h2, undeprecateOne, h3]
  rw [hdn]
  constructor
  · intro hx; exact ⟨x, hx, (hrn x hx x).2 rfl⟩
  · rintro ⟨r, hr', hx⟩; rw [(hrn r hr' x).1 hx]; exact hr'

/-- In the regenerated tables of all three config versions and both rule types, every
    replacement id of a deprecated rule is a non-deprecated rule id of the same type. -/
theorem tables_replacements_wellformed : ∀ (v : Version) (lint : Bool),
    ∀ d ∈ rulesForType (rulesOf v) lint, d.deprecated = true →
      ∀ r ∈ d.replacements, r ≠ "" ∧ isRuleId (rulesForType (rulesOf v) lint) r = true ∧
        replacementsOf (rulesForType (rulesOf v) lint) r = none := by
  intro v lint; cases v <;> cases lint <;> decide

/-- MINIMAL ⊆ BASIC ⊆ STANDARD and DEFAULT ↦ STANDARD, over the REGENERATED tables, for
    v1beta1, v1 and v2: as rule sets carried by the categories, as what the ids denote in a
    configuration, and in the category table (DEFAULT is deprecated, replaced by STANDARD). -/
theorem category_nesting : ∀ v : Version,
    (∀ x ∈ rulesInCategory (lintRules v) "MINIMAL", x ∈ rulesInCategory (lintRules v) "BASIC") ∧
    (∀ x ∈ rulesInCategory (lintRules v) "BASIC", x ∈ rulesInCategory (lintRules v) "STANDARD") ∧
    rulesInCategory (lintRules v) "DEFAULT" = rulesInCategory (lintRules v) "STANDARD" ∧
    (∀ x ∈ denote (lintRules v) "MINIMAL", x ∈ denote (lintRules v) "BASIC") ∧
    (∀ x ∈ denote (lintRules v) "BASIC", x ∈ denote (lintRules v) "STANDARD") ∧
    denote (lintRules v) "DEFAULT" = denote (lintRules v) "STANDARD" ∧
    rulesInCategory (lintRules v) "MINIMAL" ≠ [] ∧
    ((categoriesOf v).find? (fun c => c.id = "DEFAULT")) = some ⟨"DEFAULT", true, ["STANDARD"]⟩ := by
  intro v; cases v <;> decide

/-- With no `use`, the selection is the default rule set, and for lint that is exactly
    STANDARD (regenerated tables, all versions). -/
theorem default_is_standard : ∀ v : Version,
    ∀ x, x ∈ defaultIds (lintRules v) ↔ x ∈ rulesInCategory (lintRules v) "STANDARD" := by
  intro v x
  have : defaultIds (lintRules v) = rulesInCategory (lintRules v) "STANDARD" := by
    cases v <;> decide
  rw [this]

/-! ## suppression -/

/-- Why a file location is suppressed — exactly the five clauses, nothing else: whenever
    `ignoreFileLocation` answers, it answers `true` iff (exclude-imports ∧ import) ∨ an ignore
    path equals-or-contains the file path component-wise ∨ an ignore_only path of THIS rule
    does ∨ (ignore_unstable_packages ∧ unstable package) ∨ (comment ignores allowed ∧ a
    `buf:lint:ignore <rule>` line leads the element or one of its enclosing declarations). -/
theorem suppressed_iff (cfg : Config) (r : Id) (f : FileInfo) (sp : SPath) (b : Bool)
    (h : ignoreFileLocation cfg r f sp = .ok b) : b = true ↔ Suppressed cfg r f sp :=
  ignoreFileLocation_ok cfg r f sp b h

/-- The report is the union over the selected rules of what each reports on its own, minus
    exactly the suppressed annotations: every reported annotation comes from a kept one
    (selected rule, not suppressed), and every kept annotation is reported up to the dedup key
    of `bufanalysis` — which is injective on these annotations, hence exactly: see
    `report_is_union_exact` (no side condition). -/
theorem report_is_union (cfg : Config) (img : Image) (out : List FileAnnot) (h : report cfg img = .ok out) :
    (∀ fa ∈ out, ∃ a, (a ∈ img.annots ∧ a.ruleId ∈ cfg.rules.ruleIDs ∧ ¬ AnnotSuppressed cfg img a) ∧
        toFileAnnot img a = fa) ∧
    (∀ a ∈ img.annots, a.ruleId ∈ cfg.rules.ruleIDs → ¬ AnnotSuppressed cfg img a →
        ∃ fb ∈ out, dedupKey fb = dedupKey (toFileAnnot img a)) := by
  have hs := report_spec cfg img out h
  exact ⟨hs.2.1, fun a h1 h2 h3 => hs.2.2 a ⟨h1, h2, h3⟩⟩

/-- … and exactly: `bufanalysis`' dedup key (length-prefixed fields, fix 16321bc) is injective on
    what `annotationToFileAnnotation` produces (`dedupKey_inj_wf`), so the dedup only removes
    genuine duplicates and the reported set is precisely the image of the kept annotations. -/
theorem report_is_union_exact (cfg : Config) (img : Image) (out : List FileAnnot) (h : report cfg img = .ok out)
    (fa : FileAnnot) :
    fa ∈ out ↔ ∃ a ∈ img.annots, a.ruleId ∈ cfg.rules.ruleIDs ∧ ¬ AnnotSuppressed cfg img a ∧ toFileAnnot img a = fa := by
  rw [report_mem_iff cfg img out h fa]
  constructor
  · rintro ⟨a, ⟨h1, h2, h3⟩, h4⟩; exact ⟨a, h1, h2, h3, h4⟩
  · rintro ⟨a, h1, h2, h3, h4⟩; exact ⟨a, ⟨h1, h2, h3⟩, h4⟩

/-- Adding suppression to the RESOLVED configuration — fewer selected rules, more ignore paths,
    more ignore_only entries, allow_comment_ignores / ignore_unstable_packages / exclude-imports
    switched on — and/or more directives in comments that leave every POSITION unchanged
    (`MoreCommentsImg` demands `img'.annots = img.annots`: a directive appended to an existing
    comment line, or `img' = img`) never adds an annotation: everything reported afterwards was
    reported before (same path, positions, rule, message: `out' ⊆ out`).
    What the user edits resolves to `MoreSuppression`: `user_suppression_resolves_to_more`; the
    end-to-end forms over `runCheck` are `user_suppression_monotone` and `adding_*_monotone`.
    Comment edits that insert lines (and so shift positions) are covered by
    `suppression_monotone_elements`, stated over element identity instead of positions. -/
theorem suppression_monotone (cfg cfg' : Config) (img img' : Image) (out out' : List FileAnnot)
    (hc : MoreSuppression cfg cfg') (hi : MoreCommentsImg img img')
    (h : report cfg img = .ok out) (h' : report cfg' img' = .ok out') :
    ∀ fa ∈ out', fa ∈ out := by
  intro fa hfa
  rcases (report_mem_iff cfg' img' out' h' fa).1 hfa with ⟨a, ⟨h1, h2, h3⟩, h4⟩
  have hk : Kept cfg img a := by
    refine ⟨by rw [← hi.annots]; exact h1, hc.rules _ h2, ?_⟩
    intro hs; exact h3 (hs.mono hc hi)
  exact (report_mem_iff cfg img out h fa).2 ⟨a, hk, by rw [← h4, toFileAnnot_moreComments hi]⟩

/-- A suppression removes only what is in its scope: if an annotation is kept under `cfg` and
    no longer under `cfg'` (same image), then either its rule was de-selected, or at its file
    location / against-file location a suppression clause applies that holds under `cfg'` but
    not under `cfg` — a NEW ignore path that equals-or-contains that file's path, a NEW
    ignore_only entry for exactly this rule whose path does, the import / unstable option newly
    switched on for an import / unstable file, or comment ignores newly in force with a
    directive naming this rule on an enclosing element. -/
theorem suppression_scoped (cfg cfg' : Config) (img : Image) (a : Annot)
    (hk : Kept cfg img a) (hk' : ¬ Kept cfg' img a) :
    a.ruleId ∉ cfg'.rules.ruleIDs ∨
    (∃ x, a.loc = some x ∧ NewlySuppressed cfg cfg' a.ruleId (fileAt img.files x.file) x.sourcePath) ∨
    (∃ x, a.against = some x ∧ NewlySuppressed cfg cfg' a.ruleId (fileAt img.againstFiles x.file) x.sourcePath) := by
  by_cases hr : a.ruleId ∈ cfg'.rules.ruleIDs
  · right
    have hs' : AnnotSuppressed cfg' img a := by
      apply Classical.byContradiction
      intro hn; exact hk' ⟨hk.1, hr, hn⟩
    have hn : ¬ AnnotSuppressed cfg img a := hk.2.2
    rcases hs' with ⟨x, hx, hs⟩ | ⟨x, hx, hs⟩
    · left; exact ⟨x, hx, newlySuppressed_of hs (fun h => hn (Or.inl ⟨x, hx, h⟩))⟩
    · right; exact ⟨x, hx, newlySuppressed_of hs (fun h => hn (Or.inr ⟨x, hx, h⟩))⟩
  · left; exact hr

/-! ## the functions the driver runs (`resolve`, `configuredRules`, `runCheck`) are `newRulesConfig` / `report` -/

/-- `resolve` — what `Driver/C06.lean` evaluates on every `rules` / `check` line — is
    `newRulesConfig`, applied to the user's configuration directly (`validated = false`) or after
    `bufconfig.NewEnabledCheckConfig` (`validated = true`), over the rule table of the config
    version (EMPTY when the builtin rules are disabled: then every configuration, including one
    with unknown ids, resolves to the empty selection — `resolved_config_spec`). -/
theorem resolve_is_newRulesConfig (allRules : List RuleRow) (lint validated : Bool) (c : CheckConfig) :
    resolve allRules lint validated c =
      if validated then
        (newEnabledCheckConfig c).bind (newRulesConfig (if c.disableBuiltin then [] else allRules) lint)
      else newRulesConfig (if c.disableBuiltin then [] else allRules) lint c := by
  unfold resolve
  cases validated with
  | false => simp
  | true =>
    simp only [if_true]
    cases newEnabledCheckConfig c <;> rfl

/-- `runCheck` (driver, `check` lines) is `report` on the resolved configuration. -/
theorem runCheck_is_report (allRules : List RuleRow) (lint validated : Bool) (c : CheckConfig)
    (aci iup exi : Bool) (img : Image) :
    runCheck allRules lint validated c aci iup exi img =
      (resolve allRules lint validated c).bind (fun rc => report (mkConfig lint rc aci iup exi) img) := by
  unfold runCheck
  cases resolve allRules lint validated c <;> rfl

/-- `configuredRules` (driver, `rules` lines) is `configuredRuleIds` of the resolved selection. -/
theorem configuredRules_is_configuredRuleIds (allRules : List RuleRow) (lint validated : Bool) (c : CheckConfig) :
    configuredRules allRules lint validated c =
      (resolve allRules lint validated c).bind
        (fun rc => .ok (configuredRuleIds (if c.disableBuiltin then [] else allRules) rc.ruleIDs)) := by
  unfold configuredRules
  cases resolve allRules lint validated c <;> rfl

/-- What the driver's `resolve` returns, in terms of the lists THE USER wrote (through
    `NewEnabledCheckConfig`'s dedupe / sort / path normalisation when `validated`, and
    `newRulesConfig`'s category expansion, deprecation replacement and path normalisation):
    with an empty rule table (no rule of the type, or builtin rules disabled) the empty
    configuration; otherwise
      * the selected ids are `(⋃ denote use) \ (⋃ denote except)`,
      * the resolved ignore paths are the normal forms of the non-empty `ignore` entries,
      * rule `r` is ignored under `p` iff some `ignore_only` key DENOTING `r` — the rule id, a
        category carrying the rule, a deprecated id whose replacement it is — lists a non-empty
        path with normal form `p`. -/
theorem resolved_config_spec (allRules : List RuleRow) (lint validated : Bool) (c : CheckConfig) (rc : RulesConfig)
    (h : resolve allRules lint validated c = .ok rc) :
    (tableOf allRules lint c = [] → rc = { ruleIDs := [], ignoreRootPaths := [], ignoreOnly := [] }) ∧
    (tableOf allRules lint c ≠ [] →
      (∀ x, x ∈ rc.ruleIDs ↔
        (∃ u ∈ effectiveUse (tableOf allRules lint c) c.use, x ∈ denote (tableOf allRules lint c) u) ∧
        ¬ (∃ e ∈ c.except, blankId e = false ∧ x ∈ denote (tableOf allRules lint c) e)) ∧
      (∀ p, p ∈ rc.ignoreRootPaths ↔ ∃ q ∈ c.ignore, q ≠ [] ∧ normalizeAndValidate q = .ok p) ∧
      (∀ r p, (r, p) ∈ rc.ignoreOnly ↔
        ∃ k ps q, (k, ps) ∈ c.ignoreOnly ∧ q ∈ ps ∧ q ≠ [] ∧ r ∈ denote (tableOf allRules lint c) k ∧
          normalizeAndValidate q = .ok p)) := by
  have hs := resolve_spec allRules lint validated c rc h
  refine ⟨hs.1, fun hrs => ?_⟩
  have S := hs.2 hrs
  refine ⟨S.sel, S.ignore, fun r p => ?_⟩
  rw [S.ignoreOnly r p]
  constructor
  · rintro ⟨k, q, ⟨ps, hm, hq⟩, hne, hd, hn⟩; exact ⟨k, ps, q, hm, hq, hne, hd, hn⟩
  · rintro ⟨k, ps, q, hm, hq, hne, hd, hn⟩; exact ⟨k, q, ⟨ps, hm, hq⟩, hne, hd, hn⟩

/-- `suppressed_iff`'s two path clauses in the USER's terms: under the resolved configuration a
    file is covered by an ignore path iff some non-empty `ignore` entry the user wrote
    normalises to a path that equals-or-contains the file's path; it is covered for rule `r`
    through `ignore_only` iff some key denoting `r` lists such an entry. -/
theorem ignore_clauses_user_level (allRules : List RuleRow) (lint validated : Bool) (c : CheckConfig) (rc : RulesConfig)
    (h : resolve allRules lint validated c = .ok rc) (hrs : tableOf allRules lint c ≠ [])
    (aci iup exi : Bool) (r : Id) (f : FileInfo) :
    (IgnorePathClause (mkConfig lint rc aci iup exi) f ↔
      ∃ q ∈ c.ignore, q ≠ [] ∧ ∃ p, normalizeAndValidate q = .ok p ∧ equalsOrContainsPath p f.path = true) ∧
    (IgnoreOnlyClause (mkConfig lint rc aci iup exi) r f ↔
      ∃ k ps q, (k, ps) ∈ c.ignoreOnly ∧ q ∈ ps ∧ q ≠ [] ∧ r ∈ denote (tableOf allRules lint c) k ∧
        ∃ p, normalizeAndValidate q = .ok p ∧ equalsOrContainsPath p f.path = true) := by
  have S := (resolve_spec allRules lint validated c rc h).2 hrs
  unfold IgnorePathClause IgnoreOnlyClause
  rw [mkConfig_rules]
  constructor
  · constructor
    · rintro ⟨p, hp, he⟩
      rcases (S.ignore p).1 hp with ⟨q, hq, hne, hn⟩
      exact ⟨q, hq, hne, p, hn, he⟩
    · rintro ⟨q, hq, hne, p, hn, he⟩
      exact ⟨p, (S.ignore p).2 ⟨q, hq, hne, hn⟩, he⟩
  · constructor
    · rintro ⟨p, hp, he⟩
      rcases (S.ignoreOnly r p).1 hp with ⟨k, q, ⟨ps, hm, hq⟩, hne, hd, hn⟩
      exact ⟨k, ps, q, hm, hq, hne, hd, p, hn, he⟩
    · rintro ⟨k, ps, q, hm, hq, hne, hd, p, hn, he⟩
      exact ⟨p, (S.ignoreOnly r p).2 ⟨k, q, ⟨ps, hm, hq⟩, hne, hd, hn⟩, he⟩

/-- `report_is_union_exact`, end to end over what the driver runs: `runCheck` reports exactly
    the file annotations of the annotations of selected rules that are not suppressed under the
    resolved configuration. -/
theorem runCheck_is_union (allRules : List RuleRow) (lint validated : Bool) (c : CheckConfig)
    (aci iup exi : Bool) (img : Image) (out : List FileAnnot)
    (h : runCheck allRules lint validated c aci iup exi img = .ok out) :
    ∃ rc, resolve allRules lint validated c = .ok rc ∧
      ∀ fa, fa ∈ out ↔ ∃ a, Kept (mkConfig lint rc aci iup exi) img a ∧ toFileAnnot img a = fa := by
  rcases (runCheck_ok_iff _ _ _ _ _ _ _ _ _).1 h with ⟨rc, hr, hrep⟩
  exact ⟨rc, hr, report_mem_iff _ _ _ hrep⟩

/-! ## suppression added at the level the user edits -/

/-- Adding `except` ids, `ignore` paths, `ignore_only` (key, path) entries to the check
    configuration the user writes (`UserMoreSuppression`: as sets — any position, any number,
    duplicates allowed) yields, for every pair of accepted configurations and through all the
    normalisations of both constructors, `MoreSuppression` on the resolved configurations.
    Options may be switched on at the same time. -/
theorem user_suppression_resolves_to_more (allRules : List RuleRow) (lint validated : Bool) (c c' : CheckConfig)
    (rc rc' : RulesConfig) (hu : UserMoreSuppression c c')
    (h : resolve allRules lint validated c = .ok rc) (h' : resolve allRules lint validated c' = .ok rc')
    (aci iup exi aci' iup' exi' : Bool)
    (ha : aci = true → aci' = true) (hi : iup = true → iup' = true) (he : exi = true → exi' = true) :
    MoreSuppression (mkConfig lint rc aci iup exi) (mkConfig lint rc' aci' iup' exi') :=
  resolve_moreSuppression allRules lint validated c c' rc rc' hu h h' aci iup exi aci' iup' exi' ha hi he

/-- End to end (`runCheck`, same image): after the user added suppression entries and/or
    switched options on, nothing is reported that was not reported before. -/
theorem user_suppression_monotone (allRules : List RuleRow) (lint validated : Bool) (c c' : CheckConfig)
    (aci iup exi aci' iup' exi' : Bool) (img : Image) (out out' : List FileAnnot)
    (hu : UserMoreSuppression c c')
    (ha : aci = true → aci' = true) (hi : iup = true → iup' = true) (he : exi = true → exi' = true)
    (h : runCheck allRules lint validated c aci iup exi img = .ok out)
    (h' : runCheck allRules lint validated c' aci' iup' exi' img = .ok out') :
    ∀ fa ∈ out', fa ∈ out := by
  rcases (runCheck_ok_iff _ _ _ _ _ _ _ _ _).1 h with ⟨rc, hr, hrep⟩
  rcases (runCheck_ok_iff _ _ _ _ _ _ _ _ _).1 h' with ⟨rc', hr', hrep'⟩
  exact suppression_monotone _ _ img img out out'
    (resolve_moreSuppression _ _ _ _ _ _ _ hu hr hr' _ _ _ _ _ _ ha hi he) (MoreCommentsImg.refl img) hrep hrep'

/-- End to end (`runCheck`, same image, same options): an annotation that was reported and is
    no longer reported afterwards is in the scope of something the user ADDED — a new `except` id
    that denotes its rule, a new `ignore` path whose normal form covers (component-wise) its
    file or against-file, or a new `ignore_only` entry whose key denotes its rule and whose
    path's normal form covers its file or against-file (`UserScope`). -/
theorem user_suppression_scoped (allRules : List RuleRow) (lint validated : Bool) (c c' : CheckConfig)
    (aci iup exi : Bool) (img : Image) (out out' : List FileAnnot) (hu : UserMoreSuppression c c')
    (h : runCheck allRules lint validated c aci iup exi img = .ok out)
    (h' : runCheck allRules lint validated c' aci iup exi img = .ok out')
    (fb : FileAnnot) (hfb : fb ∈ out) (hgone : fb ∉ out') :
    ∃ a ∈ img.annots, toFileAnnot img a = fb ∧ UserScope (tableOf allRules lint c) c c' img a := by
  rcases (runCheck_ok_iff _ _ _ _ _ _ _ _ _).1 h with ⟨rc, hr, hrep⟩
  rcases (runCheck_ok_iff _ _ _ _ _ _ _ _ _).1 h' with ⟨rc', hr', hrep'⟩
  rcases (report_mem_iff _ _ _ hrep fb).1 hfb with ⟨a, hk, hfa⟩
  refine ⟨a, hk.1, hfa, user_scoped _ _ _ _ _ _ _ hu hr hr' _ _ _ _ _ hk ?_⟩
  intro hk'
  exact hgone ((report_mem_iff _ _ _ hrep' fb).2 ⟨a, hk', hfa⟩)

/-- Adding an `ignore` path to the configuration never adds an annotation. -/
theorem adding_ignore_monotone (allRules : List RuleRow) (lint validated : Bool) (c : CheckConfig) (q : Str)
    (aci iup exi : Bool) (img : Image) (out out' : List FileAnnot)
    (h : runCheck allRules lint validated c aci iup exi img = .ok out)
    (h' : runCheck allRules lint validated (addIgnore c q) aci iup exi img = .ok out') :
    ∀ fa ∈ out', fa ∈ out :=
  user_suppression_monotone _ _ _ _ _ _ _ _ _ _ _ _ _ _ (addIgnore_more c q) id id id h h'

/-- Adding an `ignore_only` entry (path `q` under rule / category / deprecated id `k`) never adds
    an annotation. -/
theorem adding_ignore_only_monotone (allRules : List RuleRow) (lint validated : Bool) (c : CheckConfig)
    (k : Id) (q : Str) (aci iup exi : Bool) (img : Image) (out out' : List FileAnnot)
    (h : runCheck allRules lint validated c aci iup exi img = .ok out)
    (h' : runCheck allRules lint validated (addIgnoreOnly c k q) aci iup exi img = .ok out') :
    ∀ fa ∈ out', fa ∈ out :=
  user_suppression_monotone _ _ _ _ _ _ _ _ _ _ _ _ _ _ (addIgnoreOnly_more c k q) id id id h h'

/-- Adding an `except` id never adds an annotation. -/
theorem adding_except_monotone (allRules : List RuleRow) (lint validated : Bool) (c : CheckConfig) (e : Id)
    (aci iup exi : Bool) (img : Image) (out out' : List FileAnnot)
    (h : runCheck allRules lint validated c aci iup exi img = .ok out)
    (h' : runCheck allRules lint validated (addExcept c e) aci iup exi img = .ok out') :
    ∀ fa ∈ out', fa ∈ out :=
  user_suppression_monotone _ _ _ _ _ _ _ _ _ _ _ _ _ _ (addExcept_more c e) id id id h h'

/-- Adding the `ignore` path `q` removes only annotations whose file or against-file lies at or
    under the normal form of `q` (component-wise). -/
theorem adding_ignore_scoped (allRules : List RuleRow) (lint validated : Bool) (c : CheckConfig) (q : Str)
    (aci iup exi : Bool) (img : Image) (out out' : List FileAnnot)
    (h : runCheck allRules lint validated c aci iup exi img = .ok out)
    (h' : runCheck allRules lint validated (addIgnore c q) aci iup exi img = .ok out')
    (fb : FileAnnot) (hfb : fb ∈ out) (hgone : fb ∉ out') :
    ∃ a ∈ img.annots, toFileAnnot img a = fb ∧
      ∃ p, normalizeAndValidate q = .ok p ∧ PathCovers img a p := by
  rcases user_suppression_scoped _ _ _ _ _ _ _ _ _ _ _ (addIgnore_more c q) h h' fb hfb hgone with ⟨a, ha, hfa, hsc⟩
  refine ⟨a, ha, hfa, ?_⟩
  rcases hsc with ⟨e, he, hne, _⟩ | ⟨q', hq', hnq', p, hn, hcov⟩ | ⟨k, q', hio, hnio, _⟩
  · exact absurd he hne
  · rcases List.mem_cons.1 hq' with hq' | hq'
    · subst hq'; exact ⟨p, hn, hcov⟩
    · exact absurd hq' hnq'
  · exact absurd hio hnio

/-- Adding the `ignore_only` entry (`k`, `q`) removes only annotations of rules that `k` denotes
    and whose file or against-file lies at or under the normal form of `q`. -/
theorem adding_ignore_only_scoped (allRules : List RuleRow) (lint validated : Bool) (c : CheckConfig)
    (k : Id) (q : Str) (aci iup exi : Bool) (img : Image) (out out' : List FileAnnot)
    (h : runCheck allRules lint validated c aci iup exi img = .ok out)
    (h' : runCheck allRules lint validated (addIgnoreOnly c k q) aci iup exi img = .ok out')
    (fb : FileAnnot) (hfb : fb ∈ out) (hgone : fb ∉ out') :
    ∃ a ∈ img.annots, toFileAnnot img a = fb ∧ a.ruleId ∈ denote (tableOf allRules lint c) k ∧
      ∃ p, normalizeAndValidate q = .ok p ∧ PathCovers img a p := by
  rcases user_suppression_scoped _ _ _ _ _ _ _ _ _ _ _ (addIgnoreOnly_more c k q) h h' fb hfb hgone with ⟨a, ha, hfa, hsc⟩
  refine ⟨a, ha, hfa, ?_⟩
  rcases hsc with ⟨e, he, hne, _⟩ | ⟨q', hq', hnq', _⟩ | ⟨k', q', hio, hnio, hd, p, hn, hcov⟩
  · exact absurd he hne
  · exact absurd hq' hnq'
  · rcases (ioHas_ioInsert c.ignoreOnly k q k' q').1 hio with hio | ⟨hk, hq⟩
    · exact absurd hio hnio
    · subst hk; subst hq; exact ⟨hd, p, hn, hcov⟩

/-- Adding the `except` id `e` removes only annotations of rules that `e` denotes (the rule
    itself, the rules of the category, the replacements of the deprecated id). -/
theorem adding_except_scoped (allRules : List RuleRow) (lint validated : Bool) (c : CheckConfig) (e : Id)
    (aci iup exi : Bool) (img : Image) (out out' : List FileAnnot)
    (h : runCheck allRules lint validated c aci iup exi img = .ok out)
    (h' : runCheck allRules lint validated (addExcept c e) aci iup exi img = .ok out')
    (fb : FileAnnot) (hfb : fb ∈ out) (hgone : fb ∉ out') :
    ∃ a ∈ img.annots, toFileAnnot img a = fb ∧ a.ruleId ∈ denote (tableOf allRules lint c) e := by
  rcases user_suppression_scoped _ _ _ _ _ _ _ _ _ _ _ (addExcept_more c e) h h' fb hfb hgone with ⟨a, ha, hfa, hsc⟩
  refine ⟨a, ha, hfa, ?_⟩
  rcases hsc with ⟨e', he', hne', _, hd⟩ | ⟨q', hq', hnq', _⟩ | ⟨k', q', hio, hnio, _⟩
  · rcases List.mem_cons.1 he' with he' | he'
    · subst he'; exact hd
    · exact absurd he' hne'
  · exact absurd hq' hnq'
  · exact absurd hio hnio

/-! ## comment edits, over element identity (positions may shift) -/

/-- More suppression in the configuration and/or a comment-only edit of the sources
    (`MoreCommentsSrc`: more `buf:lint:ignore` directives per ELEMENT; the edited image's
    single-rule annotations are annotations of the original image on the same element — file and
    source path — with the same rule and message, at ARBITRARY new positions) never adds an
    annotation: whatever is reported afterwards is the report of an annotation `a'` whose
    counterpart `a` on the same element was kept and reported before, and both reports agree on
    file path, rule id and message (only line / column numbers may differ). -/
theorem suppression_monotone_elements (cfg cfg' : Config) (img img' : Image) (out out' : List FileAnnot)
    (hc : MoreSuppression cfg cfg') (hi : MoreCommentsSrc img img')
    (h : report cfg img = .ok out) (h' : report cfg' img' = .ok out') :
    ∀ fa' ∈ out', ∃ a' ∈ img'.annots, toFileAnnot img' a' = fa' ∧
      ∃ a, SameElement a a' ∧ Kept cfg img a ∧
        toFileAnnot img a ∈ out ∧ faElem (toFileAnnot img a) = faElem fa' := by
  intro fa' hfa'
  rcases (report_spec cfg' img' out' h').2.1 fa' hfa' with ⟨a', hk', hfa⟩
  rcases kept_mono_elem hc hi hk' with ⟨a, hs, hk⟩
  refine ⟨a', hk'.1, hfa, a, hs, hk, (report_mem_iff cfg img out h _).2 ⟨a, hk, rfl⟩, ?_⟩
  rw [← hfa]
  exact (faElem_sameElement (fun i => (hi.files i).path) hs).symm

/-- A comment edit removes only what a NEW directive covers: if the annotation `a` was kept and
    its counterpart `a'` on the same element is no longer kept after a comment-only edit (same
    configuration), then comment ignores are allowed and — at the file location or the
    against-file location — a directive for this rule is present after the edit and was absent
    before, on an element whose source path is a PREFIX of the annotation's source path (the
    annotated element itself or a declaration enclosing it). -/
theorem adding_comment_scoped (cfg : Config) (img img' : Image) (a a' : Annot)
    (hi : MoreCommentsSrc img img') (hs : SameElement a a') (ha' : a' ∈ img'.annots)
    (hk : Kept cfg img a) (hk' : ¬ Kept cfg img' a') :
    cfg.allowCommentIgnores = true ∧
    ((∃ x', a'.loc = some x' ∧ ∃ p, p <+: x'.sourcePath ∧
        commentIgnoresAt (fileAt img'.files x'.file) cfg.commentIgnorePrefix a'.ruleId p = true ∧
        commentIgnoresAt (fileAt img.files x'.file) cfg.commentIgnorePrefix a'.ruleId p = false) ∨
     (∃ x', a'.against = some x' ∧ ∃ p, p <+: x'.sourcePath ∧
        commentIgnoresAt (fileAt img'.againstFiles x'.file) cfg.commentIgnorePrefix a'.ruleId p = true ∧
        commentIgnoresAt (fileAt img.againstFiles x'.file) cfg.commentIgnorePrefix a'.ruleId p = false)) := by
  rcases hk with ⟨_, hk2, hk3⟩
  have hsup' : AnnotSuppressed cfg img' a' := by
    apply Classical.byContradiction
    intro hn; exact hk' ⟨ha', by rw [hs.ruleId]; exact hk2, hn⟩
  -- the same analysis at either location
  have key : ∀ (fs fs' : List FileInfo) (hf : ∀ i, MoreComments (fileAt fs i) (fileAt fs' i))
      (l l' : Option Loc) (hl : locElem l' = locElem l) (x' : Loc) (hx' : l' = some x')
      (hsx : Suppressed cfg a'.ruleId (fileAt fs' x'.file) x'.sourcePath)
      (hnx : ¬ LocSuppressed cfg fs a.ruleId l),
      cfg.allowCommentIgnores = true ∧ ∃ p, p <+: x'.sourcePath ∧
        commentIgnoresAt (fileAt fs' x'.file) cfg.commentIgnorePrefix a'.ruleId p = true ∧
        commentIgnoresAt (fileAt fs x'.file) cfg.commentIgnorePrefix a'.ruleId p = false := by
    intro fs fs' hf l l' hl x' hx' hsx hnx
    rcases locElem_some hl.symm hx' with ⟨x, hx, h1, h2⟩
    have hn : ¬ Suppressed cfg a'.ruleId (fileAt fs x'.file) x'.sourcePath := by
      intro hh; apply hnx
      refine ⟨x, hx, ?_⟩
      rw [h1, h2, ← hs.ruleId]; exact hh
    have hm := hf x'.file
    rcases hsx with hc | hc | hc | hc | hc
    · exact absurd (Or.inl ⟨hc.1, by rw [← hm.isImport]; exact hc.2⟩) hn
    · rcases hc with ⟨p, hp, he⟩
      exact absurd (Or.inr (Or.inl ⟨p, hp, by rw [← hm.path]; exact he⟩)) hn
    · rcases hc with ⟨p, hp, he⟩
      exact absurd (Or.inr (Or.inr (Or.inl ⟨p, hp, by rw [← hm.path]; exact he⟩))) hn
    · exact absurd (Or.inr (Or.inr (Or.inr (Or.inl ⟨hc.1, by rw [← hm.unstable]; exact hc.2⟩)))) hn
    · rcases hc with ⟨c1, c2, c3, ps, hps, p, hp, hd⟩
      refine ⟨c1, p, associated_are_prefixes _ _ hps p hp, hd, ?_⟩
      cases hb : commentIgnoresAt (fileAt fs x'.file) cfg.commentIgnorePrefix a'.ruleId p with
      | false => rfl
      | true => exact absurd (Or.inr (Or.inr (Or.inr (Or.inr ⟨c1, c2, c3, ps, hps, p, hp, hb⟩)))) hn
  rcases hsup' with ⟨x', hx', hsx⟩ | ⟨x', hx', hsx⟩
  · rcases key img.files img'.files hi.files a.loc a'.loc hs.loc x' hx' hsx (fun hh => hk3 (Or.inl hh)) with ⟨c1, p, hp⟩
    exact ⟨c1, Or.inl ⟨x', hx', p, hp⟩⟩
  · rcases key img.againstFiles img'.againstFiles hi.againstFiles a.against a'.against hs.against x' hx' hsx
      (fun hh => hk3 (Or.inr hh)) with ⟨c1, p, hp⟩
    exact ⟨c1, Or.inr ⟨x', hx', p, hp⟩⟩

/-- "On an enclosing element", independently of the DFA's tables: every source path at which
    `ignoreFileLocation` looks for a directive is a prefix of the annotation's source path. -/
theorem comment_directives_reach_enclosing_only (sp : SPath) (ps : List SPath)
    (h : associatedSourcePaths sp = .ok ps) : ∀ p ∈ ps, p <+: sp :=
  associated_are_prefixes sp ps h

/-! ## imports -/

/-- Breaking with exclude-imports (and any configuration with `excludeImports`): nothing is
    reported whose file or against-file is an import. -/
theorem imports_never_reported (cfg : Config) (img : Image) (out : List FileAnnot)
    (h : report cfg img = .ok out) (hx : cfg.excludeImports = true) :
    ∀ fa ∈ out, ∃ a ∈ img.annots, toFileAnnot img a = fa ∧
      (∀ l, a.loc = some l → (fileAt img.files l.file).isImport = false) ∧
      (∀ l, a.against = some l → (fileAt img.againstFiles l.file).isImport = false) := by
  intro fa hfa
  rcases (report_spec cfg img out h).2.1 fa hfa with ⟨a, ⟨h1, _, h3⟩, h4⟩
  refine ⟨a, h1, h4, ?_, ?_⟩
  · intro l hl
    cases hi : (fileAt img.files l.file).isImport with
    | false => rfl
    | true => exact absurd (Or.inl ⟨l, hl, Or.inl ⟨hx, hi⟩⟩) h3
  · intro l hl
    cases hi : (fileAt img.againstFiles l.file).isImport with
    | false => rfl
    | true => exact absurd (Or.inr ⟨l, hl, Or.inl ⟨hx, hi⟩⟩) h3

/-- Lint never sets exclude-imports (`mkConfig true`): import files are skipped by the lint rule
    handlers themselves, which are a parameter here.  Under that (oracle-checked) assumption on
    the single-rule annotation sets, no configuration reports an import file. -/
theorem imports_never_reported_lint (cfg : Config) (img : Image) (out : List FileAnnot)
    (h : report cfg img = .ok out)
    (hh : ∀ a ∈ img.annots, ∀ l, a.loc = some l → (fileAt img.files l.file).isImport = false) :
    ∀ fa ∈ out, ∃ a ∈ img.annots, toFileAnnot img a = fa ∧
      ∀ l, a.loc = some l → (fileAt img.files l.file).isImport = false := by
  intro fa hfa
  rcases (report_spec cfg img out h).2.1 fa hfa with ⟨a, ⟨h1, _, _⟩, h4⟩
  exact ⟨a, h1, h4, hh a h1⟩

/-- `ignore` / `ignore_only` matching is component-wise, not string-prefix: "a/v" does not
    cover "a/v1/a.proto", "a/v1" does. -/
theorem ignore_is_pathwise_counterexample :
    mapHasEqualOrContainingPath ["a/v".toList] "a/v1/a.proto".toList = false ∧
    mapHasEqualOrContainingPath ["a/v1".toList] "a/v1/a.proto".toList = true := by decide

/-! ## non-vacuity -/

-- selection on the real v2 table: a category, a deprecated id, an except, blanks and duplicates
example : (newRulesConfig (rulesOf .v2) true
    { use := ["MINIMAL", "ENUM_PASCAL_CASE", "", "MINIMAL"], except := ["PACKAGE_DEFINED", " "], ignore := [],
      ignoreOnly := [], disableBuiltin := false }).map (·.ruleIDs)
    = .ok ["DIRECTORY_SAME_PACKAGE", "ENUM_PASCAL_CASE", "PACKAGE_DIRECTORY_MATCH", "PACKAGE_NO_IMPORT_CYCLE", "PACKAGE_SAME_DIRECTORY"] := by decide
example : rulesForType (rulesOf .v2) true ≠ [] := by decide
-- a deprecated breaking id behaves as its replacements
example : (newRulesConfig (rulesOf .v1) false
    { use := ["FIELD_SAME_CTYPE"], except := [], ignore := [], ignoreOnly := [], disableBuiltin := false }).map (·.ruleIDs)
    = .ok ["FIELD_SAME_CPP_STRING_TYPE"] := by decide
example : replacementsOf (rulesForType (rulesOf .v1) false) "FIELD_SAME_CTYPE" = some ["FIELD_SAME_CPP_STRING_TYPE"] := by decide
-- unknown ids, ids of the other type, categories of the other type are rejected
example : Unknown (lintRules .v2) "NOPE" ∧ Unknown (lintRules .v2) "FILE_NO_DELETE" ∧ Unknown (lintRules .v2) "WIRE" := by decide
example : newRulesConfig (rulesOf .v2) true
    { use := ["NOPE"], except := [], ignore := [], ignoreOnly := [], disableBuiltin := false } = .error .unknownId := by decide
-- an empty selection (except removes everything use selects) is a valid configuration …
example : (newRulesConfig (rulesOf .v2) true
    { use := ["BASIC"], except := ["BASIC"], ignore := [], ignoreOnly := [], disableBuiltin := false }).map (·.ruleIDs) = .ok [] := by decide
/-- … but before the `fix:` it was rejected with the system error "resultRules was empty"
    (also for `use: [IMPORT_NO_WEAK]`, a deprecated rule without replacement): the selection is
    `(⋃ denote use) \ (⋃ denote except) = ∅`, which must report nothing, not fail. -/
theorem empty_selection_old_counterexample :
    newRulesConfigOld (rulesOf .v2) true
      { use := ["BASIC"], except := ["BASIC"], ignore := [], ignoreOnly := [], disableBuiltin := false } = .error .emptyResult ∧
    newRulesConfigOld (rulesOf .v2) true
      { use := ["IMPORT_NO_WEAK"], except := [], ignore := [], ignoreOnly := [], disableBuiltin := false } = .error .emptyResult := by decide

/-- A one-file image with two planted annotations, the second under a message whose leading
    comment carries a directive. -/
def exImg : Image :=
  { files := [{ path := "a/v1/a.proto".toList, isImport := false, unstable := false,
                comments := [([4, 0], " buf:lint:ignore FIELD_LOWER_SNAKE_CASE\n".toList)] },
              { path := "dep/dep.proto".toList, isImport := true, unstable := false, comments := [] }],
    againstFiles := [],
    annots := [{ ruleId := "MESSAGE_PASCAL_CASE", loc := some ⟨0, [4, 0, 1], 3, 8, 3, 19⟩, against := none, message := "m" },
               { ruleId := "FIELD_LOWER_SNAKE_CASE", loc := some ⟨0, [4, 0, 2, 0, 1], 4, 9, 4, 17⟩, against := none, message := "f" },
               { ruleId := "FIELD_NO_DELETE", loc := some ⟨1, [4, 0], 2, 1, 2, 5⟩, against := none, message := "d" }] }

def exCfg (aci : Bool) (ignore : List Str) (exi : Bool) : Config :=
  { rules := { ruleIDs := ["FIELD_LOWER_SNAKE_CASE", "FIELD_NO_DELETE", "MESSAGE_PASCAL_CASE"], ignoreRootPaths := ignore, ignoreOnly := [] },
    allowCommentIgnores := aci, ignoreUnstablePackages := false,
    commentIgnorePrefix := lintCommentIgnorePrefix, excludeImports := exi }

example : (report (exCfg false [] false) exImg).map (·.map (·.type)) = .ok ["MESSAGE_PASCAL_CASE", "FIELD_LOWER_SNAKE_CASE", "FIELD_NO_DELETE"] := by decide
-- the directive on the enclosing message suppresses the field annotation only
example : (report (exCfg true [] false) exImg).map (·.map (·.type)) = .ok ["MESSAGE_PASCAL_CASE", "FIELD_NO_DELETE"] := by decide
-- an ignore directory suppresses everything under it, exclude-imports the import file
example : (report (exCfg false ["a".toList] true) exImg).map (·.map (·.type)) = .ok [] := by decide
example : MoreSuppression (exCfg false [] false) (exCfg true ["a".toList] true) :=
  ⟨fun _ h => h, fun _ h => (by cases h), fun _ h => h, fun h => (by cases h), fun h => h, fun h => (by cases h), rfl⟩
example : associatedSourcePaths [4, 0, 2, 0, 1] = .ok [[4, 0], [4, 0, 2, 0]] := by decide
example : associatedSourcePaths [4, 0, 3, 1, 4, 0, 2, 2, 3] = .ok [[4, 0], [4, 0, 3, 1], [4, 0, 3, 1, 4, 0], [4, 0, 3, 1, 4, 0, 2, 2], [4, 0, 3, 1, 4, 0, 2, 2, 3]] := by decide

/-! ### non-vacuity of the user-level theorems (through the functions the driver runs)

  `exImg2` (lint annotations in two directories), `exImg2c` (the same sources after a directive
  line was INSERTED above message 0 of a/v1/a.proto: every position below moved down one line,
  source paths unchanged), `exC` and `exImg2_moreComments : MoreCommentsSrc exImg2 exImg2c` are
  in Lemmas/RulesResolveLemmas.lean. -/

def faM (l : Nat) : FileAnnot := ⟨some "a/v1/a.proto".toList, l, 9, l, 20, "MESSAGE_PASCAL_CASE", "m"⟩
def faF : FileAnnot := ⟨some "a/v1/a.proto".toList, 5, 10, 5, 18, "FIELD_LOWER_SNAKE_CASE", "f"⟩
def faE : FileAnnot := ⟨some "b/b.proto".toList, 3, 6, 3, 10, "ENUM_PASCAL_CASE", "e"⟩

-- before: all three are reported (hypothesis `h` of the user-level theorems)
example : runCheck (rulesOf .v2) true true exC false false false exImg2 = .ok [faM 4, faF, faE] := by decide
-- an UNNORMALISED ignore path is accepted and silences exactly the directory it normalises to
example : runCheck (rulesOf .v2) true true (addIgnore exC "./a//v1/".toList) false false false exImg2 = .ok [faE] := by decide
example : ∀ fa ∈ [faE], fa ∈ [faM 4, faF, faE] :=
  adding_ignore_monotone (rulesOf .v2) true true exC "./a//v1/".toList false false false exImg2 _ _ (by decide) (by decide)
example : ∃ a ∈ exImg2.annots, toFileAnnot exImg2 a = faF ∧
    ∃ p, normalizeAndValidate "./a//v1/".toList = .ok p ∧ PathCovers exImg2 a p :=
  adding_ignore_scoped (rulesOf .v2) true true exC "./a//v1/".toList false false false exImg2 [faM 4, faF, faE] [faE]
    (by decide) (by decide) faF (by decide) (by decide)
example : normalizeAndValidate "./a//v1/".toList = .ok "a/v1".toList := by decide
-- an ignore_only entry under a CATEGORY key, added to a map that already has another key
example : runCheck (rulesOf .v2) true true (addIgnoreOnly exC "BASIC" "b".toList) false false false exImg2
    = .ok [faM 4, faF] := by decide
example : ∀ fa ∈ [faM 4, faF], fa ∈ [faM 4, faF, faE] :=
  adding_ignore_only_monotone (rulesOf .v2) true true exC "BASIC" "b".toList false false false exImg2 _ _ (by decide) (by decide)
example : ∃ a ∈ exImg2.annots, toFileAnnot exImg2 a = faE ∧ a.ruleId ∈ denote (tableOf (rulesOf .v2) true exC) "BASIC" ∧
    ∃ p, normalizeAndValidate "b".toList = .ok p ∧ PathCovers exImg2 a p :=
  adding_ignore_only_scoped (rulesOf .v2) true true exC "BASIC" "b".toList false false false exImg2 [faM 4, faF, faE] [faM 4, faF]
    (by decide) (by decide) faE (by decide) (by decide)
example : "ENUM_PASCAL_CASE" ∈ denote (tableOf (rulesOf .v2) true exC) "BASIC" := by decide
-- … and under an existing key
example : (addIgnoreOnly exC "ENUM_PASCAL_CASE" "b".toList).ignoreOnly = [("ENUM_PASCAL_CASE", ["b".toList, "c".toList])] := by decide
-- an except id
example : runCheck (rulesOf .v2) true true (addExcept exC "FIELD_LOWER_SNAKE_CASE") false false false exImg2
    = .ok [faM 4, faE] := by decide
example : ∀ fa ∈ [faM 4, faE], fa ∈ [faM 4, faF, faE] :=
  adding_except_monotone (rulesOf .v2) true true exC "FIELD_LOWER_SNAKE_CASE" false false false exImg2 _ _ (by decide) (by decide)
example : ∃ a ∈ exImg2.annots, toFileAnnot exImg2 a = faF ∧
    a.ruleId ∈ denote (tableOf (rulesOf .v2) true exC) "FIELD_LOWER_SNAKE_CASE" :=
  adding_except_scoped (rulesOf .v2) true true exC "FIELD_LOWER_SNAKE_CASE" false false false exImg2 [faM 4, faF, faE] [faM 4, faE]
    (by decide) (by decide) faF (by decide) (by decide)
-- several additions at once, an option switched on, the raw (unvalidated) entry point
example : UserMoreSuppression exC (addIgnore (addExcept (addIgnoreOnly exC "BASIC" "b".toList) "MINIMAL") "a".toList) :=
  ⟨fun _ => Iff.rfl, fun _ h => List.mem_cons_of_mem _ h, fun _ h => List.mem_cons_of_mem _ h,
   fun k q h => (ioHas_ioInsert _ _ _ k q).2 (Or.inl h), rfl⟩
example : ∀ fa ∈ ([] : List FileAnnot), fa ∈ [faM 4, faF, faE] :=
  user_suppression_monotone (rulesOf .v2) true false exC
    (addIgnore (addExcept (addIgnoreOnly exC "BASIC" "b".toList) "MINIMAL") "a".toList)
    false false false true false false exImg2 _ _
    ⟨fun _ => Iff.rfl, fun _ h => List.mem_cons_of_mem _ h, fun _ h => List.mem_cons_of_mem _ h,
     fun k q h => (ioHas_ioInsert _ _ _ k q).2 (Or.inl h), rfl⟩
    (fun h => (by cases h)) id id (by decide) (by decide)
example : UserScope (tableOf (rulesOf .v2) true exC) exC (addIgnore exC "a".toList) exImg2
    { ruleId := "MESSAGE_PASCAL_CASE", loc := some ⟨0, [4, 0, 1], 3, 8, 3, 19⟩, against := none, message := "m" } :=
  Or.inr (Or.inl ⟨"a".toList, by simp [addIgnore], by decide, "a".toList, by decide, Or.inl ⟨_, rfl, by decide⟩⟩)
-- user_suppression_resolves_to_more, on the resolved configurations themselves
example : ∃ rc rc', resolve (rulesOf .v2) true true exC = .ok rc ∧
    resolve (rulesOf .v2) true true (addIgnoreOnly exC "BASIC" "./b".toList) = .ok rc' ∧
    MoreSuppression (mkConfig true rc false false false) (mkConfig true rc' true false false) ∧
    ("MESSAGE_PASCAL_CASE", "b".toList) ∈ rc'.ignoreOnly ∧ ("MESSAGE_PASCAL_CASE", "b".toList) ∉ rc.ignoreOnly :=
  ⟨⟨["ENUM_PASCAL_CASE", "FIELD_LOWER_SNAKE_CASE", "MESSAGE_PASCAL_CASE"], [], [("ENUM_PASCAL_CASE", "c".toList)]⟩, _,
   by decide, rfl,
   user_suppression_resolves_to_more (rulesOf .v2) true true exC _ _ _ (addIgnoreOnly_more exC "BASIC" "./b".toList)
     (by decide) rfl false false false true false false (fun h => (by cases h)) id id,
   by decide, by decide⟩
-- ignore_clauses_user_level on the resolved example configuration (hypotheses `h`, `hrs`)
example : IgnoreOnlyClause (mkConfig true ⟨["ENUM_PASCAL_CASE", "FIELD_LOWER_SNAKE_CASE", "MESSAGE_PASCAL_CASE"], [],
      [("ENUM_PASCAL_CASE", "c".toList)]⟩ false false false) "ENUM_PASCAL_CASE"
      { path := "c/x.proto".toList, isImport := false, unstable := false, comments := [] } :=
  ((ignore_clauses_user_level (rulesOf .v2) true true exC _ (by decide) (by decide) false false false "ENUM_PASCAL_CASE" _).2).2
    ⟨"ENUM_PASCAL_CASE", ["c".toList], "c".toList, by simp [exC], by simp, by decide, by decide, "c".toList, by decide, by decide⟩
-- resolved_config_spec: a DEPRECATED id as ignore_only key, unnormalised paths, duplicates (breaking, v1)
example : (resolve (rulesOf .v1) false true
    { use := ["WIRE"], except := [], ignore := ["./x/".toList, "./x/".toList],
      ignoreOnly := [("FIELD_SAME_CTYPE", ["a//b".toList])], disableBuiltin := false }).map
      (fun rc => (rc.ignoreRootPaths, rc.ignoreOnly))
    = .ok (["x".toList], [("FIELD_SAME_CPP_STRING_TYPE", "a/b".toList)]) := by decide
example : tableOf (rulesOf .v1) false
    { use := ["WIRE"], except := [], ignore := [], ignoreOnly := [], disableBuiltin := false } ≠ [] := by decide
-- builtin rules disabled: the empty table; everything (even an unknown id) resolves to the empty configuration
example : resolve (rulesOf .v2) true true
    { use := ["NOPE"], except := [], ignore := [], ignoreOnly := [], disableBuiltin := true }
    = .ok { ruleIDs := [], ignoreRootPaths := [], ignoreOnly := [] } := by decide
example : tableOf (rulesOf .v2) true
    { use := ["NOPE"], except := [], ignore := [], ignoreOnly := [], disableBuiltin := true } = [] := by decide

-- comment edit that shifts positions: reports before / after (hypotheses `h`, `h'`) …
def exCfgL : Config :=
  mkConfig true ⟨["ENUM_PASCAL_CASE", "FIELD_LOWER_SNAKE_CASE", "MESSAGE_PASCAL_CASE"], [], []⟩ true false false
example : report exCfgL exImg2 = .ok [faM 4, faF, faE] := by decide
example : report exCfgL exImg2c = .ok [faM 5, faE] := by decide
-- … the message annotation is reported one line lower and is matched to its counterpart by element
example : ∀ fa' ∈ [faM 5, faE], ∃ a' ∈ exImg2c.annots, toFileAnnot exImg2c a' = fa' ∧
      ∃ a, SameElement a a' ∧ Kept exCfgL exImg2 a ∧
        toFileAnnot exImg2 a ∈ [faM 4, faF, faE] ∧ faElem (toFileAnnot exImg2 a) = faElem fa' :=
  suppression_monotone_elements exCfgL exCfgL exImg2 exImg2c _ _
    ⟨fun _ h => h, fun _ h => h, fun _ h => h, id, id, id, rfl⟩ exImg2_moreComments (by decide) (by decide)
-- … and the field annotation disappears because of the NEW directive on the enclosing message [4,0]
example : exCfgL.allowCommentIgnores = true ∧
    ((∃ x', exF'.loc = some x' ∧ ∃ p, p <+: x'.sourcePath ∧
        commentIgnoresAt (fileAt exImg2c.files x'.file) exCfgL.commentIgnorePrefix exF'.ruleId p = true ∧
        commentIgnoresAt (fileAt exImg2.files x'.file) exCfgL.commentIgnorePrefix exF'.ruleId p = false) ∨
     (∃ x', exF'.against = some x' ∧ ∃ p, p <+: x'.sourcePath ∧
        commentIgnoresAt (fileAt exImg2c.againstFiles x'.file) exCfgL.commentIgnorePrefix exF'.ruleId p = true ∧
        commentIgnoresAt (fileAt exImg2.againstFiles x'.file) exCfgL.commentIgnorePrefix exF'.ruleId p = false)) :=
  adding_comment_scoped exCfgL exImg2 exImg2c exF exF' exImg2_moreComments ⟨rfl, rfl, rfl, rfl⟩ (by simp [exImg2c, exF'])
    ⟨by simp [exImg2, exF], by decide,
     fun hs => by have := (ignoreAnnotation_ok exCfgL exImg2 exF false (by decide)).2 hs; cases this⟩
    (fun hk => by
      have : ¬ AnnotSuppressed exCfgL exImg2c exF' := hk.2.2
      exact this ((ignoreAnnotation_ok exCfgL exImg2c exF' true (by decide)).1 rfl))

/-! ## buf.yaml sections (which `lint:` / `breaking:` section a module uses) -/

/-- EVERY key of the schema counts for "is there a section": the `isEmpty` test of the reader
    holds iff all twelve keys have their zero value (a section with exactly one key — e.g. only
    `disallow_comment_ignores: true`, only `ignore_unstable_packages: true` — is a section). -/
theorem yaml_section_empty_iff (s : YSection) : s.isEmpty = true ↔ s = {} := by
  cases s
  simp only [YSection.isEmpty, List.isEmpty_iff, Bool.and_eq_true, Bool.not_eq_true',
    YSection.mk.injEq, and_assoc]

/-- v2: a module-level section with at least one key REPLACES the workspace-level section as a
    whole (none of the workspace-level keys survives), and its paths must lie in the module. -/
theorem yaml_module_section_replaces_workspace (lint : Bool) (dir : Str) (ws mod : YSection)
    (h : mod ≠ {}) : moduleEff lint true dir ws mod = sectionToEff lint true dir true mod := by
  have he : mod.isEmpty = false := by
    cases hb : mod.isEmpty
    · rfl
    · exact absurd ((yaml_section_empty_iff mod).1 hb) h
  simp [moduleEff, pickSection, he]

/-- v2: a module without a section of its own (absent, `{}`, only zero values) uses the
    workspace-level section; paths outside the module are skipped instead of rejected. -/
theorem yaml_empty_module_section_falls_back (lint : Bool) (dir : Str) (ws : YSection) :
    moduleEff lint true dir ws {} = sectionToEff lint true dir false ws := by
  simp [moduleEff, pickSection, YSection.isEmpty]

/-- The comment-ignore switch of the effective configuration is the one of the section that
    applies: `allow_comment_ignores` (v1beta1 / v1), the negation of `disallow_comment_ignores`
    (v2, where comment ignores are on by default); never on for breaking. -/
theorem yaml_comment_flag_applies (lint v2 : Bool) (dir : Str) (req : Bool) (s : YSection) (eff : EffConfig)
    (h : sectionToEff lint v2 dir req s = .ok eff) :
    eff.allowCommentIgnores = (lint && (if v2 then !s.commentFlag else s.commentFlag)) ∧
    eff.ignoreUnstablePackages = (!lint && s.ignoreUnstablePackages) := by
  unfold sectionToEff at h
  dsimp only at h
  split at h
  · cases h
  · cases h; exact ⟨rfl, rfl⟩
  · split at h
    · split at h
      · cases h
      · cases h; exact ⟨rfl, rfl⟩
    · cases h

/-- The regression of seed C06-m4 as a statement about the model: a v2 module whose `lint:`
    section contains ONLY `disallow_comment_ignores: true` has comment ignores off, whatever the
    workspace-level section says. -/
theorem yaml_only_disallow_comment_ignores (dir : Str) (ws : YSection) (eff : EffConfig)
    (h : moduleEff true true dir ws { commentFlag := true } = .ok eff) : eff.allowCommentIgnores = false := by
  rw [yaml_module_section_replaces_workspace true dir ws _ (by decide)] at h
  simpa using (yaml_comment_flag_applies true true dir true _ eff h).1

example : moduleEff true true dot { serviceSuffix := "API".toList } { commentFlag := true } =
    .ok { disabled := false, check := ⟨[], [], [], [], false⟩, allowCommentIgnores := false,
          ignoreUnstablePackages := false, enumZeroValueSuffix := [], rpcAllowSameRequestResponse := false,
          rpcAllowGoogleProtobufEmptyRequests := false, rpcAllowGoogleProtobufEmptyResponses := false,
          serviceSuffix := [] } := by decide

/-! ## strengthening round 4: import-only files sharing packages with targets; ignore paths that
    split a cross-file violation -/

/-- The function the driver runs on `check` lines is `runCheck` on the handler view of the
    image: for lint, the annotations located in import files are dropped first (lint handlers
    are built on `NewLintFilesRuleHandler` and never see import files); for breaking nothing
    changes.  Every `runCheck` theorem above therefore applies with `handlerView lint img`. -/
theorem runCheckH_is_report (allRules : List RuleRow) (lint validated : Bool) (c : CheckConfig)
    (aci iup exi : Bool) (img : Image) :
    runCheckH allRules lint validated c aci iup exi img =
      (resolve allRules lint validated c).bind
        (fun rc => report (mkConfig lint rc aci iup exi) (handlerView lint img)) ∧
    handlerView false img = img :=
  ⟨runCheck_is_report _ _ _ _ _ _ _ _, rfl⟩

/-- … likewise on `ycheck` lines. -/
theorem runEffH_is_runEff (allRules : List RuleRow) (lint : Bool) (eff : EffConfig) (exi : Bool) (img : Image) :
    runEffH allRules lint eff exi img = runEff allRules lint eff exi (handlerView lint img) := rfl

/-- When the measured single-rule annotation sets contain nothing located in an import file
    (what the oracle class `C06-import-reported` checks on every run), the handler view is the
    image itself and `runCheckH` IS `runCheck`. -/
theorem runCheckH_eq_runCheck (allRules : List RuleRow) (lint validated : Bool) (c : CheckConfig)
    (aci iup exi : Bool) (img : Image)
    (hh : ∀ a ∈ img.annots, ∀ l, a.loc = some l → (fileAt img.files l.file).isImport = false) :
    runCheckH allRules lint validated c aci iup exi img = runCheck allRules lint validated c aci iup exi img := by
  unfold runCheckH
  rw [handlerView_eq_self lint img hh]

/-- "Files that are only imports are never reported", lint, WITHOUT a hypothesis about the
    handlers: whatever single-rule annotation sets are fed in (even ones that locate annotations
    in import files), under every configuration nothing `runCheckH … lint := true` reports is
    located in an import file: every reported annotation is the file annotation of a measured
    one whose file is not an import.  (With a handler that does emit on an import file the
    implementation reports it and this model does not: a correspondence failure in addition to
    the oracle's.) -/
theorem lint_never_reports_import_files (allRules : List RuleRow) (validated : Bool) (c : CheckConfig)
    (aci iup exi : Bool) (img : Image) (out : List FileAnnot)
    (h : runCheckH allRules true validated c aci iup exi img = .ok out) :
    ∀ fa ∈ out, ∃ a ∈ img.annots, toFileAnnot img a = fa ∧
      ∀ l, a.loc = some l → (fileAt img.files l.file).isImport = false := by
  intro fa hfa
  unfold runCheckH at h
  rcases (runCheck_ok_iff _ _ _ _ _ _ _ _ _).1 h with ⟨rc, _, hrep⟩
  rcases (report_spec _ _ _ hrep).2.1 fa hfa with ⟨a, ⟨h1, _, _⟩, h4⟩
  rcases (mem_handlerView_lint img a).1 h1 with ⟨hm, hn⟩
  exact ⟨a, hm, by rw [← h4, toFileAnnot_handlerView], (locNotImport_iff img a).1 hn⟩

/-- The lint report does not depend on what the handlers were measured to emit INSIDE import
    files: two images with the same files whose annotation lists agree outside the import files
    give the same `runCheckH` result. -/
theorem lint_report_independent_of_import_located (allRules : List RuleRow) (validated : Bool) (c : CheckConfig)
    (aci iup exi : Bool) (img img' : Image)
    (hf : img'.files = img.files) (hg : img'.againstFiles = img.againstFiles)
    (ha : img'.annots.filter (locNotImport img') = img.annots.filter (locNotImport img)) :
    runCheckH allRules true validated c aci iup exi img' = runCheckH allRules true validated c aci iup exi img := by
  have : handlerView true img' = handlerView true img := by
    unfold handlerView
    simp only [if_true]
    cases img; cases img'
    simp only at hf hg ha
    subst hf; subst hg
    simp only [Image.mk.injEq, true_and]
    exact ha
  unfold runCheckH
  rw [this]

/-- One more `ignore` path, exactly (resolved configuration, same image): afterwards precisely
    those annotations are reported that were kept before AND whose file and against-file the
    path does not equal-or-contain — `report(with) = { a ∈ report(without) | a's file not
    covered }` (`Kept cfg img a` is membership in the report without the path: `report_is_union_exact`).  In particular an ignore path that covers only some of the files taking part in
    a cross-file violation (PACKAGE_SAME_*, DIRECTORY_SAME_PACKAGE, RPC_REQUEST_RESPONSE_UNIQUE …)
    leaves the annotations in the non-covered files untouched: the rules are not re-run on a
    smaller file set (seed C06-m6).  User-level forms: `adding_ignore_monotone`,
    `adding_ignore_scoped`; general form: `suppression_scoped`. -/
theorem ignore_path_exact (cfg : Config) (p : Str) (img : Image) (out' : List FileAnnot)
    (h' : report (withIgnorePath cfg p) img = .ok out') (fa : FileAnnot) :
    fa ∈ out' ↔ ∃ a, Kept cfg img a ∧ ¬ CoversAnnot p img a ∧ toFileAnnot img a = fa := by
  rw [report_mem_iff _ _ _ h' fa]
  constructor
  · rintro ⟨a, hk, hfa⟩
    rcases (kept_withIgnorePath cfg p img a).1 hk with ⟨h1, h2⟩
    exact ⟨a, h1, h2, hfa⟩
  · rintro ⟨a, h1, h2, hfa⟩
    exact ⟨a, (kept_withIgnorePath cfg p img a).2 ⟨h1, h2⟩, hfa⟩

/-- … hence: an annotation reported before whose file (and against-file) the new path does not
    cover is still reported, and nothing new is reported. -/
theorem ignore_path_keeps_non_covered (cfg : Config) (p : Str) (img : Image) (out out' : List FileAnnot)
    (h : report cfg img = .ok out) (h' : report (withIgnorePath cfg p) img = .ok out') :
    (∀ a, Kept cfg img a → ¬ CoversAnnot p img a → toFileAnnot img a ∈ out') ∧ (∀ fa ∈ out', fa ∈ out) := by
  constructor
  · intro a hk hc
    exact (ignore_path_exact cfg p img out' h' _).2 ⟨a, hk, hc, rfl⟩
  · intro fa hfa
    rcases (ignore_path_exact cfg p img out' h' fa).1 hfa with ⟨a, hk, _, rfl⟩
    exact (report_mem_iff _ _ _ h _).2 ⟨a, hk, rfl⟩

/-- One more `ignore_only` entry (rule `r`, path `p`), exactly: only annotations of rule `r`
    in covered files go away. -/
theorem ignore_only_exact (cfg : Config) (r : Id) (p : Str) (img : Image) (out' : List FileAnnot)
    (h' : report (withIgnoreOnly cfg r p) img = .ok out') (fa : FileAnnot) :
    fa ∈ out' ↔ ∃ a, Kept cfg img a ∧ ¬ (a.ruleId = r ∧ CoversAnnot p img a) ∧ toFileAnnot img a = fa := by
  rw [report_mem_iff _ _ _ h' fa]
  constructor
  · rintro ⟨a, hk, hfa⟩
    rcases (kept_withIgnoreOnly cfg r p img a).1 hk with ⟨h1, h2⟩
    exact ⟨a, h1, h2, hfa⟩
  · rintro ⟨a, h1, h2, hfa⟩
    exact ⟨a, (kept_withIgnoreOnly cfg r p img a).2 ⟨h1, h2⟩, hfa⟩

/-- Witness for the family of seeds C06-m5 / C06-m6: `a/v1/t.proto` (target) and `a/v1/i.proto`
    share a package; annotation 0 is what a PACKAGE_SAME_GO_PACKAGE handler that wrongly
    compares imports would emit IN the import file, 1 the same in the target, 2 a per-element
    annotation in the target. -/
def exImgShared (iImport : Bool) : Image :=
  { files := [{ path := "a/v1/t.proto".toList, isImport := false, unstable := false, comments := [] },
              { path := "a/v1/i.proto".toList, isImport := iImport, unstable := false, comments := [] }],
    againstFiles := [],
    annots := [{ ruleId := "PACKAGE_SAME_GO_PACKAGE", loc := some ⟨1, [8, 11], 2, 0, 2, 20⟩, against := none, message := "g" },
               { ruleId := "PACKAGE_SAME_GO_PACKAGE", loc := some ⟨0, [8, 11], 2, 0, 2, 20⟩, against := none, message := "g" },
               { ruleId := "MESSAGE_PASCAL_CASE", loc := some ⟨0, [4, 0, 1], 3, 8, 3, 12⟩, against := none, message := "m" }] }

def exCShared : CheckConfig :=
  { use := ["PACKAGE_SAME_GO_PACKAGE", "MESSAGE_PASCAL_CASE"], except := [], ignore := [], ignoreOnly := [], disableBuiltin := false }

-- the import-located annotation never comes out of the lint model, whatever was measured …
example : (runCheckH (rulesOf .v2) true true exCShared false false false (exImgShared true)).map (·.map (fun fa => (fa.path.map String.ofList, fa.type))) =
    .ok [(some "a/v1/t.proto", "PACKAGE_SAME_GO_PACKAGE"), (some "a/v1/t.proto", "MESSAGE_PASCAL_CASE")] := by decide
-- … it does when the file is a target
example : (runCheckH (rulesOf .v2) true true exCShared false false false (exImgShared false)).map (·.length) = .ok 3 := by decide
-- ignoring the sibling file removes exactly the annotation located in it (all-target image)
example : (runCheckH (rulesOf .v2) true true (addIgnore exCShared "a/v1/i.proto".toList) false false false (exImgShared false)).map
      (·.map (fun fa => (fa.path.map String.ofList, fa.type))) =
    .ok [(some "a/v1/t.proto", "PACKAGE_SAME_GO_PACKAGE"), (some "a/v1/t.proto", "MESSAGE_PASCAL_CASE")] := by decide
example : ¬ CoversAnnot "a/v1/i.proto".toList (exImgShared false) (exImgShared false).annots[1] := by
  unfold CoversAnnot CoversLoc
  rintro (⟨x, hx, hc⟩ | ⟨x, hx, _⟩)
  · cases hx; revert hc; decide
  · cases hx

end BufProofs.C06
