import BufProofs.Lemmas.RulesLemmas
/-
  C06 — Rule selection and suppression compose set-theoretically.  Property theorems only;
  vocabulary (`denote`, `Unknown`, `Suppressed` and its clauses, `Kept`, `MoreSuppression`,
  `MoreComments(Img)`, `NewlySuppressed`) and helper lemmas live in
  BufProofs/Lemmas/RulesLemmas.lean; the model is BufModel/Rules.lean over the REGENERATED tables
  BufGen/RuleTables.lean.
-/
namespace BufProofs.C06
open BufModel.Path BufModel.Rules BufGen.RuleTables

/-- The lint / breaking rules of a config version, from the regenerated tables. -/
abbrev lintRules (v : Version) : List RuleRow := rulesForType (rulesOf v) true
abbrev breakingRules (v : Version) : List RuleRow := rulesForType (rulesOf v) false

/-! ## selection -/

/-- For ALL `use` / `except` lists (any mix of rule ids, category ids, deprecated ids, blanks,
    duplicates, any order) and any rule table: whenever `newRulesConfig` accepts the
    configuration, the selected rule ids are exactly
    `(⋃ denote use) \ (⋃ denote except)`, where `use` is replaced by the default rules when it
    has no non-blank entry (`effectiveUse`, see `effective_use_spec`) and `denote` expands a
    category to its rules and a deprecated rule to its replacements. -/
theorem selection_is_set_algebra (all : List RuleRow) (lint : Bool) (c : CheckConfig) (rc : RulesConfig)
    (hrs : rulesForType all lint ≠ []) (h : newRulesConfig all lint c = .ok rc) (x : Id) :
    x ∈ rc.ruleIDs ↔
      (∃ u ∈ effectiveUse (rulesForType all lint) c.use, x ∈ denote (rulesForType all lint) u) ∧
      ¬ (∃ e ∈ c.except, blankId e = false ∧ x ∈ denote (rulesForType all lint) e) := by
  rcases newRulesConfig_ok all lint c rc hrs h with ⟨useIds, excIds, h1, h2, h3⟩
  rw [h3, List.mem_filter, mem_undeprecate_transform _ _ _ h1]
  have hex : (∃ e ∈ c.except, blankId e = false ∧ x ∈ denote (rulesForType all lint) e) ↔
      x ∈ undeprecate (rulesForType all lint) excIds := by
    rw [mem_undeprecate_transform _ _ _ h2]
    constructor
    · rintro ⟨e, he, hb, hx⟩; exact ⟨e, (mem_uniqueSortedNoBlank e _).2 ⟨he, hb⟩, hx⟩
    · rintro ⟨e, he, hx⟩
      have := (mem_uniqueSortedNoBlank e _).1 he
      exact ⟨e, this.1, this.2, hx⟩
  rw [hex]
  simp

/-- What `use` means: its non-blank entries, or — when there is none — the default rules. -/
theorem effective_use_spec (rs : List RuleRow) (use : List Id) (x : Id) :
    x ∈ effectiveUse rs use ↔
      if (∀ u ∈ use, blankId u = true) then x ∈ defaultIds rs else (x ∈ use ∧ blankId x = false) := by
  unfold effectiveUse
  by_cases h : uniqueSortedNoBlank use = []
  · simp only [h, if_true]
    have hall : ∀ u ∈ use, blankId u = true := by
      intro u hu
      cases hb : blankId u with
      | true => rfl
      | false =>
        have : u ∈ uniqueSortedNoBlank use := (mem_uniqueSortedNoBlank u use).2 ⟨hu, hb⟩
        rw [h] at this; cases this
    rw [if_pos hall]
  · simp only [h, if_false]
    have hnot : ¬ ∀ u ∈ use, blankId u = true := by
      intro hall
      apply h
      cases hl : uniqueSortedNoBlank use with
      | nil => rfl
      | cons y ys =>
        have : y ∈ uniqueSortedNoBlank use := by rw [hl]; simp
        have := (mem_uniqueSortedNoBlank y use).1 this
        rw [hall y this.1] at this; cases this.2
    rw [if_neg hnot]
    exact mem_uniqueSortedNoBlank x use

/-- The rules `Client.ConfiguredRules` lists are exactly the selected ids (in table order). -/
theorem configured_rules_are_selected (all : List RuleRow) (ruleIDs : List Id) (x : Id) :
    x ∈ configuredRuleIds all ruleIDs ↔ x ∈ ruleIDs ∧ ∃ r ∈ all, r.id = x := by
  unfold configuredRuleIds
  simp only [List.mem_map, List.mem_filter, List.contains_iff_mem]
  constructor
  · rintro ⟨r, ⟨hr, hc⟩, rfl⟩; exact ⟨hc, r, hr, rfl⟩
  · rintro ⟨hx, r, hr, rfl⟩; exact ⟨r, ⟨hr, hx⟩, rfl⟩

/-- An id that is neither a rule id of the requested type nor a category carried by such a
    rule — in `use` (after defaulting), among the non-blank `except` entries, or as an
    `ignore_only` key — makes `newRulesConfig` fail. -/
theorem unknown_id_rejected (all : List RuleRow) (lint : Bool) (c : CheckConfig)
    (hrs : rulesForType all lint ≠ []) (id : Id) (hu : Unknown (rulesForType all lint) id)
    (hin : id ∈ effectiveUse (rulesForType all lint) c.use ∨ (id ∈ c.except ∧ blankId id = false) ∨
           id ∈ c.ignoreOnly.map (·.1)) :
    ∃ e, newRulesConfig all lint c = .error e := by
  have hn := (expandOne_none_iff _ id).2 hu
  apply newRulesConfig_unknown all lint c hrs
  rcases hin with h | h | h
  · exact Or.inl ⟨id, h, hn⟩
  · exact Or.inr (Or.inl ⟨id, (mem_uniqueSortedNoBlank id _).2 h, hn⟩)
  · rcases List.mem_map.1 h with ⟨e, he, rfl⟩
    exact Or.inr (Or.inr ⟨e, he, hn⟩)

/-- Unknown ids denote nothing (so they could not silently select or except anything). -/
theorem unknown_denotes_nothing (rs : List RuleRow) (id : Id) (hu : Unknown rs id) : denote rs id = [] := by
  unfold denote; rw [(expandOne_none_iff rs id).2 hu]; rfl

/-- A deprecated rule id stands for exactly its replacements (which, in any table bufplugin
    validates, are themselves non-deprecated rule ids — `tables_replacements_wellformed`). -/
theorem deprecated_as_replacements (rs : List RuleRow) (d : Id) (repl : List Id)
    (hd : d ≠ "") (hr : isRuleId rs d = true) (hrep : replacementsOf rs d = some repl)
    (hwf : ∀ r ∈ repl, r ≠ "" ∧ isRuleId rs r = true ∧ replacementsOf rs r = none) (x : Id) :
    x ∈ denote rs d ↔ ∃ r ∈ repl, x ∈ denote rs r := by
  have hdn : ∀ y, y ∈ denote rs d ↔ y ∈ repl := by
    intro y
    simp [denote, expandOne, hd, hr, undeprecateOne, hrep]
  have hrn : ∀ r ∈ repl, ∀ y, y ∈ denote rs r ↔ y = r := by
    intro r hr' y
    rcases hwf r hr' with ⟨h1, h2, h3⟩
    simp [denote, expandOne, h1, h2, undeprecateOne, h3]
  rw [hdn]
  constructor
  · intro hx; exact ⟨x, hx, (hrn x hx x).2 rfl⟩
  · rintro ⟨r, hr', hx⟩; rw [(hrn r hr' x).1 hx]; exact hr'

/-- In the regenerated tables of all three config versions and both rule types, every
    replacement id of a deprecated rule is a non-deprecated rule id of the same type. -/
theorem tables_replacements_wellformed : ∀ (v : Version) (lint : Bool),
    ∀ d ∈ rulesForType (rulesOf v) lint, d.deprecated = true →
      ∀ r ∈ d.replacements, r ≠ "" ∧ isRuleId (rulesForType (rulesOf v) lint) r = true ∧
        replacementsOf (rulesForType (rulesOf v) lint) r = none := by
  intro v lint; cases v <;> cases lint <;> decide

/-- MINIMAL ⊆ BASIC ⊆ STANDARD and DEFAULT ↦ STANDARD, over the REGENERATED tables, for
    v1beta1, v1 and v2: as rule sets carried by the categories, as what the ids denote in a
    configuration, and in the category table (DEFAULT is deprecated, replaced by STANDARD). -/
theorem category_nesting : ∀ v : Version,
    (∀ x ∈ rulesInCategory (lintRules v) "MINIMAL", x ∈ rulesInCategory (lintRules v) "BASIC") ∧
    (∀ x ∈ rulesInCategory (lintRules v) "BASIC", x ∈ rulesInCategory (lintRules v) "STANDARD") ∧
    rulesInCategory (lintRules v) "DEFAULT" = rulesInCategory (lintRules v) "STANDARD" ∧
    (∀ x ∈ denote (lintRules v) "MINIMAL", x ∈ denote (lintRules v) "BASIC") ∧
    (∀ x ∈ denote (lintRules v) "BASIC", x ∈ denote (lintRules v) "STANDARD") ∧
    denote (lintRules v) "DEFAULT" = denote (lintRules v) "STANDARD" ∧
    rulesInCategory (lintRules v) "MINIMAL" ≠ [] ∧
    ((categoriesOf v).find? (fun c => c.id = "DEFAULT")) = some ⟨"DEFAULT", true, ["STANDARD"]⟩ := by
  intro v; cases v <;> decide

/-- With no `use`, the selection is the default rule set, and for lint that is exactly
    STANDARD (regenerated tables, all versions). -/
theorem default_is_standard : ∀ v : Version,
    ∀ x, x ∈ defaultIds (lintRules v) ↔ x ∈ rulesInCategory (lintRules v) "STANDARD" := by
  intro v x
  have : defaultIds (lintRules v) = rulesInCategory (lintRules v) "STANDARD" := by
    cases v <;> decide
  rw [this]

/-! ## suppression -/

/-- Why a file location is suppressed — exactly the five clauses, nothing else: whenever
    `ignoreFileLocation` answers, it answers `true` iff (exclude-imports ∧ import) ∨ an ignore
    path equals-or-contains the file path component-wise ∨ an ignore_only path of THIS rule
    does ∨ (ignore_unstable_packages ∧ unstable package) ∨ (comment ignores allowed ∧ a
    `buf:lint:ignore <rule>` line leads the element or one of its enclosing declarations). -/
theorem suppressed_iff (cfg : Config) (r : Id) (f : FileInfo) (sp : SPath) (b : Bool)
    (h : ignoreFileLocation cfg r f sp = .ok b) : b = true ↔ Suppressed cfg r f sp :=
  ignoreFileLocation_ok cfg r f sp b h

/-- The report is the union over the selected rules of what each reports on its own, minus
    exactly the suppressed annotations: every reported annotation comes from a kept one
    (selected rule, not suppressed), and every kept annotation is reported up to the dedup key
    of `bufanalysis` (exactly — see `report_is_union_exact` — when dedup keys do not collide). -/
theorem report_is_union (cfg : Config) (img : Image) (out : List FileAnnot) (h : report cfg img = .ok out) :
    (∀ fa ∈ out, ∃ a, (a ∈ img.annots ∧ a.ruleId ∈ cfg.rules.ruleIDs ∧ ¬ AnnotSuppressed cfg img a) ∧
        toFileAnnot img a = fa) ∧
    (∀ a ∈ img.annots, a.ruleId ∈ cfg.rules.ruleIDs → ¬ AnnotSuppressed cfg img a →
        ∃ fb ∈ out, dedupKey fb = dedupKey (toFileAnnot img a)) := by
  have hs := report_spec cfg img out h
  exact ⟨hs.2.1, fun a h1 h2 h3 => hs.2.2 a ⟨h1, h2, h3⟩⟩

theorem report_is_union_exact (cfg : Config) (img : Image) (out : List FileAnnot) (h : report cfg img = .ok out)
    (hinj : ∀ a ∈ img.annots, ∀ b ∈ img.annots, dedupKey (toFileAnnot img a) = dedupKey (toFileAnnot img b) →
      toFileAnnot img a = toFileAnnot img b) (fa : FileAnnot) :
    fa ∈ out ↔ ∃ a ∈ img.annots, a.ruleId ∈ cfg.rules.ruleIDs ∧ ¬ AnnotSuppressed cfg img a ∧ toFileAnnot img a = fa := by
  have hs := report_spec cfg img out h
  constructor
  · intro hfa
    rcases hs.2.1 fa hfa with ⟨a, ⟨h1, h2, h3⟩, h4⟩
    exact ⟨a, h1, h2, h3, h4⟩
  · rintro ⟨a, h1, h2, h3, rfl⟩
    rcases hs.2.2 a ⟨h1, h2, h3⟩ with ⟨fb, hfb, hk⟩
    rcases hs.2.1 fb hfb with ⟨b, ⟨hb1, _, _⟩, hb4⟩
    rw [← hb4] at hk
    rw [← hinj b hb1 a h1 hk, hb4]; exact hfb

/-- Adding suppression — more `except` (fewer selected rules), more `ignore` paths, more
    `ignore_only` entries, switching on allow_comment_ignores / ignore_unstable_packages /
    exclude-imports, or adding `buf:lint:ignore` comments to the sources — never adds an
    annotation: everything reported afterwards was reported before (same dedup key). -/
theorem suppression_monotone (cfg cfg' : Config) (img img' : Image) (out out' : List FileAnnot)
    (hc : MoreSuppression cfg cfg') (hi : MoreCommentsImg img img')
    (h : report cfg img = .ok out) (h' : report cfg' img' = .ok out') :
    ∀ fa ∈ out', ∃ fb ∈ out, dedupKey fb = dedupKey fa := by
  intro fa hfa
  rcases (report_spec cfg' img' out' h').2.1 fa hfa with ⟨a, ⟨h1, h2, h3⟩, h4⟩
  have hk : Kept cfg img a := by
    refine ⟨by rw [← hi.annots]; exact h1, hc.rules _ h2, ?_⟩
    intro hs; exact h3 (hs.mono hc hi)
  rcases (report_spec cfg img out h).2.2 a hk with ⟨fb, hfb, hkey⟩
  exact ⟨fb, hfb, by rw [hkey, ← h4, toFileAnnot_moreComments hi]⟩

/-- A suppression removes only what is in its scope: if an annotation is kept under `cfg` and
    no longer under `cfg'` (same image), then either its rule was de-selected, or at its file
    location / against-file location a suppression clause applies that holds under `cfg'` but
    not under `cfg` — a NEW ignore path that equals-or-contains that file's path, a NEW
    ignore_only entry for exactly this rule whose path does, the import / unstable option newly
    switched on for an import / unstable file, or comment ignores newly in force with a
    directive naming this rule on an enclosing element. -/
theorem suppression_scoped (cfg cfg' : Config) (img : Image) (a : Annot)
    (hk : Kept cfg img a) (hk' : ¬ Kept cfg' img a) :
    a.ruleId ∉ cfg'.rules.ruleIDs ∨
    (∃ x, a.loc = some x ∧ NewlySuppressed cfg cfg' a.ruleId (fileAt img.files x.file) x.sourcePath) ∨
    (∃ x, a.against = some x ∧ NewlySuppressed cfg cfg' a.ruleId (fileAt img.againstFiles x.file) x.sourcePath) := by
  by_cases hr : a.ruleId ∈ cfg'.rules.ruleIDs
  · right
    have hs' : AnnotSuppressed cfg' img a := by
      apply Classical.byContradiction
      intro hn; exact hk' ⟨hk.1, hr, hn⟩
    have hn : ¬ AnnotSuppressed cfg img a := hk.2.2
    rcases hs' with ⟨x, hx, hs⟩ | ⟨x, hx, hs⟩
    · left; exact ⟨x, hx, newlySuppressed_of hs (fun h => hn (Or.inl ⟨x, hx, h⟩))⟩
    · right; exact ⟨x, hx, newlySuppressed_of hs (fun h => hn (Or.inr ⟨x, hx, h⟩))⟩
  · left; exact hr

/-- Breaking with exclude-imports (and any configuration with `excludeImports`): nothing is
    reported whose file or against-file is an import. -/
theorem imports_never_reported (cfg : Config) (img : Image) (out : List FileAnnot)
    (h : report cfg img = .ok out) (hx : cfg.excludeImports = true) :
    ∀ fa ∈ out, ∃ a ∈ img.annots, toFileAnnot img a = fa ∧
      (∀ l, a.loc = some l → (fileAt img.files l.file).isImport = false) ∧
      (∀ l, a.against = some l → (fileAt img.againstFiles l.file).isImport = false) := by
  intro fa hfa
  rcases (report_spec cfg img out h).2.1 fa hfa with ⟨a, ⟨h1, _, h3⟩, h4⟩
  refine ⟨a, h1, h4, ?_, ?_⟩
  · intro l hl
    cases hi : (fileAt img.files l.file).isImport with
    | false => rfl
    | true => exact absurd (Or.inl ⟨l, hl, Or.inl ⟨hx, hi⟩⟩) h3
  · intro l hl
    cases hi : (fileAt img.againstFiles l.file).isImport with
    | false => rfl
    | true => exact absurd (Or.inr ⟨l, hl, Or.inl ⟨hx, hi⟩⟩) h3

/-- Lint never sets exclude-imports (`mkConfig true`): import files are skipped by the lint rule
    handlers themselves, which are a parameter here.  Under that (oracle-checked) assumption on
    the single-rule annotation sets, no configuration reports an import file. -/
theorem imports_never_reported_lint (cfg : Config) (img : Image) (out : List FileAnnot)
    (h : report cfg img = .ok out)
    (hh : ∀ a ∈ img.annots, ∀ l, a.loc = some l → (fileAt img.files l.file).isImport = false) :
    ∀ fa ∈ out, ∃ a ∈ img.annots, toFileAnnot img a = fa ∧
      ∀ l, a.loc = some l → (fileAt img.files l.file).isImport = false := by
  intro fa hfa
  rcases (report_spec cfg img out h).2.1 fa hfa with ⟨a, ⟨h1, _, _⟩, h4⟩
  exact ⟨a, h1, h4, hh a h1⟩

/-- `ignore` / `ignore_only` matching is component-wise, not string-prefix: "a/v" does not
    cover "a/v1/a.proto", "a/v1" does. -/
theorem ignore_is_pathwise_counterexample :
    mapHasEqualOrContainingPath ["a/v".toList] "a/v1/a.proto".toList = false ∧
    mapHasEqualOrContainingPath ["a/v1".toList] "a/v1/a.proto".toList = true := by decide

/-! ## non-vacuity -/

-- selection on the real v2 table: a category, a deprecated id, an except, blanks and duplicates
example : (newRulesConfig (rulesOf .v2) true
    { use := ["MINIMAL", "ENUM_PASCAL_CASE", "", "MINIMAL"], except := ["PACKAGE_DEFINED", " "], ignore := [],
      ignoreOnly := [], disableBuiltin := false }).map (·.ruleIDs)
    = .ok ["DIRECTORY_SAME_PACKAGE", "ENUM_PASCAL_CASE", "PACKAGE_DIRECTORY_MATCH", "PACKAGE_NO_IMPORT_CYCLE", "PACKAGE_SAME_DIRECTORY"] := by decide
example : rulesForType (rulesOf .v2) true ≠ [] := by decide
-- a deprecated breaking id behaves as its replacements
example : (newRulesConfig (rulesOf .v1) false
    { use := ["FIELD_SAME_CTYPE"], except := [], ignore := [], ignoreOnly := [], disableBuiltin := false }).map (·.ruleIDs)
    = .ok ["FIELD_SAME_CPP_STRING_TYPE"] := by decide
example : replacementsOf (rulesForType (rulesOf .v1) false) "FIELD_SAME_CTYPE" = some ["FIELD_SAME_CPP_STRING_TYPE"] := by decide
-- unknown ids, ids of the other type, categories of the other type are rejected
example : Unknown (lintRules .v2) "NOPE" ∧ Unknown (lintRules .v2) "FILE_NO_DELETE" ∧ Unknown (lintRules .v2) "WIRE" := by decide
example : newRulesConfig (rulesOf .v2) true
    { use := ["NOPE"], except := [], ignore := [], ignoreOnly := [], disableBuiltin := false } = .error .unknownId := by decide
-- an empty selection (except removes everything use selects) is a valid configuration …
example : (newRulesConfig (rulesOf .v2) true
    { use := ["BASIC"], except := ["BASIC"], ignore := [], ignoreOnly := [], disableBuiltin := false }).map (·.ruleIDs) = .ok [] := by decide
/-- … but before the `fix:` it was rejected with the system error "resultRules was empty"
    (also for `use: [IMPORT_NO_WEAK]`, a deprecated rule without replacement): the selection is
    `(⋃ denote use) \ (⋃ denote except) = ∅`, which must report nothing, not fail. -/
theorem empty_selection_old_counterexample :
    newRulesConfigOld (rulesOf .v2) true
      { use := ["BASIC"], except := ["BASIC"], ignore := [], ignoreOnly := [], disableBuiltin := false } = .error .emptyResult ∧
    newRulesConfigOld (rulesOf .v2) true
      { use := ["IMPORT_NO_WEAK"], except := [], ignore := [], ignoreOnly := [], disableBuiltin := false } = .error .emptyResult := by decide

/-- A one-file image with two planted annotations, the second under a message whose leading
    comment carries a directive. -/
def exImg : Image :=
  { files := [{ path := "a/v1/a.proto".toList, isImport := false, unstable := false,
                comments := [([4, 0], " buf:lint:ignore FIELD_LOWER_SNAKE_CASE\n".toList)] },
              { path := "dep/dep.proto".toList, isImport := true, unstable := false, comments := [] }],
    againstFiles := [],
    annots := [{ ruleId := "MESSAGE_PASCAL_CASE", loc := some ⟨0, [4, 0, 1], 3, 8, 3, 19⟩, against := none, message := "m" },
               { ruleId := "FIELD_LOWER_SNAKE_CASE", loc := some ⟨0, [4, 0, 2, 0, 1], 4, 9, 4, 17⟩, against := none, message := "f" },
               { ruleId := "FIELD_NO_DELETE", loc := some ⟨1, [4, 0], 2, 1, 2, 5⟩, against := none, message := "d" }] }

def exCfg (aci : Bool) (ignore : List Str) (exi : Bool) : Config :=
  { rules := { ruleIDs := ["FIELD_LOWER_SNAKE_CASE", "FIELD_NO_DELETE", "MESSAGE_PASCAL_CASE"], ignoreRootPaths := ignore, ignoreOnly := [] },
    allowCommentIgnores := aci, ignoreUnstablePackages := false,
    commentIgnorePrefix := lintCommentIgnorePrefix, excludeImports := exi }

example : (report (exCfg false [] false) exImg).map (·.map (·.type)) = .ok ["MESSAGE_PASCAL_CASE", "FIELD_LOWER_SNAKE_CASE", "FIELD_NO_DELETE"] := by decide
-- the directive on the enclosing message suppresses the field annotation only
example : (report (exCfg true [] false) exImg).map (·.map (·.type)) = .ok ["MESSAGE_PASCAL_CASE", "FIELD_NO_DELETE"] := by decide
-- an ignore directory suppresses everything under it, exclude-imports the import file
example : (report (exCfg false ["a".toList] true) exImg).map (·.map (·.type)) = .ok [] := by decide
example : MoreSuppression (exCfg false [] false) (exCfg true ["a".toList] true) :=
  ⟨fun _ h => h, fun _ h => (by cases h), fun _ h => h, fun h => (by cases h), fun h => h, fun h => (by cases h), rfl⟩
example : associatedSourcePaths [4, 0, 2, 0, 1] = .ok [[4, 0], [4, 0, 2, 0]] := by decide
example : associatedSourcePaths [4, 0, 3, 1, 4, 0, 2, 2, 3] = .ok [[4, 0], [4, 0, 3, 1], [4, 0, 3, 1, 4, 0], [4, 0, 3, 1, 4, 0, 2, 2], [4, 0, 3, 1, 4, 0, 2, 2, 3]] := by decide

end BufProofs.C06
