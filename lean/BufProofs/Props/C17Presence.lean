import BufProofs.Lemmas.GeneratePresenceLemmas
import BufProofs.Props.C17
/-
  C17 — field PRESENCE in `CodeGeneratorResponse` / `CodeGeneratorResponse.File`.

  Every scalar field of the plugin protocol is a proto2 `optional`: on the wire it is absent,
  present with the default value (`insertion_point: ""`, `error: ""`, `name: ""`) or present with a
  value.  The model carries presence explicitly (`RFile.name/insertionPoint/content : Option Str`,
  `Resp.error : Option Str`, ...).  The code as written decides everything through the generated
  getters, which is what makes the exactly-once clause robust: a file is an insertion point iff
  `GetInsertionPoint() != ""` at BOTH sites that ask (the duplicate check and the writer), so a file
  cannot be exempt from the duplicate check and still be written as a plain file.

  `runGenerate par req fs cwd rs` is the whole pipeline for local plugins whose processes answered
  `rs` (binary handler, protoplugin's lenient normalisation, `generator.Generate`,
  `validateResponses`, `checkRequiredFeatures`, response writer with directory and archive outs);
  `runResponsesA` / `runResponses` are its last two stages, the subject of Props/C17.lean.
-/
namespace BufProofs.C17
open BufModel.Path BufModel.Bucket BufModel.Generate

/-- A file whose insertion_point is PRESENT BUT EMPTY is not an insertion: the writer puts it like
    the file without the field (it never reads a target, never looks for a marker), and the
    duplicate check counts its key like that of any plain file. -/
theorem present_empty_insertion_point_is_not_an_insertion (m : Mem) (n c : Option Str) :
    writeFile m ⟨n, some [], c⟩ = writeFile m ⟨n, none, c⟩ ∧
    writeFile m ⟨n, some [], c⟩ = liftP (memPut m (n.getD []) (String.ofList (c.getD []))) ∧
    (∀ (key : Str → Str → Str) (out : Str) (fs : List RFile) (seen : List Str),
      validateFiles key out (⟨n, some [], c⟩ :: fs) seen = validateFiles key out (⟨n, none, c⟩ :: fs) seen ∧
      (key out (n.getD []) ∈ seen → validateFiles key out (⟨n, some [], c⟩ :: fs) seen = .error .duplicate)) := by
  refine ⟨rfl, rfl, ?_⟩
  intro key out fs seen
  refine ⟨rfl, ?_⟩
  intro h
  simp [validateFiles, RFile.getIP, RFile.getName, h]

/-- Two plugins (any two spellings of one output location, any two spellings of one name)
    returning the same output path is an error also when the insertion_point of either file is
    present but empty - the shape of the regression this section guards against. -/
theorem present_empty_insertion_point_duplicate_is_error (cwd out1 out2 n1 n2 : Str) (c1 c2 : Option Str)
    (ip1 ip2 : Option Str) (h1 : ip1 = none ∨ ip1 = some []) (h2 : ip2 = none ∨ ip2 = some [])
    (hk : dupKey cwd out1 n1 = dupKey cwd out2 n2) :
    runResponses cwd [⟨out1, [⟨some n1, ip1, c1⟩]⟩, ⟨out2, [⟨some n2, ip2, c2⟩]⟩] = .error .duplicate := by
  apply duplicate_output_is_error
  have hk1 : allKeys (dupKey cwd) [⟨out1, [⟨some n1, ip1, c1⟩]⟩, ⟨out2, [⟨some n2, ip2, c2⟩]⟩] =
      [dupKey cwd out1 n1, dupKey cwd out2 n2] := by
    rcases h1 with rfl | rfl <;> rcases h2 with rfl | rfl <;>
      simp [allKeys, keysOf, RFile.getIP, RFile.getName]
  rw [hk1, hk]
  simp

/-- ... and the same inside the response of ONE plugin that reaches the writer un-normalised. -/
theorem present_empty_insertion_point_duplicate_same_plugin (cwd out n : Str) (c1 c2 : Option Str) :
    runResponses cwd [⟨out, [⟨some n, some [], c1⟩, ⟨some n, none, c2⟩]⟩] = .error .duplicate := by
  apply duplicate_output_is_error
  simp [allKeys, keysOf, RFile.getIP, RFile.getName]

/-- The response writer and the duplicate check never look at presence: replacing every file by
    its `canon` form (all fields present, getter values) changes neither the error nor a byte of
    what is flushed - with directory outs and with archive outs. -/
theorem presence_invisible_to_writer (fs : FS) (cwd : Str) (ps : List PluginResp) :
    runResponses cwd (ps.map canonP) = runResponses cwd ps ∧
    runResponsesA fs cwd (ps.map canonP) = runResponsesA fs cwd ps := by
  constructor
  · unfold runResponses runResponsesWith
    rw [validatePluginResponses_canon, addResponses_canon]
  · unfold runResponsesA
    rw [validatePluginResponses_canon, addResponsesA_canon]

/-- An error field that is present but empty is no error. -/
theorem present_empty_error_is_no_error (r : Resp) :
    pluginGenerate { r with error := some [] } = pluginGenerate { r with error := none } := rfl

/-- A file without a name - absent or present-but-empty, the code does not distinguish - that
    follows a named file and has no (non-empty) insertion point CONTINUES that file: normalising
    `f :: g :: rest` is normalising `(f with g's content appended) :: rest`. -/
theorem nameless_file_continues_previous (f g : RFile) (rest : List RFile)
    (hf : f.getName ≠ []) (hg : g.getName = []) (hip : g.getIP = []) :
    normalizeFiles (f :: g :: rest) = normalizeFiles (appendContent f g :: rest) ∧
    (appendContent f g).getName = f.getName ∧ (appendContent f g).getIP = f.getIP ∧
    (appendContent f g).getContent = f.getContent ++ g.getContent := by
  refine ⟨?_, appendContent_getName f g, appendContent_getIP f g, appendContent_getContent f g⟩
  unfold normalizeFiles
  have hf2 : ¬ (appendContent f g).getName = [] := by rw [appendContent_getName]; exact hf
  rw [mergeNameless_cons_named hf, mergeNameless_cons_named hf2,
    mergeLoop_nameless (by simpa using hg) (by simpa using hip)]

/-- A nameless FIRST file, and a nameless file with a non-empty insertion point, make the plugin
    fail; so does an absolute or escaping name. -/
theorem malformed_response_fails (f : RFile) (rest : List RFile) :
    (f.getName = [] → normalizeFiles (f :: rest) = .error .firstNameless) ∧
    (∀ g, f.getName ≠ [] → g.getName = [] → g.getIP ≠ [] →
      normalizeFiles (f :: g :: rest) = .error .namelessInsertion) := by
  constructor
  · intro h
    unfold normalizeFiles
    rw [mergeNameless_cons_nameless h]
  · intro g hf hg hip
    unfold normalizeFiles
    rw [mergeNameless_cons_named hf, mergeLoop_nameless_ip (by simpa using hg) hip]

/-- What reaches buf of one plugin's files: every file has a name that is present, not empty,
    clean, relative and does not start with "../"; and no two PLAIN files of the response have the
    same name (the later one was dropped) - duplicates inside one response never reach
    `ValidatePluginResponses`, which therefore only ever reports two different plugins. -/
theorem normalized_files_named_and_distinct (fs l : List RFile) (h : normalizeFiles fs = .ok l) :
    (∀ f ∈ l, ∃ n, f.name = some n ∧ n ≠ [] ∧ isAbs n = false ∧ jumpPrefix.isPrefixOf n = false ∧
      ∃ n0, n = clean n0) ∧
    (plainNames l).Nodup := by
  unfold normalizeFiles at h
  cases hm : mergeNameless fs with
  | error e => rw [hm] at h; cases h
  | ok l0 =>
    rw [hm] at h
    obtain ⟨h1, h2, _⟩ := normLoop_spec l0 [] l h
    refine ⟨?_, h2⟩
    intro f hf
    obtain ⟨n0, n, hn, hname⟩ := h1 f hf
    refine ⟨n, hname, ?_⟩
    unfold normalizeName at hn
    split at hn
    · cases hn
    · simp only at hn
      split at hn
      · cases hn
      · split at hn
        · cases hn
        · rename_i hne habs hjump
          simp only [Except.ok.injEq] at hn
          subst hn
          exact ⟨clean_ne_nil n0, (Bool.not_eq_true _).mp habs, (Bool.not_eq_true _).mp hjump, n0, rfl⟩

/-! ### The whole pipeline -/

/-- NOTHING in the pipeline looks at presence: replacing every response by its `canon` form
    (every optional field of every file and of the response present, holding the value its getter
    returns) gives the same error or the same buckets, byte for byte - for both drivers, every
    image requirement, directory and archive outs.  In particular `insertion_point: ""` is "no
    insertion point", `name: ""` is "no name" (a continuation), `error: ""` is "no error",
    `supported_features: 0` / `minimum_edition: 0` are "unset", at every site at once. -/
theorem presence_invisible_to_generate (par : Bool) (req : Required) (fs : FS) (cwd : Str)
    (rs : List (Str × Resp)) :
    runGenerate par req fs cwd (rs.map canonR) = runGenerate par req fs cwd rs := by
  unfold runGenerate
  have hex : canonPE (if par then execPar (rs.map canonR) else execSeq (rs.map canonR)) =
      canonPE (if par then execPar rs else execSeq rs) := by
    cases par
    · exact execSeq_canon rs
    · exact execPar_canon rs
  have hfeat : (rs.map canonR).any (fun x => featureFails req x.2) = rs.any (fun x => featureFails req x.2) := by
    rw [List.any_map]; rfl
  rw [hfeat]
  revert hex
  cases (if par then execPar (rs.map canonR) else execSeq (rs.map canonR)) <;>
    cases (if par then execPar rs else execSeq rs) <;> intro hex
  · simp only [canonPE, Except.error.injEq] at hex; subst hex; rfl
  · simp [canonPE] at hex
  · simp [canonPE] at hex
  · rename_i ps ps'
    simp only [canonPE, Except.ok.injEq] at hex
    simp only
    rw [← validatePluginResponses_canon (dupKey cwd) ps, ← validatePluginResponses_canon (dupKey cwd) ps',
      ← addResponsesA_canon fs cwd ps, ← addResponsesA_canon fs cwd ps', hex]

/-- Exactly-once at the level of the whole pipeline: whenever the plugins ran and two plain files
    of what they returned (after normalisation) have the same output path - any spelling of the
    outs, of the names, any presence pattern - generation fails with the duplicate error, before
    the feature check and before anything is written. -/
theorem generate_duplicate_output_is_error (par : Bool) (req : Required) (fs : FS) (cwd : Str)
    (rs : List (Str × Resp)) (ps : List PluginResp)
    (hex : (if par then execPar rs else execSeq rs) = .ok ps)
    (hdup : ¬ (allKeys (dupKey cwd) ps).Nodup) :
    runGenerate par req fs cwd rs = .error (.run (.gen .duplicate)) := by
  unfold runGenerate
  rw [hex]
  simp only
  cases hv : validatePluginResponses (dupKey cwd) ps [] with
  | error e => rw [validate_error_is_duplicate (dupKey cwd) ps [] e hv]
  | ok seen =>
    exfalso
    obtain ⟨e, n⟩ := validatePluginResponses_ok (dupKey cwd) ps [] seen hv
    have := n List.nodup_nil
    rw [e] at this
    simp only [List.append_nil] at this
    exact hdup ((List.reverse_perm _).nodup_iff.mp this)

/-- A plugin that failed (malformed response, unknown feature bits, a non-empty error) fails the
    whole generation: nothing is written. -/
theorem failed_plugin_fails_generation (par : Bool) (req : Required) (fs : FS) (cwd : Str)
    (rs : List (Str × Resp)) (x : Str × Resp) (hx : x ∈ rs) (e : XErr) (he : pluginGenerate x.2 = .error e) :
    ∃ g, runGenerate par req fs cwd rs = .error g ∧ (g = .execMulti ∨ ∃ e', g = .exec e') := by
  have hseq : ∀ (l : List (Str × Resp)), x ∈ l → ∃ e', execSeq l = .error (.exec e') := by
    intro l
    induction l with
    | nil => intro h; cases h
    | cons y l ih =>
      intro h
      unfold execSeq
      cases hy : pluginGenerate y.2 with
      | error e' => exact ⟨e', rfl⟩
      | ok fsy =>
        rcases List.mem_cons.mp h with rfl | h
        · rw [he] at hy; cases hy
        · obtain ⟨e', he'⟩ := ih h
          simp only [he']
          exact ⟨e', rfl⟩
  unfold runGenerate
  cases par
  · obtain ⟨e', he'⟩ := hseq rs hx
    simp only [Bool.false_eq_true, if_false, he']
    exact ⟨_, rfl, Or.inr ⟨e', rfl⟩⟩
  · simp only [if_true]
    unfold execPar
    have hne : execFailures rs ≠ [] := by
      unfold execFailures
      intro hnil
      have : e ∈ rs.filterMap (fun x => match pluginGenerate x.2 with | .error e => some e | .ok _ => none) :=
        List.mem_filterMap.mpr ⟨x, hx, by rw [he]⟩
      exact absurd (hnil ▸ this) (by simp)
    cases hf : execFailures rs with
    | nil => exact absurd hf hne
    | cons e1 es =>
      cases es with
      | nil => exact ⟨_, rfl, Or.inr ⟨e1, rfl⟩⟩
      | cons e2 es => exact ⟨_, rfl, Or.inl rfl⟩

/-! ### Non-vacuity -/

-- plugin 0 returns gen/a.txt with `insertion_point: ""`, plugin 1 returns it under another
-- spelling of the out directory: an error, not a silent overwrite
example : runGenerate true ⟨false, []⟩ [] "/w".toList
    [("gen".toList, ⟨[⟨some "a.txt".toList, some [], some "one".toList⟩], none, none, none, none⟩),
     ("./gen/".toList, ⟨[⟨some "a.txt".toList, none, some "two".toList⟩], none, none, none, none⟩)] =
    .error (.run (.gen .duplicate)) := by decide
-- a nameless file (name present but empty) continues the previous one; `error: ""` is no error
example : runGenerate false ⟨false, []⟩ [] "/w".toList
    [("gen".toList, ⟨[⟨some "a.txt".toList, none, some "one".toList⟩, ⟨some [], some [], some "+two".toList⟩,
        ⟨none, none, some "+three".toList⟩], some [], some 0, some 0, none⟩)] =
    .ok [("/w/gen".toList, [("a.txt".toList, "one+two+three")])] := by decide
-- a duplicate INSIDE one response is dropped by the normalisation (first occurrence wins) ...
example : runGenerate false ⟨false, []⟩ [] "/w".toList
    [("gen".toList, ⟨[⟨some "a.txt".toList, none, some "one".toList⟩, ⟨some "./a.txt".toList, some [], some "two".toList⟩],
        none, none, none, none⟩)] =
    .ok [("/w/gen".toList, [("a.txt".toList, "one")])] := by decide
-- ... an insertion point with a marker is applied, one without its marker fails
example : runGenerate false ⟨false, []⟩ [] "/w".toList
    [("gen".toList, ⟨[⟨some "a.txt".toList, none, some "x\n// @@protoc_insertion_point(p)\n".toList⟩], none, none, none, none⟩),
     ("gen".toList, ⟨[⟨some "a.txt".toList, some "p".toList, some "new".toList⟩], none, none, none, none⟩)] =
    .ok [("/w/gen".toList, [("a.txt".toList, "x\nnew\n// @@protoc_insertion_point(p)")])] := by decide
example : runGenerate false ⟨false, []⟩ [] "/w".toList
    [("gen".toList, ⟨[⟨some "a.txt".toList, none, some "x".toList⟩, ⟨some "a.txt".toList, some "p".toList, some "new".toList⟩],
        none, none, none, none⟩)] = .error (.run (.gen .noInsertionPoint)) := by decide
-- response-level fields: a non-empty error, unknown feature bits, editions without a range
example : runGenerate true ⟨false, []⟩ [] "/w".toList
    [("gen".toList, ⟨[], some "boom".toList, none, none, none⟩)] = .error (.exec .pluginError) := by decide
example : runGenerate true ⟨false, []⟩ [] "/w".toList
    [("gen".toList, ⟨[], none, some 4, none, none⟩)] = .error (.exec .unknownFeatures) := by decide
example : runGenerate true ⟨false, []⟩ [] "/w".toList
    [("gen".toList, ⟨[], none, some 2, some 0, some 1000⟩)] = .error (.exec .noMinEdition) := by decide
-- the image needs edition 2023 (1000): a plugin without SUPPORTS_EDITIONS, or with a range that
-- excludes it, fails the feature check; one that covers it passes
example : runGenerate true ⟨false, [1000]⟩ [] "/w".toList
    [("gen".toList, ⟨[], none, some 1, none, none⟩)] = .error .feature := by decide
example : runGenerate true ⟨false, [1000]⟩ [] "/w".toList
    [("gen".toList, ⟨[], none, some 2, some 998, some 999⟩)] = .error .feature := by decide
example : runGenerate true ⟨true, [1000]⟩ [] "/w".toList
    [("gen".toList, ⟨[], none, some 2, some 1000, some 1000⟩)] = .ok [("/w/gen".toList, [])] := by decide
-- the hypotheses of `nameless_file_continues_previous` / `generate_duplicate_output_is_error`
example : (⟨some "a".toList, none, none⟩ : RFile).getName ≠ [] ∧ (⟨some [], some [], none⟩ : RFile).getName = [] ∧
    (⟨some [], some [], none⟩ : RFile).getIP = [] := by decide
example : execSeq [("gen".toList, ⟨[⟨some "a".toList, some [], none⟩], none, none, none, none⟩),
      ("/w/gen".toList, ⟨[⟨some "./a".toList, none, none⟩], none, none, none, none⟩)] =
    .ok [⟨"gen".toList, [⟨some "a".toList, some [], none⟩]⟩, ⟨"/w/gen".toList, [⟨some "a".toList, none, none⟩]⟩] ∧
    ¬ (allKeys (dupKey "/w".toList) [⟨"gen".toList, [⟨some "a".toList, some [], none⟩]⟩,
      ⟨"/w/gen".toList, [⟨some "a".toList, none, none⟩]⟩]).Nodup := by decide

end BufProofs.C17
