import BufProofs.Lemmas.ConfigRange
import BufProofs.Lemmas.ConfigGenLemmas
/-
  C16 — Configuration files round-trip and migration to v2 preserves behaviour.
  Property theorems only; helper lemmas live in BufProofs/Lemmas/Config*.lean.

  `readV2 / readV1 / readLock / readWork` are the readers at the structured level (external
  structs -> accessor values, `none` = the reader rejects the document), `writeV2 / writeV1 /
  writeLock / writeWork` the writers (as coded AFTER the two `fix:` commits), `writeV2Old /
  writeV1Old` the writers as coded before.
-/
namespace BufProofs.C16
open BufModel.Path BufModel.Config

/-- A check configuration (lint or breaking; enabled with ignore / ignore_only paths, or
    disabled because an ignore path named the module itself) that any reader produced for a
    module at `d` is read back unchanged from what the writer emits for it — both when the
    section stays on the module (`r' = true`) and when it is hoisted to the top level
    (`r' = false`).  Covers path re-basing (join on write, rel on read), ignore_only filtering
    and the disabled-by-ignore encoding. -/
theorem check_roundtrip (e : ExtCheck) (d d' : Key) (r r' : Bool) (c : Check)
    (h : readCheck e d r = some c) : readCheck (extCheckOf c d') d' r' = some c :=
  readCheck_extCheckOf c d' r' (readCheck_wf e d r c h)

/-- buf.yaml v2, the round trip: for EVERY external document `e` the reader accepts — any number
    of modules, overlapping or equal module paths, hostile path spellings, includes/excludes,
    top-level or per-module lint/breaking sections (identical ones are hoisted by the writer),
    ignores that name a module itself (disabled checks), ignore_only, the single "." module (which
    the writer collapses), deps, plugins — reading what the writer produces for the configuration
    gives the same configuration: c ∈ range read → read (write c) = c. -/
theorem yaml_roundtrip (e : ExtV2) (c : BufYAML) (h : readV2 e = some c) : readV2 (writeV2 c) = some c :=
  readV2_writeV2 c (readV2_wf e c h)

/-- Writing is idempotent: writing the re-read configuration gives the same external document
    (hence, the YAML encoder being a function, the same bytes). -/
theorem write_idempotent (e : ExtV2) (c c' : BufYAML) (h : readV2 e = some c)
    (h' : readV2 (writeV2 c) = some c') : writeV2 c' = writeV2 c := by
  rw [yaml_roundtrip e c h] at h'; cases h'; rfl

/-- What `yaml_roundtrip` rests on, stated on its own: the round trip holds for every
    well-formed configuration (sorted antichains of includes/excludes/ignores, no "." ignore,
    modules sorted by path, unique names), and every configuration the reader produces is
    well-formed. -/
theorem yaml_roundtrip_v2_wf (c : BufYAML) (h : WFFileV2 c) : readV2 (writeV2 c) = some c :=
  readV2_writeV2 c h

theorem read_range_wf (e : ExtV2) (c : BufYAML) (h : readV2 e = some c) : WFFileV2 c := readV2_wf e c h

/-- buf.yaml v1beta1 / v1, partial: the lint and breaking sections of a v1beta1/v1 file round-trip
    (this is `check_roundtrip` at module directory "." lifted to the lint/breaking records,
    including the `ignore: [.]` = disabled encoding).  NOT proved here: the build section
    (v1 excludes, v1beta1 roots × excludes re-joining), name and deps of the v1 writer — those are
    tied to the implementation by the correspondence (`yaml v1 / v1beta1` protocol lines) only. -/
theorem yaml_roundtrip_v1_checks_partial (el : ExtLint) (eb : ExtBreaking) (l : Lint) (b : Breaking)
    (hl : readLint false el [] true = some l) (hb : readBreaking eb [] true = some b) :
    readLint false (extLintOf false l []) [] true = some l ∧
    readBreaking (extBreakingOf b []) [] true = some b :=
  ⟨readLint_extLintOf false l [] true (readLint_wf hl), readBreaking_extBreakingOf b [] true (readBreaking_wf hb)⟩

/-- buf.work.yaml: c ∈ range read → read (write c) = c. -/
theorem work_roundtrip (ps : List P) (ds : List Key) (h : readWork ps = some ds) :
    readWork (writeWork ds) = some ds := readWork_rt ps ds h

/-- buf.lock (v1beta1, v1, v2; dependencies with commits and pinned digests):
    c ∈ range read → read (write c) = c. -/
theorem lock_roundtrip (ver : Ver) (ds : List ExtLockDep) (l : BufLock) (h : readLock ver ds = some l) :
    readLock ver (writeLock l) = some l := readLock_rt ver ds l h

/-- Writing is idempotent for buf.work.yaml and buf.lock: the second write equals the first. -/
theorem work_write_idempotent (ps : List P) (ds ds' : List Key) (h : readWork ps = some ds)
    (h' : readWork (writeWork ds) = some ds') : writeWork ds' = writeWork ds := by
  rw [readWork_rt ps ds h] at h'; cases h'; rfl

theorem lock_write_idempotent (ver : Ver) (ds : List ExtLockDep) (l l' : BufLock) (h : readLock ver ds = some l)
    (h' : readLock ver (writeLock l) = some l') : writeLock l' = writeLock l := by
  rw [readLock_rt ver ds l h] at h'; cases h'; rfl

/-- Path re-basing, on validated paths (component lists of proper names): if module directory
    `m` contains `p` then `rel m (join m (rel m p)) = rel m p`, with the functions of
    BufModel.Path (normalpath.Rel / Join) on the rendered strings. -/
theorem rebase_inverse (m k : Key) (hm : AllProper m) (hk : AllProper k) :
    rel (renderKey m) (renderKey (m ++ k)) = some (renderKey k) ∧
    rel (renderKey m) (join [renderKey m, renderKey k]) = some (renderKey k) := by
  refine ⟨rel_keys hm hk, ?_⟩
  rw [join_keys hm hk]
  exact rel_keys hm hk

/-- The same on the component-list level the configuration model works on. -/
theorem rebase_inverse_keys (m p : Key) (h : m.isPrefixOf p = true) :
    (m ++ p.drop m.length).drop m.length = p.drop m.length ∧ m ++ p.drop m.length = p := by
  obtain ⟨t, rfl⟩ := List.isPrefixOf_iff_prefix.mp h
  simp

/-- Migration, path level: the v2 module created for root `r` of a v1/v1beta1 module found at
    `moduleDir` (path = moduleDir/root, the root's excludes kept) owns exactly the files that
    the root owned: for every file `f` below the module directory, membership before =
    membership after.  Partial: descriptors and lint/breaking results of the migrated workspace
    are compared by the correspondence/oracle only (protocompile and the rule implementations
    are not modelled), and lock-file merging is not modelled. -/
theorem migrate_preserves_targets_partial (moduleDir : Key) (r : Root) (f : Key) :
    inV2Module (migrateRoot moduleDir r) (moduleDir ++ f) = inRoot r f := by
  unfold inV2Module migrateRoot inRoot
  simp only [List.append_assoc, isPrefixOf_append_left]

/-- A file outside the module directory is never picked up by a migrated module. -/
theorem migrate_no_foreign_files (moduleDir : Key) (r : Root) (g : Key)
    (h : moduleDir.isPrefixOf g = false) : inV2Module (migrateRoot moduleDir r) g = false := by
  unfold inV2Module migrateRoot
  have : (moduleDir ++ r.root).isPrefixOf g = false := by
    cases hp : (moduleDir ++ r.root).isPrefixOf g with
    | false => rfl
    | true =>
      obtain ⟨t, rfl⟩ := List.isPrefixOf_iff_prefix.mp hp
      rw [List.append_assoc, isPrefixOf_self_append] at h; cases h
  simp [this]


/-! ### buf.gen.yaml (model: BufModel.ConfigGen; all three versions; the writer always writes v2) -/

/-- buf.gen.yaml, partial: for every document `e` (v1beta1, v1 or v2) the reader accepts whose
    configuration is representable in the v2 file the writer produces, read (write c) = c —
    plugins (remote / local / protoc_builtin, opts, strategy, include flags), managed mode
    (enabled flag, disable and override rules of every option, incl. the translations of the v1
    sections), inputs of every kind with their options.  EXCLUDED (`Representable`): exactly the
    five families in which the implementation itself does not round-trip (recorded findings, each
    with a `…_counterexample` below): plugin types/exclude_types and input exclude_types (not
    written by the v2 writer), v1 top-level types, v1 name-only plugins (kind resolved at write
    time), v1 local plugins whose name differs from the path. -/
theorem gen_roundtrip_partial (env : BufModel.ConfigGen.Env) (e : BufModel.ConfigGen.ExtGen) (c : BufModel.ConfigGen.GenFile)
    (h : BufModel.ConfigGen.readGen env e = some c) (hr : BufModel.ConfigGen.Representable c) :
    BufModel.ConfigGen.readGen env (.v2 (BufModel.ConfigGen.writeGen env c)) = some c :=
  BufModel.ConfigGen.gen_roundtrip_partial h hr

/-- v2 documents without plugin types and input exclude_types round-trip (hypothesis on the
    document only). -/
theorem gen_roundtrip_v2 (env : BufModel.ConfigGen.Env) (d : BufModel.ConfigGen.ExtGenV2) (c : BufModel.ConfigGen.GenFile)
    (h : BufModel.ConfigGen.readGen env (.v2 d) = some c)
    (hp : ∀ x ∈ d.plugins, x.types = [] ∧ x.excludeTypes = [])
    (hi : ∀ x ∈ d.inputs, x.excludeTypes = []) :
    BufModel.ConfigGen.readGen env (.v2 (BufModel.ConfigGen.writeGen env c)) = some c :=
  BufModel.ConfigGen.gen_roundtrip_v2 h hp hi

theorem gen_write_idempotent_partial (env : BufModel.ConfigGen.Env) (e : BufModel.ConfigGen.ExtGen) (c c' : BufModel.ConfigGen.GenFile)
    (h : BufModel.ConfigGen.readGen env e = some c) (hr : BufModel.ConfigGen.Representable c)
    (h' : BufModel.ConfigGen.readGen env (.v2 (BufModel.ConfigGen.writeGen env c)) = some c') :
    BufModel.ConfigGen.writeGen env c' = BufModel.ConfigGen.writeGen env c :=
  BufModel.ConfigGen.gen_write_idempotent_partial h hr h'

/-- The five families that do not round-trip as coded (recorded findings). -/
theorem gen_not_roundtrip_counterexample :
    (∃ e, (BufModel.ConfigGen.readGen BufModel.ConfigGen.env0 e).isSome = true ∧
        BufModel.ConfigGen.reread BufModel.ConfigGen.env0 e ≠ BufModel.ConfigGen.readGen BufModel.ConfigGen.env0 e) :=
  ⟨_, BufModel.ConfigGen.gen_roundtrip_plugin_types_counterexample⟩

/-! ### the recorded defects of the pre-fix writer -/

def k (s : String) : Key := [s.toList]

/-- `modules: [{path: ., includes: [foo]}]` as read. -/
def includesWitness : ExtV2 :=
  ⟨⟨[], true⟩, [⟨P.ok [], ⟨[], true⟩, [P.ok (k "foo")], [], ExtLint.zero, ExtBreaking.zero⟩], [], ExtLint.zero, ExtBreaking.zero, []⟩

/-- Pre-fix: the single "." module is collapsed although it has includes; the written file has
    no modules key and re-reads with an empty include list. -/
theorem includes_dropped_counterexample :
    ∃ c, readV2 includesWitness = some c ∧ (writeV2Old c).modules = [] ∧ readV2 (writeV2Old c) ≠ some c := by
  refine ⟨_, rfl, ?_, ?_⟩ <;> decide

/-- `modules: [{path: proto}, {path: vendor}]`, `lint: {ignore: [vendor]}` as read. -/
def disabledWitness : ExtV2 :=
  ⟨⟨[], true⟩, [⟨P.ok (k "proto"), ⟨[], true⟩, [], [], ExtLint.zero, ExtBreaking.zero⟩,
                 ⟨P.ok (k "vendor"), ⟨[], true⟩, [], [], ExtLint.zero, ExtBreaking.zero⟩], [],
    ⟨⟨[], [], [P.ok (k "vendor")], [], false⟩, [], false, false, false, [], false⟩, ExtBreaking.zero, []⟩

/-- Pre-fix: the module whose lint checks were switched off is written without the ignore and
    re-reads as enabled. -/
theorem disabled_dropped_counterexample :
    ∃ c c', readV2 disabledWitness = some c ∧ readV2 (writeV2Old c) = some c' ∧
      (c.modules.map (·.lint.chk.disabled)) = [false, true] ∧
      (c'.modules.map (·.lint.chk.disabled)) = [false, false] := by
  refine ⟨_, _, rfl, rfl, ?_, ?_⟩ <;> decide

/-- …and the same for a v1 file `lint: {ignore: [.]}`. -/
theorem disabled_dropped_v1_counterexample :
    ∃ c c', readV1 .v1 ⟨⟨[], true⟩, [], [], [], ⟨⟨[], [], [P.ok []], [], false⟩, [], false, false, false, [], false⟩, ExtBreaking.zero⟩ = some c ∧
      readV1 .v1 (writeV1Old c) = some c' ∧ c ≠ c' := by
  refine ⟨_, _, rfl, rfl, ?_⟩; decide

/-! ### non-vacuity -/

-- the two witnesses do round-trip through the fixed writer
example : ∃ c, readV2 includesWitness = some c ∧ readV2 (writeV2 c) = some c := ⟨_, rfl, by decide⟩
example : ∃ c, readV2 disabledWitness = some c ∧ readV2 (writeV2 c) = some c := ⟨_, rfl, by decide⟩
-- a hoisted configuration: two modules with the same lint section
example : ∃ c, readV2 ⟨⟨[], true⟩, [⟨P.ok (k "a"), ⟨[], true⟩, [], [], ExtLint.zero, ExtBreaking.zero⟩,
      ⟨P.ok [k "a" |>.head!, "b".toList], ⟨[], true⟩, [], [], ExtLint.zero, ExtBreaking.zero⟩], [],
      ⟨⟨["BASIC".toList], [], [], [], false⟩, [], false, false, false, [], true⟩, ExtBreaking.zero, []⟩ = some c ∧
    (writeV2 c).lint.chk.use = ["BASIC".toList] ∧ readV2 (writeV2 c) = some c := ⟨_, rfl, by decide, by decide⟩
example : readWork [P.ok (k "proto"), P.ok (k "api")] = some [k "api", k "proto"] := by decide
example : readWork [P.ok (k "proto"), P.ok [("proto").toList, "x".toList]] = none := by decide
example : inRoot ⟨k "src", [], [k "gen"]⟩ ["src".toList, "a.proto".toList] = true := by decide
example : inRoot ⟨k "src", [], [k "gen"]⟩ ["src".toList, "gen".toList, "a.proto".toList] = false := by decide

end BufProofs.C16
