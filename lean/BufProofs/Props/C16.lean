import BufProofs.Lemmas.ConfigRange
import BufProofs.Lemmas.ConfigGenLemmas
import BufProofs.Lemmas.ConfigGenNorm
import BufProofs.Lemmas.ConfigMigrate
import BufProofs.Lemmas.ConfigStrings
import BufProofs.Lemmas.ConfigLock
import BufProofs.Lemmas.ConfigV1
/-
  C16 — Configuration files round-trip and migration to v2 preserves behaviour.
  Property theorems only; helper lemmas live in BufProofs/Lemmas/Config*.lean.

  `readV2 / readV1 / readLockFile / readWork` are the readers at the structured level (external
  structs -> accessor values, `none` = the reader rejects the document), `writeV2 / writeV1 /
  writeLockFile / writeWork` the writers (as coded AFTER the two `fix:` commits), `writeV2Old /
  writeV1Old` the writers as coded before.  Migration: `equivLint / equivBreaking` the check-config
  translation as far as the "switched off" flag goes AFTER the fix, `equivLintOld /
  equivBreakingOld` before.  buf.gen.yaml: `BufModel.ConfigGen.readGen / writeGen`.
-/
namespace BufProofs.C16
open BufModel.Path BufModel.Config

/-! ### buf.yaml -/

/-- A check configuration (lint or breaking; enabled with ignore / ignore_only paths, or
    disabled because an ignore path named the module itself) that any reader produced for a
    module at `d` is read back unchanged from what the writer emits for it — both when the
    section stays on the module (`r' = true`) and when it is hoisted to the top level
    (`r' = false`).  Covers path re-basing (join on write, rel on read), ignore_only filtering
    and the disabled-by-ignore encoding. -/
theorem check_roundtrip (e : ExtCheck) (d d' : Key) (r r' : Bool) (c : Check)
    (h : readCheck e d r = some c) : readCheck (extCheckOf c d') d' r' = some c :=
  readCheck_extCheckOf c d' r' (readCheck_wf e d r c h)

/-- buf.yaml v2, the round trip: for EVERY external document `e` the reader accepts — any number
    of modules, overlapping or equal module paths, hostile path spellings, includes/excludes,
    top-level or per-module lint/breaking sections (identical ones are hoisted by the writer),
    ignores that name a module itself (disabled checks), ignore_only, the single "." module (which
    the writer collapses), deps, plugins — reading what the writer produces for the configuration
    gives the same configuration: c ∈ range read → read (write c) = c. -/
theorem yaml_roundtrip (e : ExtV2) (c : BufYAML) (h : readV2 e = some c) : readV2 (writeV2 c) = some c :=
  readV2_writeV2 c (readV2_wf e c h)

/-- Writing is idempotent: writing the re-read configuration gives the same external document
    (hence, the YAML encoder being a function, the same bytes). -/
theorem write_idempotent (e : ExtV2) (c c' : BufYAML) (h : readV2 e = some c)
    (h' : readV2 (writeV2 c) = some c') : writeV2 c' = writeV2 c := by
  rw [yaml_roundtrip e c h] at h'; cases h'; rfl

/-- What `yaml_roundtrip` rests on, stated on its own: the round trip holds for every
    well-formed configuration (sorted antichains of includes/excludes/ignores, no "." ignore,
    modules sorted by path, unique names), and every configuration the reader produces is
    well-formed. -/
theorem yaml_roundtrip_v2_wf (c : BufYAML) (h : WFFileV2 c) : readV2 (writeV2 c) = some c :=
  readV2_writeV2 c h

theorem read_range_wf (e : ExtV2) (c : BufYAML) (h : readV2 e = some c) : WFFileV2 c := readV2_wf e c h

/-- **The round trip through the written strings** (buf.yaml v2).  The struct-level model hands
    the reader a path as `P` (= the outcome of NormalizeAndValidate on the string in the
    document); the implementation writes strings (`normalpath.Join(moduleDir, rel)`) and
    validates them again on read.  For every document `e` whose paths came from strings
    (`ProperP`: each `.ok` path is a list of proper names — `properP_normP`: always true of
    `normP s`), with `c` what the reader makes of it: rendering every path of the written
    document to its string and parsing it back (`mapP reparse`, `reparse p = normP p.render`)
    gives the written document again, hence the reader, fed the STRINGS of the written file,
    returns `c`. -/
theorem yaml_roundtrip_strings (e : ExtV2) (c : BufYAML) (he : e.AllP ProperP) (h : readV2 e = some c) :
    (writeV2 c).mapP reparse = writeV2 c ∧ readV2 ((writeV2 c).mapP reparse) = some c :=
  readV2_writeV2_strings e c he h

/-- The path-level facts the previous theorem is built on, in terms of the string functions of
    BufModel.Path (the C13 model of normalpath): for validated module directory `d` and relative
    path `k`,
    (1) the string the model renders for the written path is `Join(d, k)`;
    (2) NormalizeAndValidate reads that string back as the key `d ++ k`;
    (3) the reader's `EqualsOrContainsPath(d, ·)` / `Rel(d, ·)` on it are `isPrefixOf` / dropping
        the prefix — i.e. give back `k`.
    This is what ties `extCheckOf` / `relPaths` (list operations) to Join → string →
    NormalizeAndValidate → Rel. -/
theorem written_path_reads_back (d k : Key) (hd : AllProper d) (hk : AllProper k) :
    (P.ok (d ++ k)).render = join [renderKey d, renderKey k] ∧
    normP (join [renderKey d, renderKey k]) = .ok (d ++ k) ∧
    equalsOrContainsPath (renderKey d) (join [renderKey d, renderKey k]) = true ∧
    rel (renderKey d) (join [renderKey d, renderKey k]) = some (renderKey ((d ++ k).drop d.length)) ∧
    (d ++ k).drop d.length = k := by
  have hdk : AllProper (d ++ k) := allProper_append.mpr ⟨hd, hk⟩
  refine ⟨render_written hd hk, normP_join hd hk, ?_, ?_, drop_append_self d k⟩
  · rw [join_keys hd hk, ecp_renderKey hd hdk]; exact isPrefixOf_self_append d k
  · rw [join_keys hd hk]; exact rel_renderKey hd hdk (isPrefixOf_self_append d k)

/-- Conversely every path the reader accepts is a list of proper names and the accepted string
    normalises to its rendering (so the hypotheses `AllProper` above are met by everything the
    readers ever see). -/
theorem accepted_path_is_proper (s : Str) (k : Key) (h : normP s = .ok k) :
    AllProper k ∧ normalizeAndValidate s = .ok (renderKey k) ∧ normP (renderKey k) = .ok k :=
  ⟨(normP_ok h).1, (normP_ok h).2.2, normP_renderKey (normP_ok h).1⟩

/-- buf.yaml v1beta1 / v1, the round trip in full: for every external v1beta1 / v1 document the
    reader accepts (name, deps, build roots and excludes, lint, breaking) reading what the writer
    produces gives the same configuration. -/
theorem yaml_roundtrip_v1 (ver : Ver) (hv : ver ≠ .v2) (e : ExtV1) (c : BufYAML) (h : readV1 ver e = some c) :
    readV1 ver (writeV1 c) = some c :=
  readV1_writeV1 ver hv e c h

/-- …and writing is idempotent for v1beta1 / v1 files: write ∘ read ∘ write = write. -/
theorem write_idempotent_v1 (ver : Ver) (hv : ver ≠ .v2) (e : ExtV1) (c c' : BufYAML) (h : readV1 ver e = some c)
    (h' : readV1 ver (writeV1 c) = some c') : writeV1 c' = writeV1 c := by
  rw [yaml_roundtrip_v1 ver hv e c h] at h'; cases h'; rfl

/-- The lint and breaking sections of a v1beta1/v1 file on their own (this is `check_roundtrip`
    at module directory "." lifted to the lint/breaking records, including the `ignore: [.]` =
    disabled encoding).  Partial by itself — the whole file is `yaml_roundtrip_v1`. -/
theorem yaml_roundtrip_v1_checks_partial (el : ExtLint) (eb : ExtBreaking) (l : Lint) (b : Breaking)
    (hl : readLint false el [] true = some l) (hb : readBreaking eb [] true = some b) :
    readLint false (extLintOf false l []) [] true = some l ∧
    readBreaking (extBreakingOf b []) [] true = some b :=
  ⟨readLint_extLintOf false l [] true (readLint_wf hl), readBreaking_extBreakingOf b [] true (readBreaking_wf hb)⟩

/-! ### buf.work.yaml, buf.lock -/

/-- buf.work.yaml: c ∈ range read → read (write c) = c. -/
theorem work_roundtrip (ps : List P) (ds : List Key) (h : readWork ps = some ds) :
    readWork (writeWork ds) = some ds := readWork_rt ps ds h

/-- …and through the written strings. -/
theorem work_roundtrip_strings (ps : List P) (ds : List Key) (hp : ∀ p ∈ ps, ProperP p)
    (h : readWork ps = some ds) :
    (writeWork ds).map reparse = writeWork ds ∧ readWork ((writeWork ds).map reparse) = some ds :=
  readWork_writeWork_strings ps ds hp h

/-- buf.lock (v1beta1, v1, v2): dependencies with commits and pinned digests AND (v2) the
    `plugins:` section with its pinned p1 digests: c ∈ range read → read (write c) = c. -/
theorem lock_roundtrip (ver : Ver) (ds : List ExtLockDep) (ps : List ExtLockPlugin) (f : BufLockFile)
    (h : readLockFile ver ds ps = some f) :
    readLockFile ver (writeLockFile f).1 (writeLockFile f).2 = some f := readLockFile_rt ver ds ps f h

/-- Writing is idempotent for buf.work.yaml and buf.lock: the second write equals the first. -/
theorem work_write_idempotent (ps : List P) (ds ds' : List Key) (h : readWork ps = some ds)
    (h' : readWork (writeWork ds) = some ds') : writeWork ds' = writeWork ds := by
  rw [readWork_rt ps ds h] at h'; cases h'; rfl

theorem lock_write_idempotent (ver : Ver) (ds : List ExtLockDep) (ps : List ExtLockPlugin) (f f' : BufLockFile)
    (h : readLockFile ver ds ps = some f)
    (h' : readLockFile ver (writeLockFile f).1 (writeLockFile f).2 = some f') :
    writeLockFile f' = writeLockFile f := by
  rw [readLockFile_rt ver ds ps f h] at h'; cases h'; rfl

/-! ### path re-basing -/

/-- Path re-basing, on validated paths (component lists of proper names): if module directory
    `m` contains `p` then `rel m (join m (rel m p)) = rel m p`, with the functions of
    BufModel.Path (normalpath.Rel / Join) on the rendered strings.  (`written_path_reads_back`
    adds NormalizeAndValidate and connects it to the keys the configuration model works on.) -/
theorem rebase_inverse (m k : Key) (hm : AllProper m) (hk : AllProper k) :
    rel (renderKey m) (renderKey (m ++ k)) = some (renderKey k) ∧
    rel (renderKey m) (join [renderKey m, renderKey k]) = some (renderKey k) := by
  refine ⟨rel_keys hm hk, ?_⟩
  rw [join_keys hm hk]
  exact rel_keys hm hk

/-- The same on the component-list level the configuration model works on. -/
theorem rebase_inverse_keys (m p : Key) (h : m.isPrefixOf p = true) :
    (m ++ p.drop m.length).drop m.length = p.drop m.length ∧ m ++ p.drop m.length = p := by
  obtain ⟨t, rfl⟩ := List.isPrefixOf_iff_prefix.mp h
  simp

/-! ### migration (path level, whole workspace) -/

/-- Before sorting and writing: for EVERY v1/v1beta1 workspace `ws` (any module directories, any
    roots, includes, excludes — no hypothesis) and every file `f`, the list of (module, root,
    root-relative path) under which the shared workspace targeting (`owners`, = MapOnPrefix(dir),
    MapOnPrefix(root), `.proto` / excludes / includes matchers) knows `f` in the migrated module
    list is the list for the v1 workspace with each (dir, root, p) renamed (dir/root, ".", p) —
    same order, same multiplicity. -/
theorem migrate_owners_exact (trL : Lint → Lint) (trB : Breaking → Breaking) (ws : List Module) (f : Key) :
    owners (migrateWorkspace trL trB ws) f = (owners ws f).map migratedOwner :=
  owners_migrateWorkspace trL trB ws f

/-- Migration, path level, whole workspace, through the file that is written.  `ws`: the module
    configs the v1 workspace code uses (one per buf.work.yaml directory / migrated module
    directory; `dirPath` relative to the destination directory).  If the buf.yaml v2 the migrator
    builds (`NewBufYAMLFile(v2, one module per root, …)`, which sorts the modules by path) is
    `c`, then (1) the v2 reader returns exactly `c` from what the v2 writer writes, and (2) for
    every file path `f` the (module, root, root-relative path) triples under which the v2
    workspace knows `f` are — up to the order of the modules — those of the v1 workspace renamed
    (dir, root, p) ↦ (dir/root, ".", p): same files, same module-relative paths, excludes and
    includes respected on both sides.
    ASSUMED: `hr` every v1 root's excludes/includes are as the v1 reader produces them
    (discharged by `migrate_roots_assumption_holds`); `hl`, `hb` the translated lint/breaking
    configs (`equivalentLint/BreakingConfigInV2`, not modelled: arbitrary functions `trL`, `trB`)
    are well-formed check configs.
    PARTIAL w.r.t. the property clause: descriptors and lint/breaking results of the migrated
    workspace are compared by the correspondence/oracle only (protocompile, rule implementations
    and rule-id translation are not modelled — and the recorded findings show that clause is
    false in the implementation); dependency / lock-file merging is not modelled. -/
theorem migrate_preserves_targets_partial (trL : Lint → Lint) (trB : Breaking → Breaking) (ws : List Module)
    (deps : List Dep) (c : BufYAML)
    (hr : ∀ m ∈ ws, WFRootsV1 m) (hl : ∀ m ∈ ws, WFLint (trL m.lint))
    (hb : ∀ m ∈ ws, WFBreaking (trB m.breaking))
    (h : migrateFile trL trB ws deps = some c) :
    readV2 (writeV2 c) = some c ∧
      ∀ f, (owners c.modules f).Perm ((owners ws f).map migratedOwner) :=
  migrate_workspace_owners trL trB ws deps c hr hl hb h

/-- Migration keeps the checks of a module switched off (AFTER the fix
    handoff/C16-fix-migrate-disabled-module.diff; model `equivLint` / `equivBreaking`:
    `equivalentCheckConfigInV2` returns `NewDisabledCheckConfig(v2)` for a disabled config and
    translates only enabled ones).  For the buf.yaml v2 `c` the migrator builds for the
    v1/v1beta1 workspace `ws`: (1) `c` is read back unchanged from what the v2 writer writes —
    the writer spells a disabled section `ignore: [<module dir>]` and the reader turns that into
    "disabled" again (`check_roundtrip`) — and (2) the modules of `c` are exactly the
    (module, root) pairs of `ws`, each at `dir/root` and each with the SAME lint-off and
    breaking-off flags as the v1 module it came from (both directions).
    ASSUMED: `hL`/`hB` the rule-id translation `trL`/`trB` of an ENABLED config builds an enabled
    config (it ends in `NewEnabledCheckConfig`); `hl`/`hb` it builds a well-formed one; `hr` as in
    `migrate_preserves_targets_partial`.  The translation itself (rule tables) is not modelled.
    Before the fix this was false: `migrate_reenables_disabled_counterexample`. -/
theorem migrate_keeps_disabled (trL trB : Check → Check) (ws : List Module) (deps : List Dep) (c : BufYAML)
    (hL : ∀ x, x.disabled = false → (trL x).disabled = false)
    (hB : ∀ x, x.disabled = false → (trB x).disabled = false)
    (hr : ∀ m ∈ ws, WFRootsV1 m)
    (hl : ∀ m ∈ ws, m.lint.chk.disabled = false → WFCheck (trL m.lint.chk))
    (hb : ∀ m ∈ ws, m.breaking.chk.disabled = false → WFCheck (trB m.breaking.chk))
    (h : migrateFile (equivLint trL) (equivBreaking trB) ws deps = some c) :
    readV2 (writeV2 c) = some c ∧
      (∀ m' ∈ c.modules, ∃ m ∈ ws, ∃ r ∈ m.roots,
          offFlags m' = (m.dirPath ++ r.root, m.lint.chk.disabled, m.breaking.chk.disabled)) ∧
      (∀ m ∈ ws, ∀ r ∈ m.roots, ∃ m' ∈ c.modules,
          offFlags m' = (m.dirPath ++ r.root, m.lint.chk.disabled, m.breaking.chk.disabled)) :=
  migrate_workspace_disabled trL trB ws deps c hL hB hr hl hb h

/-- The migrator as coded BEFORE the fix (`equivLintOld` / `equivBreakingOld`: every check config
    goes through the translation, which builds an enabled config): a v1 module whose lint and
    breaking checks are switched off with `ignore: [.]` migrates to a v2 module with both switched
    on (recorded classes `migrate-lint-changed-disabled-module`,
    `migrate-breaking-changed-disabled-module`). -/
theorem migrate_reenables_disabled_counterexample :
    ∃ c, migrateFile (equivLintOld enabledOf) (equivBreakingOld enabledOf)
           [⟨["vendor".toList], [], [⟨[], [], []⟩],
             ⟨Check.disabledCfg, [], false, false, false, [], false⟩, ⟨Check.disabledCfg, false⟩⟩] [] = some c ∧
      c.modules.map offFlags = [(["vendor".toList], false, false)] := ⟨_, rfl, by decide⟩

/-- The assumption `hr` above holds for everything the v1beta1 / v1 reader returns. -/
theorem migrate_roots_assumption_holds (ver : Ver) (e : ExtV1) (c : BufYAML) (h : readV1 ver e = some c) :
    ∀ m ∈ c.modules, WFRootsV1 m := readV1_roots_wf h

/-- An owner triple spells the file: a module never picks up a file outside its directory/root
    (before or after migration), and the module it is attributed to is one of the workspace. -/
theorem migrate_no_foreign_files (ms : List Module) (f : Key) (o : Key × Key × Key) (h : o ∈ owners ms f) :
    f = o.1 ++ o.2.1 ++ o.2.2 ∧ ∃ m ∈ ms, m.dirPath = o.1 := owners_spell h

/-! ### buf.gen.yaml (model: BufModel.ConfigGen; all three versions; the writer always writes v2) -/

/-- **buf.gen.yaml: the exact effect of write + read, for EVERY accepted document of every
    version.**  `read (write c) = normalise env c`, where `normalise` (BufModel/ConfigGen.lean) is
    explicit: plugin `types`/`exclude_types` ↦ [], Local plugin name ↦ space-joined path,
    LocalOrProtocBuiltin plugin ↦ Local `protoc-gen-<name>` or ProtocBuiltin `<name>` (decided at
    write time by exec.LookPath and protoc's builtin list), v1 `types.include` ↦ [], input
    `exclude_types` ↦ []; every other field of every plugin, managed rule and input is preserved.
    The property clause "yields the same configuration" is FALSE in the implementation exactly
    where `normalise env c ≠ c` (five recorded finding families); see `gen_roundtrip_iff`. -/
theorem gen_reread_eq_normalise (env : BufModel.ConfigGen.Env) (e : BufModel.ConfigGen.ExtGen)
    (c : BufModel.ConfigGen.GenFile) (h : BufModel.ConfigGen.readGen env e = some c) :
    BufModel.ConfigGen.readGen env (.v2 (BufModel.ConfigGen.writeGen env c)) =
      some (BufModel.ConfigGen.normalise env c) :=
  BufModel.ConfigGen.gen_reread_eq_normalise h

/-- `normalise` is idempotent (a projection) … -/
theorem gen_normalise_idempotent (env : BufModel.ConfigGen.Env) (c : BufModel.ConfigGen.GenFile) :
    BufModel.ConfigGen.normalise env (BufModel.ConfigGen.normalise env c) = BufModel.ConfigGen.normalise env c :=
  BufModel.ConfigGen.normalise_idem env c

/-- … so from the second round trip on nothing changes any more: for every accepted document, the
    re-read configuration `c'` is itself read back unchanged. -/
theorem gen_second_roundtrip (env : BufModel.ConfigGen.Env) (e : BufModel.ConfigGen.ExtGen)
    (c c' : BufModel.ConfigGen.GenFile) (h : BufModel.ConfigGen.readGen env e = some c)
    (h' : BufModel.ConfigGen.readGen env (.v2 (BufModel.ConfigGen.writeGen env c)) = some c') :
    BufModel.ConfigGen.readGen env (.v2 (BufModel.ConfigGen.writeGen env c')) = some c' := by
  rw [BufModel.ConfigGen.gen_reread_eq_normalise h']
  rw [BufModel.ConfigGen.gen_reread_eq_normalise h] at h'
  injection h' with h'
  rw [← h', BufModel.ConfigGen.normalise_idem]

/-- Exactly when the round trip is the identity: for a configuration a reader produced,
    `read (write c) = c` iff `c` is `Representable` (no undetermined plugin kind, local plugin
    names equal to the joined path, no plugin types/exclude_types, no v1 types.include, no input
    exclude_types). -/
theorem gen_roundtrip_iff (env : BufModel.ConfigGen.Env) (e : BufModel.ConfigGen.ExtGen)
    (c : BufModel.ConfigGen.GenFile) (h : BufModel.ConfigGen.readGen env e = some c) :
    BufModel.ConfigGen.readGen env (.v2 (BufModel.ConfigGen.writeGen env c)) = some c ↔
      BufModel.ConfigGen.Representable c :=
  BufModel.ConfigGen.gen_roundtrip_iff h

/-- buf.gen.yaml identity round trip, partial: `read (write c) = c` for the accepted documents
    whose configuration is `Representable`.  COVERAGE (each an `iff` below, stated on the
    document): v2 documents — exactly those without plugin `types`/`exclude_types` and input
    `exclude_types` (`gen_roundtrip_v2_iff`); v1 documents — exactly those without `types.include`
    whose plugins are all remote, or local with identifier = joined path, or protoc builtins with
    `protoc_path` (`gen_roundtrip_v1_iff`): NOT the ordinary `plugin: go` / `name: go`;
    v1beta1 documents — only those in which every plugin has `path` and `name = path`
    (`gen_roundtrip_v1beta1_iff`): no ordinary v1beta1 document.  For all other accepted
    documents the exact statement is `gen_reread_eq_normalise`. -/
theorem gen_roundtrip_partial (env : BufModel.ConfigGen.Env) (e : BufModel.ConfigGen.ExtGen) (c : BufModel.ConfigGen.GenFile)
    (h : BufModel.ConfigGen.readGen env e = some c) (hr : BufModel.ConfigGen.Representable c) :
    BufModel.ConfigGen.readGen env (.v2 (BufModel.ConfigGen.writeGen env c)) = some c :=
  BufModel.ConfigGen.gen_roundtrip_partial h hr

/-- v2 documents: identity round trip iff no plugin `types`/`exclude_types` and no input
    `exclude_types` (hypothesis on the document only). -/
theorem gen_roundtrip_v2_iff (env : BufModel.ConfigGen.Env) (d : BufModel.ConfigGen.ExtGenV2) (c : BufModel.ConfigGen.GenFile)
    (h : BufModel.ConfigGen.readGen env (.v2 d) = some c) :
    BufModel.ConfigGen.readGen env (.v2 (BufModel.ConfigGen.writeGen env c)) = some c ↔
      ((∀ x ∈ d.plugins, x.types = [] ∧ x.excludeTypes = []) ∧ ∀ x ∈ d.inputs, x.excludeTypes = []) :=
  BufModel.ConfigGen.gen_roundtrip_v2_iff h

/-- v1 documents: identity round trip iff no `types.include` and every plugin entry is
    `RepPluginV1` (remote / local with identifier = joined path / protoc builtin with protoc_path). -/
theorem gen_roundtrip_v1_iff (env : BufModel.ConfigGen.Env) (d : BufModel.ConfigGen.ExtGenV1) (c : BufModel.ConfigGen.GenFile)
    (h : BufModel.ConfigGen.readGen env (.v1 d) = some c) :
    BufModel.ConfigGen.readGen env (.v2 (BufModel.ConfigGen.writeGen env c)) = some c ↔
      (d.typesInclude = [] ∧ ∀ x ∈ d.plugins, BufModel.ConfigGen.RepPluginV1 env x) :=
  BufModel.ConfigGen.gen_roundtrip_v1_iff h

/-- v1beta1 documents: identity round trip iff every plugin has a `path` and `name = path`. -/
theorem gen_roundtrip_v1beta1_iff (env : BufModel.ConfigGen.Env) (d : BufModel.ConfigGen.ExtGenV1Beta1) (c : BufModel.ConfigGen.GenFile)
    (h : BufModel.ConfigGen.readGen env (.v1beta1 d) = some c) :
    BufModel.ConfigGen.readGen env (.v2 (BufModel.ConfigGen.writeGen env c)) = some c ↔
      ∀ x ∈ d.plugins, x.path ≠ [] ∧ x.name = x.path :=
  BufModel.ConfigGen.gen_roundtrip_v1beta1_iff h

/-- Writing buf.gen.yaml is idempotent for EVERY accepted document of every version (no
    representability hypothesis): the second write equals the first. -/
theorem gen_write_idempotent (env : BufModel.ConfigGen.Env) (e : BufModel.ConfigGen.ExtGen) (c c' : BufModel.ConfigGen.GenFile)
    (h : BufModel.ConfigGen.readGen env e = some c)
    (h' : BufModel.ConfigGen.readGen env (.v2 (BufModel.ConfigGen.writeGen env c)) = some c') :
    BufModel.ConfigGen.writeGen env c' = BufModel.ConfigGen.writeGen env c :=
  BufModel.ConfigGen.gen_write_idempotent h h'

/-- A document on which the implementation's round trip is not the identity (one of the five
    recorded families; the others are `decide` witnesses in ConfigGenLemmas). -/
theorem gen_not_roundtrip_counterexample :
    (∃ e, (BufModel.ConfigGen.readGen BufModel.ConfigGen.env0 e).isSome = true ∧
        BufModel.ConfigGen.reread BufModel.ConfigGen.env0 e ≠ BufModel.ConfigGen.readGen BufModel.ConfigGen.env0 e) :=
  ⟨_, BufModel.ConfigGen.gen_roundtrip_plugin_types_counterexample⟩

/-! ### the recorded defects of the pre-fix writer -/

def k (s : String) : Key := [s.toList]

/-- `modules: [{path: ., includes: [foo]}]` as read. -/
def includesWitness : ExtV2 :=
  ⟨⟨[], true⟩, [⟨P.ok [], ⟨[], true⟩, [P.ok (k "foo")], [], ExtLint.zero, ExtBreaking.zero⟩], [], ExtLint.zero, ExtBreaking.zero, []⟩

/-- Pre-fix: the single "." module is collapsed although it has includes; the written file has
    no modules key and re-reads with an empty include list. -/
theorem includes_dropped_counterexample :
    ∃ c, readV2 includesWitness = some c ∧ (writeV2Old c).modules = [] ∧ readV2 (writeV2Old c) ≠ some c := by
  refine ⟨_, rfl, ?_, ?_⟩ <;> decide

/-- `modules: [{path: proto}, {path: vendor}]`, `lint: {ignore: [vendor]}` as read. -/
def disabledWitness : ExtV2 :=
  ⟨⟨[], true⟩, [⟨P.ok (k "proto"), ⟨[], true⟩, [], [], ExtLint.zero, ExtBreaking.zero⟩,
                 ⟨P.ok (k "vendor"), ⟨[], true⟩, [], [], ExtLint.zero, ExtBreaking.zero⟩], [],
    ⟨⟨[], [], [P.ok (k "vendor")], [], false⟩, [], false, false, false, [], false⟩, ExtBreaking.zero, []⟩

/-- Pre-fix: the module whose lint checks were switched off is written without the ignore and
    re-reads as enabled. -/
theorem disabled_dropped_counterexample :
    ∃ c c', readV2 disabledWitness = some c ∧ readV2 (writeV2Old c) = some c' ∧
      (c.modules.map (·.lint.chk.disabled)) = [false, true] ∧
      (c'.modules.map (·.lint.chk.disabled)) = [false, false] := by
  refine ⟨_, _, rfl, rfl, ?_, ?_⟩ <;> decide

/-- …and the same for a v1 file `lint: {ignore: [.]}`. -/
theorem disabled_dropped_v1_counterexample :
    ∃ c c', readV1 .v1 ⟨⟨[], true⟩, [], [], [], ⟨⟨[], [], [P.ok []], [], false⟩, [], false, false, false, [], false⟩, ExtBreaking.zero⟩ = some c ∧
      readV1 .v1 (writeV1Old c) = some c' ∧ c ≠ c' := by
  refine ⟨_, _, rfl, rfl, ?_⟩; decide

/-! ### non-vacuity -/

-- the two witnesses do round-trip through the fixed writer
example : ∃ c, readV2 includesWitness = some c ∧ readV2 (writeV2 c) = some c := ⟨_, rfl, by decide⟩
example : ∃ c, readV2 disabledWitness = some c ∧ readV2 (writeV2 c) = some c := ⟨_, rfl, by decide⟩
-- a hoisted configuration: two modules with the same lint section
example : ∃ c, readV2 ⟨⟨[], true⟩, [⟨P.ok (k "a"), ⟨[], true⟩, [], [], ExtLint.zero, ExtBreaking.zero⟩,
      ⟨P.ok [k "a" |>.head!, "b".toList], ⟨[], true⟩, [], [], ExtLint.zero, ExtBreaking.zero⟩], [],
      ⟨⟨["BASIC".toList], [], [], [], false⟩, [], false, false, false, [], true⟩, ExtBreaking.zero, []⟩ = some c ∧
    (writeV2 c).lint.chk.use = ["BASIC".toList] ∧ readV2 (writeV2 c) = some c := ⟨_, rfl, by decide, by decide⟩
example : readWork [P.ok (k "proto"), P.ok (k "api")] = some [k "api", k "proto"] := by decide
example : readWork [P.ok (k "proto"), P.ok [("proto").toList, "x".toList]] = none := by decide

-- `yaml_roundtrip_strings`: the hypotheses hold for a document built from strings; the path
-- "./proto//x/" is read as the key [proto, x] and written back as "proto/x"
example : normP "./proto//x/".toList = .ok ["proto".toList, "x".toList] := by decide
example : (P.ok ["proto".toList, "x".toList]).render = "proto/x".toList := by decide
example : disabledWitness.AllP ProperP := by
  refine ⟨?_, ⟨?_, ?_⟩, ⟨?_, ?_⟩⟩ <;> simp [disabledWitness, ExtLint.zero, ExtBreaking.zero, ExtCheck.zero, ExtModule.AllP, ExtCheck.AllP, ProperP, k] <;> decide

-- `rebase_inverse` / `written_path_reads_back`: hypotheses satisfiable, conclusion concrete
example : AllProper (k "proto") ∧ AllProper (k "vendor") := by decide
example : rel "proto".toList (join ["proto".toList, "vendor".toList]) = some "vendor".toList := by decide
example : normP (join ["proto".toList, "vendor".toList]) = .ok ["proto".toList, "vendor".toList] := by decide

-- `yaml_roundtrip_v1` / `yaml_roundtrip_v1_checks_partial`: a v1beta1 file with two roots and an
-- exclude below one of them, lint disabled by `ignore: [.]`
def v1beta1Witness : ExtV1 :=
  ⟨⟨[], true⟩, [], [P.ok (k "src"), P.ok (k "lib")], [P.ok ["src".toList, "gen".toList]],
    ⟨⟨[], [], [P.ok []], [], false⟩, [], false, false, false, [], false⟩,
    ⟨⟨["FILE".toList], [], [P.ok ["src".toList, "old".toList]], [], false⟩, true⟩⟩
example : ∃ c, readV1 .v1beta1 v1beta1Witness = some c ∧
    (c.modules.map fun m => m.roots.map fun r => (r.root, r.excludes)) = [[(k "lib", []), (k "src", [k "gen"])]] ∧
    (c.modules.map (·.lint.chk.disabled)) = [true] ∧
    readV1 .v1beta1 (writeV1 c) = some c := ⟨_, rfl, by decide, by decide, by decide⟩
example : ∃ l b, readLint false v1beta1Witness.lint [] true = some l ∧
    readBreaking v1beta1Witness.breaking [] true = some b ∧ l.chk.disabled = true ∧
    b.chk.ignore = [["src".toList, "old".toList]] := ⟨_, _, rfl, rfl, by decide, by decide⟩

-- `lock_roundtrip` / `lock_write_idempotent`: a v2 lock with one dep and two plugins (sorted on read)
def lockWitnessDeps : List ExtLockDep :=
  [⟨"buf.build".toList, "acme".toList, "weather".toList, true, "c0".toList, true, "b5:00".toList, .b5⟩]
def lockWitnessPlugins : List ExtLockPlugin :=
  [⟨"buf.build/acme/z".toList, true, "c2".toList, true, "p1:02".toList, true⟩,
   ⟨"buf.build/acme/a".toList, true, "c1".toList, true, "p1:01".toList, true⟩]
example : ∃ f, readLockFile .v2 lockWitnessDeps lockWitnessPlugins = some f ∧
    f.plugins.map (·.name) = ["buf.build/acme/a".toList, "buf.build/acme/z".toList] ∧
    f.lock.deps.length = 1 ∧
    readLockFile .v2 (writeLockFile f).1 (writeLockFile f).2 = some f := ⟨_, rfl, by decide, by decide, by decide⟩
-- plugins are rejected in a v1 lock, duplicates and b4 digests in a v2 lock
example : readLockFile .v1 [] lockWitnessPlugins = none := by decide
example : readLockFile .v2 [] (lockWitnessPlugins ++ lockWitnessPlugins) = none := by decide
example : readLockFile .v2 [⟨"buf.build".toList, "acme".toList, "weather".toList, true, "c0".toList, true, "shake256:00".toList, .b4⟩] [] = none := by decide

-- migration: a workspace with a two-root v1beta1 module at "proto" (as read from v1beta1Witness)
-- and a v1 module at "api"; the hypotheses of `migrate_preserves_targets_partial` hold and the
-- owners of concrete files are as expected before and after
def dfltLint : Lint := ⟨⟨false, [], [], [], [], false⟩, [], false, false, false, [], false⟩
def dfltBreaking : Breaking := ⟨⟨false, [], [], [], [], false⟩, false⟩
def wsWitness : List Module :=
  [⟨k "proto", [], [⟨k "lib", [], []⟩, ⟨k "src", [], [k "gen"]⟩], dfltLint, dfltBreaking⟩,
   ⟨k "api", [], [⟨[], [], [k "tmp"]⟩], dfltLint, dfltBreaking⟩]
example : ∃ c, migrateFile id id wsWitness [] = some c ∧
    c.modules.map (·.dirPath) = [k "api", ["proto".toList, "lib".toList], ["proto".toList, "src".toList]] := ⟨_, rfl, by decide⟩
example : owners wsWitness ["proto".toList, "src".toList, "a".toList, "x.proto".toList] =
    [(k "proto", k "src", ["a".toList, "x.proto".toList])] := by decide
example : owners (migrateWorkspace id id wsWitness) ["proto".toList, "src".toList, "a".toList, "x.proto".toList] =
    [(["proto".toList, "src".toList], [], ["a".toList, "x.proto".toList])] := by decide
example : owners wsWitness ["proto".toList, "src".toList, "gen".toList, "x.proto".toList] = [] := by decide
example : owners (migrateWorkspace id id wsWitness) ["proto".toList, "src".toList, "gen".toList, "x.proto".toList] = [] := by decide
example : owners wsWitness ["proto".toList, "other".toList, "x.proto".toList] = [] := by decide
example : ∃ c, readV1 .v1beta1 v1beta1Witness = some c ∧ ∀ m ∈ c.modules, WFRootsV1 m :=
  ⟨_, rfl, migrate_roots_assumption_holds .v1beta1 v1beta1Witness _ rfl⟩

-- migrate_keeps_disabled: the same workspace with lint switched off on "proto" (two roots) and
-- breaking switched off on "api"; the fixed migrator keeps the flags on every migrated module,
-- also after writing and reading the v2 file
def offLint : Lint := ⟨Check.disabledCfg, [], false, false, false, [], false⟩
def offBreaking : Breaking := ⟨Check.disabledCfg, false⟩
def wsOffWitness : List Module :=
  [⟨k "proto", [], [⟨k "lib", [], []⟩, ⟨k "src", [], [k "gen"]⟩], offLint, dfltBreaking⟩,
   ⟨k "api", [], [⟨[], [], [k "tmp"]⟩], dfltLint, offBreaking⟩]
example : ∃ c, migrateFile (equivLint enabledOf) (equivBreaking enabledOf) wsOffWitness [] = some c ∧
    c.modules.map offFlags = [(k "api", false, true), (["proto".toList, "lib".toList], true, false),
                              (["proto".toList, "src".toList], true, false)] ∧
    (readV2 (writeV2 c)).map (·.modules.map offFlags) = some (c.modules.map offFlags) :=
  ⟨_, rfl, by decide, by decide⟩
-- the hypotheses of migrate_keeps_disabled are satisfiable (enabledOf on reader-produced configs)
example : ∀ x : Check, x.disabled = false → (enabledOf x).disabled = false := fun _ _ => rfl

end BufProofs.C16
