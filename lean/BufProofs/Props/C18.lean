import BufProofs.Lemmas.ManagedSweepLemmas
import BufProofs.Lemmas.ManagedYamlLemmas
/-
  C18 — managed mode rewrites only what it governs.

  `modifyWith true p cfg img` is the model of `bufimagemodify.Modify(image, config)` — with
  `ModifyPreserveExisting()` iff `p` — after the fix of the sweeper (see
  `sweep_old_counterexample`); `modify cfg img = modifyWith true false cfg img`.
  Every theorem below is stated for both values of `p` (the harness runs both).

  `Out p cfg img f f'` = "f' is the output file at the position of input file f".

  The image model carries every FileOptions / FieldOptions entry by field number (governed or
  not, known or unknown to managed mode) and opaque payloads for the rest of the descriptor, so
  "nothing else changes" is a statement about `getOpt n` for EVERY field number `n`.
-/
namespace BufProofs.C18
open BufModel.Managed BufProofs.ManagedLemmas

/-- same number of files, in the same order. -/
theorem modify_length (p : Bool) (cfg : Config) (img : List File) :
    (modifyWith true p cfg img).files.length = img.length := by
  cases h : cfg.enabled
  · unfold modifyWith; simp [h]
  · exact (AllRel.length_eq (modifyWith_rel true p cfg img h)).symm

/-- With managed mode disabled the image is untouched (and no error is reported). -/
theorem disabled_mode_identity (p : Bool) (cfg : Config) (img : List File) (h : cfg.enabled = false) :
    (modifyWith true p cfg img).files = img ∧ (modifyWith true p cfg img).err = false := by
  unfold modifyWith; simp [h]

/-- The thirteen modifiers run one after the other, each on the file as the previous ones left
    it (`modifyFile`, as coded); the result is the same as deciding every option on the INPUT
    file: each modifier reads only path / package / module and its own option. -/
theorem modifiers_independent (p : Bool) (cfg : Config) (f : File) :
    modifyFile p cfg f = (applyOptions p cfg f, marks p cfg f) := modifyFile_eq p cfg f

/-- The options and fields of an output file are those computed by the thirteen modifiers on
    the input file alone (no dependence on other files, on the sweep or on its error). -/
theorem out_options {p : Bool} {cfg : Config} {img : List File} {f f' : File} (he : cfg.enabled = true)
    (h : Out p cfg img f f') :
    f'.opts = (modifyOptions p cfg f).opts ∧ f'.fields = (modifyOptions p cfg f).fields := by
  obtain ⟨l, rfl, _⟩ := out_rel he h
  exact ⟨rfl, rfl⟩

/-- FRAME.  For every file of the image, whatever the configuration and whether or not the
    sweep reports an error:
    * the opaque payload (messages, enums, services, dependencies, … everything outside file
      options, field options and source info), path, package and module are unchanged;
    * for EVERY FileOptions field number `n` that managed mode does not govern for this file
      (`¬ Governs`: not one of the twelve governed options — custom / unknown options included —
      or managed mode disabled, or a well-known-type file, or exempted by a matching disable
      rule, or already set under `ModifyPreserveExisting`) the value is unchanged;
    * every field keeps name, path, type and opaque rest, and EVERY FieldOptions field number
      other than jstype — and jstype too unless `JsGoverns` (a matching override, no matching
      disable rule, a 64-bit integer type, not preserved) — is unchanged;
    * the source-info list only loses entries (survivors unchanged, in order). -/
theorem frame (p : Bool) (cfg : Config) (img : List File) {f f' : File} (h : Out p cfg img f f') :
    FileFrame p cfg f f' := by
  cases he : cfg.enabled
  · obtain ⟨i, h1, h2⟩ := h
    rw [(disabled_mode_identity p cfg img he).1, h1] at h2
    cases h2
    exact ⟨rfl, rfl, rfl, rfl, fun _ _ => rfl,
      AllRel.refl_of (fun _ => ⟨rfl, rfl, rfl, rfl, fun _ _ => rfl⟩) _, List.Sublist.refl _⟩
  · exact outRel_frame he (out_rel he h)

/-- Well-known-type files are returned exactly as they were (options, fields, source info). -/
theorem wkt_untouched (p : Bool) (cfg : Config) (img : List File) {f f' : File} (h : Out p cfg img f f')
    (hw : isWKT f.path = true) : f' = f := by
  cases he : cfg.enabled
  · obtain ⟨i, h1, h2⟩ := h
    rw [(disabled_mode_identity p cfg img he).1, h1] at h2
    exact (Option.some.inj h2).symm
  · obtain ⟨l, rfl, hl⟩ := out_rel he h
    have hm : modifyOptions p cfg f = f := by unfold modifyOptions; simp [hw]
    have hk : fileMarks p cfg f = [] := by unfold fileMarks; simp [hw]
    simp only [hm, hk] at hl ⊢
    rcases hl with rfl | hs
    · rfl
    · unfold sweepLocs at hs; simp at hs; subst hs; rfl

/-! ### disable rules -/

/-- A disable rule matching the file and a governed option (or all options) leaves that option
    exactly as it was — any of the twelve (`g`), whatever overrides exist. -/
theorem disabled_untouched_file_option {p : Bool} {cfg : Config} {img : List File} {f f' : File}
    (h : Out p cfg img f f') (g : Gov)
    (hd : isFileOptionDisabled cfg f g.fileOpt = true) : getOpt g.tag f'.opts = getOpt g.tag f.opts := by
  apply (frame p cfg img h).2.2.2.2.1
  rintro ⟨_, _, g', ht, hd', _⟩
  have : g' = g := Gov.tag_inj _ _ ht
  subst this
  rw [hd] at hd'; cases hd'

theorem disabled_untouched_str {p : Bool} {cfg : Config} {img : List File} {f f' : File}
    (h : Out p cfg img f f') (o : StrOpt)
    (hd : isFileOptionDisabled cfg f o.valueOpt = true) : f'.strOpts o = f.strOpts o := by
  have h1 : getOpt o.tag f'.opts = getOpt o.tag f.opts := disabled_untouched_file_option h (.str o) hd
  unfold File.strOpts; rw [h1]

theorem disabled_untouched_bool {p : Bool} {cfg : Config} {img : List File} {f f' : File}
    (h : Out p cfg img f f') (o : BoolOpt)
    (hd : isFileOptionDisabled cfg f o.fileOpt = true) : f'.boolOpts o = f.boolOpts o := by
  have h1 : getOpt o.tag f'.opts = getOpt o.tag f.opts := disabled_untouched_file_option h (.bool o) hd
  unfold File.boolOpts; rw [h1]

theorem disabled_untouched_optimize {p : Bool} {cfg : Config} {img : List File} {f f' : File}
    (h : Out p cfg img f f')
    (hd : isFileOptionDisabled cfg f .optimizeFor = true) : f'.optimizeFor = f.optimizeFor := by
  have h1 : getOpt optimizeForTag f'.opts = getOpt optimizeForTag f.opts := disabled_untouched_file_option h .optimize hd
  unfold File.optimizeFor; rw [h1]

/-- `isFileOptionDisabled` is exactly: some disable rule names this option or no option, names
    no field option, and matches the file by path containment and module. -/
theorem isFileOptionDisabled_iff (cfg : Config) (f : File) (o : FileOption) :
    isFileOptionDisabled cfg f o = true ↔
      ∃ r ∈ cfg.disables, (r.fileOption = .unspecified ∨ r.fileOption = o) ∧ r.jstype = false ∧
        fileMatch f r.path r.module = true := by
  unfold isFileOptionDisabled
  simp [List.any_eq_true, and_assoc]

/-- … and for jstype: some disable rule is for jstype or for everything, matches the file, and
    names this field or no field. -/
theorem jsDisabledFor_iff (cfg : Config) (f : File) (name : List Char) :
    jsDisabledFor cfg f name = true ↔
      ∃ d ∈ cfg.disables, (d.jstype = true ∨ d.fileOption = .unspecified) ∧
        fileMatch f d.path d.module = true ∧ (d.fieldName = [] ∨ d.fieldName = name) := by
  unfold jsDisabledFor
  simp [List.any_eq_true, and_assoc]

/-- A disable rule for jstype (or for all options) that matches the file and names this field
    (or no field) leaves every option of the field, jstype included, as it was. -/
theorem disabled_untouched_jstype {p : Bool} {cfg : Config} {img : List File} {f f' : File}
    (h : Out p cfg img f f') (d : Disable) (hd : d ∈ cfg.disables)
    (hopt : d.jstype = true ∨ d.fileOption = .unspecified)
    (hm : fileMatch f d.path d.module = true)
    (j : Nat) (fd fd' : Field) (hj : f.fields[j]? = some fd) (hj' : f'.fields[j]? = some fd')
    (hf : d.fieldName = [] ∨ d.fieldName = fd.fullName) :
    ∀ n, getOpt n fd'.opts = getOpt n fd.opts := by
  intro n
  have hff := AllRel.get (frame p cfg img h).2.2.2.2.2.1 j fd fd' hj hj'
  apply hff.2.2.2.2 n
  right
  rintro ⟨_, _, hdis, _⟩
  have : jsDisabledFor cfg f fd.fullName = true :=
    (jsDisabledFor_iff cfg f fd.fullName).mpr ⟨d, hd, hopt, hm, hf⟩
  rw [this] at hdis; cases hdis

/-! ### precedence: last matching override, else the managed default -/

/-- bool options: in a file that is not a WKT, not exempted and (under preserve-existing) not
    already set, the effective value after `Modify` is the value of the LAST matching
    override, else the managed default.  (Exempted / preserved: `frame` says unchanged.) -/
theorem precedence_bool {p : Bool} {cfg : Config} {img : List File} {f f' : File}
    (he : cfg.enabled = true) (h : Out p cfg img f f') (o : BoolOpt)
    (hw : isWKT f.path = false) (hd : isFileOptionDisabled cfg f o.fileOpt = false)
    (hp : (p && (f.boolOpts o).isSome) = false) :
    (f'.boolOpts o).getD o.protoDefault =
      (((cfg.overrides.filter fun r => fileMatch f r.path r.module && r.fileOption = o.fileOpt).getLast?).map
        (·.bval)).getD o.managedDefault := by
  rw [(out_typed he h hw).2.1 o, applyOptions_boolOpts, ← lastOverride_eq]
  unfold boolChange boolTarget
  simp only [hd, hp, Bool.false_eq_true, ↓reduceIte]
  cases lastOverride cfg f o.fileOpt with
  | none =>
    simp only [Option.map_none, Option.getD_none]
    by_cases hc : (f.boolOpts o).getD o.protoDefault = o.managedDefault
    · simp [hc]
    · simp [hc]
  | some r =>
    simp only [Option.map_some, Option.getD_some]
    by_cases hc : (f.boolOpts o).getD o.protoDefault = r.bval
    · simp [hc]
    · simp [hc]

/-- optimize_for: same precedence, default SPEED. -/
theorem precedence_optimize {p : Bool} {cfg : Config} {img : List File} {f f' : File}
    (he : cfg.enabled = true) (h : Out p cfg img f f')
    (hw : isWKT f.path = false) (hd : isFileOptionDisabled cfg f .optimizeFor = false)
    (hp : (p && f.optimizeFor.isSome) = false) :
    f'.optimizeFor.getD optimizeSpeed =
      (((cfg.overrides.filter fun r => fileMatch f r.path r.module && r.fileOption = .optimizeFor).getLast?).map
        (·.nval)).getD optimizeSpeed := by
  rw [(out_typed he h hw).2.2.1, applyOptions_optimizeFor, ← lastOverride_eq]
  unfold optimizeChange optimizeTarget
  simp only [hd, hp, Bool.false_eq_true, ↓reduceIte]
  cases lastOverride cfg f .optimizeFor with
  | none =>
    simp only [Option.map_none, Option.getD_none]
    by_cases hc : f.optimizeFor.getD optimizeSpeed = optimizeSpeed
    · simp [hc]
    · simp [hc]
  | some r =>
    simp only [Option.map_some, Option.getD_some]
    by_cases hc : f.optimizeFor.getD optimizeSpeed = r.nval
    · simp [hc]
    · simp [hc]

/-- jstype, both directions: the jstype of EVERY field after `Modify` is `jsWant` — unchanged
    in a WKT file, when a disable rule covers the field, when no override for jstype matches
    file and field, when it is set and existing values are preserved, or when the field is not
    a 64-bit integer; otherwise the value of the LAST matching override (`jsSpec`).  So jstype
    changes exactly when `jsWant` differs from the old value, and only to that value. -/
theorem precedence_jstype {p : Bool} {cfg : Config} {img : List File} {f f' : File}
    (he : cfg.enabled = true) (h : Out p cfg img f f')
    (j : Nat) (fd : Field) (hj : f.fields[j]? = some fd) :
    ∃ fd', f'.fields[j]? = some fd' ∧ fd'.jstype = jsWant p cfg f fd := by
  obtain ⟨_, h2⟩ := out_options he h
  rw [modifyOptions_eq] at h2
  by_cases hw : isWKT f.path = true
  · simp only [hw, ↓reduceIte] at h2
    exact ⟨fd, by rw [h2]; exact hj, by unfold jsWant; simp [hw]⟩
  · simp only [hw, Bool.false_eq_true, ↓reduceIte] at h2
    refine ⟨applyField p cfg f fd, ?_, applyField_jstype_spec p cfg f fd⟩
    rw [h2]; show (f.fields.map (applyField p cfg f))[j]? = _
    simp [hj]

/-! ### string options -/

/-- String options, completely: in a file that is not a WKT, the value of governed string
    option `o` after `Modify` is
    * the old value, when it is set and existing values are preserved;
    * otherwise `strSpec cfg f o` when that is `some v` — see `strSpec` / `strSpecSOO` /
      `specSOO`: not exempted by a disable rule; among the override rules matching the file by
      path containment and module, the last value override wins over everything before it,
      later prefix / suffix overrides (of usable companions) blank the value and keep each
      other, the default formula is applied to the winning prefix / suffix, an all-blank
      result or an empty computed value means "leave alone";
    * otherwise the old value.
    This is an equation between the implementation model's output and a declarative
    description, hence both directions. -/
theorem precedence_str {p : Bool} {cfg : Config} {img : List File} {f f' : File}
    (he : cfg.enabled = true) (h : Out p cfg img f f') (o : StrOpt) (hw : isWKT f.path = false) :
    f'.strOpts o =
      if p && (f.strOpts o).isSome then f.strOpts o
      else match strSpec cfg f o with
        | some v => some v
        | none => f.strOpts o := by
  rw [(out_typed he h hw).1 o, applyOptions_strOpts]
  unfold strChange
  rw [strTarget_eq_spec]
  by_cases hp : (p && (f.strOpts o).isSome) = true
  · simp [hp]
  · simp only [hp, Bool.false_eq_true, ↓reduceIte]
    cases hs : strSpec cfg f o with
    | none => rfl
    | some v =>
      simp only
      by_cases hc : (f.strOpts o).getD [] = v
      · simp only [hc, ↓reduceIte]
        cases hfo : f.strOpts o with
        | none => rw [hfo] at hc; exact absurd hc.symm (strSpec_ne_nil hs)
        | some w => rw [hfo] at hc; simp at hc; rw [hc]
      · simp [hc]

/-- Override before default, last match wins: if the last override that concerns the option is
    a value override with a non-empty value, that value is what managed mode wants — whatever
    prefix, suffix or value overrides precede it and whatever the default formula gives. -/
theorem precedence_str_last_value {cfg : Config} {f : File} (o : StrOpt)
    (hd : isFileOptionDisabled cfg f o.valueOpt = false)
    (pre post : List Override) (r : Override) (hsplit : cfg.overrides = pre ++ r :: post)
    (hm : fileMatch f r.path r.module = true) (hv : r.fileOption = o.valueOpt)
    (hne : r.sval ≠ [])
    (hpost : ∀ r' ∈ post, relevant f o r' = false) :
    strSpec cfg f o = some r.sval := by
  rw [← strTarget_eq_spec]
  have hso : stringOverride cfg f (o.defaultSOO f) o.valueOpt o.prefixOpt o.suffixOpt = ⟨r.sval, [], []⟩ := by
    unfold stringOverride
    simp only [hd, Bool.false_eq_true, ↓reduceIte, hsplit, List.foldl_append, List.foldl_cons]
    rw [foldl_irrelevant cfg f o post hpost]
    unfold sooStep
    simp [hm, hv]
  unfold strTarget
  simp only [hso]
  have h1 : (⟨r.sval, [], []⟩ : SOO) ≠ SOO.empty := by
    intro hc; apply hne; exact congrArg SOO.value hc
  simp [h1, hne]

/-- Default: with no override concerning the option (and the option not disabled) the override
    options are the managed default alone — prefix / suffix blanked when their companion option
    does not exist or is disabled. -/
theorem precedence_str_default {cfg : Config} {f : File} (o : StrOpt)
    (hd : isFileOptionDisabled cfg f o.valueOpt = false)
    (hnone : ∀ r ∈ cfg.overrides, relevant f o r = false) :
    strSpecSOO cfg f o =
      ⟨(o.defaultSOO f).value,
       if usePfx cfg f o then (o.defaultSOO f).pfx else [],
       if useSfx cfg f o then (o.defaultSOO f).suffix else []⟩ := by
  rw [← stringOverride_eq_spec cfg f o hd]
  unfold stringOverride
  simp only [hd, Bool.false_eq_true, ↓reduceIte]
  rw [foldl_irrelevant cfg f o cfg.overrides hnone _]
  unfold usePfx useSfx
  congr 1
  · cases (decide (o.prefixOpt = FileOption.unspecified) || isFileOptionDisabled cfg f o.prefixOpt) <;> rfl
  · cases (decide (o.suffixOpt = FileOption.unspecified) || isFileOptionDisabled cfg f o.suffixOpt) <;> rfl

/-! ### marks = options whose value changed -/

/-- File options of every kind (string, bool, optimize_for): a modifier writes and marks
    exactly when the value of its option differs afterwards. -/
theorem marked_iff_changed_file_option (p : Bool) (cfg : Config) (f : File) (g : Gov) :
    (govChange p cfg f g).isSome = true ↔
      getOpt g.tag (applyOptions p cfg f).opts ≠ getOpt g.tag f.opts :=
  gov_marked_iff_changed p cfg f g

/-- jstype: same. -/
theorem marked_iff_changed_jstype (p : Bool) (cfg : Config) (f : File) (fd : Field) :
    (jsChange p cfg f fd).isSome = true ↔
      getOpt jstypeTag (applyField p cfg f fd).opts ≠ getOpt jstypeTag fd.opts :=
  js_marked_iff_changed p cfg f fd

/-- The paths handed to the sweeper for a file are exactly the SourceCodeInfo paths of the
    options whose VALUE differs between the input file and the modified file: `[8, n]` for
    FileOptions field `n`, `field path ++ [8, 6]` for a field's jstype (`Changed`). -/
theorem marks_exact (p : Bool) (cfg : Config) (f : File) (q : List Nat) :
    q ∈ fileMarks p cfg f ↔ Changed f (modifyOptions p cfg f) q :=
  fileMarks_iff_changed p cfg f q

/-! ### source-info sweep -/

/-- Only locations of marked paths are removed: every removed location is (a) a location
    whose path is a mark, or (b) the `[8]` parent immediately before the location of a marked
    file option, or (c) a FieldOptions location that is a proper prefix of a marked
    location. -/
theorem sweep_sound (mk : List (List Nat)) (locs : List Loc) (rm : List Nat)
    (h : sweepRemoved true mk locs = some rm) (k : Nat) (hk : k ∈ rm) :
    (∃ loc : Loc, locs[k]? = some loc ∧ loc.path ∈ mk) ∨
    (∃ loc : Loc, locs[k + 1]? = some loc ∧ loc.path ∈ mk ∧ isFileOptPath loc.path = true) ∨
    (∃ loc : Loc, locs[k]? = some loc ∧ pathType loc.path = .fieldOptionsRoot ∧
      ∃ (j : Nat) (loc' : Loc), locs[j]? = some loc' ∧ loc'.path ∈ mk ∧
        properPrefix loc.path loc'.path = true) := by
  unfold sweepRemoved at h
  cases hl : sweepLoop mk 0 none locs ⟨[], []⟩ with
  | none => simp [hl] at h
  | some st =>
    simp only [hl, Option.some.injEq] at h
    subst h
    have inv := sweepLoop_inv mk locs locs 0 none _ st (by simp) (sweepInv_init mk locs) hl
    rcases List.mem_append.mp hk with h1 | h1
    · rcases inv.removedOk k h1 with h2 | h2
      · exact Or.inl h2
      · exact Or.inr (Or.inl h2)
    · unfold emptiedRoots at h1
      obtain ⟨e, he, rfl⟩ := List.mem_map.mp h1
      obtain ⟨he1, he2⟩ := List.mem_filter.mp he
      simp only [Bool.not_true, Bool.false_or, Bool.and_eq_true] at he2
      obtain ⟨⟨loc, hloc, hp⟩, hroot, hhit⟩ := inv.trieOk e he1
      refine Or.inr (Or.inr ⟨loc, hloc, by rw [hp]; exact hroot, ?_⟩)
      obtain ⟨j, loc', a, b, c⟩ := hhit he2.2
      exact ⟨j, loc', a, b, by rw [hp]; exact c⟩

/-- … every location whose path is a mark is removed, and so is the location immediately
    before a marked file-option location (its `[8]` parent). -/
theorem sweep_complete (fixed : Bool) (mk : List (List Nat)) (locs : List Loc) (rm : List Nat)
    (h : sweepRemoved fixed mk locs = some rm) :
    (∀ (k : Nat) (loc : Loc), locs[k]? = some loc → loc.path ∈ mk → k ∈ rm) ∧
    (∀ (k : Nat) (loc : Loc), locs[k + 1]? = some loc → loc.path ∈ mk →
      isFileOptPath loc.path = true → k ∈ rm) := by
  unfold sweepRemoved at h
  cases hl : sweepLoop mk 0 none locs ⟨[], []⟩ with
  | none => simp [hl] at h
  | some st =>
    simp only [hl, Option.some.injEq] at h
    subst h
    have inv := sweepLoop_inv mk locs locs 0 none _ st (by simp) (sweepInv_init mk locs) hl
    have hlt : ∀ (k : Nat) (loc : Loc), locs[k]? = some loc → k < locs.length := by
      intro k loc hk
      rcases Nat.lt_or_ge k locs.length with h1 | h1
      · exact h1
      · simp [List.getElem?_eq_none h1] at hk
    exact ⟨fun k loc hk hm => List.mem_append.mpr (Or.inl (inv.complete k (hlt k loc hk) loc hk hm)),
      fun k loc hk hm hf => List.mem_append.mpr (Or.inl (inv.parents k (hlt (k + 1) loc hk) loc hk hm hf))⟩

/-- SWEEP, composed to `Modify` itself (both preserve modes).  When `Modify` returns no error,
    the source-info list of every output file is the input list minus a set `rm` of indices
    (survivors unchanged, in order) such that, with `Changed f f' q` = "q is the path of an
    option whose value differs between input file f and output file f'":
    * sound: every removed location is at a `Changed` path, or is the entry immediately before
      a `Changed` file-option location (its `[8]` parent), or is a FieldOptions location that
      is a proper prefix of a `Changed` (hence removed) location;
    * complete: every location at a `Changed` path is removed, and so is the entry immediately
      before a `Changed` file-option location.
    Hence locations of options that were NOT rewritten stay — whether the option is not
    governed, exempted, already equal to the target, or unknown to managed mode.
    PARTIAL in one respect: for a FieldOptions location (`[…, 8]`) only the upper bound is
    proved (it can go only if one of the locations under it went); the exact condition of the
    code ("and no location registered under it stays", with the trie's first-ancestor rule) is
    proved by `modify_sweep_exact` below for compiler-shaped source info (`RootsFirst`); for
    other shapes (a FieldOptions location repeated, or listed after the locations inside it)
    it is tied by correspondence. -/
theorem modify_sweep_exact_partial (p : Bool) (cfg : Config) (img : List File) {f f' : File}
    (herr : (modifyWith true p cfg img).err = false) (h : Out p cfg img f f') :
    ∃ rm : List Nat, f'.locs = removeIndices f.locs rm ∧
      (∀ k ∈ rm,
        (∃ loc : Loc, f.locs[k]? = some loc ∧ Changed f f' loc.path) ∨
        (∃ loc : Loc, f.locs[k + 1]? = some loc ∧ Changed f f' loc.path ∧ isFileOptPath loc.path = true) ∨
        (∃ loc : Loc, f.locs[k]? = some loc ∧ pathType loc.path = .fieldOptionsRoot ∧
          ∃ (j : Nat) (loc' : Loc), f.locs[j]? = some loc' ∧ Changed f f' loc'.path ∧
            properPrefix loc.path loc'.path = true)) ∧
      (∀ (k : Nat) (loc : Loc), f.locs[k]? = some loc → Changed f f' loc.path → k ∈ rm) ∧
      (∀ (k : Nat) (loc : Loc), f.locs[k + 1]? = some loc → Changed f f' loc.path →
        isFileOptPath loc.path = true → k ∈ rm) := by
  cases he : cfg.enabled
  · obtain ⟨i, h1, h2⟩ := h
    rw [(disabled_mode_identity p cfg img he).1, h1] at h2
    cases h2
    exact ⟨[], (removeIndices_nil _).symm, by intro k hk; simp at hk,
      fun k loc _ hc => absurd hc (not_changed_self f _), fun k loc _ hc => absurd hc (not_changed_self f _)⟩
  · obtain ⟨i, h1, h2⟩ := h
    obtain ⟨l, rfl, hl⟩ := AllRel.get (modifyWith_ok true p cfg img he herr) i f f' h1 h2
    simp only [modifyOptions_locs] at hl
    have hch : ∀ q, q ∈ fileMarks p cfg f ↔
        Changed f { modifyOptions p cfg f with locs := l } q := fun q =>
      (fileMarks_iff_changed p cfg f q).trans (changed_congr rfl rfl q).symm
    unfold sweepLocs at hl
    split at hl
    · rename_i hnil
      cases hl
      refine ⟨[], ?_, by intro k hk; simp at hk, ?_, ?_⟩
      · show f.locs = _; exact (removeIndices_nil _).symm
      · intro k loc _ hc; have := (hch _).mpr hc; rw [hnil] at this; simp at this
      · intro k loc _ hc; have := (hch _).mpr hc; rw [hnil] at this; simp at this
    · cases hs : sweepRemoved true (fileMarks p cfg f) f.locs with
      | none => simp [hs] at hl
      | some rm =>
        simp only [hs, Option.map_some, Option.some.injEq] at hl
        subst hl
        refine ⟨rm, rfl, ?_, ?_, ?_⟩
        · intro k hk
          rcases sweep_sound _ _ _ hs k hk with ⟨loc, a, b⟩ | ⟨loc, a, b, c⟩ | ⟨loc, a, b, j, loc', c, d, e⟩
          · exact Or.inl ⟨loc, a, (hch _).mp b⟩
          · exact Or.inr (Or.inl ⟨loc, a, (hch _).mp b, c⟩)
          · exact Or.inr (Or.inr ⟨loc, a, b, j, loc', c, (hch _).mp d, e⟩)
        · intro k loc hk hc
          exact (sweep_complete true _ _ _ hs).1 k loc hk ((hch _).mpr hc)
        · intro k loc hk hc hf
          exact (sweep_complete true _ _ _ hs).2 k loc hk ((hch _).mpr hc) hf

/-! ### locations deeper than one element below an options message -/

/-- `getPathType` on deep paths: whatever lies below a FieldOptions location `r` (`field path
    ++ [8]`) — one element below (`r ++ [6]`, jstype), two (`r ++ [50000, 1]`: a message-typed
    custom option set through a sub-field; `r ++ [50003, 0]`: an element of a repeated
    option), or more (`r ++ [50002, 3, 3, 0]`) — is classified as a field option, so a
    location that stays registers with its FieldOptions parent whatever its depth. -/
theorem path_below_field_options_is_field_option {r d : List Nat}
    (hr : pathType r = .fieldOptionsRoot) (hp : properPrefix r d = true) :
    pathType d = .fieldOption := pathType_below_root hr hp

/-- The parent rule, EXACT, on compiler-shaped source info (`RootsFirst`: a FieldOptions
    location occurs once and before the locations inside it): the sweeper removes a
    FieldOptions location iff at least one location inside it is removed AND every location
    inside it — at any depth — is removed.  In particular a FieldOptions location with a
    surviving option location inside it (a custom option's sub-field, a repeated option's
    element) survives. -/
theorem sweep_parent_exact {mk : List (List Nat)} {locs : List Loc} {rm : List Nat}
    (hrf : RootsFirst locs) (h : sweepRemoved true mk locs = some rm)
    (r : Nat) (lr : Loc) (hr : locs[r]? = some lr) (hroot : pathType lr.path = .fieldOptionsRoot) :
    r ∈ rm ↔
      (∃ (j : Nat) (lj : Loc), locs[j]? = some lj ∧ properPrefix lr.path lj.path = true ∧ lj.path ∈ mk) ∧
      (∀ (j : Nat) (lj : Loc), locs[j]? = some lj → properPrefix lr.path lj.path = true → lj.path ∈ mk) :=
  sweepRemoved_root_iff hrf h r lr hr hroot

/-- SWEEP, composed to `Modify`, EXACT on compiler-shaped source info (both preserve modes):
    when `Modify` returns no error and the input file's location list is `RootsFirst`, the
    output list is the input list minus a set `rm` of indices, and a location is in `rm` IF AND
    ONLY IF
    * its path is the path of an option whose value changed (`Changed`), or
    * it is the entry immediately before a `Changed` file-option location (its `[8]` parent), or
    * it is a FieldOptions location, some location inside it is `Changed`, and EVERY location
      inside it (at any depth) is `Changed`.
    Every other location survives: options that were not rewritten, custom options at any
    depth, and the FieldOptions parents that still hold one of them. -/
theorem modify_sweep_exact (p : Bool) (cfg : Config) (img : List File) {f f' : File}
    (herr : (modifyWith true p cfg img).err = false) (h : Out p cfg img f f')
    (hrf : RootsFirst f.locs) :
    ∃ rm : List Nat, f'.locs = removeIndices f.locs rm ∧
      ∀ (k : Nat) (loc : Loc), f.locs[k]? = some loc →
        (k ∈ rm ↔
          Changed f f' loc.path ∨
          (∃ loc' : Loc, f.locs[k + 1]? = some loc' ∧ Changed f f' loc'.path ∧ isFileOptPath loc'.path = true) ∨
          (pathType loc.path = .fieldOptionsRoot ∧
            (∃ (j : Nat) (lj : Loc), f.locs[j]? = some lj ∧ properPrefix loc.path lj.path = true ∧
              Changed f f' lj.path) ∧
            (∀ (j : Nat) (lj : Loc), f.locs[j]? = some lj → properPrefix loc.path lj.path = true →
              Changed f f' lj.path))) := by
  cases he : cfg.enabled
  · obtain ⟨i, h1, h2⟩ := h
    rw [(disabled_mode_identity p cfg img he).1, h1] at h2
    cases h2
    refine ⟨[], (removeIndices_nil _).symm, ?_⟩
    intro k loc _
    constructor
    · intro hk; simp at hk
    · rintro (hc | ⟨_, _, hc, _⟩ | ⟨_, ⟨_, _, _, _, hc⟩, _⟩) <;> exact absurd hc (not_changed_self f _)
  · obtain ⟨i, h1, h2⟩ := h
    obtain ⟨l, rfl, hl⟩ := AllRel.get (modifyWith_ok true p cfg img he herr) i f f' h1 h2
    simp only [modifyOptions_locs] at hl
    have hch : ∀ q, q ∈ fileMarks p cfg f ↔
        Changed f { modifyOptions p cfg f with locs := l } q := fun q =>
      (fileMarks_iff_changed p cfg f q).trans (changed_congr rfl rfl q).symm
    unfold sweepLocs at hl
    split at hl
    · rename_i hnil
      cases hl
      refine ⟨[], ?_, ?_⟩
      · show f.locs = _; exact (removeIndices_nil _).symm
      · intro k loc _
        have hno : ∀ q, ¬ Changed f { modifyOptions p cfg f with locs := f.locs } q := by
          intro q hc; have := (hch q).mpr hc; rw [hnil] at this; simp at this
        constructor
        · intro hk; simp at hk
        · rintro (hc | ⟨_, _, hc, _⟩ | ⟨_, ⟨_, _, _, _, hc⟩, _⟩) <;> exact absurd hc (hno _)
    · cases hs : sweepRemoved true (fileMarks p cfg f) f.locs with
      | none => simp [hs] at hl
      | some rm =>
        simp only [hs, Option.map_some, Option.some.injEq] at hl
        subst hl
        refine ⟨rm, rfl, ?_⟩
        intro k loc hk
        constructor
        · intro hmem
          rcases sweep_sound _ _ _ hs k hmem with ⟨loc1, a, b⟩ | ⟨loc1, a, b, c⟩ | ⟨loc1, a, b, j, loc', c, d, e⟩
          · rw [hk] at a; cases a; exact Or.inl ((hch _).mp b)
          · exact Or.inr (Or.inl ⟨loc1, a, (hch _).mp b, c⟩)
          · rw [hk] at a; cases a
            have hall := ((sweep_parent_exact hrf hs k loc hk b).mp hmem).2
            exact Or.inr (Or.inr ⟨b, ⟨j, loc', c, e, (hch _).mp d⟩,
              fun j lj hj hp => (hch _).mp (hall j lj hj hp)⟩)
        · rintro (hc | ⟨loc', a, hc, hf⟩ | ⟨hroot, ⟨j, lj, a, b, hc⟩, hall⟩)
          · exact (sweep_complete true _ _ _ hs).1 k loc hk ((hch _).mpr hc)
          · exact (sweep_complete true _ _ _ hs).2 k loc' a ((hch _).mpr hc) hf
          · exact (sweep_parent_exact hrf hs k loc hk hroot).mpr
              ⟨⟨j, lj, a, b, (hch _).mpr hc⟩, fun j lj hj hp => (hch _).mpr (hall j lj hj hp)⟩

/-- Before the fix the sweeper also removed FieldOptions locations that never had a child
    (`[default = 5]`, `[json_name = "x"]`) of fields nobody touched, as soon as any option of
    the file was rewritten: here java_package `[8,1]` is rewritten and location 2 goes too.
    Replayed on the unchanged tree by the harness (oracle class
    `sweep-removed-childless-field-options-location`). -/
theorem sweep_old_counterexample :
    sweepRemoved false [[8, 1]] [⟨[8], 0⟩, ⟨[8, 1], 1⟩, ⟨[4, 0, 2, 0, 8], 2⟩] = some [1, 0, 2] ∧
    sweepRemoved true [[8, 1]] [⟨[8], 0⟩, ⟨[8, 1], 1⟩, ⟨[4, 0, 2, 0, 8], 2⟩] = some [1, 0] := by
  decide


/-! ### the configuration keys of buf.gen.yaml v1 (config-key family)

  `configOfV1 env x` = the rules `bufconfig` makes from the `managed:` section `x` of a v1
  document (`BufModel.ConfigGen.readManagedV1`, tied to the real reader by the `cfgv1` protocol
  lines and by C16) in the rule records of this model.  `V1Section.documented` is the
  SPECIFICATION: the governed option the documentation of the key names.  The theorems say that
  the translated rules govern exactly that option — the statement the seeded regression
  (`csharp_namespace.except` → rules for csharp_namespace_prefix) falsifies. -/

open BufModel.ManagedYaml BufProofs.ManagedYamlLemmas

/-- (finite table, by cases) for each of the six `{default, except, override}` keys: the option
    its `except` rules name is the one whose disabling exempts the DOCUMENTED option, and the
    option its `default` / `override` rules name acts on the documented option (is it, or its
    prefix companion). -/
theorem v1_key_table_governs_documented (s : V1Section) :
    foOf s.exceptOption = s.documented.fileOpt ∧ concerns (foOf s.overrideOption) s.documented = true := by
  cases s <;> decide

/-- … and the three bool keys name the option they are documented to set. -/
theorem v1_bool_key_table (k : V1BoolKey) : foOf k.option = (Gov.bool k.documented).fileOpt := by
  cases k <;> rfl

/-- The disable rules of a v1 document are exactly: one per module listed under `except` of a
    section, unscoped by path and field, naming the documented option of that section.  Nothing
    else is ever exempted, and nothing listed is missing. -/
theorem v1_disable_rules_exact {env : BufModel.ConfigGen.Env} {x : BufModel.ConfigGen.ExtManagedV1} {cfg : Config}
    (h : configOfV1 env x = some cfg) (d : Disable) :
    d ∈ cfg.disables ↔
      ∃ s : V1Section, ∃ n ∈ (s.get x).except, d = ⟨[], n, [], s.documented.fileOpt, false⟩ := by
  obtain ⟨m, hm, rfl⟩ := configOfV1_some h
  have hall : ∀ s : V1Section, s ∈ V1Section.all := by intro s; cases s <;> simp [V1Section.all]
  have hrule : ∀ (s : V1Section) (n : List Char),
      disableOf (exceptRule s.exceptOption n) = ⟨[], n, [], s.documented.fileOpt, false⟩ := by
    intro s n
    have := (v1_key_table_governs_documented s).1
    simp only [disableOf, exceptRule, optFoOf, this, Option.isSome_none]
  simp only [toConfig, List.mem_map, readManagedV1_disables hm, List.mem_flatMap]
  constructor
  · rintro ⟨d0, ⟨s, _, n, hn, rfl⟩, rfl⟩
    exact ⟨s, n, hn, hrule s n⟩
  · rintro ⟨s, n, hn, rfl⟩
    exact ⟨exceptRule s.exceptOption n, ⟨s, hall s, n, hn, rfl⟩, hrule s n⟩

/-- A module listed under `<key>.except` is exempted for the option the key is documented to
    govern: every file carrying that module name has that option disabled … -/
theorem v1_except_exempts_documented_option {env : BufModel.ConfigGen.Env} {x : BufModel.ConfigGen.ExtManagedV1}
    {cfg : Config} (h : configOfV1 env x = some cfg) (s : V1Section) (n : List Char)
    (hn : n ∈ (s.get x).except) (f : File) (hf : f.module = some n) :
    isFileOptionDisabled cfg f s.documented.fileOpt = true := by
  rw [isFileOptionDisabled_iff]
  refine ⟨⟨[], n, [], s.documented.fileOpt, false⟩, (v1_disable_rules_exact h _).mpr ⟨s, n, hn, rfl⟩, Or.inr rfl, rfl, ?_⟩
  simp [fileMatch, hf]

/-- … hence `Modify` leaves that option of such a file exactly as it was (value and presence),
    whatever else the document says (defaults, overrides, per-file overrides), in both preserve
    modes. -/
theorem v1_excepted_module_untouched {env : BufModel.ConfigGen.Env} {x : BufModel.ConfigGen.ExtManagedV1}
    {cfg : Config} (h : configOfV1 env x = some cfg) (s : V1Section) (n : List Char)
    (hn : n ∈ (s.get x).except) {p : Bool} {img : List File} {f f' : File} (hf : f.module = some n)
    (hout : Out p cfg img f f') :
    getOpt s.documented.tag f'.opts = getOpt s.documented.tag f.opts :=
  disabled_untouched_file_option hout s.documented (v1_except_exempts_documented_option h s n hn f hf)

/-- Every entry `module ↦ value` of a section's `override` map yields an override rule scoped to
    exactly that module (no path, no field) that acts on the documented option. -/
theorem v1_module_override_rule {env : BufModel.ConfigGen.Env} {x : BufModel.ConfigGen.ExtManagedV1}
    {cfg : Config} (h : configOfV1 env x = some cfg) (s : V1Section) (kv : List Char × List Char)
    (hkv : kv ∈ (s.get x).override) :
    ∃ o ∈ cfg.overrides, o.path = [] ∧ o.module = kv.1 ∧ o.fieldName = [] ∧ o.jstype = false ∧
      o.fileOption = foOf s.overrideOption ∧ concerns o.fileOption s.documented = true := by
  obtain ⟨m, hm, rfl⟩ := configOfV1_some h
  obtain ⟨o, ho, hp, hmod, hfld, hfo, hfdo, _⟩ := readManagedV1_module_override hm s kv hkv
  refine ⟨overrideOf o, List.mem_map.mpr ⟨o, ho, rfl⟩, ?_⟩
  have hfo' : (overrideOf o).fileOption = foOf s.overrideOption := by
    unfold overrideOf; cases o.value <;> simp [optFoOf, hfo]
  refine ⟨?_, ?_, ?_, ?_, hfo', ?_⟩
  · unfold overrideOf; cases o.value <;> simp [hp]
  · unfold overrideOf; cases o.value <;> simp [hmod]
  · unfold overrideOf; cases o.value <;> simp [hfld]
  · unfold overrideOf; cases o.value <;> simp [hfdo]
  · rw [hfo']; exact (v1_key_table_governs_documented s).2

/-- Conversely, an override rule of a v1 document that names a module comes from an entry of
    the `override` map of one of the six sections, is scoped to that entry's module, and acts on
    that section's documented option: a per-module value never turns into a rule for all
    modules or for another option. -/
theorem v1_module_scoped_rule_origin {env : BufModel.ConfigGen.Env} {x : BufModel.ConfigGen.ExtManagedV1}
    {cfg : Config} (h : configOfV1 env x = some cfg) (o : Override) (ho : o ∈ cfg.overrides)
    (hmod : o.module ≠ []) :
    ∃ s : V1Section, ∃ kv ∈ (s.get x).override, o.module = kv.1 ∧ o.path = [] ∧
      concerns o.fileOption s.documented = true := by
  obtain ⟨m, hm, rfl⟩ := configOfV1_some h
  obtain ⟨o0, ho0, rfl⟩ := List.mem_map.mp ho
  have hmod0 : o0.module ≠ [] := by
    intro e; apply hmod; unfold overrideOf; cases o0.value <;> simp [e]
  obtain ⟨s, kv, hkv, hp, hm', _, hfo, _, _⟩ := readManagedV1_scoped_origin hm o0 ho0 hmod0
  refine ⟨s, kv, hkv, ?_, ?_, ?_⟩
  · unfold overrideOf; cases o0.value <;> simp [hm']
  · unfold overrideOf; cases o0.value <;> simp [hp]
  · have : (overrideOf o0).fileOption = foOf s.overrideOption := by
      unfold overrideOf; cases o0.value <;> simp [optFoOf, hfo]
    rw [this]; exact (v1_key_table_governs_documented s).2

/-! ### the mark-sweeper's path key (number family)

  The model compares a location path with the marks as `List Nat` (`mk.contains loc.path` in
  `sweepLoop`): exact, whole-path, unbounded.  The Go code compares map keys
  (`getPathKey`: four little-endian bytes per int32 element); that is the same relation because
  the key is injective on paths whose elements fit 32 bits: -/

theorem path_key_injective (p q : List Nat) (hp : ∀ e ∈ p, e < 4294967296) (hq : ∀ e ∈ q, e < 4294967296)
    (h : pathKey p = pathKey q) : p = q :=
  pathKey_injective p q hp hq h

/-- The two-byte key of the seeded regression identifies a custom option 65536+N with the
    built-in option N (file option 65537 with java_package, field option 65542 with jstype);
    with exact comparison the sweeper removes the rewritten java_package location `[8,1]` and
    its parent only — the location of custom option `[8,65537]` (index 4) and its parent stay. -/
theorem path_key16_counterexample :
    pathKey16 [8, 65537] = pathKey16 [8, 1] ∧ pathKey16 [4, 0, 2, 0, 8, 65542] = pathKey16 [4, 0, 2, 0, 8, 6] ∧
    pathKey [8, 65537] ≠ pathKey [8, 1] ∧
    sweepRemoved true [[8, 1]] [⟨[], 0⟩, ⟨[8], 1⟩, ⟨[8, 1], 2⟩, ⟨[8], 3⟩, ⟨[8, 65537], 4⟩] = some [2, 1] := by
  decide

/-! ### idempotence -/

/-- Applying managed mode to its own output changes nothing and reports no error (also when
    the first application ended with a sweep error; both preserve modes). -/
theorem modify_idempotent (p : Bool) (cfg : Config) (img : List File) :
    (modifyWith true p cfg (modifyWith true p cfg img).files).files = (modifyWith true p cfg img).files ∧
    (modifyWith true p cfg (modifyWith true p cfg img).files).err = false := by
  rw [modifyWith_idempotent]
  exact ⟨rfl, rfl⟩

/-! ### non-vacuity: a concrete run (versioned package, pre-set java_package, a non-governed
    option `deprecated` (23) and a custom option (50001), a field with `deprecated` (3) and
    jstype; a disable rule by path, a value override followed by a suffix override, a prefix
    override, a bool override, a jstype override; a WKT file alongside) -/

example (p : Bool) : ∃ f', Out p exCfg [exWkt, exFile] exFile f' :=
  ⟨(modifyWith true p exCfg [exWkt, exFile]).files[1]'(by rw [modify_length]; decide), 1, rfl,
    List.getElem?_eq_getElem _⟩

example : isWKT exWkt.path = true ∧ isWKT exFile.path = false := by decide

set_option maxRecDepth 100000 in
example :
    let r := modifyWith true false exCfg [exWkt, exFile]
    let out := r.files.getD 1 exFile
    r.files.head? = some exWkt ∧                                   -- WKT file untouched
    out.strOpts .javaPackage = some "acme.weather.v1.gen".toList ∧ -- value override, then suffix: no "com"
    out.strOpts .goPackage = some "gen/go/acme/weather/v1;weatherv1".toList ∧
    out.strOpts .objcClassPrefix = some "AWX".toList ∧
    out.strOpts .csharpNamespace = none ∧                          -- disabled by path "acme"
    out.strOpts .rubyPackage = some "Acme::Weather::V1".toList ∧
    out.boolOpts .javaMultipleFiles = none ∧                       -- override false = protobuf default
    out.boolOpts .ccEnableArenas = none ∧
    getOpt 23 out.opts = some (.bool true) ∧ getOpt 50001 out.opts = some (.raw 77) ∧
    out.payload = 7 ∧
    out.fields.map (·.opts) = [[(3, .bool true), (6, .num 2)], []] ∧ -- int64 rewritten, int32 not permitted
    out.locs.map (·.payload) = [0, 3, 4, 5, 7, 8] ∧                -- [8],[8,1],[…,8,6] swept; [8],[8,23],[…,8],[…,8,3] kept
    r.err = false := by
  decide

set_option maxRecDepth 100000 in
/-- with `ModifyPreserveExisting` the pre-set java_package and jstype stay, and so do their
    source locations. -/
example :
    let r := modifyWith true true exCfg [exWkt, exFile]
    let out := r.files.getD 1 exFile
    out.strOpts .javaPackage = some "com.old".toList ∧
    out.strOpts .goPackage = some "gen/go/acme/weather/v1;weatherv1".toList ∧
    out.fields.map (·.opts) = exFile.fields.map (·.opts) ∧
    out.locs = exFile.locs ∧ r.err = false := by
  decide

example : isFileOptionDisabled exCfg exFile .csharpNamespace = true := by decide

-- hypotheses of `precedence_bool` / `precedence_optimize`
example : isFileOptionDisabled exCfg exFile BoolOpt.javaMultipleFiles.fileOpt = false ∧
    (true && (exFile.boolOpts .javaMultipleFiles).isSome) = false ∧
    isFileOptionDisabled exCfg exFile .optimizeFor = false ∧ (true && exFile.optimizeFor.isSome) = false := by
  decide

set_option maxRecDepth 100000 in
-- the declarative description on the example: value override then suffix override
example : strSpec exCfg exFile .javaPackage = some "acme.weather.v1.gen".toList ∧
    strSpec exCfg exFile .goPackage = some "gen/go/acme/weather/v1;weatherv1".toList ∧
    strSpec exCfg exFile .csharpNamespace = none := by decide

-- hypotheses of `precedence_str_last_value` (a prefix override, then the value override, then an
-- unrelated rule) and of `precedence_str_default`
example : ∃ (pre post : List Override) (r : Override),
    [⟨[], [], [], .javaPackagePrefix, false, "org".toList, false, 0⟩,
     ⟨"acme".toList, [], [], .javaPackage, false, "x.y".toList, false, 0⟩,
     ⟨[], [], [], .goPackagePrefix, false, "g".toList, false, 0⟩] = pre ++ r :: post ∧
    fileMatch exFile r.path r.module = true ∧ r.fileOption = StrOpt.javaPackage.valueOpt ∧ r.sval ≠ [] ∧
    ∀ r' ∈ post, relevant exFile .javaPackage r' = false :=
  ⟨[⟨[], [], [], .javaPackagePrefix, false, "org".toList, false, 0⟩],
   [⟨[], [], [], .goPackagePrefix, false, "g".toList, false, 0⟩],
   ⟨"acme".toList, [], [], .javaPackage, false, "x.y".toList, false, 0⟩, rfl, by decide, rfl, by decide, by decide⟩

example : isFileOptionDisabled exCfg exFile StrOpt.objcClassPrefix.valueOpt = false ∧
    ∀ r ∈ exCfg.overrides, relevant exFile .objcClassPrefix r = false := by decide

-- `jsWant` on the example: last matching override is JS_NUMBER (2); the int32 field is left alone
example : exFile.fields.map (jsWant false exCfg exFile) = [some 2, none] ∧
    exFile.fields.map (jsWant true exCfg exFile) = [some 1, none] := by decide

-- hypotheses of `disabled_untouched_jstype`
example : ∃ d : Disable, d.jstype = true ∧ fileMatch exFile d.path d.module = true ∧
    d.fieldName = "acme.weather.v1.M.id".toList :=
  ⟨⟨"acme/weather".toList, [], "acme.weather.v1.M.id".toList, .unspecified, true⟩, rfl, by decide, rfl⟩

-- `Governs` / `JsGoverns` are satisfiable and refutable on the example
example : Governs false exCfg exFile 1 ∧ ¬ Governs false exCfg exFile 37 ∧ ¬ Governs true exCfg exFile 1 ∧
    ¬ Governs false exCfg exFile 23 := by
  refine ⟨⟨rfl, by decide, .str .javaPackage, rfl, by decide, rfl⟩, ?_, ?_, ?_⟩
  · rintro ⟨_, _, g, ht, hd, _⟩
    have : g = .str .csharpNamespace := Gov.tag_inj _ _ ht
    subst this; revert hd; decide
  · rintro ⟨_, _, g, ht, _, hp⟩
    have : g = .str .javaPackage := Gov.tag_inj _ _ ht
    subst this; revert hp; decide
  · rintro ⟨_, _, g, ht, _, _⟩
    cases g with
    | str o => cases o <;> exact absurd ht (by decide)
    | bool o => cases o <;> exact absurd ht (by decide)
    | optimize => exact absurd ht (by decide)

set_option maxRecDepth 100000 in
example : sweepRemoved true (fileMarks false exCfg exFile) exFile.locs = some [6, 2, 1] := by decide

-- (the hypothesis `err = false` of `modify_sweep_exact_partial` is the last conjunct of the
-- concrete run above)

-- `RootsFirst` (hypothesis of `sweep_parent_exact` / `modify_sweep_exact`) holds for the example
example : RootsFirst exFile.locs := rootsFirst_of_check (by decide)

-- deep paths: classification, and the regression family "jstype rewritten next to an option
-- whose location runs two or more elements below the FieldOptions location": the jstype
-- location goes, the FieldOptions parent and the deep locations stay; with jstype alone the
-- parent goes too
example : pathType [4, 0, 2, 0, 8] = .fieldOptionsRoot ∧ pathType [4, 0, 2, 0, 8, 6] = .fieldOption ∧
    pathType [4, 0, 2, 0, 8, 50000, 1] = .fieldOption ∧ pathType [4, 0, 2, 0, 8, 50003, 0] = .fieldOption ∧
    pathType [7, 1, 8, 50002, 3, 3, 0] = .fieldOption ∧ pathType [4, 0, 3, 1, 6, 0, 8, 19, 0] = .fieldOption ∧
    pathType [4, 0, 7, 50020, 1] = .notFieldOption ∧ pathType [8, 50001, 1] = .notFieldOption := by decide

example :
    sweepRemoved true [[4, 0, 2, 0, 8, 6]]
      [⟨[4, 0, 2, 0], 0⟩, ⟨[4, 0, 2, 0, 8], 1⟩, ⟨[4, 0, 2, 0, 8, 50000, 1], 2⟩, ⟨[4, 0, 2, 0, 8, 6], 3⟩] = some [3] ∧
    sweepRemoved true [[4, 0, 2, 0, 8, 6]]
      [⟨[4, 0, 2, 0], 0⟩, ⟨[4, 0, 2, 0, 8], 1⟩, ⟨[4, 0, 2, 0, 8, 6], 2⟩, ⟨[4, 0, 2, 0, 8, 50003, 0], 3⟩,
       ⟨[4, 0, 2, 0, 8, 50003, 1], 4⟩] = some [2] ∧
    sweepRemoved true [[4, 0, 2, 0, 8, 6]]
      [⟨[4, 0, 2, 0], 0⟩, ⟨[4, 0, 2, 0, 8], 1⟩, ⟨[4, 0, 2, 0, 8, 6], 2⟩, ⟨[4, 0, 2, 1, 8], 3⟩,
       ⟨[4, 0, 2, 1, 8, 50000, 1], 4⟩] = some [2, 1] := by decide

example : RootsFirst [⟨[4, 0, 2, 0], 0⟩, ⟨[4, 0, 2, 0, 8], 1⟩, ⟨[4, 0, 2, 0, 8, 50000, 1], 2⟩, ⟨[4, 0, 2, 0, 8, 6], 3⟩] :=
  rootsFirst_of_check (by decide)

/-! non-vacuity of the config-key theorems: a v1 document with `csharp_namespace.except`,
    `java_package_prefix {default, override}` and `cc_enable_arenas`; the excepted module's file
    has csharp_namespace (37) disabled and nothing else. -/

def exEnv : BufModel.ConfigGen.Env :=
  { remoteHost := fun _ => none, validFullName := fun _ => true, validPath := fun _ => true, lookPath := fun _ => false }

def exV1 : BufModel.ConfigGen.ExtManagedV1 :=
  { enabled := true, ccEnableArenas := some false, javaMultipleFiles := none, javaStringCheckUtf8 := none,
    javaPackagePrefix := ⟨"net".toList, [], [("buf.build/acme/pet".toList, "org".toList)]⟩,
    csharpNamespace := ⟨[], ["buf.build/acme/weather".toList], []⟩,
    optimizeFor := ⟨[], [], []⟩, goPackagePrefix := ⟨[], [], []⟩, objcClassPrefix := ⟨[], [], []⟩,
    rubyPackage := ⟨[], [], []⟩, override := [] }

example : configOfV1 exEnv exV1 = some
    { enabled := true,
      disables := [⟨[], "buf.build/acme/weather".toList, [], .csharpNamespace, false⟩],
      overrides := [⟨[], [], [], .ccEnableArenas, false, [], false, 0⟩,
                    ⟨[], [], [], .javaPackagePrefix, false, "net".toList, false, 0⟩,
                    ⟨[], "buf.build/acme/pet".toList, [], .javaPackagePrefix, false, "org".toList, false, 0⟩] } := by
  decide

example : "buf.build/acme/weather".toList ∈ (V1Section.csharpNamespace.get exV1).except ∧
    exFile.module = some "buf.build/acme/weather".toList ∧ V1Section.csharpNamespace.documented.tag = 37 := by decide

example : ∀ cfg, configOfV1 exEnv exV1 = some cfg →
    isFileOptionDisabled cfg exFile StrOpt.csharpNamespace.valueOpt = true ∧
    isFileOptionDisabled cfg exFile StrOpt.javaPackage.valueOpt = false := by
  intro cfg h
  refine ⟨v1_except_exempts_documented_option h .csharpNamespace "buf.build/acme/weather".toList (by decide) exFile (by decide), ?_⟩
  have hc : configOfV1 exEnv exV1 = some (toConfig ((BufModel.ConfigGen.readManagedV1 exEnv exV1).getD default)) := by decide
  rw [hc] at h; injection h with h; subst h; decide

example : ("buf.build/acme/pet".toList, "org".toList) ∈ (V1Section.javaPackagePrefix.get exV1).override := by decide

end BufProofs.C18
