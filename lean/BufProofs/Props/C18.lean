import BufProofs.Lemmas.ManagedLemmas
/-
  C18 — managed mode rewrites only what it governs.

  `modify cfg img` is the model of `bufimagemodify.Modify(image, config)` (after the fix of the
  sweeper, see `sweep_old_counterexample`); `modifyWith fixed preserve` additionally models the
  `ModifyPreserveExisting` option and the sweeper before the fix.

  `Out cfg img f f'` = "f' is the output file at the position of input file f".
-/
namespace BufProofs.C18
open BufModel.Managed BufProofs.ManagedLemmas

/-- same number of files, in the same order. -/
theorem modify_length (cfg : Config) (img : List File) :
    (BufModel.Managed.modify cfg img).files.length = img.length := by
  cases h : cfg.enabled
  · unfold BufModel.Managed.modify modifyWith; simp [h]
  · exact (AllRel.length_eq (modifyWith_rel true false cfg img h)).symm

/-- With managed mode disabled the image is untouched (and no error is reported). -/
theorem disabled_mode_identity (cfg : Config) (img : List File) (h : cfg.enabled = false) :
    (BufModel.Managed.modify cfg img).files = img ∧ (BufModel.Managed.modify cfg img).err = false := by
  unfold BufModel.Managed.modify modifyWith; simp [h]

theorem out_rel {cfg : Config} {img : List File} {f f' : File} (he : cfg.enabled = true)
    (h : Out cfg img f f') : OutRel true false cfg f f' := by
  obtain ⟨i, h1, h2⟩ := h
  exact AllRel.get (modifyWith_rel true false cfg img he) i f f' h1 h2

/-- Frame: everything that is not a governed option is unchanged in every file — the opaque
    rest of the descriptor, path, package, module, every field's name / path / type / rest;
    the source-info list only loses entries (the survivors are unchanged and in order).
    Holds whether or not the sweep reports an error. -/
theorem frame (cfg : Config) (img : List File) {f f' : File} (h : Out cfg img f f') :
    FileFrame f f' := by
  cases he : cfg.enabled
  · obtain ⟨i, h1, h2⟩ := h
    rw [(disabled_mode_identity cfg img he).1, h1] at h2
    cases h2
    exact ⟨rfl, rfl, rfl, rfl, AllRel.refl' (fun _ => ⟨rfl, rfl, rfl, rfl⟩) _, List.Sublist.refl _⟩
  · exact outRel_frame (out_rel he h)

/-- The governed options of an output file are those computed by the thirteen modifiers on the
    input file alone (no dependence on other files, on the sweep or on its error). -/
theorem out_options {cfg : Config} {img : List File} {f f' : File} (he : cfg.enabled = true)
    (h : Out cfg img f f') :
    f'.strOpts = (modifyOptions false cfg f).strOpts ∧
    f'.boolOpts = (modifyOptions false cfg f).boolOpts ∧
    f'.optimizeFor = (modifyOptions false cfg f).optimizeFor ∧
    f'.fields = (modifyOptions false cfg f).fields := by
  obtain ⟨l, rfl, _⟩ := out_rel he h
  exact ⟨rfl, rfl, rfl, rfl⟩

/-- Well-known-type files are returned exactly as they were (options, fields, source info). -/
theorem wkt_untouched (cfg : Config) (img : List File) {f f' : File} (h : Out cfg img f f')
    (hw : isWKT f.path = true) : f' = f := by
  cases he : cfg.enabled
  · obtain ⟨i, h1, h2⟩ := h
    rw [(disabled_mode_identity cfg img he).1, h1] at h2
    exact (Option.some.inj h2).symm
  · obtain ⟨l, rfl, hl⟩ := out_rel he h
    have hm : modifyOptions false cfg f = f := by unfold modifyOptions; simp [hw]
    have hk : fileMarks false cfg f = [] := by unfold fileMarks; simp [hw]
    simp only [hm, hk] at hl ⊢
    rcases hl with rfl | hs
    · rfl
    · unfold sweepLocs at hs; simp at hs; subst hs; rfl


/-! ### disable rules -/


/-- A disable rule matching the file and the option (or all options) leaves a string option
    exactly as it was. -/
theorem disabled_untouched_str {cfg : Config} {img : List File} {f f' : File}
    (he : cfg.enabled = true) (h : Out cfg img f f') (o : StrOpt)
    (hd : isFileOptionDisabled cfg f o.valueOpt = true) : f'.strOpts o = f.strOpts o := by
  rw [(out_options he h).1]
  unfold modifyOptions applyOptions
  split
  · rfl
  · have : strChange false cfg f o = none := by
      unfold strChange strTarget; simp [stringOverride_disabled hd]
    simp [this]

theorem disabled_untouched_bool {cfg : Config} {img : List File} {f f' : File}
    (he : cfg.enabled = true) (h : Out cfg img f f') (o : BoolOpt)
    (hd : isFileOptionDisabled cfg f o.fileOpt = true) : f'.boolOpts o = f.boolOpts o := by
  rw [(out_options he h).2.1]
  unfold modifyOptions applyOptions
  split
  · rfl
  · have : boolChange false cfg f o = none := by
      unfold boolChange boolTarget; simp [hd]
    simp [this]

theorem disabled_untouched_optimize {cfg : Config} {img : List File} {f f' : File}
    (he : cfg.enabled = true) (h : Out cfg img f f')
    (hd : isFileOptionDisabled cfg f .optimizeFor = true) : f'.optimizeFor = f.optimizeFor := by
  rw [(out_options he h).2.2.1]
  unfold modifyOptions applyOptions
  split
  · rfl
  · have : optimizeChange false cfg f = none := by
      unfold optimizeChange optimizeTarget; simp [hd]
    simp [this]

/-- `isFileOptionDisabled` is exactly: some disable rule names this option or no option, names
    no field option, and matches the file by path containment and module. -/
theorem isFileOptionDisabled_iff (cfg : Config) (f : File) (o : FileOption) :
    isFileOptionDisabled cfg f o = true ↔
      ∃ r ∈ cfg.disables, (r.fileOption = .unspecified ∨ r.fileOption = o) ∧ r.jstype = false ∧
        fileMatch f r.path r.module = true := by
  unfold isFileOptionDisabled
  simp [List.any_eq_true, and_assoc]

/-- A disable rule for jstype (or for all options) that matches the file and names this field
    (or no field) leaves the field's jstype as it was. -/
theorem disabled_untouched_jstype {cfg : Config} {img : List File} {f f' : File}
    (he : cfg.enabled = true) (h : Out cfg img f f') (d : Disable) (hd : d ∈ cfg.disables)
    (hopt : d.jstype = true ∨ d.fileOption = .unspecified)
    (hm : fileMatch f d.path d.module = true)
    (j : Nat) (fd : Field) (hj : f.fields[j]? = some fd)
    (hf : d.fieldName = [] ∨ d.fieldName = fd.fullName) : f'.fields[j]? = some fd := by
  rw [(out_options he h).2.2.2]
  unfold modifyOptions applyOptions
  split
  · exact hj
  · have hmem : d ∈ jsDisables cfg f := by
      unfold jsDisables
      simp only [List.mem_filter, hd, hm, Bool.and_true, true_and]
      rcases hopt with h1 | h2
      · simp [h1]
      · cases hjs : d.jstype <;> simp [h2]
    have : jsChange false cfg f fd = none := by
      unfold jsChange
      rcases hf with h0 | h1
      · have : jsFileActive cfg f = false := by
          unfold jsFileActive
          have : (jsDisables cfg f).any (fun r => r.fieldName = []) = true :=
            List.any_eq_true.mpr ⟨d, hmem, by simp [h0]⟩
          simp [this]
        simp [this]
      · have : (jsDisables cfg f).any (fun r => r.fieldName = fd.fullName) = true :=
          List.any_eq_true.mpr ⟨d, hmem, by simp [h1]⟩
        simp [this]
    simp [List.getElem?_map, hj, applyField, this]

/-! ### precedence: last matching override, else the managed default -/

/-- bool options: in a file that is not a WKT and not exempted, the effective value after
    `modify` is the value of the last matching override, else the managed default. -/
theorem precedence_bool {cfg : Config} {img : List File} {f f' : File}
    (he : cfg.enabled = true) (h : Out cfg img f f') (o : BoolOpt)
    (hw : isWKT f.path = false) (hd : isFileOptionDisabled cfg f o.fileOpt = false) :
    (f'.boolOpts o).getD o.protoDefault =
      (((cfg.overrides.filter fun r => fileMatch f r.path r.module && r.fileOption = o.fileOpt).getLast?).map
        (·.bval)).getD o.managedDefault := by
  rw [(out_options he h).2.1, ← lastOverride_eq]
  unfold modifyOptions applyOptions
  simp only [hw, Bool.false_eq_true, ↓reduceIte]
  unfold boolChange boolTarget
  simp only [hd, Bool.false_and, Bool.false_eq_true, ↓reduceIte]
  cases lastOverride cfg f o.fileOpt with
  | none =>
    simp only [Option.map_none, Option.getD_none]
    by_cases hc : (f.boolOpts o).getD o.protoDefault = o.managedDefault
    · simp [hc]
    · simp [hc]
  | some r =>
    simp only [Option.map_some, Option.getD_some]
    by_cases hc : (f.boolOpts o).getD o.protoDefault = r.bval
    · simp [hc]
    · simp [hc]

/-- optimize_for: same precedence, default SPEED. -/
theorem precedence_optimize {cfg : Config} {img : List File} {f f' : File}
    (he : cfg.enabled = true) (h : Out cfg img f f')
    (hw : isWKT f.path = false) (hd : isFileOptionDisabled cfg f .optimizeFor = false) :
    f'.optimizeFor.getD optimizeSpeed =
      (((cfg.overrides.filter fun r => fileMatch f r.path r.module && r.fileOption = .optimizeFor).getLast?).map
        (·.nval)).getD optimizeSpeed := by
  rw [(out_options he h).2.2.1, ← lastOverride_eq]
  unfold modifyOptions applyOptions
  simp only [hw, Bool.false_eq_true, ↓reduceIte]
  unfold optimizeChange optimizeTarget
  simp only [hd, Bool.false_and, Bool.false_eq_true, ↓reduceIte]
  cases lastOverride cfg f .optimizeFor with
  | none =>
    simp only [Option.map_none, Option.getD_none]
    by_cases hc : f.optimizeFor.getD optimizeSpeed = optimizeSpeed
    · simp [hc]
    · simp [hc]
  | some r =>
    simp only [Option.map_some, Option.getD_some]
    by_cases hc : f.optimizeFor.getD optimizeSpeed = r.nval
    · simp [hc]
    · simp [hc]

/-- `jsTarget` is the value of the last override for jstype that matches the file and names
    this field or no field. -/
theorem jsTarget_eq (cfg : Config) (f : File) (name : List Char) :
    jsTarget cfg f name =
      ((cfg.overrides.filter fun r => (r.jstype && fileMatch f r.path r.module) &&
          (r.fieldName = [] || r.fieldName = name)).getLast?).map (·.nval) := by
  unfold jsTarget jsOverrides
  have := foldl_last (fun r : Override => decide (r.fieldName = []) || decide (r.fieldName = name)) (·.nval)
    (cfg.overrides.filter fun r => r.jstype && fileMatch f r.path r.module) none
  simp only [Bool.or_eq_true, decide_eq_true_eq] at this
  simp only [Bool.or_eq_true, decide_eq_true_eq, this, Option.or_none, List.filter_filter]
  congr 2
  apply List.filter_congr
  intro r _
  cases r.jstype <;> cases fileMatch f r.path r.module <;> simp

/-- jstype is only ever rewritten to the value of the last matching override (there is no
    default for jstype). -/
theorem precedence_jstype {cfg : Config} {img : List File} {f f' : File}
    (he : cfg.enabled = true) (h : Out cfg img f f')
    (j : Nat) (fd fd' : Field) (hj : f.fields[j]? = some fd) (hj' : f'.fields[j]? = some fd')
    (hne : fd'.jstype ≠ fd.jstype) :
    fd'.jstype =
      ((cfg.overrides.filter fun r => (r.jstype && fileMatch f r.path r.module) &&
          (r.fieldName = [] || r.fieldName = fd.fullName)).getLast?).map (·.nval) := by
  rw [(out_options he h).2.2.2] at hj'
  unfold modifyOptions applyOptions at hj'
  split at hj'
  · rw [hj] at hj'; cases hj'; exact absurd rfl hne
  · simp only [List.getElem?_map, hj, Option.map_some, Option.some.injEq] at hj'
    subst hj'
    unfold applyField at hne ⊢
    cases hc : jsChange false cfg f fd with
    | none => simp [hc] at hne
    | some v =>
      dsimp only
      rw [← jsTarget_eq]
      unfold jsChange at hc
      split at hc; · cases hc
      split at hc; · cases hc
      split at hc; · cases hc
      rename_i v' hv'
      split at hc; · cases hc
      split at hc; · cases hc
      split at hc; · cases hc
      split at hc; · cases hc
      cases hc; exact hv'.symm


/-! ### string options -/

/-- string options: whenever the modifier computes a target value `v` (from the last matching
    overrides, else from the default formula), the effective value after `modify` is `v`. -/
theorem precedence_str_effective {cfg : Config} {img : List File} {f f' : File}
    (he : cfg.enabled = true) (h : Out cfg img f f') (o : StrOpt)
    (hw : isWKT f.path = false) (v : List Char) (ht : strTarget cfg f o = some v) :
    (f'.strOpts o).getD [] = v := by
  rw [(out_options he h).1]
  unfold modifyOptions applyOptions
  simp only [hw, Bool.false_eq_true, ↓reduceIte]
  unfold strChange
  simp only [Bool.false_and, Bool.false_eq_true, ↓reduceIte, ht]
  by_cases hc : (f.strOpts o).getD [] = v
  · simp [hc]
  · simp [hc]

/-- … and when it computes none (option disabled, nothing configured and no default, or the
    computed value is empty) the option is left exactly as it was. -/
theorem str_untouched_without_target {cfg : Config} {img : List File} {f f' : File}
    (he : cfg.enabled = true) (h : Out cfg img f f') (o : StrOpt)
    (ht : strTarget cfg f o = none) : f'.strOpts o = f.strOpts o := by
  rw [(out_options he h).1]
  unfold modifyOptions applyOptions
  split
  · rfl
  · unfold strChange; simp [ht]

/-- Override before default, last match wins: if the last override that concerns the option is
    a value override with a non-empty value, that value is the target — whatever prefix,
    suffix or value overrides precede it and whatever the default formula gives. -/
theorem precedence_str_last_value {cfg : Config} {f : File} (o : StrOpt)
    (hd : isFileOptionDisabled cfg f o.valueOpt = false)
    (pre post : List Override) (r : Override) (hsplit : cfg.overrides = pre ++ r :: post)
    (hm : fileMatch f r.path r.module = true) (hv : r.fileOption = o.valueOpt)
    (hne : r.sval ≠ [])
    (hpost : ∀ r' ∈ post, relevant f o r' = false) :
    strTarget cfg f o = some r.sval := by
  have hso : stringOverride cfg f (o.defaultSOO f) o.valueOpt o.prefixOpt o.suffixOpt = ⟨r.sval, [], []⟩ := by
    unfold stringOverride
    simp only [hd, Bool.false_eq_true, ↓reduceIte, hsplit, List.foldl_append, List.foldl_cons]
    rw [foldl_irrelevant cfg f o post hpost]
    unfold sooStep
    simp [hm, hv]
  unfold strTarget
  simp only [hso]
  have h1 : (⟨r.sval, [], []⟩ : SOO) ≠ SOO.empty := by
    intro hc; apply hne; exact congrArg SOO.value hc
  simp [h1, hne]

/-- Default: with no override concerning the option (and the option not disabled) the target
    comes from the default formula alone — the default options with the prefix / suffix
    blanked when their companion option is disabled. -/
theorem precedence_str_default {cfg : Config} {f : File} (o : StrOpt)
    (hd : isFileOptionDisabled cfg f o.valueOpt = false)
    (hnone : ∀ r ∈ cfg.overrides, relevant f o r = false) :
    stringOverride cfg f (o.defaultSOO f) o.valueOpt o.prefixOpt o.suffixOpt =
      ⟨(o.defaultSOO f).value,
       if (o.prefixOpt = .unspecified || isFileOptionDisabled cfg f o.prefixOpt) then [] else (o.defaultSOO f).pfx,
       if (o.suffixOpt = .unspecified || isFileOptionDisabled cfg f o.suffixOpt) then [] else (o.defaultSOO f).suffix⟩ := by
  unfold stringOverride
  simp only [hd, Bool.false_eq_true, ↓reduceIte]
  exact foldl_irrelevant cfg f o cfg.overrides hnone _


/-! ### source-info sweep -/


/-- Only locations of rewritten options are removed: every removed location is (a) a location
    whose path is the path of a rewritten option (a mark), or (b) the `[8]` parent immediately
    before the location of a rewritten file option, or (c) a FieldOptions location that is a
    proper prefix of a removed field-option location. -/
theorem sweep_sound (mk : List (List Nat)) (locs : List Loc) (rm : List Nat)
    (h : sweepRemoved true mk locs = some rm) (k : Nat) (hk : k ∈ rm) :
    (∃ loc : Loc, locs[k]? = some loc ∧ loc.path ∈ mk) ∨
    (∃ loc : Loc, locs[k + 1]? = some loc ∧ loc.path ∈ mk ∧ isFileOptPath loc.path = true) ∨
    (∃ loc : Loc, locs[k]? = some loc ∧ pathType loc.path = .fieldOptionsRoot ∧
      ∃ (j : Nat) (loc' : Loc), locs[j]? = some loc' ∧ loc'.path ∈ mk ∧
        properPrefix loc.path loc'.path = true) := by
  unfold sweepRemoved at h
  cases hl : sweepLoop mk 0 none locs ⟨[], []⟩ with
  | none => simp [hl] at h
  | some st =>
    simp only [hl, Option.some.injEq] at h
    subst h
    have inv := sweepLoop_inv mk locs locs 0 none _ st (by simp) (sweepInv_init mk locs) hl
    rcases List.mem_append.mp hk with h1 | h1
    · rcases inv.removedOk k h1 with h2 | h2
      · exact Or.inl h2
      · exact Or.inr (Or.inl h2)
    · unfold emptiedRoots at h1
      obtain ⟨e, he, rfl⟩ := List.mem_map.mp h1
      obtain ⟨he1, he2⟩ := List.mem_filter.mp he
      simp only [Bool.not_true, Bool.false_or, Bool.and_eq_true] at he2
      obtain ⟨⟨loc, hloc, hp⟩, hroot, hhit⟩ := inv.trieOk e he1
      refine Or.inr (Or.inr ⟨loc, hloc, by rw [hp]; exact hroot, ?_⟩)
      obtain ⟨j, loc', a, b, c⟩ := hhit he2.2
      exact ⟨j, loc', a, b, by rw [hp]; exact c⟩

/-- … and every location whose path is the path of a rewritten option is removed. -/
theorem sweep_complete (fixed : Bool) (mk : List (List Nat)) (locs : List Loc) (rm : List Nat)
    (h : sweepRemoved fixed mk locs = some rm) (k : Nat) (loc : Loc)
    (hk : locs[k]? = some loc) (hm : loc.path ∈ mk) : k ∈ rm := by
  unfold sweepRemoved at h
  cases hl : sweepLoop mk 0 none locs ⟨[], []⟩ with
  | none => simp [hl] at h
  | some st =>
    simp only [hl, Option.some.injEq] at h
    subst h
    have inv := sweepLoop_inv mk locs locs 0 none _ st (by simp) (sweepInv_init mk locs) hl
    have hlt : k < locs.length := by
      rcases Nat.lt_or_ge k locs.length with h1 | h1
      · exact h1
      · simp [List.getElem?_eq_none h1] at hk
    exact List.mem_append.mpr (Or.inl (inv.complete k hlt loc hk hm))

/-- Before the fix the sweeper also removed FieldOptions locations that never had a child
    (`[default = 5]`, `[json_name = "x"]`) of fields nobody touched, as soon as any option of
    the file was rewritten: here java_package `[8,1]` is rewritten and location 2 goes too.
    Replayed on the unchanged tree by the harness (oracle class
    `sweep-removed-childless-field-options-location`). -/
theorem sweep_old_counterexample :
    sweepRemoved false [[8, 1]] [⟨[8], 0⟩, ⟨[8, 1], 1⟩, ⟨[4, 0, 2, 0, 8], 2⟩] = some [1, 0, 2] ∧
    sweepRemoved true [[8, 1]] [⟨[8], 0⟩, ⟨[8, 1], 1⟩, ⟨[4, 0, 2, 0, 8], 2⟩] = some [1, 0] := by
  decide



/-! ### marks = rewritten options -/

/-- The marks handed to the sweeper are exactly the SourceCodeInfo paths of the options that
    a modifier rewrote: `[8, tag]` per rewritten file option, `field path ++ [8, 6]` per
    rewritten jstype. -/
theorem marks_exact (preserve : Bool) (cfg : Config) (f : File) (p : List Nat) :
    p ∈ marks preserve cfg f ↔
      (∃ o : StrOpt, (strChange preserve cfg f o).isSome = true ∧ p = [8, o.tag]) ∨
      (∃ o : BoolOpt, (boolChange preserve cfg f o).isSome = true ∧ p = [8, o.tag]) ∨
      ((optimizeChange preserve cfg f).isSome = true ∧ p = [8, optimizeForTag]) ∨
      (∃ fd ∈ f.fields, (jsChange preserve cfg f fd).isSome = true ∧ fd.path ≠ [] ∧ p = fd.path ++ [8, 6]) := by
  have hsAll : ∀ o : StrOpt, o ∈ StrOpt.all := by intro o; cases o <;> decide
  have hbAll : ∀ o : BoolOpt, o ∈ BoolOpt.all := by intro o; cases o <;> decide
  unfold marks
  simp only [List.mem_append, List.mem_filterMap, Option.mem_toList]
  constructor
  · rintro (((⟨o, _, ho⟩ | ⟨o, _, ho⟩) | ho) | ⟨fd, hfd, ho⟩)
    · cases hc : strChange preserve cfg f o <;> simp [hc] at ho
      exact Or.inl ⟨o, by simp [hc], ho.symm⟩
    · cases hc : boolChange preserve cfg f o <;> simp [hc] at ho
      exact Or.inr (Or.inl ⟨o, by simp [hc], ho.symm⟩)
    · cases hc : optimizeChange preserve cfg f <;> simp [hc] at ho
      exact Or.inr (Or.inr (Or.inl ⟨rfl, ho.symm⟩))
    · cases hc : jsChange preserve cfg f fd <;> simp [hc] at ho
      exact Or.inr (Or.inr (Or.inr ⟨fd, hfd, by rw [hc]; rfl, ho.1, ho.2.symm⟩))
  · rintro (⟨o, h1, rfl⟩ | ⟨o, h1, rfl⟩ | ⟨h1, rfl⟩ | ⟨fd, hfd, h1, h2, rfl⟩)
    · obtain ⟨v, hv⟩ := Option.isSome_iff_exists.mp h1
      exact Or.inl (Or.inl (Or.inl ⟨o, hsAll o, by simp [hv]⟩))
    · obtain ⟨v, hv⟩ := Option.isSome_iff_exists.mp h1
      exact Or.inl (Or.inl (Or.inr ⟨o, hbAll o, by simp [hv]⟩))
    · obtain ⟨v, hv⟩ := Option.isSome_iff_exists.mp h1
      exact Or.inl (Or.inr (by simp [hv]))
    · obtain ⟨v, hv⟩ := Option.isSome_iff_exists.mp h1
      exact Or.inr ⟨fd, hfd, by simp [hv, h2]⟩

/-- A modifier reports a change exactly when the option's value differs afterwards. -/
theorem str_marked_iff_changed (preserve : Bool) (cfg : Config) (f : File) (o : StrOpt) :
    (strChange preserve cfg f o).isSome = true ↔ (applyOptions preserve cfg f).strOpts o ≠ f.strOpts o := by
  unfold applyOptions
  cases hc : strChange preserve cfg f o with
  | none => simp [hc]
  | some v =>
    simp only [Option.isSome_some, true_iff, hc]
    unfold strChange at hc
    split at hc; · cases hc
    split at hc; · cases hc
    split at hc; · cases hc
    cases hc
    rename_i hne
    intro heq
    apply hne
    rw [← heq]; rfl


/-! ### idempotence -/

/-- Applying managed mode to its own output changes nothing and reports no error (also when
    the first application ended with a sweep error, and for the sweeper before the fix). -/
theorem modify_idempotent (cfg : Config) (img : List File) :
    (BufModel.Managed.modify cfg (BufModel.Managed.modify cfg img).files).files = (BufModel.Managed.modify cfg img).files ∧
    (BufModel.Managed.modify cfg (BufModel.Managed.modify cfg img).files).err = false := by
  unfold BufModel.Managed.modify
  rw [modifyWith_idempotent]
  exact ⟨rfl, rfl⟩

/-! ### non-vacuity: a concrete run (versioned package, pre-set java_package, a disable rule by
    path, a prefix override, a bool override, a jstype override; a WKT file alongside) -/

example : ∃ f', Out exCfg [exWkt, exFile] exFile f' :=
  ⟨(BufModel.Managed.modify exCfg [exWkt, exFile]).files[1]'(by rw [modify_length]; decide), 1, rfl,
    List.getElem?_eq_getElem _⟩

example : isWKT exWkt.path = true ∧ isWKT exFile.path = false := by decide

example :
    let out := (BufModel.Managed.modify exCfg [exWkt, exFile]).files.getD 1 exFile
    out.strOpts .javaPackage = some "com.acme.weather.v1".toList ∧
    out.strOpts .goPackage = some "gen/go/acme/weather/v1;weatherv1".toList ∧
    out.strOpts .objcClassPrefix = some "AWX".toList ∧
    out.strOpts .csharpNamespace = none ∧                       -- disabled by path "acme"
    out.strOpts .rubyPackage = some "Acme::Weather::V1".toList ∧
    out.boolOpts .javaMultipleFiles = none ∧                    -- override false = protobuf default
    out.boolOpts .ccEnableArenas = none ∧
    out.fields.map (·.jstype) = [some 2, none] ∧                -- int64 rewritten, int32 not permitted
    out.locs.map (·.payload) = [0, 5] ∧                         -- [8],[8,1],[…,8],[…,8,6] swept
    (BufModel.Managed.modify exCfg [exWkt, exFile]).err = false := by
  decide

example : isFileOptionDisabled exCfg exFile .csharpNamespace = true := by decide

example : strTarget exCfg exFile .goPackage = some "gen/go/acme/weather/v1;weatherv1".toList := by decide

example : sweepRemoved true [[8, 1], [4, 0, 2, 0, 8, 6]] exFile.locs = some [4, 2, 1, 3] := by decide

end BufProofs.C18
