import BufProofs.Lemmas.GenerateArchiveLemmas
/-
  C17 — archive outs (`.jar` / `.zip`), `bufprotopluginos.responseWriter.writeZip`.

  `runResponsesA fs cwd ps` is the response writer with all three kinds of out (directory, zip,
  jar); `fs` is what `os.Stat` reports before the run.  A bucket of the result is one OUTPUT
  LOCATION: an out directory, or ONE archive (keyed by the archive's own absolute path - two
  archives in one directory, or an archive inside another plugin's out directory, are distinct
  locations; two spellings of one archive are the same location).  `flushedA` is what the flush
  leaves on disk.
-/
namespace BufProofs.C17
open BufModel.Path BufModel.Bucket BufModel.Generate

/-- The writer with archive outs is a conservative extension of the directory-only writer that
    all other response-side theorems of C17 are about: when no out is an archive it returns the
    same error or the same buckets, and flushes the same files. -/
theorem archive_model_conservative (fs : FS) (cwd : Str) (ps : List PluginResp)
    (hd : ∀ p ∈ ps, outKind (absPath cwd p.out) = .dir) :
    runResponsesA fs cwd ps = liftG (runResponses cwd ps) ∧
    ∀ bs, runResponses cwd ps = .ok bs →
      flushedA bs = (flushed bs).map fun x => Obj.file (diskPath x.1 x.2.1) x.2.2 := by
  have h1 : runResponsesA fs cwd ps = liftG (runResponses cwd ps) := by
    unfold runResponsesA runResponses runResponsesWith
    cases validatePluginResponses (dupKey cwd) ps [] with
    | error e => rfl
    | ok seen => exact addResponsesA_dir fs cwd ps [] hd
  refine ⟨h1, ?_⟩
  intro bs hbs
  apply flushedA_dir
  intro o m hm
  have hA : runResponsesA fs cwd ps = .ok bs := by rw [h1, hbs]; rfl
  unfold runResponsesA at hA
  split at hA
  · cases hA
  · obtain ⟨⟨p, hp, ho⟩, _⟩ := addResponsesA_inv fs cwd ps ps [] bs (fun p hp => hp)
      (by intro o m hm; cases hm) hA o m hm
    rw [ho]; exact hd p hp

/-- Plugin output stays in the plugin's own output location, directories and archives alike.
    If the run succeeds then
    (1) every output location is the (absolute) out of a plugin of this run, and there is
        exactly one bucket per location - distinct archives are distinct outputs, even in one
        directory;
    (2) every entry of a location was returned as a plain file by a plugin configured with
        exactly that location (its validated name is the entry), or is the manifest of a jar:
        nothing lands in an archive or directory other than its plugin's own;
    (3) every file a plugin returned (plain or insertion point) is in that plugin's own location;
    (4) every configured archive exists after the run as ONE object at its own path. -/
theorem archive_writes_in_own_output (fs : FS) (cwd : Str) (ps : List PluginResp) (bs : Buckets)
    (h : runResponsesA fs cwd ps = .ok bs) :
    ((∀ o m, (o, m) ∈ bs → ∃ p ∈ ps, o = absPath cwd p.out) ∧ (bkeys bs).Nodup) ∧
    (∀ o m, (o, m) ∈ bs → ∀ k ∈ m.keys,
      (∃ p ∈ ps, absPath cwd p.out = o ∧
        ∃ f ∈ p.files, f.getIP = [] ∧ validatePath f.getName = .ok k) ∨
      (outKind o = .jar ∧ k = manifestKey)) ∧
    (∀ p ∈ ps, ∀ f ∈ p.files, ∃ k, validatePath f.getName = .ok k ∧ HasKey bs (absPath cwd p.out) k) ∧
    (∀ p ∈ ps, outKind (absPath cwd p.out) ≠ .dir →
      ∃ m, Obj.archive (absPath cwd p.out) m ∈ flushedA bs) := by
  unfold runResponsesA at h
  split at h
  · cases h
  · have hprov := addResponsesA_inv fs cwd ps ps [] bs (fun p hp => hp)
      (by intro o m hm; cases hm) h
    obtain ⟨_, _, hfwd⟩ := addResponsesA_fwd fs cwd ps [] bs h
    have hnd := addResponsesA_nodup fs cwd ps [] bs (by simp [bkeys]) h
    refine ⟨⟨fun o m hm => (hprov o m hm).1, hnd⟩, fun o m hm k hk => (hprov o m hm).2 k hk, ?_, ?_⟩
    · intro p hp f hf
      exact (hfwd p hp).2 f hf
    · intro p hp hk
      obtain ⟨m, hm⟩ := (hfwd p hp).1
      exact ⟨m, archive_mem_flushedA (find_mem hm) hk⟩

/-- The same output path produced twice is an error, also inside an archive: two plain files
    (of two plugins sharing one archive, or of one plugin) whose `Abs(Join(out, name))` coincide
    - "gen/a.zip" + "x/y.go" and "./gen//a.zip" + "x//y.go" - make the run fail with the
    duplicate error before anything is written. -/
theorem duplicate_in_archive_is_error (fs : FS) (cwd : Str) (ps : List PluginResp)
    (hdup : ¬ (allKeys (dupKey cwd) ps).Nodup) : runResponsesA fs cwd ps = .error (.gen .duplicate) := by
  unfold runResponsesA
  cases hv : validatePluginResponses (dupKey cwd) ps [] with
  | error e => rw [validate_error_is_duplicate (dupKey cwd) ps [] e hv]
  | ok seen =>
    exfalso
    obtain ⟨e, n⟩ := validatePluginResponses_ok (dupKey cwd) ps [] seen hv
    have := n List.nodup_nil
    rw [e] at this
    simp only [List.append_nil] at this
    exact hdup ((List.reverse_perm _).nodup_iff.mp this)

/-! ### Non-vacuity: concrete runs -/

/-- Two archives in ONE directory, one of them a jar inside another plugin's out directory, and a
    second plugin writing into the first archive under another spelling: three locations, the
    jar starts with its manifest. -/
example :
    runResponsesA [("/w/gen".toList, true)] "/w".toList
      [⟨"gen".toList, [rf "a.txt".toList [] ("one".toList)]⟩,
       ⟨"gen/a.zip".toList, [rf "x/y.go".toList [] ("two".toList)]⟩,
       ⟨"gen/b.jar".toList, [rf "z.go".toList [] ("three".toList)]⟩,
       ⟨"./gen//a.zip".toList, [rf "q.go".toList [] ("four".toList)]⟩] =
      .ok [("/w/gen".toList, [("a.txt".toList, "one")]),
           ("/w/gen/a.zip".toList, [("q.go".toList, "four"), ("x/y.go".toList, "two")]),
           ("/w/gen/b.jar".toList, [("z.go".toList, "three"), (manifestKey, manifestContent)])] := by decide

/-- The same name returned twice into one archive (two spellings of the archive): duplicate. -/
example :
    runResponsesA [("/w/gen".toList, true)] "/w".toList
      [⟨"gen/a.zip".toList, [rf "x/y.go".toList [] ("one".toList)]⟩,
       ⟨"/w/gen/sub/../a.zip".toList, [rf "x//y.go".toList [] ("two".toList)]⟩] =
      .error (.gen .duplicate) := by decide

/-- ... but the same name in two DIFFERENT archives of one directory is fine. -/
example :
    runResponsesA [("/w/gen".toList, true)] "/w".toList
      [⟨"gen/a.zip".toList, [rf "x.go".toList [] ("one".toList)]⟩,
       ⟨"gen/b.zip".toList, [rf "x.go".toList [] ("two".toList)]⟩] =
      .ok [("/w/gen/a.zip".toList, [("x.go".toList, "one")]),
           ("/w/gen/b.zip".toList, [("x.go".toList, "two")])] := by decide

/-- As coded: an archive whose parent directory does not exist fails the run (the directory is
    created, the stat error is returned all the same); a parent that is a file likewise. -/
example :
    runResponsesA [] "/w".toList [⟨"new/x.zip".toList, [rf "a".toList [] ("1".toList)]⟩] = .error .parentMissing ∧
    runResponsesA [("/w/f.txt".toList, false)] "/w".toList [⟨"f.txt/x.zip".toList, []⟩] = .error .parentNotDir := by
  constructor <;> decide

end BufProofs.C17
