import BufModel.ImageWire
/-
  C01 (third pass) — the SERIALISED image is the compilation, field by field.

  `BufModel.ImageWire` gives every field number of `google.protobuf.FileDescriptorProto` its own
  slot (C11's model keeps the descriptor as one opaque payload), so that "the proto image carries
  every descriptor field under its own number, and reading it back returns it" is a statement:

  * `wire_maps_every_field` — `ImageToProtoImage` per file: all thirteen descriptor fields, the
    unknown bytes (minus a stray 8042) and the buf extension, slot by slot;
  * `wire_one_to_one` — two image files with the same wire form are the same image file
    (nothing is merged or dropped on the way out);
  * `wire_roundtrip`, `wire_roundtrip_exact` — `NewImageForProto ∘ ImageToProtoImage` per file;
  * `wire_reserialise_identical` — proto image → `NewImageForProto` → proto image is the identity;
  * `wire_refines_image_paths` — forgetting the slots gives C11's `toProto` (so C11's round-trip
    theorems speak about the same conversion);
  * `wire_drop_weak_counterexample` — the regression that motivated this file (the
    `WeakDependency:` line deleted from the builder) violates every statement above on a file
    with a weak import.

  What is NOT proved here: that the Go builder literal lists the fields as `toWire` does — that is
  the correspondence leg (harness/cmd/c01/wire.go sends, per file of every built image, the slots
  of an INDEPENDENT protocompile run plus the generator's own bookkeeping through `toWire` /
  `fromWire` and compares with the slots of the real `ImageToProtoImage` / `NewImageForProto`
  result, read by FIELD NUMBER through protoreflect) and the oracle classes `wire-*`.
-/
namespace BufProofs.C01
open BufModel.Path BufModel.ImagePaths BufModel.ImageWire

/-- `ImageToProtoImage`, per file and per field number: every slot of the descriptor arrives under
    its own number, untouched; the unknown bytes lose only a stray field 8042; the buf extension
    is present and carries the import flag, the syntax-unspecified flag, the unused-dependency
    indexes and the module name / commit. -/
theorem wire_maps_every_field (f : IFileW) :
    (toWire f).d.name = f.d.name ∧
    (toWire f).d.package = f.d.package ∧
    (toWire f).d.dependency = f.d.dependency ∧
    (toWire f).d.messageType = f.d.messageType ∧
    (toWire f).d.enumType = f.d.enumType ∧
    (toWire f).d.service = f.d.service ∧
    (toWire f).d.extension = f.d.extension ∧
    (toWire f).d.options = f.d.options ∧
    (toWire f).d.sourceCodeInfo = f.d.sourceCodeInfo ∧
    (toWire f).d.publicDependency = f.d.publicDependency ∧
    (toWire f).d.weakDependency = f.d.weakDependency ∧
    (toWire f).d.syntaxStr = f.d.syntaxStr ∧
    (toWire f).d.edition = f.d.edition ∧
    (toWire f).d.unknown = stripBufExtensionField f.d.unknown ∧
    ∃ e, (toWire f).ext = some e ∧ e.isImport = some f.isImport ∧
      e.syntaxUnspecified = some f.syntaxUnspecified ∧ e.unused = f.unusedDeps ∧
      e.moduleInfo = (f.modName.map fun n => { name := some n, commit := f.commit }) := by
  refine ⟨rfl, rfl, rfl, rfl, rfl, rfl, rfl, rfl, rfl, rfl, rfl, rfl, rfl, rfl, _, rfl, rfl, rfl, rfl, ?_⟩
  cases f.modName <;> rfl

/-- What `NewImageFile` / `BuildImage` guarantee about an image file (as `C11.WFIFile`). -/
def WFW (f : IFileW) : Prop :=
  (∀ i ∈ f.unusedDeps, i < f.d.dependency.length) ∧
  (∀ n, f.modName = some n →
    n.registry ≠ [] ∧ n.owner ≠ [] ∧ n.name ≠ [] ∧ '/' ∉ n.owner ∧ '/' ∉ n.name) ∧
  (f.modName = none → f.commit = none) ∧
  (∀ c, f.commit = some c → validDashless c = true ∧ c ≠ nilDashless ∧ c ≠ [] ∧ c.map Char.toLower = c)

/-- A descriptor as a compiler (or a protobuf decoder of compiler output) produces it: no optional
    string that is set but empty, no edition that is set but `EDITION_UNKNOWN`. -/
def Canon (d : FDesc) : Prop :=
  d.name ≠ some [] ∧ d.package ≠ some [] ∧ d.syntaxStr ≠ some [] ∧ d.edition ≠ some 0

theorem nonEmpty_of_ne {s : Option Str} (h : s ≠ some []) : nonEmpty s = s := by
  cases s with
  | none => rfl
  | some l => cases l with
    | nil => exact absurd rfl h
    | cons _ _ => rfl

theorem nonZero_of_ne {e : Option Nat} (h : e ≠ some 0) : nonZero e = e := by
  cases e with
  | none => rfl
  | some n => cases n with
    | zero => exact absurd rfl h
    | succ _ => rfl

theorem descOfWire_canon (d : FDesc) (h : Canon d) : descOfWire d = d := by
  obtain ⟨h1, h2, h3, h4⟩ := h
  obtain ⟨n, p, dep, m, e, s, x, o, sc, pd, wd, sy, ed, u⟩ := d
  simp only at h1 h2 h3 h4
  simp only [descOfWire, nonEmpty_of_ne h1, nonEmpty_of_ne h2, nonEmpty_of_ne h3, nonZero_of_ne h4]

/-- 1:1 — the wire form determines the image file: if two (well-formed) image files whose unknown
    bytes agree serialise to the same proto image file, they are equal.  Nothing of the descriptor
    or of buf's bookkeeping is merged, defaulted or dropped on the way out. -/
theorem wire_one_to_one (f g : IFileW) (hf : WFW f) (hg : WFW g)
    (hu : f.d.unknown = g.d.unknown) (h : toWire f = toWire g) : f = g := by
  obtain ⟨⟨fn, fp, fdep, fm, fe, fs, fx, fo, fsc, fpd, fwd, fsy, fed, fu⟩, fi, fsu, fun_, fmn, fc⟩ := f
  obtain ⟨⟨gn, gp, gdep, gm, ge, gs, gx, go, gsc, gpd, gwd, gsy, ged, gu⟩, gi, gsu, gun, gmn, gc⟩ := g
  simp only at hu
  subst hu
  obtain ⟨_, _, hf0, _⟩ := hf
  obtain ⟨_, _, hg0, _⟩ := hg
  simp only at hf0 hg0
  simp only [toWire, PFileW.mk.injEq, FDesc.mk.injEq, Option.some.injEq, PExt.mk.injEq] at h
  obtain ⟨⟨h1, h2, h3, h4, h5, h6, h7, h8, h9, h10, h11, h12, h13, _⟩, hi, hsu, hun, hmi⟩ := h
  subst h1 h2 h3 h4 h5 h6 h7 h8 h9 h10 h11 h12 h13 hi hsu hun
  cases fmn with
  | none =>
    cases gmn with
    | none => rw [hf0 rfl, hg0 rfl]
    | some _ => cases hmi
  | some n =>
    cases gmn with
    | none => cases hmi
    | some m =>
      simp only [Option.some.injEq, PModuleInfo.mk.injEq] at hmi
      obtain ⟨hn, hc⟩ := hmi
      subst hn hc
      rfl

/-- `NewImageForProto (ImageToProtoImage i)`, per file: every descriptor slot, the import flag,
    the syntax-unspecified flag, the unused-dependency indexes, module name and commit come back;
    only a stray unknown field 8042 is gone and set-but-empty `name` / `package` / `syntax` /
    `edition = 0` come back unset (`FileDescriptorProtoForFileDescriptor`, as coded). -/
theorem wire_roundtrip (f : IFileW) (h : WFW f) :
    fromWire (toWire f) =
      .ok { f with d := descOfWire { f.d with unknown := stripBufExtensionField f.d.unknown } } := by
  obtain ⟨hu, hn, hc0, hc⟩ := h
  obtain ⟨d, isImport, su, unused, modName, commit⟩ := f
  simp only at hu hn hc0 hc
  have hall : ∀ x ∈ unused, decide (x < d.dependency.length) = true := by
    intro x hx; simpa using hu x hx
  cases modName with
  | none =>
    have := hc0 rfl; subst this
    simp [fromWire, toWire]
    exact hall
  | some n =>
    obtain ⟨h1, h2, h3, h4, h5⟩ := hn n rfl
    cases commit with
    | none =>
      simp [fromWire, toWire, h1, h2, h3, h4, h5]
      exact hall
    | some c =>
      obtain ⟨v1, v2, v3, v4⟩ := hc c rfl
      simp [fromWire, toWire, h1, h2, h3, h4, h5, v1, v2, v3, v4]
      exact hall

/-- … the exact identity for a compiler-shaped descriptor without a stray field 8042 (a freshly
    compiled file has no unknown bytes at all). -/
theorem wire_roundtrip_exact (f : IFileW) (h : WFW f) (hc : Canon f.d)
    (hs : stripBufExtensionField f.d.unknown = f.d.unknown) : fromWire (toWire f) = .ok f := by
  rw [wire_roundtrip f h]
  have e : ({ f.d with unknown := stripBufExtensionField f.d.unknown } : FDesc) = f.d := by rw [hs]
  rw [e, descOfWire_canon f.d hc]

/-- proto image → `NewImageForProto` → proto image is the identity (per file): reading an image
    and writing it again changes no byte of any field.  `hs` (stripping is idempotent on these
    unknown bytes) holds trivially for `[]` and is `C11.strip_idempotent_partial` in general. -/
theorem wire_reserialise_identical (f : IFileW) (h : WFW f) (hc : Canon f.d)
    (hs : stripBufExtensionField (stripBufExtensionField f.d.unknown) = stripBufExtensionField f.d.unknown) :
    (fromWire (toWire f)).map toWire = .ok (toWire f) := by
  rw [wire_roundtrip f h]
  have hc' : Canon ({ f.d with unknown := stripBufExtensionField f.d.unknown } : FDesc) := hc
  rw [descOfWire_canon _ hc']
  simp only [Except.map, toWire, hs]

/-- Forgetting the slots (descriptor ↦ path, dependency list, an arbitrary function `pay` of all
    other fields) turns `toWire` into C11's `ImagePaths.toProto`: the two models describe the same
    conversion, this one at field resolution. -/
theorem wire_refines_image_paths (pay : Rest → Str) (f : IFileW) :
    eraseP pay (toWire f) = toProto (eraseI pay f) := rfl

/-- …and on compiler-shaped proto image files `fromWire` is C11's `toImage`. -/
theorem wire_read_refines_image_paths (pay : Rest → Str) (p : PFileW) (hc : Canon p.d) :
    (fromWire p).map (eraseI pay) = toImage (eraseP pay p) := by
  obtain ⟨d, ext⟩ := p
  simp only at hc
  have hE : eraseP pay ⟨d, ext⟩ = ⟨d.name.getD [], d.dependency, pay (restOf d), d.unknown, ext⟩ := rfl
  rw [hE]
  simp only [fromWire, toImage, descOfWire_canon d hc]
  cases ext with
  | none => rfl
  | some e =>
    obtain ⟨imp, su, un, mi⟩ := e
    dsimp only
    cases (!un.all fun i => decide (i < d.dependency.length)) with
    | true => rfl
    | false =>
      cases mi with
      | none => rfl
      | some mi =>
        obtain ⟨nm, cm⟩ := mi
        cases nm with
        | none => rfl
        | some n =>
          dsimp only
          cases (decide (n.registry = []) || decide (n.owner = []) || decide (n.name = []) ||
              List.contains n.owner '/' || List.contains n.name '/') with
          | true => rfl
          | false =>
            cases cm with
            | none => rfl
            | some c =>
              cases c with
              | nil => rfl
              | cons a as =>
                dsimp only
                cases (!validDashless (a :: as)) with
                | true => rfl
                | false => rfl

def exWire : IFileW :=
  { d := { name := some "a/b.proto".toList, package := some "a".toList,
           dependency := ["z.proto".toList, "x.proto".toList, "y.proto".toList],
           messageType := ["m0".toList], enumType := [], service := [], extension := [],
           options := none, sourceCodeInfo := some "sci".toList,
           publicDependency := [2], weakDependency := [1], syntaxStr := none, edition := none, unknown := [] }
    isImport := false, syntaxUnspecified := true, unusedDeps := [0],
    modName := some ⟨"buf.build".toList, "acme".toList, "m".toList⟩,
    commit := some "0123456789abcdef0123456789abcdef".toList }

theorem exWire_wf : WFW exWire ∧ Canon exWire.d := by
  refine ⟨⟨by decide, ?_, by decide, ?_⟩, ⟨by decide, by decide, by decide, by decide⟩⟩
  · intro n hn; cases hn; decide
  · intro c hc; cases hc; decide

set_option maxRecDepth 100000 in
/-- Non-vacuity: `import "z.proto"; import weak "x.proto"; import public "y.proto";` with z unused,
    no syntax statement, a module name and a commit — round trip and re-serialisation. -/
example : fromWire (toWire exWire) = .ok exWire ∧ (fromWire (toWire exWire)).map toWire = .ok (toWire exWire) :=
  ⟨wire_roundtrip_exact exWire exWire_wf.1 exWire_wf.2 (by decide),
   wire_reserialise_identical exWire exWire_wf.1 exWire_wf.2 (by decide)⟩

set_option maxRecDepth 100000 in
/-- The regression (seed C01-m6: the `WeakDependency:` line deleted from the builder) as a
    counter-model: on a file with a weak import the wire form differs from `toWire` in slot 11,
    and what is read back is a different descriptor (the weak import has become a plain one). -/
theorem wire_drop_weak_counterexample :
    toWireNoWeak exWire ≠ toWire exWire ∧
    (toWireNoWeak exWire).d.weakDependency ≠ exWire.d.weakDependency ∧
    fromWire (toWireNoWeak exWire) ≠ .ok exWire := by
  decide

end BufProofs.C01
